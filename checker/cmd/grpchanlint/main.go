// Command grpchanlint decides the structural rules of DESIGN.md for one
// property of fullstorydev/grpchan from /repo's current source.
package main

import (
	"flag"
	"fmt"
	"os"
	"path/filepath"
	"runtime/debug"
	"sort"
	"strconv"
	"strings"
	"time"

	"verif/checker/internal/core"
	"verif/checker/internal/rules"
)

func main() {
	prop := flag.String("prop", "", "property id (C01..C20) or 'all'")
	tier := flag.String("tier", "quick", "quick | thorough")
	repo := flag.String("repo", "/repo", "repository to analyse")
	verif := flag.String("verif", "", "verif directory (default: parent of the binary's dir)")
	rule := flag.String("rule", "", "restrict to one rule (e.g. R2)")
	noEvidence := flag.Bool("no-evidence", false, "write evidence/replay under a scratch dir instead of -verif")
	evdir := flag.String("evdir", "", "directory that receives evidence/ (default: -verif)")
	list := flag.Bool("list", false, "list properties")
	goarch := flag.String("goarch", "", "analyse for another GOARCH (e.g. 386: integer widths)")
	flag.Parse()

	if *list {
		for _, id := range rules.IDs() {
			fmt.Println(id)
		}
		return
	}
	vd := *verif
	if vd == "" {
		exe, _ := os.Executable()
		vd = filepath.Dir(filepath.Dir(exe))
	}
	out := vd
	if *evdir != "" {
		out = *evdir
	}
	if *noEvidence {
		d, _ := os.MkdirTemp("", "grpchanlint-ev")
		defer os.RemoveAll(d)
		out = d
	}
	seed := 0
	if s := os.Getenv("VERIF_SEED"); s != "" {
		seed, _ = strconv.Atoi(s)
	}
	var ids []string
	if *prop == "all" {
		ids = rules.IDs()
	} else {
		for _, id := range strings.Split(*prop, ",") {
			if rules.Get(id) == nil {
				fmt.Fprintf(os.Stderr, "CHECK-ERROR: unknown property %q\n", id)
				os.Exit(2)
			}
			ids = append(ids, id)
		}
	}
	sort.Strings(ids)
	start := time.Now()
	whole := *tier == "thorough"
	var extra []string
	if *goarch != "" {
		extra = append(extra, "GOARCH="+*goarch, "CGO_ENABLED=0")
	}
	p, err := core.Load(*repo, whole, extra...)
	if err != nil {
		fmt.Fprintln(os.Stderr, err)
		os.Exit(2)
	}
	fmt.Printf("loaded %s: %d repo packages, %d packages total, %d source functions, go %s, grpc %s, whole-program=%v (%.1fs)\n",
		*repo, len(p.Pkgs), len(p.All), len(p.Funcs), p.GoVersion, p.GrpcVer, whole, time.Since(start).Seconds())
	rules.SetupRoles(p)
	core.SetupInline(p)
	kf, err := core.LoadKnown(filepath.Join(vd, "known_findings.json"))
	if err != nil {
		fmt.Fprintf(os.Stderr, "CHECK-ERROR: %v\n", err)
		os.Exit(2)
	}
	exit := 0
	for _, id := range ids {
		t0 := time.Now()
		if len(ids) > 1 {
			t0 = start // loading is shared; attribute it
		} else {
			t0 = start
		}
		c := core.NewCtx(p, id, *tier)
		c.Only = *rule
		func() {
			defer func() {
				if r := recover(); r != nil {
					c.Rule("PANIC", "the checker must not crash", 0)
					c.Undecided("checker", 0, "panic in rule code: %v\n%s", r, debug.Stack())
				}
			}()
			rules.Get(id)(c)
			if *tier == "thorough" && *rule == "" {
				rules.Thorough(c, *goarch)
			}
		}()
		res := c.Finish(out, kf, t0, seed)
		if res.Violations > 0 {
			exit = 1
		}
	}
	os.Exit(exit)
}
