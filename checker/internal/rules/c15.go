package rules

import (
	"fmt"
	"go/ast"
	"go/token"
	"go/types"
	"sort"
	"strings"

	"golang.org/x/tools/go/ssa"

	"verif/checker/internal/core"
)

func init() { register("C15", c15) }

// registryType: the map-typed named type implementing grpc.ServiceRegistrar.
func registryType(p *core.Prog) *types.Named {
	it := p.ExtType(grpcPkg, "ServiceRegistrar")
	if it == nil {
		return nil
	}
	for _, nt := range p.Implementers(it) {
		if _, ok := nt.Underlying().(*types.Map); ok {
			return nt
		}
	}
	return nil
}

func c15(c *core.Ctx) {
	p := c.P
	c.Explain = "C15: in the registry's RegisterService the only map store is dominated by the passing edges of the interface check and of the duplicate check, whose failing edges unavoidably panic; lookup and iteration are unfiltered; the service-info construction populates every field of grpc.MethodInfo / grpc.ServiceInfo with the right descriptor field; the transports delegate to the registry before any other side effect."
	c.NotDec = []string{"results of reflect.Type.Implements for exotic handler types", "ordering of methods inside ServiceInfo (unspecified in the reference too)"}
	reg := registryType(p)
	if reg == nil {
		c.Rule("R0", "registry exists", 1)
		c.Missing("map-typed registry implementing grpc.ServiceRegistrar")
		c.EndRule()
		return
	}
	rk := typeKey(reg)
	regFn := declaredMethod(p, reg, "RegisterService")

	// ---------------------------------------------------------------- R1
	if c.Rule("R1", "refusal happens before mutation: the only map store is dominated by 'handler implements the service interface' and 'name not yet registered'; the failing edges panic; the key stored under, the key tested and desc.ServiceName are one value; desc and handler are stored unmodified", 6) {
		if regFn == nil {
			c.Missing(rk + ".RegisterService")
		} else {
			var updates []*ssa.MapUpdate
			core.Instrs(regFn, func(in ssa.Instruction) {
				if mu, ok := in.(*ssa.MapUpdate); ok {
					updates = append(updates, mu)
				}
			})
			if len(updates) != 1 {
				c.Fail(rk+".RegisterService:stores", regFn.Pos(), "expected exactly one map store, found %d", len(updates))
			}
			for _, mu := range updates {
				key := rk + ".RegisterService"
				descPar, hPar := regFn.Params[1], regFn.Params[2]
				c.Check(mu.Map == ssa.Value(regFn.Params[0]), key+":stores-into-receiver", mu.Pos(), "stores into the receiver map", "the store does not go into the receiver map")
				// implements check
				var implCall *ssa.Call
				gImpl := core.GuardedExactlyByAny(mu, func(f core.Fact) bool {
					if f.Op != token.ILLEGAL || f.Neg {
						return false
					}
					call, ok := f.X.(*ssa.Call)
					if !ok || !call.Call.IsInvoke() || call.Call.Method.Name() != "Implements" {
						return false
					}
					implCall = call
					return true
				})
				// … or by a call of a helper of the package that returns only if the check passed (it panics otherwise)
				resolve := func(v ssa.Value) ssa.Value { return v }
				if !gImpl {
					for _, h := range core.HelperCallsOf(regFn) {
						if !core.MustPass(core.Entry(regFn), mu, func(in ssa.Instruction) bool { return in == ssa.Instruction(h.Call) }) {
							continue
						}
						rets := core.Returns(h.Callee)
						all := len(rets) > 0
						var ic *ssa.Call
						for _, r := range rets {
							if !core.GuardedExactlyByAny(r, func(f core.Fact) bool {
								if f.Op != token.ILLEGAL || f.Neg {
									return false
								}
								call, ok := f.X.(*ssa.Call)
								if !ok || !call.Call.IsInvoke() || call.Call.Method.Name() != "Implements" {
									return false
								}
								ic = call
								return true
							}) {
								all = false
							}
						}
						if all && ic != nil {
							gImpl, implCall = true, ic
							bind := h.Bind
							resolve = func(v ssa.Value) ssa.Value {
								if a, ok := bind[v]; ok {
									return a
								}
								return v
							}
						}
					}
				}
				c.Check(gImpl, key+":type-checked", mu.Pos(), "dominated by handlerType.Implements(serviceInterface)", "a handler can be stored without the interface check having passed")
				if implCall != nil {
					// receiver: reflect.TypeOf(h); argument: reflect.TypeOf(desc.HandlerType).Elem()
					okRecv := core.OriginIs(implCall.Call.Value, func(o ssa.Value) bool {
						cr, _, ok := core.CallResult(o)
						return ok && core.InfoOf(&cr.Call).Is("reflect.TypeOf") && resolve(core.Strip(cr.Call.Args[0])) == ssa.Value(hPar)
					})
					okArg := core.OriginIs(implCall.Call.Args[0], func(o ssa.Value) bool {
						el, _, ok := core.CallResult(o)
						if !ok || !el.Call.IsInvoke() || el.Call.Method.Name() != "Elem" {
							return false
						}
						return core.OriginIs(el.Call.Value, func(o2 ssa.Value) bool {
							cr, _, ok := core.CallResult(o2)
							if !ok || !core.InfoOf(&cr.Call).Is("reflect.TypeOf") {
								return false
							}
							base, f, isF := core.FieldOf(core.Strip(cr.Call.Args[0]))
							return isF && f == "HandlerType" && resolve(base) == ssa.Value(descPar)
						})
					})
					c.Check(okRecv && okArg, key+":type-check-operands", implCall.Pos(), "TypeOf(handler).Implements(TypeOf(desc.HandlerType).Elem())", "the interface check does not compare the handler's type with the element type of desc.HandlerType")
				}
				// duplicate check
				var lk *ssa.Lookup
				gDup := core.GuardedBy(mu, func(f core.Fact) bool {
					if f.Op != token.ILLEGAL || !f.Neg {
						return false
					}
					ex, ok := f.X.(*ssa.Extract)
					if !ok || ex.Index != 1 {
						return false
					}
					l, ok := ex.Tuple.(*ssa.Lookup)
					if !ok || l.X != ssa.Value(regFn.Params[0]) {
						return false
					}
					lk = l
					return true
				})
				c.Check(gDup, key+":exclusive", mu.Pos(), "dominated by 'name not present in the map'", "a handler can be stored although the name is already registered (silently replacing the earlier registration)")
				// keys
				isSvcName := func(v ssa.Value) bool {
					base, f, ok := core.FieldOf(v)
					return ok && f == "ServiceName" && base == ssa.Value(descPar)
				}
				okKeys := isSvcName(mu.Key) && (lk == nil || isSvcName(lk.Index))
				c.Check(okKeys, key+":same-key", mu.Pos(), "tested key and stored key are desc.ServiceName", "the key tested for presence and the key stored under are not both desc.ServiceName")
				// stored value holds desc and h
				okVal := false
				if u, ok := mu.Value.(*ssa.UnOp); ok {
					if al, ok := u.X.(*ssa.Alloc); ok {
						got := map[string]ssa.Value{}
						for _, r := range core.Refs(al) {
							if fa, ok := r.(*ssa.FieldAddr); ok {
								_, f, _ := core.FieldOf(fa)
								for _, rr := range core.Refs(fa) {
									if st, ok := rr.(*ssa.Store); ok {
										got[f] = st.Val
									}
								}
							}
						}
						n := 0
						for _, v := range got {
							if v == ssa.Value(descPar) || v == ssa.Value(hPar) {
								n++
							}
						}
						okVal = n == 2 && len(got) == 2
					}
				}
				// the entry built by a private constructor step given the two parameters (newService(desc, h))
				if call, isCall := mu.Value.(*ssa.Call); isCall && !okVal {
					if cal := call.Call.StaticCallee(); cal != nil && cal.Blocks != nil {
						if st, isS := cal.Signature.Results().At(0).Type().Underlying().(*types.Struct); isS && cal.Signature.Results().Len() == 1 {
							n := 0
							for i := 0; i < st.NumFields(); i++ {
								fv := core.CtorFieldValue(call, i)
								if fv == ssa.Value(descPar) || fv == ssa.Value(hPar) {
									n++
								}
							}
							okVal = n == 2 && st.NumFields() == 2
						}
					}
				}
				c.Check(okVal, key+":stores-params", mu.Pos(), "the stored entry holds the desc and handler parameters unmodified", "the stored entry does not hold exactly the desc and handler parameters")
				// failing edges panic
				for _, ef := range core.EdgeFactsOf(regFn) {
					f := ef.Fact
					failing := false
					if f.Op == token.ILLEGAL && f.Neg && implCall != nil && f.X == ssa.Value(implCall) {
						failing = true
					}
					if f.Op == token.ILLEGAL && !f.Neg {
						if ex, ok := f.X.(*ssa.Extract); ok && lk != nil && ex.Tuple == ssa.Value(lk) {
							failing = true
						}
					}
					if !failing {
						continue
					}
					v := core.Walk(core.Loc{B: ef.B.Succs[ef.Succ], Idx: 0}, nil, nil)
					reachesRet, reachesStore := false, false
					for in := range v {
						if _, ok := in.(*ssa.Return); ok {
							reachesRet = true
						}
						if in == ssa.Instruction(mu) {
							reachesStore = true
						}
					}
					c.Check(!reachesRet && !reachesStore, key+":refusal-panics", ef.If.Pos(), "the failing edge unavoidably panics (no return, no store)", "a refused registration can return normally or still store")
				}
			}
		}
		c.EndRule()
	}

	// ---------------------------------------------------------------- R2
	if c.Rule("R2", "lookup and iteration are unfiltered: QueryService returns both fields of m[name]; ForEach and GetServiceInfo range over the receiver map without skipping entries; ForEach calls fn exactly once per entry", 3) {
		if q := declaredMethod(p, reg, "QueryService"); q != nil {
			key := rk + ".QueryService"
			ok := false
			rets := core.Returns(q)
			// a return of (nil, nil) taken exactly when m[name] reported "absent" equals returning the zero entry's fields
			var fieldRets []*ssa.Return
			absentOK := true
			for _, r := range rets {
				if len(r.Results) == 2 && core.IsNilConst(r.Results[0]) && core.IsNilConst(r.Results[1]) {
					if !core.GuardedBy(r, func(f core.Fact) bool {
						if f.Op != token.ILLEGAL || !f.Neg {
							return false
						}
						ex, isEx := f.X.(*ssa.Extract)
						if !isEx || ex.Index != 1 {
							return false
						}
						lk, isL := ex.Tuple.(*ssa.Lookup)
						return isL && lk.X == ssa.Value(q.Params[0]) && lk.Index == ssa.Value(q.Params[1])
					}) {
						absentOK = false
					}
					continue
				}
				fieldRets = append(fieldRets, r)
			}
			rets = fieldRets
			if absentOK && len(rets) == 1 && len(rets[0].Results) == 2 {
				okBoth := true
				names := map[string]bool{}
				for _, res := range rets[0].Results {
					var src ssa.Value
					if fl, isF := res.(*ssa.Field); isF {
						src = fl.X
						st := fl.X.Type().Underlying().(*types.Struct)
						names[st.Field(fl.Field).Name()] = true
					} else if base, f, ok := core.FieldOf(res); ok {
						names[f] = true
						if al, isAl := base.(*ssa.Alloc); isAl {
							sts := core.StoresTo(al)
							if len(sts) == 1 {
								src = sts[0].Val
							}
						}
					}
					lk := lookupOf(src)
					if lk == nil || lk.X != ssa.Value(q.Params[0]) || lk.Index != ssa.Value(q.Params[1]) {
						okBoth = false
					}
				}
				ok = okBoth && len(names) == 2
			}
			c.Check(ok, key, q.Pos(), "returns the two fields of m[name] for the parameter name", "QueryService does not return exactly the fields of m[name]")
		} else {
			c.Missing(rk + ".QueryService")
		}
		for _, name := range []string{"ForEach", "GetServiceInfo"} {
			fn := declaredMethod(p, reg, name)
			if fn == nil {
				c.Missing(rk + "." + name)
				continue
			}
			key := rk + "." + name + ":unfiltered"
			// the outer range is over the receiver; inside the outer loop body no condition other than inner loop bounds
			var rng *ssa.Range
			core.Instrs(fn, func(in ssa.Instruction) {
				if r, ok := in.(*ssa.Range); ok && r.X == ssa.Value(fn.Params[0]) {
					rng = r
				}
			})
			condFn := fn
			if rng == nil && name != "ForEach" {
				// iterating through the registry's own ForEach (checked above) with a literal as the body
				if bodies := iterationBodies(p, reg, fn); len(bodies) == 1 {
					condFn = bodies[0]
				} else {
					c.Fail(key, fn.Pos(), "does not range over the receiver map")
					continue
				}
			} else if rng == nil {
				c.Fail(key, fn.Pos(), "does not range over the receiver map")
				continue
			}
			bad := ""
			core.Instrs(condFn, func(in ssa.Instruction) {
				iff, ok := in.(*ssa.If)
				if !ok {
					return
				}
				f := core.CondFact(iff.Cond, true)
				if ex, ok := f.X.(*ssa.Extract); ok {
					if _, isNext := ex.Tuple.(*ssa.Next); isNext {
						return // range continuation
					}
				}
				if f.Op == token.LSS {
					return // inner slice loop bound
				}
				bad = "a condition inside the iteration can skip an entry"
			})
			if name == "ForEach" {
				// fn called once per iteration with the entry's fields
				calls := core.CallsIn(fn, func(call *ssa.Call, ci core.CallInfo) bool { return call.Call.Value == ssa.Value(fn.Params[1]) })
				if len(calls) != 1 || core.LoopOf(fn)[calls[0].Block()] < 0 {
					bad = "the callback is not called exactly once per iteration"
				} else {
					for _, a := range calls[0].Call.Args {
						if _, isF := core.Strip(a).(*ssa.Field); !isF {
							if _, _, isFA := core.FieldOf(core.Strip(a)); !isFA {
								bad = "the callback is not given the entry's desc and handler"
							}
						}
					}
				}
			}
			c.Check(bad == "", key, fn.Pos(), "ranges over the receiver map, no entry can be skipped", bad)
		}
		c.EndRule()
	}

	// ---------------------------------------------------------------- R3
	if c.Rule("R3", "service info mirrors grpc.Server's: every field of grpc.MethodInfo and grpc.ServiceInfo is populated from the matching descriptor field, one entry per method and per stream, keyed by desc.ServiceName", 5) {
		c15ServiceInfo(c, reg)
		c15MethodListFresh(c, reg)
		c.EndRule()
	}

	// ---------------------------------------------------------------- R4
	if c.Rule("R4", "transports delegate: their RegisterService/GetServiceInfo call the registry's with their own parameters, before any other registration side effect; in-process lookups go through QueryService; no mutex is held across a call that refuses by panicking unless its release is deferred", 4) {
		regLL := longLivedTypes(p)
		var names []string
		for k := range regLL {
			names = append(names, k)
		}
		sort.Strings(names)
		n := 0
		for _, k := range names {
			nt := regLL[k]
			if nt == reg {
				continue
			}
			rs := declaredMethod(p, nt, "RegisterService")
			if rs == nil {
				continue
			}
			// does this type hold a registry field?
			st, ok := nt.Underlying().(*types.Struct)
			if !ok {
				continue
			}
			hasReg := false
			for i := 0; i < st.NumFields(); i++ {
				if core.NamedOf(st.Field(i).Type()) == reg.Obj().Name() {
					hasReg = true
				}
			}
			if !hasReg {
				continue
			}
			n++
			key := k + ".RegisterService:delegates"
			dcalls := core.CallsIn(rs, func(_ *ssa.Call, ci core.CallInfo) bool {
				return ci.Name == "RegisterService" && ci.Recv == reg.Obj().Name()
			})
			if len(dcalls) != 1 {
				c.Fail(key, rs.Pos(), "expected one call of the registry's RegisterService, found %d", len(dcalls))
				continue
			}
			dc := dcalls[0]
			okArgs := len(dc.Call.Args) == 3 && dc.Call.Args[1] == ssa.Value(rs.Params[1]) && dc.Call.Args[2] == ssa.Value(rs.Params[2])
			c.Check(okArgs, key, dc.Pos(), "registry.RegisterService(desc, handler) with the method's own parameters", "the registry is not given the transport's own desc and handler")
			// before other side effects: no call to a mux / HandleFunc reachable before dc
			early := false
			core.Instrs(rs, func(in ssa.Instruction) {
				call, ok := in.(*ssa.Call)
				if !ok || call == dc {
					return
				}
				ci := core.InfoOf(&call.Call)
				if strings.Contains(ci.Full(), "ServeMux") || ci.Dyn {
					if !core.MustPass(core.Entry(rs), call, func(x ssa.Instruction) bool { return x == ssa.Instruction(dc) }) {
						early = true
					}
				}
			})
			c.Check(!early && core.MustPass(core.Entry(rs), core.Returns(rs)[0], func(x ssa.Instruction) bool { return x == ssa.Instruction(dc) }), k+".RegisterService:registry-first", dc.Pos(), "the registry (which may refuse by panicking) is updated before any handler is mounted", "a handler can be mounted before the registry accepted the registration: a refused registration would leave the mux changed")
			if gi := declaredMethod(p, nt, "GetServiceInfo"); gi != nil {
				gcalls := core.CallsIn(gi, func(_ *ssa.Call, ci core.CallInfo) bool {
					return ci.Name == "GetServiceInfo" && ci.Recv == reg.Obj().Name()
				})
				okGI := len(gcalls) == 1
				if okGI {
					// the result is the registry's fresh answer (or nil), and nothing is cached in the transport
					for _, r := range core.Returns(gi) {
						if !core.AllOrigins(r.Results[0], func(o ssa.Value) bool { return o == ssa.Value(gcalls[0]) || core.IsNilConst(o) }) {
							okGI = false
						}
					}
					core.Instrs(gi, func(in ssa.Instruction) {
						if st, ok := in.(*ssa.Store); ok {
							if _, _, isF := core.FieldOf(st.Addr); isF {
								okGI = false
							}
						}
					})
				}
				c.Check(okGI, k+".GetServiceInfo:delegates", gi.Pos(), "returns the registry's fresh answer, caches nothing", "GetServiceInfo does not return the registry's fresh answer (not delegated, or memoised in the transport: later registrations would be missing)")
			}
		}
		if n < 2 {
			c.Fail("transports:registries", token.NoPos, "ANCHOR-MISSING: expected the in-process channel and the HTTP server to hold a registry, found %d", n)
		}
		// every transport instance has a registry of its own: what is stored into a registry field is a map made for
		// that instance (in the constructor / on first use), not one made once for the package and handed to all
		nOwn := 0
		for _, pk := range []string{"httpgrpc", "inprocgrpc"} {
			for _, fn := range p.LibFuncs(pk) {
				core.Instrs(fn, func(in ssa.Instruction) {
					st, ok := in.(*ssa.Store)
					if !ok || core.IsNilConst(st.Val) {
						return
					}
					if _, _, isF := core.FieldOf(st.Addr); !isF || core.NamedOf(st.Val.Type()) != reg.Obj().Name() {
						return
					}
					nOwn++
					bad := ""
					for _, o := range originsThroughCallers(p, st.Val, 0) {
						mk, isMk := core.Strip(o).(*ssa.MakeMap)
						if !isMk {
							bad = "comes from " + core.ValName(o)
							continue
						}
						root := mk.Parent()
						for root.Parent() != nil {
							root = root.Parent()
						}
						if root.Name() == "init" || strings.HasPrefix(root.Name(), "init#") {
							bad = "is made once, when the package is initialised"
						}
					}
					c.Check(bad == "", core.FuncName(fn)+":registry-per-instance", st.Pos(), "the registry stored here is a map made for this instance", "the registry stored into the transport "+bad+": every instance built this way shares one registry (a service registered on one server is reported, and refused as a duplicate, on all of them)")
				})
			}
		}
		if nOwn < 2 {
			c.Fail("transports:registry-stores", token.NoPos, "ANCHOR-MISSING: expected the HTTP server and the in-process channel to create their registry, found %d store(s)", nOwn)
		}
		// a refused registration (the registry panics) leaves the transport usable: no mutex is held across a call
		// that can panic unless its release is deferred
		nLocks := 0
		for _, pk := range []string{"", "httpgrpc", "inprocgrpc"} {
			for _, fn := range p.LibFuncs(pk) {
				core.Instrs(fn, func(in ssa.Instruction) {
					ul, ok := in.(*ssa.Call) // an explicit, not deferred, release
					if !ok {
						return
					}
					key, _, rel, _ := core.LockOp(&ul.Call)
					if !rel || key == "" {
						return
					}
					core.Instrs(fn, func(in2 ssa.Instruction) {
						lk, ok := in2.(*ssa.Call)
						if !ok {
							return
						}
						k2, acq, _, _ := core.LockOp(&lk.Call)
						if !acq || k2 != key || !core.Reachable(core.After(lk), ul) {
							return
						}
						nLocks++
						var bad *ssa.Call
						between := core.Walk(core.After(lk), func(x ssa.Instruction) bool { return x == ssa.Instruction(ul) }, nil)
						core.Instrs(fn, func(in3 ssa.Instruction) {
							call, ok := in3.(*ssa.Call)
							if !ok || !between[call] || bad != nil {
								return
							}
							if st := core.InfoOf(&call.Call).Static; st != nil && strings.HasPrefix(core.InfoOf(&call.Call).Pkg, core.ModulePath) && mayPanicExplicitly(st, 0, map[*ssa.Function]bool{}) {
								bad = call
							}
						})
						kk := core.FuncName(fn) + ":lock(" + key + "):released-if-callee-panics"
						if bad != nil {
							c.Fail(kk, bad.Pos(), "%s is held across a call of %s, which refuses by panicking, and is released by a plain Unlock after it: a refused registration leaves the mutex locked for ever (every later registration or GetServiceInfo blocks), although a refusal is to leave the registry as it was", key, core.InfoOf(&bad.Call).Full())
						} else {
							c.Ok(kk, lk.Pos(), "no call that panics explicitly lies between this Lock and its plain Unlock")
						}
					})
				})
			}
		}
		if nLocks == 0 {
			c.OkTrivial("registry-callers:no-plain-unlock", token.NoPos, "no mutex in the registry, the transports' registration paths or their callers is released by a plain (not deferred) Unlock")
		}
		c.EndRule()
	}

	// ---------------------------------------------------------------- R5 (shared)
	// "looking up a name returns exactly what is registered under it" at the moment of the call: the transports
	// keep no copy of what the registry answered earlier (a lookup cache, negative entries included, goes stale
	// with the next registration): nothing reachable from a call stores into a long-lived object (C01/R1)
	c.Borrow("C01", map[string]string{"R1": "R5"}, c01)
	// "refused by panicking" for exactly the two reasons named: every explicit panic of the library, the registrars'
	// included, is a tabled one (C05/R5) — a registrar that also panics once the server has seen a request refuses
	// well-typed first registrations
	c.Borrow("C05", map[string]string{"R5": "R6"}, c05)
	// "the reported service info equals what a standard gRPC server reports": a decorating registry registers a COPY
	// of the caller's description in which only the handlers differ — every other field (the metadata that
	// GetServiceInfo reports) is carried over (C16/R1)
	c.Borrow("C16", map[string]string{"R1": "R7"}, c16)

	// ---------------------------------------------------------------- R8
	if c.Rule("R8", "iteration visits every registration: the registry calls no function it was handed (the ForEach callback) while it holds a lock of its own — the usual callback registers each service with another registrar, which may be backed by the same registry type and need that lock", 1) {
		fnsR := p.LibFuncs(".")
		ls := core.NewLockSets(fnsR)
		n := 0
		for _, fn := range fnsR {
			core.Instrs(fn, func(in ssa.Instruction) {
				cc := core.CallOf(in)
				if cc == nil || cc.IsInvoke() || cc.StaticCallee() != nil {
					return
				}
				par, isPar := core.Strip(cc.Value).(*ssa.Parameter)
				if !isPar || par.Parent() != fn {
					return
				}
				if _, isSig := par.Type().Underlying().(*types.Signature); !isSig {
					return
				}
				n++
				held := ls.HeldAt(in)
				k := core.FuncName(fn) + ":callback(" + par.Name() + "):no-lock-held"
				if len(held) > 0 {
					c.Fail(k, in.Pos(), "the callback is called with %s held: a callback that registers into a registrar backed by the same registry type needs that lock and never returns", core.HeldList(held))
				} else {
					c.Ok(k, in.Pos(), "the callback runs with no lock of the registry held")
				}
			})
		}
		if n == 0 {
			c.Missing("call of a func-typed parameter in the registry (ForEach)")
		}
		c.EndRule()
	}
}

// mayPanicExplicitly: fn (a module function) contains an explicit panic, or
// statically calls a module function that does (depth 3).
func mayPanicExplicitly(fn *ssa.Function, depth int, seen map[*ssa.Function]bool) bool {
	if fn == nil || fn.Blocks == nil || depth > 3 || seen[fn] {
		return false
	}
	seen[fn] = true
	found := false
	core.Instrs(fn, func(in ssa.Instruction) {
		if found {
			return
		}
		switch x := in.(type) {
		case *ssa.Panic:
			if x.Pos().IsValid() {
				found = true
			}
		case *ssa.Call:
			ci := core.InfoOf(&x.Call)
			if ci.Static != nil && strings.HasPrefix(ci.Pkg, core.ModulePath) && mayPanicExplicitly(ci.Static, depth+1, seen) {
				found = true
			}
		}
	})
	return found
}

func lookupOf(v ssa.Value) *ssa.Lookup {
	switch x := v.(type) {
	case *ssa.Lookup:
		return x
	case *ssa.Extract:
		if l, ok := x.Tuple.(*ssa.Lookup); ok {
			return l
		}
	}
	return nil
}

// c15ServiceInfo works on the syntax tree of GetServiceInfo: composite
// literals of grpc.MethodInfo / grpc.ServiceInfo and the loops they sit in.
func c15ServiceInfo(c *core.Ctx, reg *types.Named) {
	p := c.P
	fn := declaredMethod(p, reg, "GetServiceInfo")
	if fn == nil {
		c.Missing(typeKey(reg) + ".GetServiceInfo")
		return
	}
	decl, pk := p.FuncDecl(fn)
	if decl == nil {
		c.Undecided(core.FuncName(fn), fn.Pos(), "no syntax for GetServiceInfo")
		return
	}
	info := pk.TypesInfo
	key := core.FuncName(fn)
	fieldsOf := func(name string) []string {
		t := p.ExtType(grpcPkg, name)
		var out []string
		if st, ok := t.Underlying().(*types.Struct); ok {
			for i := 0; i < st.NumFields(); i++ {
				if st.Field(i).Exported() {
					out = append(out, st.Field(i).Name())
				}
			}
		}
		sort.Strings(out)
		return out
	}
	// locals that merely name a descriptor field (unary, streams := desc.Methods, desc.Streams)
	localSel := map[types.Object]string{}
	ast.Inspect(decl.Body, func(x ast.Node) bool {
		as, ok := x.(*ast.AssignStmt)
		if !ok || as.Tok != token.DEFINE || len(as.Lhs) != len(as.Rhs) {
			return true
		}
		for i, l := range as.Lhs {
			id, isID := l.(*ast.Ident)
			sel, isSel := as.Rhs[i].(*ast.SelectorExpr)
			if isID && isSel && info.Defs[id] != nil {
				localSel[info.Defs[id]] = sel.Sel.Name
			}
		}
		return true
	})
	selField := func(e ast.Expr) string {
		if u, ok := e.(*ast.UnaryExpr); ok && u.Op == token.AND {
			e = u.X
		}
		if ix, ok := e.(*ast.IndexExpr); ok {
			e = ix.X
		}
		if s, ok := e.(*ast.SelectorExpr); ok {
			return s.Sel.Name
		}
		if id, ok := e.(*ast.Ident); ok {
			if n, has := localSel[info.Uses[id]]; has {
				return n
			}
		}
		return "?"
	}
	type lit struct {
		loopOver string
		fields   map[string]string
		pos      token.Pos
	}
	var mlits []lit
	var slit *lit
	var walk func(n ast.Node, loopOver string)
	walk = func(n ast.Node, loopOver string) {
		ast.Inspect(n, func(x ast.Node) bool {
			switch y := x.(type) {
			case *ast.RangeStmt:
				if y == n {
					return true
				}
				walk(y.Body, selField(y.X))
				return false
			case *ast.CompositeLit:
				tv, ok := info.Types[y]
				if !ok {
					return true
				}
				q := core.QualNamedOf(tv.Type)
				l := lit{loopOver: loopOver, fields: map[string]string{}, pos: y.Pos()}
				for _, el := range y.Elts {
					if kv, ok := el.(*ast.KeyValueExpr); ok {
						if id, ok := kv.Key.(*ast.Ident); ok {
							if _, isSel := kv.Value.(*ast.SelectorExpr); isSel {
								l.fields[id.Name] = selField(kv.Value)
							} else {
								l.fields[id.Name] = "<expr>"
							}
						}
					}
				}
				if q == grpcPkg+".MethodInfo" {
					mlits = append(mlits, l)
				}
				if q == grpcPkg+".ServiceInfo" {
					ll := l
					slit = &ll
				}
			}
			return true
		})
	}
	walk(decl.Body, "")
	// a helper of the package that builds the method list is part of the function
	fnsAll := []*ssa.Function{fn}
	for _, h := range core.HelperCallsOf(fn) {
		if h.Callee.Signature.Results().Len() != 1 || !strings.HasSuffix(core.TypeStr(h.Callee.Signature.Results().At(0).Type()), "grpc.MethodInfo") {
			continue
		}
		if hd, hpk := p.FuncDecl(h.Callee); hd != nil && hpk == pk {
			walk(hd.Body, "")
			fnsAll = append(fnsAll, h.Callee)
		}
	}
	var unary, stream *lit
	for i := range mlits {
		switch mlits[i].loopOver {
		case "Methods":
			unary = &mlits[i]
		case "Streams":
			stream = &mlits[i]
		}
	}
	c.Check(unary != nil && unary.fields["Name"] == "MethodName" && len(unary.fields) == 1, key+":unary-entry", decl.Pos(),
		"one MethodInfo{Name: MethodName} per element of Methods (stream flags false)", fmt.Sprintf("unary methods are not reported as MethodInfo{Name: <entry>.MethodName} per element of desc.Methods (found %v)", unary))
	wantStream := map[string]string{"Name": "StreamName", "IsClientStream": "ClientStreams", "IsServerStream": "ServerStreams"}
	okStream := stream != nil
	if okStream {
		for _, f := range fieldsOf("MethodInfo") {
			if stream.fields[f] != wantStream[f] {
				okStream = false
			}
		}
	}
	c.Check(okStream, key+":stream-entry", decl.Pos(), "one MethodInfo per element of Streams with Name←StreamName, IsClientStream←ClientStreams, IsServerStream←ServerStreams (all fields of grpc.MethodInfo populated)",
		fmt.Sprintf("streaming methods are not reported with every field of grpc.MethodInfo %v mapped from the matching descriptor field (found %v)", fieldsOf("MethodInfo"), stream))
	okSvc := slit != nil
	if okSvc {
		for _, f := range fieldsOf("ServiceInfo") {
			if _, has := slit.fields[f]; !has {
				okSvc = false
			}
		}
		if slit.fields["Metadata"] != "Metadata" {
			okSvc = false
		}
	}
	c.Check(okSvc, key+":service-entry", decl.Pos(), "ServiceInfo populates every field of grpc.ServiceInfo (Methods, Metadata←desc.Metadata)", fmt.Sprintf("grpc.ServiceInfo fields %v are not all populated (found %v)", fieldsOf("ServiceInfo"), slit))
	// keyed by ServiceName: the MapUpdate key in SSA
	okKey := false
	bodies := append([]*ssa.Function{fn}, iterationBodies(p, reg, fn)...)
	for _, bf := range bodies {
		core.Instrs(bf, func(in ssa.Instruction) {
			if mu, ok := in.(*ssa.MapUpdate); ok {
				if _, f, ok := core.FieldOf(mu.Key); ok && f == "ServiceName" {
					okKey = true
				}
			}
		})
	}
	fnsAll = append(fnsAll, bodies[1:]...)
	c.Check(okKey, key+":keyed-by-service-name", decl.Pos(), "result keyed by desc.ServiceName", "the result map is not keyed by desc.ServiceName")
	// the appended slice is the one stored
	okAppend := 0
	for _, f := range fnsAll {
		f := f
		core.Instrs(f, func(in ssa.Instruction) {
			if call, ok := in.(*ssa.Call); ok {
				if b, isB := call.Call.Value.(*ssa.Builtin); isB && b.Name() == "append" && core.LoopOf(f)[call.Block()] >= 0 {
					okAppend++
				}
			}
		})
	}
	if okAppend == 0 {
		// a list of the final length filled by index: entry i for the i-th method, entry len(methods)+i for the i-th stream
		plain, offset := 0, 0
		for _, f := range fnsAll {
			f := f
			core.Instrs(f, func(in ssa.Instruction) {
				st, ok := in.(*ssa.Store)
				if !ok || core.LoopOf(f)[st.Block()] < 0 {
					return
				}
				ia, ok := st.Addr.(*ssa.IndexAddr)
				if !ok || !strings.HasSuffix(core.TypeStr(ia.X.Type()), "grpc.MethodInfo") {
					return
				}
				isLen := func(v ssa.Value) bool {
					call, ok := v.(*ssa.Call)
					if !ok {
						return false
					}
					b, isB := call.Call.Value.(*ssa.Builtin)
					return isB && b.Name() == "len"
				}
				if bo, isBO := ia.Index.(*ssa.BinOp); isBO && bo.Op == token.ADD && (isLen(bo.X) != isLen(bo.Y)) {
					offset++
				} else if _, isBO := ia.Index.(*ssa.BinOp); !isBO || true {
					if bo, isBO := ia.Index.(*ssa.BinOp); !isBO || (bo.Op == token.ADD && !isLen(bo.X) && !isLen(bo.Y)) {
						plain++
					}
				}
			})
		}
		if plain == 1 && offset == 1 {
			okAppend = 2
		}
	}
	c.Check(okAppend == 2, key+":one-entry-per-element", decl.Pos(), "one entry per element in each of the two loops (appended, or stored at the element's own index)", fmt.Sprintf("expected one entry per element in the Methods loop and one in the Streams loop, found %d", okAppend))
}

// c15MethodListFresh: the slice stored as a service's Methods is allocated for
// that service: its append chain starts at a make()/nil inside the iteration
// and never at a value carried around the service loop or a re-sliced earlier
// list (lists sharing a backing array report each other's methods).
func c15MethodListFresh(c *core.Ctx, reg *types.Named) {
	p := c.P
	fn := declaredMethod(p, reg, "GetServiceInfo")
	if fn == nil {
		return
	}
	key := core.FuncName(fn) + ":method-list-per-service"
	// header blocks of loops ranging over a map (the service loop)
	mapLoopHeader := map[*ssa.BasicBlock]bool{}
	core.Instrs(fn, func(in ssa.Instruction) {
		if nx, ok := in.(*ssa.Next); ok && !nx.IsString {
			if rg, ok := nx.Iter.(*ssa.Range); ok {
				if _, isMap := rg.X.Type().Underlying().(*types.Map); isMap {
					mapLoopHeader[nx.Block()] = true
				}
			}
		}
	})
	n := 0
	bodyFns := append([]*ssa.Function{fn}, iterationBodies(p, reg, fn)...)
	for _, bf := range bodyFns {
		bf := bf
		core.Instrs(bf, func(in ssa.Instruction) {
			st, ok := in.(*ssa.Store)
			if !ok {
				return
			}
			_, f, isF := core.FieldOf(st.Addr)
			if !isF || f != "Methods" {
				return
			}
			n++
			bad, undec := "", ""
			inHelper := false
			seen := map[ssa.Value]bool{}
			var walk func(v ssa.Value)
			walk = func(v ssa.Value) {
				if seen[v] || bad != "" {
					return
				}
				seen[v] = true
				switch x := v.(type) {
				case *ssa.Call:
					if b, isB := x.Call.Value.(*ssa.Builtin); isB && b.Name() == "append" {
						walk(x.Call.Args[0])
						return
					}
					// built by a helper of the package: every return of the helper must be a list made in the helper
					// (a fresh allocation per call)
					if callee := x.Call.StaticCallee(); callee != nil && callee.Blocks != nil && callee.Pkg == fn.Pkg && callee != fn && !inHelper {
						inHelper = true
						for _, r := range core.Returns(callee) {
							walk(r.Results[0])
						}
						inHelper = false
						return
					}
					undec = "the list is the result of " + core.InfoOf(&x.Call).Full()
				case *ssa.Phi:
					if mapLoopHeader[x.Block()] {
						bad = "the list's backing slice is carried from one service's iteration to the next"
						return
					}
					for _, e := range x.Edges {
						walk(e)
					}
				case *ssa.Slice:
					bad = "the list is a re-slice of an existing slice (a scratch buffer reused across services)"
				case *ssa.MakeSlice:
					// inside the iteration: in the service loop of fn, or anywhere in a ForEach body literal (one call per service)
					if !inHelper && x.Parent() == fn && core.LoopOf(fn)[x.Block()] < 0 {
						bad = "the list's backing array is allocated once, outside the service loop"
					}
				case *ssa.FreeVar:
					bad = "the list is a variable of the enclosing function, shared by all iterations"
				case *ssa.Const:
					if !x.IsNil() {
						undec = "constant"
					}
				case *ssa.UnOp:
					os := core.Origins(x)
					if len(os) == 1 && os[0] == ssa.Value(x) {
						undec = "a load the checker cannot resolve"
						return
					}
					for _, o := range os {
						walk(o)
					}
				default:
					undec = fmt.Sprintf("%T", v)
				}
			}
			walk(st.Val)
			switch {
			case bad != "":
				c.Fail(key, st.Pos(), "%s: the Methods lists of different services share memory, so a service reports another service's methods (grpc.Server builds one list per service)", bad)
			case undec != "":
				c.Undecided(key, st.Pos(), "cannot trace where the Methods slice comes from (%s)", undec)
			default:
				c.Ok(key, st.Pos(), "the Methods slice is built by appends on a slice made inside the service loop")
			}
		})
	}
	if n == 0 {
		c.Fail(key, fn.Pos(), "ANCHOR-MISSING: no store to a Methods field in GetServiceInfo")
	}
}

// iterationBodies: the function literals that fn (a method of the registry)
// hands to the registry's own ForEach: the body of "for each registration" when
// the method iterates through ForEach instead of ranging over the map itself.
func iterationBodies(p *core.Prog, reg *types.Named, fn *ssa.Function) []*ssa.Function {
	var out []*ssa.Function
	fe := declaredMethod(p, reg, "ForEach")
	if fe == nil || fn == nil {
		return nil
	}
	for _, call := range core.CallsIn(fn, func(call *ssa.Call, ci core.CallInfo) bool { return ci.Static == fe }) {
		if len(call.Call.Args) < 2 || core.Strip(call.Call.Args[0]) != ssa.Value(fn.Params[0]) {
			continue
		}
		for _, o := range core.Origins(call.Call.Args[1]) {
			if mc, ok := o.(*ssa.MakeClosure); ok {
				out = append(out, mc.Fn.(*ssa.Function))
			}
		}
	}
	return out
}
