package rules

import (
	"fmt"
	"go/token"
	"go/types"
	"sort"
	"strings"
	"unicode/utf8"

	"golang.org/x/tools/go/ssa"

	"verif/checker/internal/core"
)

func init() { register("C02", c02) }

// discardTable: the justified discards of an error result in library code
// (C02/R4), keyed by package and by the ROLE of the callee (so that renaming a
// private helper or switching ioutil.ReadAll→io.ReadAll changes nothing).
var discardTable = map[string]struct {
	n   int
	why string
}{
	"inprocgrpc|frame-writer":    {7, "server goroutines abandon a frame only when the context ended; the client re-checks ctx after every receive (C02/R1)"},
	"inprocgrpc|TrySetTrailer":   {1, "grpc.ServerStream.SetTrailer has no error result; TrySetTrailer is the error-returning variant used by the transport stream"},
	"httpgrpc|http-frame-writer": {1, "final trailer frame: a failed write leaves the reply without trailer, which the client reports as an error (C02/R1 HTTP)"},
	"httpgrpc|Write":             {1, "unary body write: a short body contradicts Content-Length and fails the client's read"},
	"httpgrpc|drain":             {2, "deferred drain of the request body: nothing to report to"},
	"httpgrpc|Close":             {2, "closing a reply body that was read completely / drained"},
	"httpgrpc|ReadAll":           {1, "deferred drain of the reply body so the connection can be reused"},
	"httpgrpc|CloseWithError":    {1, "always returns nil (io.Pipe contract)"},
	"httpgrpc|done-probe":        {2, "SendMsg only needs the 'done' flag to refuse a send, or to report a send that the call's completion cut short as io.EOF; the terminal error itself is reported by RecvMsg"},
	"httpgrpc|ParseMediaType":    {2, "an unparsable Content-Type yields an empty media type, hence no codec, hence 415 (C11/R1)"},
}

// calleeRole names the role of a callee whose error is discarded.
func calleeRole(p *core.Prog, cc *ssa.CallCommon) string {
	ci := core.InfoOf(cc)
	if ci.Static != nil && strings.HasPrefix(ci.Pkg, core.ModulePath) {
		fn := ci.Static
		if isInprocFrameWriter(fn) {
			return "frame-writer"
		}
		if ioParamIdx(fn, "io.Writer") >= 0 {
			return "http-frame-writer"
		}
		if len(fn.Params) == 1 && core.TypeStr(fn.Params[0].Type()) == "io.ReadCloser" {
			return "drain"
		}
		if fn.Signature.Results().Len() == 2 && core.TypeStr(fn.Signature.Results().At(0).Type()) == "bool" {
			return "done-probe"
		}
		return fn.Name()
	}
	if ci.Is("io.ReadAll") || ci.Is("io/ioutil.ReadAll") {
		return "ReadAll"
	}
	if ci.Dyn {
		return "dynamic:" + core.TypeStr(cc.Value.Type())
	}
	return ci.Name
}

func c02(c *core.Ctx) {
	p := c.P
	c.Explain = "C02: (R1) closed-channel outcomes in the in-process receive functions lead to success only under a context re-check made after the receive; an io.EOF-capable value (taint from preface/payload reads and RoundTrip) never reaches the HTTP client stream's terminal-error field unnormalised, and the status synthesiser returns io.EOF only under rErr == nil ∧ code == OK; every exit of the response reader established an error, a non-OK code or a decoded trailer. (R2) the handler's error reaches the wire on all paths. (R3) every conversion between status and wire forms transfers Code, Message and Details. (R4) inventory of discarded error results against a justified table."
	c.NotDec = []string{"survival of arbitrary message text through HTTP header sanitising / proto3 string validation", "equality with the reference transport's outcome"}

	// ---------------------------------------------------------------- R1
	if c.Rule("R1", "success needs an observed clean end", 5) {
		c02InprocRecheck(c)
		c02HttpEOF(c)
		c02TrailerIffNegative(c)
		if singleResponseProbes(c) < 2 {
			c.Missing("client stream types with a single-response probe (in-process and HTTP)")
		}
		// unary HTTP: the reply body is decoded only after its read was found complete (obligations shared with
		// C07/R3: a body cut short is a failed call, not a shorter response)
		c07BufferProvenance(c, c.P.LibFuncs("httpgrpc"))
		// unary in-process: success needs the one response (obligations shared with C08/R2)
		for _, ct := range channelTypes(c.P, "inprocgrpc") {
			if fn := declaredMethod(c.P, ct, "Invoke"); fn != nil {
				c08UnaryInproc(c, typeKey(ct)+".Invoke", fn)
			}
		}
		c.EndRule()
	}
	// ---------------------------------------------------------------- R2
	if c.Rule("R2", "a handler error is always put on the wire (error frame / status header / trailer fields), and OK is rewritten to Internal on both HTTP paths", 6) {
		c02HandlerErrOnWire(c)
		c02NoFrameDropped(c)
		// the one exception ("except after a failed response write") is exactly that: the flag that withholds the trailer is
		// set on EVERY failed frame write — not on a class of its errors
		nWF := 0
		for _, nt := range streamTypes(c.P, "ServerStream", "SendMsg") {
			if pkgSuffixOf(nt) != "httpgrpc" {
				continue
			}
			tn := nt.Obj().Name()
			for _, fn := range methodFamily(c.P, nt, "SendMsg") {
				for _, w := range core.CallsIn(fn, func(call *ssa.Call, ci core.CallInfo) bool { ok, _ := httpFrameWriteCall(call); return ok }) {
					core.Instrs(fn, func(in ssa.Instruction) {
						st, ok := in.(*ssa.Store)
						if !ok || !core.Reachable(core.After(w), st) {
							return
						}
						base, fld, isF := core.FieldOf(st.Addr)
						if b, isC := core.ConstBool(st.Val); !isF || !isC || !b || core.NamedOf(base.Type()) != tn {
							return
						}
						nWF++
						exact := core.GuardedExactlyBy(st, func(f core.Fact) bool {
							return f.Op == token.NEQ && core.IsNilConst(f.Y) && core.OriginIs(f.X, func(o ssa.Value) bool { return o == ssa.Value(w) })
						})
						c.Check(exact, core.FuncName(fn)+":"+fld+":set-on-every-failed-write", st.Pos(), "the write-failed flag is set on exactly the non-nil edge of the frame write's error", "the write-failed flag is not set on every failed frame write (it depends on more than 'err != nil'): after such a failure the stream goes on as if the message had been delivered, and the client is told the handler's final status over a reply that lacks a message")
					})
				}
			}
		}
		if nWF == 0 {
			c.Fail("httpgrpc:write-failed-flag", token.NoPos, "ANCHOR-MISSING: no write-failed flag set after the frame write in the HTTP server stream's SendMsg")
		}
		// in-process: a frame write gives up only when the call's own context ends — the library puts no timer of
		// its own on the context it writes under (a merely slow reader would lose the final frames, the status among them)
		nFW := 0
		for _, fn := range p.LibFuncs("inprocgrpc") {
			core.Instrs(fn, func(in ssa.Instruction) {
				call, ok := in.(*ssa.Call)
				if !ok || call.Call.StaticCallee() == nil || !isInprocFrameWriter(call.Call.StaticCallee()) || isInprocFrameWriter(fn) {
					return
				}
				for i, a := range call.Call.Args {
					if core.TypeStr(a.Type()) != "context.Context" || core.IsNilConst(a) {
						continue
					}
					nFW++
					tr := ctxTrace(p, a)
					timer := ""
					for l := range tr.Layers {
						if l == "context.WithTimeout" || l == "context.WithDeadline" {
							timer = l
						}
					}
					key := fmt.Sprintf("%s:frame-write#%d:ctx%d:no-library-timer", core.FuncName(fn), nFW, i)
					if timer != "" {
						c.Fail(key, call.Pos(), "the context a frame is written under passes through %s added by the library: when that timer fires the write is abandoned although the call is alive, so a slow receiver loses frames (the final status among them) and sees a clean end instead", timer)
					} else {
						c.Ok(key, call.Pos(), "written under a context that ends only with the call (layers %v)", tr.layerList())
					}
				}
			})
		}
		c.EndRule()
	}
	// ---------------------------------------------------------------- R5
	if c.Rule("R5", "a handler's error cannot be taken for the end of the stream: what an in-process stream's error frame carries is a status error (a status constructor's result, or the handler's error on the ok edge of status.FromError) — the client stream returns the frame's error as it is, and a bare io.EOF there is the success sentinel", 1) {
		c02ErrFrameIsStatus(c)
		c.EndRule()
	}

	// ---------------------------------------------------------------- R3
	if c.Rule("R3", "all three status components (code, message, details) travel at every conversion site", 4) {
		c02Components(c)
		c02CodeWireType(c)
		c02MessageVerbatim(c)
		c02TranslatorsExact(c)
		c.EndRule()
	}
	// ---------------------------------------------------------------- R4
	if c.Rule("R4", "no silently dropped error on the response path: every discarded error result in library code is in the justified table", 8) {
		type site struct {
			fn     *ssa.Function
			callee string
			pos    token.Pos
		}
		counts := map[string]int{}
		where := map[string][]string{}
		first := map[string]token.Pos{}
		for _, pkgS := range []string{"inprocgrpc", "httpgrpc", "internal", "."} {
			for _, fn := range p.LibFuncs(pkgS) {
				core.Instrs(fn, func(in ssa.Instruction) {
					cc := core.CallOf(in)
					if cc == nil {
						return
					}
					sig := cc.Signature()
					ei := core.ErrResultIndex(sig)
					if ei < 0 {
						return
					}
					discarded := false
					switch x := in.(type) {
					case *ssa.Defer, *ssa.Go:
						discarded = true
					case *ssa.Call:
						if sig.Results().Len() == 1 {
							discarded = len(core.Refs(x)) == 0
						} else {
							used := false
							for _, r := range core.Refs(x) {
								if ex, ok := r.(*ssa.Extract); ok && ex.Index == ei && len(core.Refs(ex)) > 0 {
									used = true
								}
							}
							discarded = !used
						}
					}
					if !discarded {
						return
					}
					// writers into memory whose error result is nil by contract (strings.Builder, bytes.Buffer)
					if ci := core.InfoOf(cc); (ci.Pkg == "strings" && ci.Recv == "Builder") || (ci.Pkg == "bytes" && ci.Recv == "Buffer" && strings.HasPrefix(ci.Name, "Write")) {
						return
					}
					k := pkgS + "|" + calleeRole(p, cc)
					if pkgS == "." {
						k = "grpchan|" + calleeRole(p, cc)
					}
					where[k] = append(where[k], core.FuncName(fn))
					counts[k]++
					if _, ok := first[k]; !ok {
						first[k] = in.Pos()
					}
				})
			}
		}
		var keys []string
		for k := range counts {
			keys = append(keys, k)
		}
		sort.Strings(keys)
		for _, k := range keys {
			ent, ok := discardTable[k]
			switch {
			case !ok || ent.n == 0:
				c.Fail("discard:"+k, first[k], "error result discarded (%d×, in %v) and not in the justified table: an error on the response path may be silently dropped", counts[k], uniqS(where[k]))
			case counts[k] > ent.n:
				c.Fail("discard:"+k, first[k], "error result discarded %d× (in %v) but only %d justified (%s): a new site drops an error", counts[k], uniqS(where[k]), ent.n, ent.why)
			default:
				c.Ok("discard:"+k, first[k], "%d× — %s", counts[k], ent.why)
			}
		}
		c.EndRule()
	}

	// ---------------------------------------------------------------- R10
	// (the translator part of R3 on its own, so that properties that need only it can borrow it)
	if c.Rule("R10", "errors cross the hand-off between handler and caller unchanged unless they ARE a context sentinel: a context→status translator replaces an error only if it compares equal (==) to context.Canceled / context.DeadlineExceeded; an error that merely wraps one keeps its own status and text", 1) {
		c02TranslatorsExact(c)
		c.EndRule()
	}

	// ---------------------------------------------------------------- R7
	if c.Rule("R7", "what a call returns is what its return statement said: no function of the library that starts a goroutine lets that goroutine store into one of its own result variables — the store can land after the return statement has set the result (while a deferred function runs), turning a failed call into a nil error or one status into another", 1) {
		n := 0
		for _, pk := range []string{"httpgrpc", "inprocgrpc", "internal", "grpchan"} {
			for _, fn := range p.LibFuncs(pk) {
				if fn.Signature.Results().Len() == 0 {
					continue
				}
				// goroutines the function starts (closures, at any nesting depth)
				launched := map[*ssa.Function]bool{}
				core.InstrsDeep(fn, func(_ *ssa.Function, in ssa.Instruction) {
					if g, ok := in.(*ssa.Go); ok {
						if mc, isMC := g.Call.Value.(*ssa.MakeClosure); isMC {
							launched[mc.Fn.(*ssa.Function)] = true
						}
					}
				})
				if len(launched) == 0 {
					continue
				}
				n++
				inGoroutine := func(f *ssa.Function) bool {
					for ; f != nil && f != fn; f = f.Parent() {
						if launched[f] {
							return true
						}
					}
					return false
				}
				// the result variables: cells every return loads its result from
				resultCells := map[*ssa.Alloc]string{}
				for _, r := range core.Returns(fn) {
					for i, v := range r.Results {
						if ld, ok := v.(*ssa.UnOp); ok && ld.Op == token.MUL {
							if al, isAl := ld.X.(*ssa.Alloc); isAl && fn.Signature.Results().At(i).Name() != "" && al.Comment == fn.Signature.Results().At(i).Name() {
								resultCells[al] = al.Comment
							}
						}
					}
				}
				bad := ""
				var where token.Pos
				for al, name := range resultCells {
					for _, st := range core.StoresTo(al) {
						if st.Parent() != fn && inGoroutine(st.Parent()) {
							bad, where = name, st.Pos()
						}
					}
				}
				// ... nor does such a goroutine fill the caller's response message: the message the function decodes
				// or copies into on its own goroutine (Unmarshal(b, resp), Copy(resp, v)) is not handed to a decode
				// or copy inside a goroutine — that one may still run when the call has already returned an error
				isFill := func(cc *ssa.CallCommon) int {
					if cc.IsInvoke() {
						switch cc.Method.Name() {
						case "Unmarshal":
							return len(cc.Args) - 1
						case "Copy":
							return 0
						}
					}
					return -1
				}
				core.InstrsDeep(fn, func(f *ssa.Function, in ssa.Instruction) {
					if f == fn || !inGoroutine(f) {
						return
					}
					cc := core.CallOf(in)
					if cc == nil {
						return
					}
					di := isFill(cc)
					if di < 0 || di >= len(cc.Args) {
						return
					}
					for _, pp := range fn.Params {
						if _, isIface := pp.Type().Underlying().(*types.Interface); !isIface {
							continue
						}
						if core.OriginIs(cc.Args[di], func(o ssa.Value) bool {
							return core.Strip(core.ResolveFree(core.Strip(o))) == ssa.Value(pp) || core.Strip(o) == ssa.Value(pp)
						}) {
							c.Fail(core.FuncName(fn)+":response-not-filled-by-its-goroutines", in.Pos(), "a goroutine started by this function decodes (or copies) into the caller's message %q: when the call gives up on that goroutine (context ended) and returns an error, the goroutine may still fill the message afterwards — the caller gets an error AND a response, and a write into memory it owns again", pp.Name())
						}
					}
				})
				key := core.FuncName(fn) + ":results-not-written-by-its-goroutines"
				if bad != "" {
					c.Fail(key, where, "a goroutine started by this function stores into its result variable %q: when the function returns while the goroutine still runs (an early return, a deferred function that takes time) the store replaces what the return statement set — a non-OK status becomes nil, or the other way round", bad)
				} else {
					c.Ok(key, fn.Pos(), "no goroutine the function starts stores into a result variable of it")
				}
			}
		}
		if n < 1 {
			c.Fail("library:goroutine-starting-functions", token.NoPos, "ANCHOR-MISSING: expected functions with results that start goroutines (the unary HTTP call), found %d", n)
		}
		c.EndRule()
	}

	// ---------------------------------------------------------------- R6 (shared)
	// the status the client reports is the handler's: the library itself never cancels a call that is still in
	// use (a cancelling finalizer on an object the blocked operation does not keep reachable — C04/R9)
	c.Borrow("C04", map[string]string{"R9": "R6"}, c04)
	// "exactly the handler's final status" includes a handler that ends with its own context error: it reaches the
	// client as Canceled / DeadlineExceeded on every route from the handler to the caller (C04/R4)
	c.Borrow("C04", map[string]string{"R4": "R8"}, c04)
	// the handler's status travels in the trailer frame, which is written only if no response write "failed": a frame
	// writer that reports a flush problem as a write failure (a ResponseWriter without Flush behind some middleware)
	// cuts the reply and the client sees "unexpected EOF" instead of the handler's status (C01/R12)
	c.Borrow("C01", map[string]string{"R12": "R9"}, c01)
	// the status details travel encoded by the codec the request's content type selected and are decoded with the
	// proto codec: the client therefore sends exactly the content types whose codec that is (C11/R3)
	c.Borrow("C11", map[string]string{"R3": "R11"}, c11)
}

// ---------------------------------------------------------------------------

func isFrameChan(t types.Type) bool {
	ch, ok := t.Underlying().(*types.Chan)
	return ok && core.NamedOf(ch.Elem()) == "frame"
}

// c02InprocRecheck: R1 in-process part.
func c02InprocRecheck(c *core.Ctx) {
	p := c.P
	n := 0
	for _, fn := range p.LibFuncs("inprocgrpc") {
		core.Instrs(fn, func(in ssa.Instruction) {
			sel, ok := in.(*ssa.Select)
			if !ok {
				return
			}
			recvIdx := -1
			var doneCtx ssa.Value
			for i, st := range sel.States {
				if st.Dir != types.RecvOnly {
					continue
				}
				if isFrameChan(st.Chan.Type()) {
					recvIdx = i
				} else if call, ok := st.Chan.(*ssa.Call); ok && call.Call.IsInvoke() && call.Call.Method.Name() == "Done" {
					doneCtx = call.Call.Value
				}
			}
			if recvIdx < 0 {
				return
			}
			n++
			key := core.FuncName(fn) + ":recv-closed"
			var okV ssa.Value
			for _, ref := range core.Refs(sel) {
				if ex, ok := ref.(*ssa.Extract); ok && ex.Index == 1 {
					okV = ex
				}
			}
			if doneCtx == nil {
				c.Fail(key, sel.Pos(), "receive from the frame channel has no ctx.Done() arm")
				return
			}
			if okV == nil {
				c.Fail(key, sel.Pos(), "receive from the frame channel ignores the closed-channel outcome")
				return
			}
			// returns on the !ok edge with a success-ish leaf
			bad := ""
			cnt := 0
			for _, r := range core.Returns(fn) {
				if !core.GuardedBy(r, func(f core.Fact) bool { return f.Op == token.ILLEGAL && f.Neg && f.X == okV }) {
					continue
				}
				ei := len(r.Results) - 1
				successish := false
				for _, l := range core.ErrLeaves(r.Results[ei], r) {
					if l.Class == core.ErrNil {
						successish = true
					}
					if g, ok := core.GlobalLoad(l.V); ok && g == "io.EOF" {
						successish = true
					}
				}
				if !successish {
					continue
				}
				cnt++
				rechecked := core.GuardedBy(r, func(f core.Fact) bool {
					if f.Op != token.EQL || !core.IsNilConst(f.Y) {
						return false
					}
					call, _, ok := core.CallResult(f.X)
					if !ok || !call.Call.IsInvoke() || call.Call.Method.Name() != "Err" {
						return false
					}
					return (call.Call.Value == doneCtx || core.SameVal(call.Call.Value, doneCtx) || sameOrigins(call.Call.Value, doneCtx)) && core.Reachable(core.After(sel), call)
				})
				if !rechecked {
					bad = "a nil / io.EOF return on the channel-closed edge is not dominated by a ctx.Err() == nil re-check made after the receive (the sender abandons frames when that context ends, so closure alone does not mean 'complete')"
				}
			}
			if bad != "" {
				c.Fail(key, sel.Pos(), "%s", bad)
			} else {
				c.Ok(key, sel.Pos(), "%d success-ish return(s) on the closed edge, each under ctx.Err() == nil checked after the receive", cnt)
			}
			// a receive helper that hands the frame to the stream's receive functions: the select takes either ready
			// arm at random, so a receive issued after the context ended reports the context error only if the
			// context is looked at again after a frame was taken
			returnsFrame := false
			for i := 0; i < fn.Signature.Results().Len(); i++ {
				if core.NamedOf(fn.Signature.Results().At(i).Type()) == "frame" {
					returnsFrame = true
				}
			}
			if returnsFrame {
				recheck := func(r ssa.Instruction) bool {
					return core.GuardedBy(r, func(f core.Fact) bool {
						if f.Op != token.EQL || !core.IsNilConst(f.Y) {
							return false
						}
						call, _, ok := core.CallResult(f.X)
						if !ok || !call.Call.IsInvoke() || call.Call.Method.Name() != "Err" {
							return false
						}
						return (call.Call.Value == doneCtx || core.SameVal(call.Call.Value, doneCtx) || sameOrigins(call.Call.Value, doneCtx)) && core.Reachable(core.After(sel), call)
					})
				}
				okFrame := true
				var where token.Pos
				for _, r := range core.Returns(fn) {
					if !core.Reachable(core.After(sel), r) || core.GuardedBy(r, func(f core.Fact) bool { return f.Op == token.ILLEGAL && f.Neg && f.X == okV }) {
						continue
					}
					ei := len(r.Results) - 1
					if core.ClassifyErr(r.Results[ei], r) == core.ErrNonNil {
						continue
					}
					// a return of the received frame with a nil error
					if !core.GuardedBy(r, func(f core.Fact) bool { return f.Op == token.ILLEGAL && !f.Neg && f.X == okV }) {
						continue
					}
					if !recheck(r) {
						okFrame, where = false, r.Pos()
					}
				}
				if !where.IsValid() {
					where = sel.Pos()
				}
				c.Check(okFrame, core.FuncName(fn)+":recv-frame:context-rechecked", where, "a received frame is returned only under ctx.Err() == nil checked after the receive", "a received frame is returned without looking at the context again: when a frame is queued and the context has ended the select takes either arm, so a receive issued after cancellation can report success instead of Canceled / DeadlineExceeded")
			}
		})
	}
	if n < 2 {
		c.Fail("inprocgrpc:frame-receives", token.NoPos, "ANCHOR-MISSING: expected ≥2 selects receiving from a frame channel (stream reader and unary loop), found %d", n)
	}
}

// terminalErrFields: error-typed fields of nt whose loaded value is returned
// by RecvMsg (directly or via a family method).
func terminalErrFields(p *core.Prog, nt *types.Named) map[string]bool {
	out := map[string]bool{}
	for _, f := range methodFamily(p, nt, "RecvMsg") {
		for _, r := range core.Returns(f) {
			for _, res := range r.Results {
				if !core.IsErrorType(res.Type()) {
					continue
				}
				for _, o := range core.Origins(res) {
					if base, fld, ok := core.FieldOf(o); ok && core.NamedOf(base.Type()) == nt.Obj().Name() {
						out[fld] = true
					}
				}
			}
		}
	}
	return out
}

func c02HttpEOF(c *core.Ctx) {
	p := c.P
	fns := p.LibFuncs("httpgrpc")
	t := core.NewTaint(eofSpec(true, true), fns)
	for _, nt := range streamTypes(p, "ClientStream", "RecvMsg") {
		if pkgSuffixOf(nt) != "httpgrpc" {
			continue
		}
		tk := typeKey(nt)
		sinks := terminalErrFields(p, nt)
		if len(sinks) == 0 {
			continue
		}
		n := 0
		for _, fn := range fns {
			core.Instrs(fn, func(in ssa.Instruction) {
				st, ok := in.(*ssa.Store)
				if !ok {
					return
				}
				base, fld, isF := core.FieldOf(st.Addr)
				if !isF || core.NamedOf(base.Type()) != nt.Obj().Name() || !sinks[fld] {
					return
				}
				n++
				key := fmt.Sprintf("%s.%s<-%s", tk, fld, core.FuncName(fn))
				if t.At(st.Val, st) {
					c.Fail(key+":eof", st.Pos(), "a value that may be exactly io.EOF (from a size-preface/payload read or from RoundTrip) is published as the stream's terminal error without normalisation: RecvMsg would report a truncated or missing reply as a clean end-of-stream")
				} else {
					c.Ok(key+":eof", st.Pos(), "no unnormalised io.EOF reaches this store (taint analysis, %d rounds)", t.Rounds)
				}
			})
		}
		if n == 0 {
			c.Fail(tk+":terminal-error-stores", nt.Obj().Pos(), "no store to the terminal-error field(s) found")
		}
		// synthesiser: returns io.EOF only under rErr == nil ∧ code == OK
		for _, f := range methodFamily(p, nt, "RecvMsg") {
			for _, r := range core.Returns(f) {
				for _, res := range r.Results {
					if !core.IsErrorType(res.Type()) {
						continue
					}
					for _, l := range core.ErrLeaves(res, r) {
						if g, ok := core.GlobalLoad(l.V); !ok || g != "io.EOF" {
							continue
						}
						key := tk + "." + f.Name() + ":returns-EOF"
						gErr := core.GuardedBy(l.At, func(fc core.Fact) bool {
							if fc.Op != token.EQL || !core.IsNilConst(fc.Y) {
								return false
							}
							_, fld, ok := core.FieldOf(fc.X)
							return ok && sinks[fld]
						})
						gCode := core.GuardedBy(l.At, func(fc core.Fact) bool {
							if fc.Op != token.EQL {
								return false
							}
							k, isC := core.ConstInt(fc.Y)
							_, fld, ok := core.FieldOf(fc.X)
							return isC && k == 0 && ok && fld == "Code"
						})
						c.Check(gErr && gCode, key, r.Pos(), "io.EOF (clean end) is synthesised only under terminalErr == nil ∧ trailer.Code == OK", "io.EOF (= success) can be returned without terminalErr == nil ∧ trailer code == OK")
					}
				}
			}
		}
	}
	// every exit of the response reader established a verdict
	for _, fn := range fns {
		if fn.Parent() != nil || !mustCallRoundTrip(fn, 0) || fn.Signature.Results().Len() != 0 || fn.Signature.Recv() == nil {
			continue
		}
		// the local terminal-error cell: error-typed Alloc captured by a deferred closure
		var cell *ssa.Alloc
		core.Instrs(fn, func(in ssa.Instruction) {
			if al, ok := in.(*ssa.Alloc); ok && al.Heap && core.IsErrorType(al.Type().Underlying().(*types.Pointer).Elem()) {
				cell = al
			}
		})
		if cell == nil {
			c.Undecided(core.FuncName(fn)+":exits", fn.Pos(), "response reader without a local terminal-error variable: unrecognised idiom")
			continue
		}
		for i, r := range core.Returns(fn) {
			key := fmt.Sprintf("%s:exit#%d", core.FuncName(fn), i)
			// the state before the deferred publisher runs
			var at ssa.Instruction = r
			if loc := core.LocOf(r); loc.Idx > 0 {
				if rd, ok := loc.B.Instrs[loc.Idx-1].(*ssa.RunDefers); ok {
					at = rd
				}
			}
			sts, zero := core.ReachingStoresAt(cell, at)
			allNonNil := !zero && len(sts) > 0
			for _, s := range sts {
				cl := core.ErrNonNil
				if s.Parent() == fn {
					cl = classifyWithLoadGuards(s.Val, s, r, cell)
				} else {
					cl = core.ClassifyErr(s.Val, s)
					if cl != core.ErrNonNil {
						// closure store (onReady(err, …)): non-nil iff every call site on the way passes a non-nil error
						cl = closureStoreClass(fn, s, r)
					}
				}
				if cl != core.ErrNonNil {
					allNonNil = false
				}
			}
			if allNonNil {
				c.Ok(key, r.Pos(), "terminal error is non-nil on every path to this exit")
				continue
			}
			verdict := core.MustPass(core.Entry(fn), r, func(in ssa.Instruction) bool {
				if st, ok := in.(*ssa.Store); ok {
					if _, f, ok := core.FieldOf(st.Addr); ok && f == "Code" {
						return true
					}
				}
				if call, ok := in.(*ssa.Call); ok {
					// trailer decode: a read into the stream's trailer field
					for _, a := range call.Call.Args {
						for _, o := range core.Origins(a) {
							if fa, ok := o.(*ssa.FieldAddr); ok {
								if _, f, _ := core.FieldOf(fa); f == "tr" {
									return true
								}
							}
						}
					}
				}
				return false
			})
			c.Check(verdict, key, r.Pos(), "exit passes a trailer decode or a status-code store", "the response reader can exit with a nil terminal error without having decoded a trailer or stored a status code: the call would end as success with whatever was received")
		}
	}
}

// classifyWithLoadGuards: class of value v stored by s into cell, as seen at
// return r: guards on later loads of the cell (if rErr != nil { return })
// count when the store is the only one reaching the load.
func classifyWithLoadGuards(v ssa.Value, s *ssa.Store, r *ssa.Return, cell *ssa.Alloc) core.ErrClass {
	cl := core.ClassifyErr(v, s)
	if cl == core.ErrNonNil {
		return cl
	}
	for _, ef := range core.DominatingFacts(r) {
		f := ef.Fact
		if f.Op != token.NEQ || !core.IsNilConst(f.Y) {
			continue
		}
		u, ok := f.X.(*ssa.UnOp)
		if !ok || u.Op != token.MUL || u.X != ssa.Value(cell) {
			continue
		}
		sts, zero := core.ReachingStores(u)
		if !zero && len(sts) == 1 && sts[0] == s {
			return core.ErrNonNil
		}
	}
	return cl
}

// closureStoreClass: s stores a closure parameter into the cell; the value is
// non-nil if the call of that closure that reaches r passes a non-nil error.
func closureStoreClass(fn *ssa.Function, s *ssa.Store, r *ssa.Return) core.ErrClass {
	par, ok := s.Val.(*ssa.Parameter)
	if !ok {
		return core.ErrMaybe
	}
	cl := s.Parent()
	idx := -1
	for i, pp := range cl.Params {
		if pp == par {
			idx = i
		}
	}
	// last call of the closure on each path to r: take all calls from which r is reachable
	// without passing another call of the closure
	res := core.ErrNonNil
	found := false
	core.Instrs(fn, func(in ssa.Instruction) {
		call, ok := in.(*ssa.Call)
		if !ok {
			return
		}
		isCl := false
		for _, o := range core.Origins(call.Call.Value) {
			if mc, ok := o.(*ssa.MakeClosure); ok && mc.Fn == cl {
				isCl = true
			}
		}
		if !isCl {
			return
		}
		v := core.Walk(core.After(call), func(x ssa.Instruction) bool {
			if c2, ok := x.(*ssa.Call); ok && c2 != call {
				for _, o := range core.Origins(c2.Call.Value) {
					if mc, ok := o.(*ssa.MakeClosure); ok && mc.Fn == cl {
						return true
					}
				}
			}
			if st, ok := x.(*ssa.Store); ok && st.Addr == s.Addr {
				return true
			}
			return false
		}, nil)
		if !v[r] {
			return
		}
		found = true
		if idx < len(call.Call.Args) && core.ClassifyErr(call.Call.Args[idx], call) != core.ErrNonNil {
			res = core.ErrMaybe
		}
	})
	if !found {
		return core.ErrMaybe
	}
	return res
}

// ---------------------------------------------------------------------------

func c02HandlerErrOnWire(c *core.Ctx) {
	p := c.P
	// in-process: frame{err: e} writes
	for _, fn := range p.LibFuncs("inprocgrpc") {
		core.Instrs(fn, func(in ssa.Instruction) {
			call, ok := in.(*ssa.Call)
			if !ok {
				return
			}
			var ev ssa.Value
			if ci := core.InfoOf(&call.Call); ci.Static == nil || !isInprocFrameWriter(ci.Static) {
				return // only calls of a frame writer (a function that sends on its channel parameter)
			}
			for _, a := range call.Call.Args {
				if core.NamedOf(a.Type()) == "frame" {
					ev = frameFieldValue(a, "err")
				}
			}
			if ev == nil {
				return
			}
			key := core.FuncName(fn) + ":error-frame"
			// guarded by ev != nil, and every return of fn passes that test
			var iff *ssa.If
			// the error may pass through a converter of the module on its way into the frame (asStatusError(err)):
			// the test is then made on what the converter is handed
			evs := []ssa.Value{ev}
			if cv, _, isCall := core.CallResult(ev); isCall {
				if h := cv.Call.StaticCallee(); h != nil && h.Blocks != nil && h.Pkg != nil && strings.HasPrefix(h.Pkg.Pkg.Path(), core.ModulePath) {
					nErr := 0
					for i, pp := range h.Params {
						if core.IsErrorType(pp.Type()) && i < len(cv.Call.Args) {
							nErr++
							evs = append(evs, cv.Call.Args[i])
						}
					}
					if nErr != 1 {
						evs = evs[:1]
					}
				}
			}
			for _, ef := range core.DominatingFacts(call) {
				for _, e := range evs {
					if ef.Fact.Op == token.NEQ && core.IsNilConst(ef.Fact.Y) && (ef.Fact.X == e || core.SameVal(ef.Fact.X, e) || sameOrigins(ef.Fact.X, e)) {
						iff = ef.If
					}
				}
			}
			if iff == nil {
				c.Fail(key, call.Pos(), "error frame write is not guarded by 'err != nil' of the error it carries")
				return
			}
			okAll := true
			for _, r := range core.Returns(fn) {
				if !core.MustPass(core.Entry(fn), r, func(x ssa.Instruction) bool { return x == ssa.Instruction(iff) }) {
					okAll = false
				}
			}
			// on the err != nil edge the write is unavoidable
			f0 := core.CondFact(iff.Cond, true)
			succ := 0
			if !(f0.Op == token.NEQ) {
				succ = 1
			}
			v := core.Walk(core.Loc{B: iff.Block().Succs[succ], Idx: 0}, func(x ssa.Instruction) bool { return x == ssa.Instruction(call) }, nil)
			for _, r := range core.Returns(fn) {
				if v[r] {
					okAll = false
				}
			}
			c.Check(okAll, key, call.Pos(), "every normal exit passes the 'err != nil ⇒ write error frame' decision", "an exit bypasses the 'err != nil ⇒ write error frame' decision: the handler's error could be lost")
			// provenance: the handler's error
			prov := false
			for _, e := range evs {
				prov = prov || handlerErrProvenance(p, fn, e)
			}
			c.Check(prov, key+":carries-handler-error", call.Pos(), "the frame carries the handler's error (result of the handler invocation / the finish parameter fed from it)", "the error frame does not carry the handler's own error value")
		})
	}
	// HTTP: both handler closures
	for _, hc := range httpHandlerClosures(p) {
		key := core.FuncName(hc.Fn)
		hcalls := handlerInvocations(hc.Fn)
		if len(hcalls) == 0 {
			c.Fail(key+":handler-call", hc.Fn.Pos(), "no handler invocation")
			continue
		}
		// status.FromError(x) with x derived from the handler error
		var fromErr *ssa.Call
		for _, call := range core.CallsIn(hc.Fn, func(_ *ssa.Call, ci core.CallInfo) bool {
			return ci.Is(statusPkg+".FromError") || ci.Is(statusPkg+".Convert")
		}) {
			if derivesFromHandlerErr(call.Call.Args[0], hcalls) {
				fromErr = call
			}
		}
		// … or by a helper of the package that is handed the handler's error and converts it
		var guardAt ssa.Instruction = fromErr
		if fromErr == nil {
			for _, h := range core.HelperCallsOf(hc.Fn) {
				for _, call := range core.CallsIn(h.Callee, func(_ *ssa.Call, ci core.CallInfo) bool {
					return ci.Is(statusPkg+".FromError") || ci.Is(statusPkg+".Convert")
				}) {
					if derivesFromHandlerErrBound(call.Call.Args[0], hcalls, h.Bind) {
						fromErr = call
						guardAt = h.Call
					}
				}
			}
		}
		if fromErr == nil {
			c.Fail(key+":status-from-error", hc.Fn.Pos(), "the handler's error is not converted with status.FromError")
			continue
		}
		g := core.GuardedBy(guardAt, func(f core.Fact) bool { return f.Op == token.NEQ && core.IsNilConst(f.Y) && isErrResultOf(f.X, hcalls) })
		c.Check(g, key+":on-error-edge", fromErr.Pos(), "conversion on the handlerErr != nil edge", "status conversion is not on the handler-error != nil edge")
		// OK → Internal rewrite (sibling rule)
		var stUse ssa.Value
		if hc.Stream {
			// the status whose Proto() feeds the trailer fields
			for _, call := range core.CallsIn(hc.Fn, func(_ *ssa.Call, ci core.CallInfo) bool { return ci.Name == "Proto" && ci.Recv == "Status" }) {
				for _, r := range core.Refs(call) {
					if fa, ok := r.(*ssa.FieldAddr); ok {
						if _, f, _ := core.FieldOf(fa); f == "Code" {
							for _, rr := range core.Refs(fa) {
								if u, ok := rr.(*ssa.UnOp); ok && len(core.Refs(u)) > 0 {
									stUse = call.Call.Args[0]
								}
							}
						}
					}
				}
			}
		} else {
			for _, rc := range rendererCalls(hc.Fn) {
				stUse = rc.Call.Args[1]
			}
		}
		if stUse == nil {
			c.Fail(key+":ok-rewrite", fromErr.Pos(), "cannot find where the converted status is used")
		} else {
			// what goes on the wire is status.FromError's reading of the handler's error (which, for an error that
			// wraps a status error, keeps the wrapper's text in the message) — not a status dug out of the error by
			// other means
			if bad := foreignStatusSource(stUse, 0); bad != "" {
				c.Fail(key+":status-is-FromErrors", fromErr.Pos(), "the status sent for the handler's error can come from %s instead of status.FromError / status.Convert: what callers of a real gRPC server get for the same error (code and message as FromError reads them) and what this server sends differ", bad)
			} else {
				c.Ok(key+":status-is-FromErrors", fromErr.Pos(), "every source of the status sent is status.FromError / Convert (or the OK→Internal rewrite of it)")
			}
			c.Check(okRewritten(stUse), key+":ok-rewrite", fromErr.Pos(), "code OK is rewritten to a non-OK constant before the status goes on the wire", "an error whose status code is OK would be sent as success (no OK→Internal rewrite on this path; its sibling has one)")
		}
		if hc.Stream {
			// trailer fields assigned from that status, then the trailer is written on all paths
			fields := map[string]bool{}
			core.Instrs(hc.Fn, func(in ssa.Instruction) {
				if st, ok := in.(*ssa.Store); ok {
					if base, f, ok := core.FieldOf(st.Addr); ok && core.NamedOf(base.Type()) == "HttpTrailer" {
						if _, sf, ok := core.FieldOf(throughSanitiser(st.Val)); ok && sf == f {
							fields[f] = true
						}
					}
				}
			})
			c.Check(fields["Code"] && fields["Message"] && fields["Details"], key+":trailer-from-status", fromErr.Pos(), "trailer Code/Message/Details assigned from the status proto", fmt.Sprintf("trailer is not filled with all of Code/Message/Details from the handler's status (found %v)", keysOf(fields)))
		}
	}
}

func keysOf(m map[string]bool) []string {
	var out []string
	for k := range m {
		out = append(out, k)
	}
	sort.Strings(out)
	return out
}

func derivesFromHandlerErr(v ssa.Value, hcalls []*ssa.Call) bool {
	return core.OriginIs(v, func(o ssa.Value) bool {
		if isErrResultOf(o, hcalls) {
			return true
		}
		// through a translator call
		if call, _, ok := core.CallResult(o); ok && len(call.Call.Args) == 1 && core.IsErrorType(call.Call.Args[0].Type()) {
			return derivesFromHandlerErr(call.Call.Args[0], hcalls)
		}
		return false
	})
}

// derivesFromHandlerErrBound: like derivesFromHandlerErr for a value inside a
// helper, whose parameters stand for the arguments of the call (bind).
func derivesFromHandlerErrBound(v ssa.Value, hcalls []*ssa.Call, bind map[ssa.Value]ssa.Value) bool {
	return core.OriginIs(v, func(o ssa.Value) bool {
		if a, ok := bind[o]; ok {
			return derivesFromHandlerErr(a, hcalls)
		}
		if call, _, ok := core.CallResult(o); ok && len(call.Call.Args) == 1 && core.IsErrorType(call.Call.Args[0].Type()) {
			return derivesFromHandlerErrBound(call.Call.Args[0], hcalls, bind)
		}
		return false
	})
}

// handlerErrProvenance: ev (in fn) is the error result of a handler
// invocation in fn (or its parent chain), or a parameter of fn that every
// caller feeds from such a result.
func handlerErrProvenance(p *core.Prog, fn *ssa.Function, ev ssa.Value) bool {
	return handlerErrProvenanceDepth(p, fn, ev, 0)
}

func handlerErrProvenanceDepth(p *core.Prog, fn *ssa.Function, ev ssa.Value, depth int) bool {
	hs := handlerInvocations(fn)
	if core.OriginIs(ev, func(o ssa.Value) bool { return isErrResultOf(o, hs) }) {
		return true
	}
	ok := false
	for _, o := range core.Origins(ev) {
		par, isPar := o.(*ssa.Parameter)
		if !isPar {
			continue
		}
		idx := -1
		for i, pp := range fn.Params {
			if pp == par {
				idx = i
			}
		}
		for _, caller := range p.LibFuncs("inprocgrpc") {
			for _, call := range core.CallsIn(caller, func(_ *ssa.Call, ci core.CallInfo) bool { return ci.Static == fn }) {
				arg := call.Call.Args[idx]
				// caller is a deferred closure reading the cell assigned from the handler invocation in its parent
				root := caller
				for root.Parent() != nil {
					root = root.Parent()
				}
				var all []*ssa.Call
				core.InstrsDeep(root, func(f *ssa.Function, in ssa.Instruction) {
					if cc, isC := in.(*ssa.Call); isC {
						if _, isH := isHandlerInvocation(&cc.Call); isH {
							all = append(all, cc)
						}
					}
				})
				if core.OriginIs(arg, func(o ssa.Value) bool { return isErrResultOf(o, all) }) {
					ok = true
				}
				// handed on from the caller's own parameter (a step function of the finisher)
				if !ok && depth < 2 && caller.Parent() == nil && handlerErrProvenanceDepth(p, caller, arg, depth+1) {
					ok = true
				}
			}
		}
	}
	return ok
}

// ---------------------------------------------------------------------------

func c02Components(c *core.Ctx) {
	p := c.P
	want := []string{"Code", "Message", "Details"}
	isStatusish := func(t types.Type) string {
		q := core.QualNamedOf(t)
		switch {
		case strings.HasSuffix(q, "httpgrpc.HttpTrailer"):
			return "HttpTrailer"
		case strings.HasSuffix(q, "rpc/status.Status"):
			return "spb.Status"
		}
		return ""
	}
	n := 0
	for _, fn := range p.LibFuncs("httpgrpc") {
		// transfers: store to field F of a status-ish struct whose value is a load of field F of the other
		got := map[string]map[string]bool{} // dstType -> fields
		var pos token.Pos
		core.Instrs(fn, func(in ssa.Instruction) {
			st, ok := in.(*ssa.Store)
			if !ok {
				return
			}
			dbase, df, ok := core.FieldOf(st.Addr)
			if !ok {
				return
			}
			dt := isStatusish(dbase.Type())
			if dt == "" {
				return
			}
			src := throughSanitiser(st.Val)
			if cv, ok := src.(*ssa.Convert); ok {
				src = cv.X
			}
			if _, isConst := src.(*ssa.Const); isConst {
				return // e.g. the OK→Internal rewrite or the initial OK trailer
			}
			transferred := false
			for _, o := range core.Origins(src) {
				if sbase, sf, ok := core.FieldOf(o); ok && sf == df && isStatusish(sbase.Type()) != "" && isStatusish(sbase.Type()) != dt {
					transferred = true
				}
				// spb.Status built from parsed header values (client unary): Code from a codes.Code, Message string, Details slice
				if dt == "spb.Status" && core.Strip(o) != nil {
					switch df {
					case "Code":
						if core.TypeStr(o.Type()) == codesPkg+".Code" || strings.HasSuffix(core.TypeStr(src.Type()), "int32") {
							transferred = true
						}
					case "Message", "Details":
						transferred = true
					}
				}
			}
			if transferred {
				if got[dt] == nil {
					got[dt] = map[string]bool{}
				}
				got[dt][df] = true
				if !pos.IsValid() {
					pos = st.Pos()
				}
			}
		})
		for dt, fields := range got {
			n++
			missing := []string{}
			for _, w := range want {
				if !fields[w] {
					missing = append(missing, w)
				}
			}
			key := core.FuncName(fn) + ":to-" + dt
			c.Check(len(missing) == 0, key, pos, "Code, Message and Details all transferred", fmt.Sprintf("conversion to %s drops %v: the client would not see the handler's complete status", dt, missing))
		}
	}
	// unary header form: "%d:%s" with Code and Message (C14/R3 checks the value) + a loop adding every detail
	for _, hc := range httpHandlerClosures(p) {
		if hc.Stream {
			continue
		}
		n++
		key := core.FuncName(hc.Fn) + ":to-headers"
		adds := core.CallsIn(hc.Fn, func(call *ssa.Call, ci core.CallInfo) bool {
			if !ci.Is("net/http.Header.Add") {
				return false
			}
			g, ok := core.GlobalLoad(call.Call.Args[1])
			return ok && strings.Contains(strings.ToLower(g), "detail")
		})
		okDetails := false
		for _, a := range adds {
			// inside a loop ranging over the Details field of the status proto
			if core.LoopOf(hc.Fn)[a.Block()] >= 0 {
				okDetails = true
			}
		}
		c.Check(okDetails, key, hc.Fn.Pos(), "every detail is added as a details header (loop over statProto.Details)", "error details are not all added to the reply headers")
	}
	// client side: details header decoded in a loop and attached
	_ = n
}

// c02TrailerIffNegative: in the HTTP response reader the trailer decode is
// taken exactly on the "size < 0" edge (the writer negates the size iff end).
func c02TrailerIffNegative(c *core.Ctx) {
	p := c.P
	readers := prefaceReaders(p)
	n := 0
	for _, fn := range p.LibFuncs("httpgrpc") {
		if fn.Parent() != nil || !mustCallRoundTrip(fn, 0) {
			continue
		}
		for _, call := range core.CallsIn(fn, func(_ *ssa.Call, ci core.CallInfo) bool { return ci.Static != nil && ci.Static.Parent() == nil }) {
			// a decode into the stream's trailer field
			isTr := false
			for _, a := range call.Call.Args {
				for _, o := range core.Origins(a) {
					if fa, ok := o.(*ssa.FieldAddr); ok {
						if _, f, _ := core.FieldOf(fa); f == "tr" {
							isTr = true
						}
					}
				}
			}
			if !isTr {
				continue
			}
			n++
			key := core.FuncName(fn) + ":trailer-iff-negative"
			ok := core.GuardedExactlyBy(call, func(f core.Fact) bool {
				k, isC := core.ConstInt(f.Y)
				return isC && k == 0 && f.Op == token.LSS && isPrefaceResult(p, stripNum(f.X), readers)
			})
			c.Check(ok, key, call.Pos(), "the trailer frame is recognised exactly by size < 0", "the trailer decode is not taken exactly on the 'size < 0' edge: a zero-length data frame (an empty message) would be taken for the trailer, ending the stream as success and dropping what follows")
		}
	}
	if n == 0 {
		c.Fail("httpgrpc:trailer-decode", token.NoPos, "ANCHOR-MISSING: no trailer decode found in the response reader")
	}
}

// frameKinds: field name → kind constant, derived from the frame type's kind method.
func frameKinds(p *core.Prog) map[string]int64 {
	out := map[string]int64{}
	nt := p.Named("inprocgrpc", "frame")
	if nt == nil {
		return out
	}
	km := declaredMethod(p, nt, "kind")
	if km == nil {
		return out
	}
	for _, r := range core.Returns(km) {
		k, ok := core.ConstInt(r.Results[0])
		if !ok {
			continue
		}
		// the innermost "field != nil" fact
		for _, ef := range core.DominatingFacts(r) {
			if ef.Fact.Op == token.NEQ && core.IsNilConst(ef.Fact.Y) && ef.B.Succs[ef.Succ] == r.Block() {
				if _, f, ok := core.FieldOf(ef.Fact.X); ok {
					out[f] = k
				}
				if fl, ok := ef.Fact.X.(*ssa.Field); ok {
					st := fl.X.Type().Underlying().(*types.Struct)
					out[core.FieldName(st, fl.Field)] = k
				}
			}
		}
	}
	return out
}

// c02NoFrameDropped: on the client side, once a frame was received, the
// error-kind and data-kind edges must lead to consumption (err returned,
// data copied) or to saving the frame for the next receive.
func c02NoFrameDropped(c *core.Ctx) {
	p := c.P
	kinds := frameKinds(p)
	kErr, ok1 := kinds["err"]
	kData, ok2 := kinds["data"]
	if !ok1 || !ok2 {
		c.Fail("inprocgrpc.frame:kinds", token.NoPos, "ANCHOR-MISSING: cannot derive the error/data kind constants from the frame type's kind method (got %v)", kinds)
		return
	}
	n := 0
	for _, nt := range streamTypes(p, "ClientStream", "RecvMsg") {
		if pkgSuffixOf(nt) != "inprocgrpc" {
			continue
		}
		for _, fn := range typeFuncs(p, nt) {
			if fn == nil || fn.Blocks == nil {
				continue
			}
			if len(msgReceives(fn, nt.Obj().Name())) == 0 {
				hasRecvPar := false
				for _, pp := range fn.Params {
					if core.NamedOf(pp.Type()) == "frame" && isReceivedFrame(pp, 0) {
						hasRecvPar = true
					}
				}
				if !hasRecvPar {
					continue
				}
			}
			for _, ef := range core.EdgeFactsOf(fn) {
				f := ef.Fact
				if f.Op != token.EQL {
					continue
				}
				k, isC := core.ConstInt(f.Y)
				kc, isCall := f.X.(*ssa.Call)
				if !isC || !isCall || core.InfoOf(&kc.Call).Name != "kind" || (k != kErr && k != kData) {
					continue
				}
				// only frames received in this function (not the peeked one, which was saved earlier)
				if !core.OriginIs(kc.Call.Args[0], func(o ssa.Value) bool {
					cr := core.ResultPart(o)
					if cr != nil && core.InfoOf(&cr.Call).Static != nil && receivesFromParam(core.InfoOf(&cr.Call).Static) {
						return true
					}
					par, isPar := o.(*ssa.Parameter)
					return isPar && isReceivedFrame(par, 0)
				}) {
					continue
				}
				n++
				what := "error"
				if k == kData {
					what = "data"
				}
				key := fmt.Sprintf("%s:%s-frame-consumed", core.FuncName(fn), what)
				consumed := func(in ssa.Instruction) bool {
					switch x := in.(type) {
					case *ssa.Store:
						if _, fld, ok := core.FieldOf(x.Addr); ok && fld == "last" && !core.IsNilConst(x.Val) {
							return true
						}
					case *ssa.Call:
						if isClonerCall(&x.Call, "Copy") {
							return true
						}
					case *ssa.Return:
						for _, res := range x.Results {
							if core.IsErrorType(res.Type()) && core.OriginIs(res, func(o ssa.Value) bool {
								if cr, _, ok := core.CallResult(o); ok && len(cr.Call.Args) == 1 {
									return core.OriginIs(cr.Call.Args[0], func(a ssa.Value) bool { _, fld, ok := core.FieldOf(a); return ok && fld == "err" })
								}
								_, fld, ok := core.FieldOf(o)
								return ok && fld == "err"
							}) {
								return true
							}
						}
					}
					return false
				}
				v := core.Walk(core.Loc{B: ef.B.Succs[ef.Succ], Idx: 0}, consumed, nil)
				dropped := false
				for _, r := range core.Returns(fn) {
					if v[r] && !consumed(r) {
						dropped = true
					}
				}
				c.Check(!dropped, key, ef.If.Pos(), "a received "+what+" frame is returned/copied or saved for the next receive on every path", "a received "+what+" frame can be dropped (neither consumed nor saved as the peeked frame): the handler's "+map[string]string{"error": "error status", "data": "message"}[what]+" is lost and the stream then ends as success")
			}
		}
	}
	if n < 2 {
		c.Fail("inprocgrpc:frame-kind-switches", token.NoPos, "ANCHOR-MISSING: expected kind switches on received frames in the client stream, found %d", n)
	}
}

// c02CodeWireType: the unary status header carries the code as a signed
// 32-bit number on both sides.
func c02CodeWireType(c *core.Ctx) {
	p := c.P
	var srvType, cliBits string
	var pos token.Pos
	for _, hc := range httpHandlerClosures(p) {
		if hc.Stream {
			continue
		}
		for _, sc := range core.CallsIn(hc.Fn, func(call *ssa.Call, ci core.CallInfo) bool { return ci.Is("net/http.Header.Set") }) {
			k, ok := core.ConstString(sc.Call.Args[1])
			if !ok || !strings.Contains(strings.ToLower(k), "status") {
				continue
			}
			if _, args, unp := core.FormatOf(sc.Call.Args[2]); unp && len(args) >= 2 {
				srvType = core.TypeStr(core.Strip(args[0]).Type().Underlying())
				pos = sc.Pos()
			}
		}
	}
	for _, fn := range p.LibFuncs("httpgrpc") {
		if fn.Signature.Results().Len() == 1 && core.TypeStr(fn.Signature.Results().At(0).Type()) == "*"+statusPkg+".Status" && len(fn.Params) == 1 {
			// the decoder and the helpers of the package it hands the reply to
			family := []*ssa.Function{fn}
			for _, h := range core.HelperCallsOf(fn) {
				if core.PkgIs(h.Callee, "httpgrpc") {
					family = append(family, h.Callee)
				}
			}
			for _, f := range family {
				for _, pc := range core.CallsIn(f, func(_ *ssa.Call, ci core.CallInfo) bool {
					return ci.Is("strconv.ParseInt") || ci.Is("strconv.ParseUint")
				}) {
					bits, _ := core.ConstInt(pc.Call.Args[2])
					cliBits = fmt.Sprintf("%s/%d", core.InfoOf(&pc.Call).Name, bits)
				}
			}
		}
	}
	ok := srvType == "int32" && cliBits == "ParseInt/32"
	c.Check(ok, "unary-status-header:code-wire-type", pos, "server formats an int32, client parses a signed 32-bit integer", fmt.Sprintf("server formats the code as %s but the client parses it with %s: some (out-of-range) codes would not survive and fall back to the HTTP approximation", srvType, cliBits))
}

// c02MessageVerbatim: on the unary HTTP path the status message crosses as
// text after the first ':' of the status header. Writer: the %s operand of the
// header value is the Message field / Message() of the status itself. Reader:
// what becomes the status message is the part after the first colon (SplitN
// with n=2) or the HTTP status text, with no other transformation. Either side
// transforming it (escaping, trimming, unescaping) without its twin alters the
// message for some inputs.
func c02MessageVerbatim(c *core.Ctx) {
	p := c.P
	accessor := func(call *ssa.Call) (ssa.Value, bool) {
		ci := core.InfoOf(&call.Call)
		// st.Message(), st.Proto(): accessors of the status object
		if strings.HasSuffix(ci.Pkg, "grpc/status") || strings.HasSuffix(ci.Pkg, "internal/status") {
			if ci.Name == "Message" || ci.Name == "Proto" || ci.Name == "GetMessage" {
				return nil, true
			}
		}
		if ci.Name == "GetMessage" {
			return nil, true
		}
		return nil, false
	}
	// text codecs with a known inverse: accepted when the other side applies the inverse
	inverse := map[string]string{
		"net/url.PathEscape":                      "net/url.PathUnescape",
		"net/url.QueryEscape":                     "net/url.QueryUnescape",
		"strconv.Quote":                           "strconv.Unquote",
		"encoding/base64.Encoding.EncodeToString": "encoding/base64.Encoding.DecodeString",
	}
	isDecoder := map[string]bool{}
	for _, d := range inverse {
		isDecoder[d] = true
	}
	var encs, decs []string
	seenCodec := map[*ssa.Call]bool{}
	baseAccessor := accessor
	accessor = func(call *ssa.Call) (ssa.Value, bool) {
		if v, ok := baseAccessor(call); ok {
			return v, ok
		}
		full := core.InfoOf(&call.Call).Full()
		if _, ok := inverse[full]; ok {
			if !seenCodec[call] {
				seenCodec[call] = true
				encs = append(encs, full)
			}
			return call.Call.Args[len(call.Call.Args)-1], true
		}
		return nil, false
	}
	nW := 0
	for _, hc := range httpHandlerClosures(p) {
		if hc.Stream {
			continue
		}
		// the value of the status header: "<code>:<message>" however it is assembled (Sprintf, concatenation)
		for _, sp := range core.CallsIn(hc.Fn, func(call *ssa.Call, ci core.CallInfo) bool {
			if !ci.Is("net/http.Header.Set") || len(call.Call.Args) < 3 {
				return false
			}
			k, isK := core.ConstString(call.Call.Args[1])
			if !isK || !strings.Contains(strings.ToLower(k), "status") {
				return false
			}
			f, _, ok := core.FormatOf(call.Call.Args[2])
			return ok && strings.Contains(f, ":%")
		}) {
			_, args, ok := core.FormatOf(sp.Call.Args[2])
			key := core.FuncName(hc.Fn) + ":status-header:message-verbatim"
			if !ok || len(args) < 2 {
				c.Undecided(key, sp.Pos(), "cannot unpack the operands of the status header value")
				continue
			}
			nW++
			nEnc := len(encs)
			bad, undec := traceVerbatim(args[1], accessor)
			// an HTTP header value does not carry arbitrary text: net/http turns CR and LF into blanks and trims the
			// value. A message that goes into the header as it is arrives altered when it contains a line break or
			// ends in a blank; it has to pass a text codec (whose inverse the reader applies, checked below)
			if bad == "" && undec == "" {
				c.Check(len(encs) > nEnc, "httpgrpc:unary-status-header:message-header-safe", sp.Pos(), "the message passes a text codec before it becomes a header value", "the status message is put into an HTTP header value as it is: net/http replaces CR and LF by blanks and trims the value, so a message with a line break or a trailing blank reaches the caller altered (the streaming path carries the message in the trailer frame and keeps it; the standard transport percent-encodes it)")
			}
			switch {
			case bad != "":
				c.Fail(key, sp.Pos(), "the message written into the status header is not the status' own message: %s (the reader takes the text after the first ':' as is)", bad)
			case undec != "":
				c.Undecided(key, sp.Pos(), "cannot trace the message operand (%s)", undec)
			default:
				c.Ok(key, sp.Pos(), "the message operand is the status' Message, unchanged")
			}
		}
	}
	if nW == 0 {
		c.Fail("httpgrpc:status-header-writer", token.NoPos, "ANCHOR-MISSING: no Sprintf(\"…:%%s\") building the unary status header found in the unary handler")
	}
	// streaming: the message goes into a proto3 string field of the trailer frame, which must be valid UTF-8 or the
	// frame cannot be marshalled at all (no trailer: the caller sees a cut reply instead of the handler's code); a
	// handler's message is arbitrary text, so it passes a UTF-8 sanitiser first (as the standard transport does)
	for _, hc := range httpHandlerClosures(p) {
		if !hc.Stream {
			continue
		}
		core.Instrs(hc.Fn, func(in ssa.Instruction) {
			st, ok := in.(*ssa.Store)
			if !ok || core.TypeStr(st.Val.Type()) != "string" {
				return
			}
			base, f, isF := core.FieldOf(st.Addr)
			if !isF || f != "Message" || !strings.HasSuffix(core.NamedOf(base.Type()), "Trailer") {
				return
			}
			var sane func(v ssa.Value, depth int) bool
			sane = func(v ssa.Value, depth int) bool {
				return core.AllOrigins(v, func(o ssa.Value) bool {
					if s, isC := core.ConstString(o); isC {
						return utf8.ValidString(s)
					}
					call, _, isCall := core.CallResult(o)
					if !isCall {
						return false
					}
					ci := core.InfoOf(&call.Call)
					if ci.Is("strings.ToValidUTF8") || ci.Is("bytes.ToValidUTF8") {
						return true
					}
					if ci.Is(codesPkg + ".Code.String") {
						return true // the names of the codes are ASCII
					}
					if ci.Static != nil && ci.Static.Blocks != nil && strings.HasPrefix(ci.Pkg, core.ModulePath) && depth < 2 && ci.Static.Signature.Results().Len() == 1 {
						for _, r := range core.Returns(ci.Static) {
							if !sane(r.Results[0], depth+1) {
								return false
							}
						}
						return true
					}
					return false
				})
			}
			c.Check(sane(st.Val, 0), core.FuncName(hc.Fn)+":trailer-message-valid-utf8", st.Pos(), "the message put into the trailer frame passed a UTF-8 sanitiser", "the handler's status message goes into the proto3 string field of the trailer frame as it is: if it is not valid UTF-8 the frame cannot be marshalled, no trailer is written and the caller sees a cut reply (Unknown: unexpected EOF) instead of the handler's code")
		})
	}
	// reader: functions returning *status.Status from an *http.Response
	nR := 0
	for _, fn := range p.LibFuncs("httpgrpc") {
		if fn.Parent() != nil || len(fn.Params) != 1 || core.TypeStr(fn.Params[0].Type()) != "*net/http.Response" || fn.Signature.Results().Len() != 1 ||
			!strings.HasSuffix(core.TypeStr(fn.Signature.Results().At(0).Type()), "status.Status") {
			continue
		}
		nR++
		key := core.FuncName(fn) + ":message-verbatim"
		parser := func(call *ssa.Call) (ssa.Value, bool) {
			ci := core.InfoOf(&call.Call)
			switch {
			case ci.Is("strings.SplitN") && len(call.Call.Args) == 3:
				sep, okS := core.ConstString(call.Call.Args[1])
				n, okN := core.ConstInt(call.Call.Args[2])
				if okS && okN && sep == ":" && n == 2 {
					return call.Call.Args[0], true
				}
			case ci.Is("strings.Cut") && len(call.Call.Args) == 2:
				if sep, okS := core.ConstString(call.Call.Args[1]); okS && sep == ":" {
					return call.Call.Args[0], true
				}
			case ci.Is("net/http.Header.Get"):
				return nil, true
			case isDecoder[ci.Full()]:
				if !seenCodec[call] {
					seenCodec[call] = true
					decs = append(decs, ci.Full())
				}
				return call.Call.Args[len(call.Call.Args)-1], true
			}
			return nil, false
		}
		var msgs []ssa.Value
		core.Instrs(fn, func(in ssa.Instruction) {
			switch x := in.(type) {
			case *ssa.Store:
				if _, f, ok := core.FieldOf(x.Addr); ok && f == "Message" {
					msgs = append(msgs, x.Val)
				}
			case *ssa.Call:
				ci := core.InfoOf(&x.Call)
				if strings.HasSuffix(ci.Pkg, "grpc/status") && (ci.Name == "New" || ci.Name == "Error") && len(x.Call.Args) == 2 {
					msgs = append(msgs, x.Call.Args[1])
				}
			}
		})
		if len(msgs) == 0 {
			c.Fail(key, fn.Pos(), "ANCHOR-MISSING: the status parser builds no status with a message")
			continue
		}
		bad, undec := "", ""
		for _, m := range msgs {
			b, u := traceVerbatim(m, parser)
			if b != "" {
				bad = b
			}
			if u != "" {
				undec = u
			}
		}
		// whatever follows the separator IS the message, the empty text included: the edge on which the parsed
		// text replaces the fallback is not conditioned on the text's own content
		ccWhy, ccAt := "", token.NoPos
		for _, m := range msgs {
			if why, at := contentConditioned(m); why != "" && ccWhy == "" {
				ccWhy, ccAt = why, at
			}
		}
		{
			if why, at := ccWhy, ccAt; why != "" {
				c.Fail(key+":presence-not-content", at, "the parsed message replaces the fallback (the HTTP status text) only if %s: a status whose message is empty is reported with the HTTP status line as its message", why)
			} else {
				c.Ok(key+":presence-not-content", fn.Pos(), "the parsed message is taken whenever the separator is present, whatever its content")
			}
		}
		switch {
		case bad != "":
			c.Fail(key, fn.Pos(), "the status message the client reports is not the header text after the first ':' as is: %s (the writer puts the message there unchanged)", bad)
		case undec != "":
			c.Undecided(key, fn.Pos(), "cannot trace the message (%s)", undec)
		default:
			c.Ok(key, fn.Pos(), "%d message operand(s): header text after the first ':' (or the HTTP status text), unchanged", len(msgs))
		}
	}
	// the codecs applied by the two sides must be inverse of each other
	sort.Strings(encs)
	sort.Strings(decs)
	pair := len(encs) == len(decs)
	if pair {
		want := make([]string, 0, len(encs))
		for _, e := range encs {
			want = append(want, inverse[e])
		}
		sort.Strings(want)
		for i := range want {
			if want[i] != decs[i] {
				pair = false
			}
		}
	}
	c.Check(pair, "httpgrpc:status-header:codec-agreement", token.NoPos, fmt.Sprintf("writer applies %v, reader applies %v", encs, decs), fmt.Sprintf("the writer of the status header applies %v to the message but the reader applies %v: not inverse of each other, some messages arrive altered", encs, decs))
	if nR == 0 {
		c.Fail("httpgrpc:status-header-reader", token.NoPos, "ANCHOR-MISSING: no function building a *status.Status from an *http.Response")
	}
}

// isStatusErrValue: v is by construction a status error (never io.EOF).
func isStatusErrValue(v ssa.Value) bool {
	call, idx, ok := core.CallResult(v)
	if !ok || idx != 0 {
		return false
	}
	ci := core.InfoOf(&call.Call)
	if ci.Static != nil && ci.Static.Blocks != nil && strings.HasPrefix(ci.Pkg, core.ModulePath) {
		return returnsOnlyStatusErrors(ci.Static, 0)
	}
	if !strings.HasSuffix(ci.Pkg, "grpc/status") && !strings.HasSuffix(ci.Pkg, "grpc/internal/status") {
		return false
	}
	switch ci.Name {
	case "Err", "Error", "Errorf":
		return true
	}
	return false
}

var statusOnlyMemo = map[*ssa.Function]int{} // 1 yes, 2 no, 3 in progress

// returnsOnlyStatusErrors: every return of the (library) function yields nil or
// a status error in its error result.
func returnsOnlyStatusErrors(fn *ssa.Function, depth int) bool {
	switch statusOnlyMemo[fn] {
	case 1:
		return true
	case 2, 3:
		return false
	}
	if depth > 2 {
		return false
	}
	statusOnlyMemo[fn] = 3
	idx := core.ErrResultIndex(fn.Signature)
	ok := idx >= 0
	for _, r := range core.Returns(fn) {
		if !ok {
			break
		}
		for _, l := range core.ErrLeaves(r.Results[idx], r) {
			if l.Class == core.ErrNil || statusGuardedLeaf(l) {
				continue
			}
			ok = false
		}
	}
	if ok {
		statusOnlyMemo[fn] = 1
	} else {
		statusOnlyMemo[fn] = 2
	}
	return ok
}

// c02ErrFrameIsStatus implements R5 for the stream path of the in-process
// transport (server-stream types: the frames they write are consumed by the
// client stream, which returns frame.err unchanged).
func c02ErrFrameIsStatus(c *core.Ctx) {
	p := c.P
	n := 0
	clientSide := c02ClientConvertsFrameErr(p)
	for _, nt := range streamTypes(p, "ServerStream", "SendMsg") {
		if pkgSuffixOf(nt) != "inprocgrpc" {
			continue
		}
		for _, fn := range typeFuncs(p, nt) {
			if fn == nil || fn.Blocks == nil {
				continue
			}
			for _, fs := range frameFieldSets(fn, "err") {
				st := struct {
					Val ssa.Value
					pos token.Pos
				}{fs.Val, fs.At.Pos()}
				if !core.IsErrorValue(st.Val) || core.IsNilConst(st.Val) {
					continue
				}
				n++
				key := core.FuncName(fn) + ":error-frame:is-status-error"
				bad := ""
				for _, l := range core.ErrLeaves(st.Val, fs.At) {
					if l.Class == core.ErrNil || isStatusErrValue(l.V) {
						continue
					}
					// the handler's error itself: only where status.FromError said ok
					leaf := l.V
					g := core.LeafGuarded(l, func(fc core.Fact) bool {
						if fc.Op != token.ILLEGAL || fc.Neg {
							return false
						}
						ex, isEx := fc.X.(*ssa.Extract)
						if !isEx || ex.Index != 1 {
							return false
						}
						call, isC := ex.Tuple.(*ssa.Call)
						if !isC || !core.InfoOf(&call.Call).Is("google.golang.org/grpc/status.FromError") {
							return false
						}
						return core.SameVal(call.Call.Args[0], leaf) || sameOrigins(call.Call.Args[0], leaf)
					})
					if !g {
						bad = "the error put into the frame can be a plain Go error (" + core.ValName(leaf) + " is not known to be a status error here)"
					}
				}
				if bad != "" && clientSide {
					c.Ok(key, st.pos, "the frame may carry a plain error, but every return of a frame's error in the client stream's receive path is a status error (converted on the receiving side)")
					continue
				}
				c.Check(bad == "", key, st.pos, "every value the error frame can carry is a status error", bad+": a streaming handler that returns io.EOF (the classic `return err` after Recv) ends the client's stream with a bare io.EOF, which is the success sentinel — the failed call is reported as success; the standard transport reports Unknown")
			}
		}
	}
	if n == 0 {
		c.Fail("inprocgrpc:error-frame", token.NoPos, "ANCHOR-MISSING: no method of an in-process server stream type stores an error into a frame")
	}
}

// statusGuardedLeaf: the leaf is a status error by construction or sits on the
// ok edge of status.FromError of itself.
func statusGuardedLeaf(l core.ErrLeaf) bool {
	if isStatusErrValue(l.V) {
		return true
	}
	leaf := l.V
	return core.LeafGuarded(l, func(fc core.Fact) bool {
		if fc.Op != token.ILLEGAL || fc.Neg {
			return false
		}
		ex, isEx := fc.X.(*ssa.Extract)
		if !isEx || ex.Index != 1 {
			return false
		}
		call, isC := ex.Tuple.(*ssa.Call)
		if !isC || !core.InfoOf(&call.Call).Is("google.golang.org/grpc/status.FromError") {
			return false
		}
		return core.SameVal(call.Call.Args[0], leaf) || sameOrigins(call.Call.Args[0], leaf)
	})
}

// c02ClientConvertsFrameErr: the alternative place for the D16 repair. True if
// the in-process client stream's receive family returns a received frame's
// error only as a status error (and returns it at least once).
func c02ClientConvertsFrameErr(p *core.Prog) bool {
	isFrameErr := func(v ssa.Value) bool {
		return core.OriginIs(v, func(o ssa.Value) bool {
			base, f, ok := core.FieldOf(o)
			return ok && f == "err" && core.NamedOf(base.Type()) == "frame"
		})
	}
	found, allOK := false, true
	for _, nt := range streamTypes(p, "ClientStream", "RecvMsg") {
		if pkgSuffixOf(nt) != "inprocgrpc" {
			continue
		}
		for _, fn := range methodFamily(p, nt, "RecvMsg") {
			for _, r := range core.Returns(fn) {
				if len(r.Results) == 0 || !core.IsErrorValue(r.Results[len(r.Results)-1]) {
					continue
				}
				for _, l := range core.ErrLeaves(r.Results[len(r.Results)-1], r) {
					derived := isFrameErr(l.V)
					if call, _, ok := core.CallResult(l.V); ok && !derived {
						for _, a := range call.Call.Args {
							if isFrameErr(a) {
								derived = true
							}
						}
					}
					if !derived {
						continue
					}
					found = true
					if !statusGuardedLeaf(l) {
						allOK = false
					}
				}
			}
		}
	}
	return found && allOK
}

// contentConditioned: walking the phis that merge into v, reports an edge whose
// incoming value is a piece of a split string (strings.Cut / SplitN element)
// and which is dominated by a test of that very piece (compared with a
// constant, or its length tested).
func contentConditioned(v ssa.Value) (string, token.Pos) {
	isPiece := func(e ssa.Value) bool {
		if ex, ok := e.(*ssa.Extract); ok {
			if call, ok := ex.Tuple.(*ssa.Call); ok && core.InfoOf(&call.Call).Is("strings.Cut") {
				return true
			}
		}
		if u, ok := e.(*ssa.UnOp); ok && u.Op == token.MUL {
			if ia, ok := u.X.(*ssa.IndexAddr); ok {
				for _, o := range core.Origins(ia.X) {
					if call, _, ok := core.CallResult(o); ok && strings.HasPrefix(core.InfoOf(&call.Call).Full(), "strings.Split") {
						return true
					}
				}
			}
		}
		return false
	}
	same := func(a, b ssa.Value) bool {
		if a == b {
			return true
		}
		ua, ok1 := a.(*ssa.UnOp)
		ub, ok2 := b.(*ssa.UnOp)
		if ok1 && ok2 && ua.Op == token.MUL && ub.Op == token.MUL {
			ia, ok1 := ua.X.(*ssa.IndexAddr)
			ib, ok2 := ub.X.(*ssa.IndexAddr)
			if ok1 && ok2 && ia.X == ib.X && core.SameVal(ia.Index, ib.Index) {
				return true
			}
		}
		return false
	}
	seen := map[ssa.Value]bool{}
	var res string
	var at token.Pos
	// the facts under which the piece e is chosen test the piece itself?
	testsPiece := func(e ssa.Value, facts []core.EdgeFact) {
		for _, ef := range facts {
			f := ef.Fact
			for _, side := range []ssa.Value{f.X, f.Y} {
				if side == nil {
					continue
				}
				if same(side, e) {
					res, at = "its own text passes a test (compared with a constant)", condPos(ef.If)
				}
				if lc, ok := side.(*ssa.Call); ok {
					if b, isB := lc.Call.Value.(*ssa.Builtin); isB && b.Name() == "len" && same(lc.Call.Args[0], e) {
						res, at = "its own length passes a test", condPos(ef.If)
					}
				}
			}
		}
	}
	var rec func(v ssa.Value, depth int)
	rec = func(v ssa.Value, depth int) {
		if v == nil || seen[v] || depth > 8 || res != "" {
			return
		}
		seen[v] = true
		switch x := v.(type) {
		case *ssa.Phi:
			for i, e := range x.Edges {
				if isPiece(e) {
					pred := x.Block().Preds[i]
					term := pred.Instrs[len(pred.Instrs)-1]
					facts := core.DominatingFacts(term)
					if iff, ok := term.(*ssa.If); ok {
						for si, sb := range pred.Succs {
							if sb == x.Block() {
								facts = append(facts, core.EdgeFact{B: pred, Succ: si, Fact: core.CondFact(iff.Cond, si == 0), If: iff})
							}
						}
					}
					for _, ef := range facts {
						f := ef.Fact
						for _, side := range []ssa.Value{f.X, f.Y} {
							if side == nil {
								continue
							}
							if same(side, e) {
								res, at = "its own text passes a test (compared with a constant)", condPos(ef.If)
							}
							if lc, ok := side.(*ssa.Call); ok {
								if b, isB := lc.Call.Value.(*ssa.Builtin); isB && b.Name() == "len" && same(lc.Call.Args[0], e) {
									res, at = "its own length passes a test", condPos(ef.If)
								}
							}
						}
					}
				}
				rec(e, depth+1)
			}
		case *ssa.ChangeType:
			rec(x.X, depth+1)
		case *ssa.MakeInterface:
			rec(x.X, depth+1)
		case *ssa.Extract, *ssa.Call:
			// the result of a module helper: what it returns in that position
			if call, idx, ok := core.CallResult(v); ok {
				if f := core.InfoOf(&call.Call).Static; f != nil && f.Blocks != nil && strings.HasPrefix(core.InfoOf(&call.Call).Pkg, core.ModulePath) {
					for _, r := range core.Returns(f) {
						if idx < len(r.Results) {
							// a return of its own for each way the value is chosen (what the φ form above is after
							// the single exit has been split): the facts that lead to this return
							if isPiece(r.Results[idx]) {
								testsPiece(r.Results[idx], core.DominatingFacts(r))
							}
							rec(r.Results[idx], depth+1)
						}
					}
				}
			}
		}
	}
	rec(v, 0)
	return res, at
}

func condPos(iff *ssa.If) token.Pos {
	if iff == nil {
		return token.NoPos
	}
	if p := iff.Cond.Pos(); p.IsValid() {
		return p
	}
	if bo, ok := iff.Cond.(*ssa.BinOp); ok {
		if p := bo.X.Pos(); p.IsValid() {
			return p
		}
	}
	return iff.Pos()
}

// c02TranslatorsExact: a context→status translator replaces an error only if
// it IS one of the context sentinels (compared with ==): an error that merely
// wraps one (errors.Is) may carry a status of its own (GRPCStatus) or a message
// with '%' in it, and would lose the former and have the latter mangled by the
// Errorf the translator builds its status with. Every other value is returned
// as it came.
func c02TranslatorsExact(c *core.Ctx) {
	p := c.P
	n := 0
	for _, fn := range ctxTranslators(p) {
		// only the base translators (those that mention the sentinels themselves)
		mentions := false
		core.Instrs(fn, func(in ssa.Instruction) {
			if v, ok := in.(ssa.Value); ok {
				if g, ok := core.GlobalLoad(v); ok && strings.HasPrefix(g, "context.") {
					mentions = true
				}
			}
		})
		if !mentions {
			continue
		}
		n++
		key := core.FuncName(fn) + ":replaces-only-the-sentinels"
		bad := ""
		par := fn.Params[0]
		for _, call := range core.CallsIn(fn, func(_ *ssa.Call, ci core.CallInfo) bool { return ci.Is("errors.Is") || ci.Is("errors.As") }) {
			if core.OriginIs(call.Call.Args[0], func(o ssa.Value) bool { return o == ssa.Value(par) }) {
				bad = "the error is matched with " + core.InfoOf(&call.Call).Full() + ": an error that only wraps a context error (and may carry its own gRPC status) is replaced as well"
			}
		}
		for _, r := range core.Returns(fn) {
			if core.OriginIs(r.Results[0], func(o ssa.Value) bool { return o == ssa.Value(par) }) {
				continue // returned as it came
			}
			// a replacement: only where the parameter was found identical to a context sentinel
			g := core.GuardedBy(r, func(f core.Fact) bool {
				if f.Op != token.EQL {
					return false
				}
				isSent := func(v ssa.Value) bool { gl, ok := core.GlobalLoad(v); return ok && strings.HasPrefix(gl, "context.") }
				isPar := func(v ssa.Value) bool { return core.OriginIs(v, func(o ssa.Value) bool { return o == ssa.Value(par) }) }
				return (isSent(f.Y) && isPar(f.X)) || (isSent(f.X) && isPar(f.Y))
			})
			if !g && bad == "" {
				bad = "a replacement status is returned on a path where the error was not found identical (==) to a context sentinel"
			}
		}
		c.Check(bad == "", key, fn.Pos(), "the translator replaces exactly context.Canceled / context.DeadlineExceeded and returns everything else as it came", bad+": the handler's own status is lost (or its message, used as a format string, mangled)")
	}
	if n == 0 {
		c.Fail("translators:exact", token.NoPos, "ANCHOR-MISSING: no context→status translator found")
	}
}

// throughSanitiser: a string that merely passed a UTF-8 sanitiser is, for the
// component rules, the string it was made from.
func throughSanitiser(v ssa.Value) ssa.Value {
	if call, ok := core.Strip(v).(*ssa.Call); ok {
		if ci := core.InfoOf(&call.Call); (ci.Is("strings.ToValidUTF8") || ci.Is("bytes.ToValidUTF8")) && len(call.Call.Args) == 2 {
			return call.Call.Args[0]
		}
	}
	return v
}

// foreignStatusSource: a source of the *status.Status v that is not
// status.FromError / Convert / FromProto / a status constructor (followed
// through module functions' returns); "" if there is none.
func foreignStatusSource(v ssa.Value, depth int) string {
	if depth > 3 {
		return ""
	}
	for _, o := range core.Origins(v) {
		if core.IsNilConst(o) {
			continue
		}
		if _, isPar := o.(*ssa.Parameter); isPar {
			continue
		}
		call, idx, ok := core.CallResult(o)
		if !ok {
			continue
		}
		ci := core.InfoOf(&call.Call)
		switch {
		case ci.Is(statusPkg + ".FromError"), ci.Is(statusPkg + ".Convert"), ci.Is(statusPkg + ".FromProto"), ci.Is(statusPkg + ".New"), ci.Is(statusPkg + ".Newf"), ci.Is(statusPkg + ".FromContextError"):
		case ci.Static != nil && ci.Static.Blocks != nil && strings.HasPrefix(ci.Pkg, core.ModulePath):
			for _, r := range core.Returns(ci.Static) {
				if idx < len(r.Results) {
					if b := foreignStatusSource(r.Results[idx], depth+1); b != "" {
						return b
					}
				}
			}
		case ci.Recv == "Status" && (ci.Name == "WithDetails"):
		default:
			return ci.Full()
		}
	}
	return ""
}
