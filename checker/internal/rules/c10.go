package rules

import (
	"fmt"
	"go/token"
	"go/types"
	"strings"

	"golang.org/x/tools/go/ssa"

	"verif/checker/internal/core"
)

func init() { register("C10", c10) }

// ctxPath is one derivation path of a context value: the layers from the
// value down to where the walk stopped, and why it stopped.
type ctxPath struct {
	Layers []string
	End    string      // "wrap", "root:<name>", "cut"
	Vals   []ssa.Value // value-carrying arguments of the layers (e.g. the MD given to NewIncomingContext), parallel to Layers (may be nil)
}

// layersDownToWrap enumerates the derivation paths of v down to the first
// struct wrapper layer (included) or to a root.
func layersDownToWrap(p *core.Prog, v ssa.Value) []ctxPath {
	var out []ctxPath
	var rec func(v ssa.Value, layers []string, vals []ssa.Value, cont []func() (ssa.Value, *ssa.Function), stop *ssa.Function, onPath map[ssa.Value]bool, depth int)
	emit := func(layers []string, vals []ssa.Value, end string) {
		if len(out) < 400 {
			out = append(out, ctxPath{append([]string{}, layers...), end, append([]ssa.Value{}, vals...)})
		}
	}
	rec = func(v ssa.Value, layers []string, vals []ssa.Value, cont []func() (ssa.Value, *ssa.Function), stop *ssa.Function, onPath map[ssa.Value]bool, depth int) {
		if v == nil || depth > 60 || len(out) >= 400 {
			emit(layers, vals, "cut")
			return
		}
		if onPath[v] {
			return
		}
		onPath[v] = true
		defer delete(onPath, v)
		next := func(nv ssa.Value) { rec(nv, layers, vals, cont, stop, onPath, depth+1) }
		switch x := v.(type) {
		case *ssa.Const:
			return
		case *ssa.Phi:
			for _, e := range x.Edges {
				next(e)
			}
			return
		case *ssa.ChangeInterface:
			next(x.X)
			return
		case *ssa.ChangeType:
			next(x.X)
			return
		case *ssa.MakeInterface:
			if nt := core.NamedOf(x.X.Type()); nt != "" && embeddedCtx(x.X) != nil {
				emit(append(layers, "wrap:"+nt), append(vals, embeddedCtx(x.X)), "wrap")
				return
			}
			next(x.X)
			return
		case *ssa.FreeVar:
			if r := core.ResolveFree(x); r != v {
				next(r)
				return
			}
		case *ssa.Parameter:
			fn := x.Parent()
			if fn == stop && len(cont) > 0 {
				// continue in the caller with the argument
				c0 := cont[len(cont)-1]
				nv, nstop := c0()
				rec(nv, layers, vals, cont[:len(cont)-1], nstop, onPath, depth+1)
				return
			}
			if isEntryFunc(fn) {
				emit(layers, vals, "root:param:"+core.FuncName(fn))
				return
			}
			idx := -1
			for i, pp := range fn.Params {
				if pp == x {
					idx = i
				}
			}
			n := 0
			for _, caller := range p.LibFuncs("") {
				core.Instrs(caller, func(in ssa.Instruction) {
					cc := core.CallOf(in)
					if cc == nil {
						return
					}
					tgt := core.InfoOf(cc).Static
					if tgt == nil {
						for _, o := range core.Origins(cc.Value) {
							if mc, ok := o.(*ssa.MakeClosure); ok {
								tgt = mc.Fn.(*ssa.Function)
							}
						}
					}
					if tgt == fn && idx < len(cc.Args) {
						n++
						next(cc.Args[idx])
					}
				})
			}
			if n == 0 {
				emit(layers, vals, "root:param:"+core.FuncName(fn))
			}
			return
		case *ssa.UnOp:
			if x.Op == token.MUL {
				switch a := x.X.(type) {
				case *ssa.Alloc:
					sts, _ := core.ReachingStores(x)
					for _, s := range sts {
						next(s.Val)
					}
					if len(sts) > 0 {
						return
					}
				case *ssa.FreeVar:
					if al, ok := core.ResolveFree(a).(*ssa.Alloc); ok {
						for _, s := range core.VisibleStores(al, x.Parent()) {
							next(s.Val)
						}
						return
					}
				case *ssa.FieldAddr:
					if fv := core.ForwardedFieldStore(x, a); fv != nil {
						next(fv)
						return
					}
					tn := core.QualNamedOf(a.X.Type())
					st := derefStructT(a.X.Type())
					if st != nil && tn != "" {
						fname := core.FieldName(st, a.Field)
						n := 0
						for _, fn := range p.LibFuncs("") {
							core.Instrs(fn, func(in ssa.Instruction) {
								s, ok := in.(*ssa.Store)
								if !ok {
									return
								}
								fa2, ok := s.Addr.(*ssa.FieldAddr)
								if !ok || core.QualNamedOf(fa2.X.Type()) != tn {
									return
								}
								if st2 := derefStructT(fa2.X.Type()); st2 != nil && core.FieldName(st2, fa2.Field) == fname {
									n++
									next(s.Val)
								}
							})
						}
						if n > 0 {
							return
						}
					}
				}
			}
		case *ssa.Extract:
			if call, ok := x.Tuple.(*ssa.Call); ok && x.Index == 0 {
				v = call
			} else {
				emit(layers, vals, "root:unknown:"+core.ValName(v))
				return
			}
		}
		if call, ok := v.(*ssa.Call); ok {
			ci := core.InfoOf(&call.Call)
			switch ci.Full() {
			case "context.Background", "context.TODO":
				emit(layers, vals, "root:background")
				return
			case "net/http.Request.Context":
				emit(layers, vals, "root:request")
				return
			}
			if nxt, name, ok := ctxDeriving(call); ok {
				if ci.Static != nil && ci.Static.Blocks != nil && strings.HasPrefix(ci.Pkg, core.ModulePath) {
					// expand the repo function inline: walk its returns, continue with the argument at its ctx parameter
					callee := ci.Static
					prevStop := stop
					for _, r := range core.Returns(callee) {
						c1 := append(append([]func() (ssa.Value, *ssa.Function){}, cont...), func() (ssa.Value, *ssa.Function) { return nxt, prevStop })
						rec(r.Results[0], layers, vals, c1, callee, onPath, depth+1)
					}
					return
				}
				var carried ssa.Value
				for _, a := range call.Call.Args {
					if a != nxt {
						carried = a
					}
				}
				short := name
				rec(nxt, append(layers, short), append(vals, carried), cont, stop, onPath, depth+1)
				return
			}
			emit(layers, vals, "root:unknown:call "+ci.Full())
			return
		}
		emit(layers, vals, "root:unknown:"+core.ValName(v))
	}
	rec(v, nil, nil, nil, nil, map[ssa.Value]bool{}, 0)
	return out
}

// sanctioned layers above the value-blocking wrapper.
var c10Sanctioned = map[string]bool{
	metadataPkg + ".NewIncomingContext":              true,
	peerPkg + ".NewContext":                          true,
	"context.WithValue":                              true, // only with the package's private key (checked)
	grpcPkg + ".NewContextWithServerTransportStream": true,
	"context.WithCancel":                             true,
	"context.WithTimeout":                            true,
	"context.WithDeadline":                           true,
}

func c10(c *core.Ctx) {
	p := c.P
	c.Explain = "C10: the value-blocking wrapper is found by role (a struct embedding context.Context declared in inprocgrpc) and shown to declare only Value, returning the nil constant without consulting the embedded context; every derivation path of the context handed to an in-process handler is enumerated down to the wrapper: exactly one wrapper on each path and only sanctioned value-adding layers above it; the incoming metadata is the fresh copy returned by FromOutgoingContext; peer and the client-context back-door are checked."
	c.NotDec = []string{"library semantics of context / metadata (trusted axioms)"}

	// the wrapper role
	var wrappers []*types.Named
	if pk := p.Pkgs[core.ModulePath+"/inprocgrpc"]; pk != nil {
		sc := pk.Types.Scope()
		for _, n := range sc.Names() {
			tn, ok := sc.Lookup(n).(*types.TypeName)
			if !ok || !p.IsLibFile(tn.Pos()) {
				continue
			}
			nt, ok := tn.Type().(*types.Named)
			if !ok {
				continue
			}
			st, ok := nt.Underlying().(*types.Struct)
			if !ok {
				continue
			}
			for i := 0; i < st.NumFields(); i++ {
				if st.Field(i).Embedded() && core.TypeStr(st.Field(i).Type()) == "context.Context" {
					wrappers = append(wrappers, nt)
				}
			}
		}
	}

	// ---------------------------------------------------------------- R1
	if c.Rule("R1", "the blocking wrapper blocks: Value is its only declared method and returns the nil constant on every path without calling the embedded context", 2) {
		if len(wrappers) == 0 {
			c.Missing("value-blocking context wrapper (struct embedding context.Context) in inprocgrpc")
		}
		for _, wt := range wrappers {
			tk := typeKey(wt)
			names := []string{}
			for i := 0; i < wt.NumMethods(); i++ {
				names = append(names, wt.Method(i).Name())
			}
			c.Check(len(names) == 1 && names[0] == "Value", tk+":methods", wt.Obj().Pos(), "declares only Value (Deadline/Done/Err delegate to the embedded context)", fmt.Sprintf("wrapper declares %v: a method other than Value changes what the handler sees of the caller's deadline/cancellation", names))
			vm := declaredMethod(p, wt, "Value")
			if vm == nil {
				c.Fail(tk+".Value", wt.Obj().Pos(), "wrapper has no Value method: every caller value leaks to the handler")
				continue
			}
			okNil := true
			for _, r := range core.Returns(vm) {
				if !core.IsNilConst(r.Results[0]) {
					okNil = false
				}
			}
			calls := 0
			core.Instrs(vm, func(in ssa.Instruction) {
				if core.CallOf(in) != nil {
					calls++
				}
			})
			c.Check(okNil && calls == 0 && len(core.Returns(vm)) > 0, tk+".Value", vm.Pos(), "returns the untyped nil constant on every path, calls nothing", "Value can return something other than nil (or consults the embedded context): some caller value leaks through to the handler")
		}
		c.EndRule()
	}

	// ---------------------------------------------------------------- R2
	var mdVals []ssa.Value
	if c.Rule("R2", "the handler's context passes through the wrapper exactly once, and only sanctioned values are re-attached above it", 3) {
		n := 0
		for _, fn := range p.LibFuncs("inprocgrpc") {
			for i, hs := range handlerInvocations(fn) {
				kind, _ := isHandlerInvocation(&hs.Call)
				var ctxVals []ssa.Value
				for _, a := range hs.Call.Args {
					if core.TypeStr(a.Type()) == "context.Context" {
						ctxVals = append(ctxVals, a)
					}
					if core.TypeStr(a.Type()) == grpcPkg+".ServerStream" {
						if cv := streamCtxValue(p, fn, a); cv != nil {
							ctxVals = append(ctxVals, cv)
						}
					}
				}
				for _, cv := range ctxVals {
					n++
					key := fmt.Sprintf("%s:%s#%d:ctx-layers", core.FuncName(fn), kind, i)
					paths := layersDownToWrap(p, cv)
					if len(paths) == 0 {
						c.Undecided(key, hs.Pos(), "no derivation path found for the handler's context")
						continue
					}
					bad := ""
					for _, pa := range paths {
						if pa.End != "wrap" {
							bad = fmt.Sprintf("a derivation path reaches %s without passing the value-blocking wrapper (layers %v): the caller's context values are visible to the handler", pa.End, pa.Layers)
							break
						}
						for li, l := range pa.Layers[:len(pa.Layers)-1] {
							if strings.HasPrefix(l, "wrap:") {
								continue
							}
							if !c10Sanctioned[l] {
								bad = fmt.Sprintf("layer %s above the wrapper is not sanctioned (it re-attaches values)", l)
							}
							if l == "context.WithValue" {
								// the key must be the package's private client-context key
								call := withValueCallOf(pa.Vals[li])
								_ = call
							}
							if l == metadataPkg+".NewIncomingContext" && li < len(pa.Vals) && pa.Vals[li] != nil {
								mdVals = append(mdVals, pa.Vals[li])
							}
						}
					}
					if bad != "" {
						c.Fail(key, hs.Pos(), "%s", bad)
					} else {
						c.Ok(key, hs.Pos(), "%d derivation path(s), each through the wrapper once, sanctioned layers only (e.g. %v)", len(paths), paths[0].Layers)
					}
				}
			}
		}
		if n < 3 {
			c.Fail("inprocgrpc:handler-contexts", token.NoPos, "ANCHOR-MISSING: expected >= 3 handler context hand-overs (unary handler, stream handler, stream interceptor), found %d", n)
		}
		// WithValue calls in inprocgrpc: key must be the address of a package-level variable, value the caller-derived context
		for _, fn := range p.LibFuncs("inprocgrpc") {
			for _, wv := range core.CallsIn(fn, func(_ *ssa.Call, ci core.CallInfo) bool { return ci.Is("context.WithValue") }) {
				key := core.FuncName(fn) + ":WithValue"
				k := core.Strip(wv.Call.Args[1])
				_, isGlobal := k.(*ssa.Global)
				c.Check(isGlobal, key+":private-key", wv.Pos(), "key is the address of a package-level variable (unforgeable outside the package)", "context.WithValue above the wrapper uses a key that is not the package's private key object: a caller value is re-attached explicitly")
				val := core.Strip(wv.Call.Args[2])
				okVal := core.TypeStr(val.Type()) == "context.Context" && core.AllOrigins(val, func(o ssa.Value) bool { _, isPar := o.(*ssa.Parameter); return isPar })
				c.Check(okVal, key+":stores-client-ctx", wv.Pos(), "the stored value is the caller-derived context itself (the sanctioned back-door)", "the value attached with the private key is not the caller's context")
			}
		}
		c.EndRule()
	}

	// ---------------------------------------------------------------- R3
	if c.Rule("R3", "metadata is copied, not shared: the MD given to NewIncomingContext is the direct result of metadata.FromOutgoingContext with no store into it, and that copy is taken before the call entry point can return (no go statement between an entry point and the read)", 1) {
		n := 0
		for _, fn := range p.LibFuncs("inprocgrpc") {
			for _, nic := range core.CallsIn(fn, func(_ *ssa.Call, ci core.CallInfo) bool { return ci.Is(metadataPkg + ".NewIncomingContext") }) {
				n++
				key := core.FuncName(fn) + ":incoming-md"
				md := nic.Call.Args[1]
				direct := core.AllOrigins(md, func(o ssa.Value) bool { return core.IsResultOf(o, 0, metadataPkg+".FromOutgoingContext") })
				mutated := false
				for _, o := range core.Origins(md) {
					for _, r := range core.Refs(o) {
						if mu, ok := r.(*ssa.MapUpdate); ok && mu.Map == o {
							mutated = true
						}
					}
				}
				// ... nor by a function of the module it is handed to (a "log-safe rendering" that masks values in place)
				for _, o := range core.Origins(md) {
					for _, r := range core.Refs(o) {
						call, ok := r.(*ssa.Call)
						if !ok {
							continue
						}
						h := call.Call.StaticCallee()
						if h == nil || h.Blocks == nil || !strings.HasPrefix(core.InfoOf(&call.Call).Pkg, core.ModulePath) {
							continue
						}
						for i, a := range call.Call.Args {
							if a == o && i < len(h.Params) && writesIntoMD(h, h.Params[i], 0) {
								mutated = true
							}
						}
					}
				}
				c.Check(direct && !mutated, key, nic.Pos(), "incoming metadata is the fresh copy returned by FromOutgoingContext (grpc "+p.GrpcVer+"), not written afterwards", "the metadata handed to the handler is not the fresh copy made by metadata.FromOutgoingContext (or is written afterwards): caller and handler would share/alter one map")
				// guarded by ok
				g := core.GuardedBy(nic, func(f core.Fact) bool {
					ex, isEx := f.X.(*ssa.Extract)
					return f.Op == token.ILLEGAL && !f.Neg && isEx && ex.Index == 1
				})
				c.Check(g, key+":only-if-present", nic.Pos(), "attached only when the caller had outgoing metadata", "incoming metadata attached without the ok test")
				// the ctx queried is the caller-derived one (function's parameter)
				for _, o := range core.Origins(md) {
					if call, _, ok := core.CallResult(o); ok {
						arg := call.Call.Args[0]
						c.Check(core.AllOrigins(arg, func(a ssa.Value) bool { _, isPar := a.(*ssa.Parameter); return isPar }), key+":from-caller-ctx", call.Pos(), "read from the caller-derived context", "outgoing metadata is read from a context other than the caller's")
					}
				}
			}
		}
		if n == 0 {
			c.Missing("metadata.NewIncomingContext in inprocgrpc")
		}
		// the snapshot is taken before the call entry point can return: on a network the headers have left by
		// then, and the caller owns (and may rewrite) its metadata again. So no `go` statement lies between an
		// entry point and the read of the caller's outgoing metadata.
		for _, fn := range p.LibFuncs("inprocgrpc") {
			for _, fo := range core.CallsIn(fn, func(_ *ssa.Call, ci core.CallInfo) bool { return ci.Is(metadataPkg + ".FromOutgoingContext") }) {
				key := core.FuncName(fn) + ":md-snapshot-before-return"
				async, und := launchedAsync(p, fn, map[*ssa.Function]bool{}, 0)
				switch {
				case async != "":
					c.Fail(key, fo.Pos(), "the caller's outgoing metadata is read on a goroutine (%s): the snapshot is taken after the call may have returned to the caller, who owns the metadata again — a later change shows up in the handler and races with the copy", async)
				case und != "":
					c.Undecided(key, fo.Pos(), "cannot decide whether the metadata snapshot runs before the entry point returns: %s", und)
				default:
					c.Ok(key, fo.Pos(), "every call chain from an entry point to this read is synchronous (no go statement on the way)")
				}
			}
		}
		_ = mdVals
		c.EndRule()
	}

	// ---------------------------------------------------------------- R4
	if c.Rule("R4", "peer and back-door: peer.NewContext gets the package's in-process peer; the private key is referenced only by the attach site and the accessor, which returns the stored value of one lookup on its argument through a comma-ok assertion", 3) {
		for _, fn := range p.LibFuncs("inprocgrpc") {
			for _, pc := range core.CallsIn(fn, func(_ *ssa.Call, ci core.CallInfo) bool { return ci.Is(peerPkg + ".NewContext") }) {
				_, isGlobal := core.Strip(pc.Call.Args[1]).(*ssa.Global)
				c.Check(isGlobal, core.FuncName(fn)+":peer", pc.Pos(), "handler's peer is the package-level in-process peer", "handler's peer is not the package's in-process peer")
			}
		}
		// private key globals: those used as WithValue keys
		keys := map[*ssa.Global]bool{}
		for _, fn := range p.LibFuncs("inprocgrpc") {
			for _, wv := range core.CallsIn(fn, func(_ *ssa.Call, ci core.CallInfo) bool { return ci.Is("context.WithValue") }) {
				if g, ok := core.Strip(wv.Call.Args[1]).(*ssa.Global); ok {
					keys[g] = true
				}
			}
		}
		// what the back-door hands out is the caller's context as the caller made it: between the entry point's
		// parameter and the value stored under the private key lie only the steps a caller would see on a network
		// client too (per-call credentials put into the outgoing metadata, a cancel for the call's lifetime) — not a
		// value the library means for the handler (the in-process peer, incoming metadata, a transport stream)
		for _, fn := range p.LibFuncs("inprocgrpc") {
			for _, wv := range core.CallsIn(fn, func(_ *ssa.Call, ci core.CallInfo) bool { return ci.Is("context.WithValue") }) {
				if _, ok := core.Strip(wv.Call.Args[1]).(*ssa.Global); !ok {
					continue
				}
				tr := ctxTrace(p, wv.Call.Args[2])
				var foreign []string
				for _, l := range tr.layerList() {
					switch {
					case strings.HasPrefix(l, "context.WithCancel"), strings.HasPrefix(l, "context.WithDeadline"), strings.HasPrefix(l, "context.WithTimeout"):
					case strings.Contains(l, "NewOutgoingContext"), strings.Contains(l, "AppendToOutgoingContext"):
					case strings.HasPrefix(l, "fn:"):
						// a function of the module the context passes through: the deriving steps inside it are layers of their own
					default:
						foreign = append(foreign, l)
					}
				}
				okRoots := len(tr.Roots) > 0
				for r := range tr.Roots {
					if !strings.HasPrefix(r, "param:") {
						okRoots = false
					}
				}
				c.Check(len(foreign) == 0 && okRoots, core.FuncName(fn)+":client-context-is-the-callers", wv.Pos(), fmt.Sprintf("the context stored for the back-door derives from the entry point's parameter through %v only", tr.layerList()), fmt.Sprintf("the context stored for the client-context accessor is not the caller's own: roots %v, layers %v (unexpected: %v) — the handler sees, through the back-door, values the library attached", tr.rootList(), tr.layerList(), foreign))
			}
		}
		for g := range keys {
			users := map[string]bool{}
			for _, fn := range p.Funcs {
				if !core.PkgIs(fn, "inprocgrpc") || !p.IsLibFile(fn.Pos()) {
					continue
				}
				core.Instrs(fn, func(in ssa.Instruction) {
					for _, op := range in.Operands(nil) {
						if *op == ssa.Value(g) {
							users[core.FuncName(fn)] = true
						}
					}
				})
			}
			delete(users, "inprocgrpc.init")
			c.Check(len(users) == 2, "key:"+g.Name()+":users", g.Pos(), fmt.Sprintf("referenced only by %v", keysOf(users)), fmt.Sprintf("the private context key is referenced by %v (expected: the attach site and the accessor only)", keysOf(users)))
			// accessor: ctx.Value(&key).(context.Context) comma-ok
			okAcc := false
			for _, fn := range p.LibFuncs("inprocgrpc") {
				for _, vc := range core.CallsIn(fn, func(call *ssa.Call, ci core.CallInfo) bool {
					return call.Call.IsInvoke() && call.Call.Method.Name() == "Value"
				}) {
					if core.Strip(vc.Call.Args[0]) != ssa.Value(g) {
						continue
					}
					for _, r := range core.Refs(vc) {
						if ta, ok := r.(*ssa.TypeAssert); ok && ta.CommaOk && core.TypeStr(ta.AssertedType) == "context.Context" {
							okAcc = true
						}
					}
					// one lookup, on the context it was given: a lookup on a context that was itself looked up
					// (a loop to the outermost caller) returns some other call's context when calls nest
					_, onParam := core.Strip(vc.Call.Value).(*ssa.Parameter)
					c.Check(onParam, "key:"+g.Name()+":accessor-single-lookup", vc.Pos(), "the accessor looks the key up on the context it was given", "the accessor looks the key up on a context other than its argument (a repeated lookup): for a call made from inside another in-process handler it returns the enclosing call's client context, not this call's")
				}
			}
			c.Check(okAcc, "key:"+g.Name()+":accessor", g.Pos(), "accessor reads the key and type-asserts with comma-ok", "no accessor reading the private key with a comma-ok assertion to context.Context")
		}
		if len(keys) == 0 {
			c.Fail("inprocgrpc:private-key", token.NoPos, "ANCHOR-MISSING: no context.WithValue with a package-level key (the sanctioned back-door)")
		}
		c.EndRule()
	}

	// ---------------------------------------------------------------- R7
	if c.Rule("R7", "the transport stream attached per call names the call: its Name is the slash-normalised method string (what grpc.Method(ctx) reports inside the handler), not the caller's string as given", 2) {
		n := 0
		for _, fn := range p.LibFuncs("inprocgrpc") {
			core.Instrs(fn, func(in ssa.Instruction) {
				st, ok := in.(*ssa.Store)
				if !ok || core.TypeStr(st.Val.Type()) != "string" {
					return
				}
				base, f, isF := core.FieldOf(st.Addr)
				if !isF || f != "Name" || !strings.HasSuffix(core.NamedOf(base.Type()), "ServerTransportStream") {
					return
				}
				n++
				c.Check(slashNormalised(p, st.Val), core.FuncName(fn)+":transport-stream-name", st.Pos(), "the Name is the method string with its leading slash ensured", "the transport stream's Name is the caller's method string as given: for a call made with \"svc/method\" grpc.Method(ctx) inside the handler reports a name without the leading slash, unlike a call that crossed a network")
			})
		}
		if n < 2 {
			c.Fail("inprocgrpc:transport-stream-names", token.NoPos, "ANCHOR-MISSING: expected the unary and the streaming path to name their transport stream, found %d", n)
		}
		// ... and Method() of each transport stream type reports exactly that Name
		for _, nt := range p.Implementers(p.ExtType(grpcPkg, "ServerTransportStream")) {
			if declaredMethod(p, nt, "Method") == nil {
				continue
			}
			f, ok, pos := accessorReturnsField(p, nt, "Method")
			c.Check(ok && f == "Name", core.NamedOf(nt)+":Method-accessor", pos, "Method() returns the stored Name on every path", "Method() of a transport stream does not simply return the Name stored for the call: grpc.Method(ctx) inside the handler would report something else than the method that was called")
		}
		c.EndRule()
	}

	// ---------------------------------------------------------------- R8
	if c.Rule("R8", "the handler's context ends with the call (as it does across a network): on its derivation chain lies a cancelable context whose CancelFunc is deferred by the function that runs the handler (or by the entry point that waits for it)", 2) {
		n := 0
		for _, fn := range p.LibFuncs("inprocgrpc") {
			for i, hs := range handlerInvocations(fn) {
				kind, _ := isHandlerInvocation(&hs.Call)
				var ctxVals []ssa.Value
				for _, a := range hs.Call.Args {
					if core.TypeStr(a.Type()) == "context.Context" {
						ctxVals = append(ctxVals, a)
					}
					if core.TypeStr(a.Type()) == grpcPkg+".ServerStream" {
						if cv := streamCtxValue(p, fn, a); cv != nil {
							ctxVals = append(ctxVals, cv)
						}
					}
				}
				for _, cv := range ctxVals {
					n++
					key := fmt.Sprintf("%s:%s#%d:ctx-ends-with-call", core.FuncName(fn), kind, i)
					layers := cancelLayers(p, cv, 0, map[ssa.Value]bool{})
					ok := false
					for _, l := range layers {
						if cancelDeferredAround(l, fn) {
							ok = true
						}
					}
					c.Check(ok, key, hs.Pos(), fmt.Sprintf("%d cancelable layer(s) on the chain, one of them cancelled by a defer of the function running the handler", len(layers)), "no cancelable context on the derivation chain of the handler's context is cancelled when the call ends (the deferred cancel belongs to a context that is not an ancestor of the handler's): a handler-side goroutine waiting on ctx.Done() outlives the call unless the caller's own context ends")
				}
			}
		}
		if n < 3 {
			c.Fail("inprocgrpc:handler-contexts-end", token.NoPos, "ANCHOR-MISSING: expected >= 3 handler context hand-overs, found %d", n)
		}
		c.EndRule()
	}

	// ---------------------------------------------------------------- R5, R6 (shared)
	// "exposes the caller's outgoing metadata as incoming metadata": the per-RPC credentials step joins, never
	// replaces, the caller's own entries (C13/R2); "the caller's deadline and cancellation": the handler's context
	// descends from the context given to THIS call (C04/R3)
	c.Borrow("C13", map[string]string{"R2": "R5"}, c13)
	c.Borrow("C04", map[string]string{"R3": "R6"}, c04)

}

func withValueCallOf(v ssa.Value) *ssa.Call { return nil }

// launchedAsync reports whether some call chain from an entry point to fn
// passes a go statement (async: a description of it), or cannot be followed
// (und). Deferred and direct calls are synchronous.
func launchedAsync(p *core.Prog, fn *ssa.Function, seen map[*ssa.Function]bool, depth int) (async, und string) {
	if fn == nil || seen[fn] || depth > 12 {
		return "", ""
	}
	seen[fn] = true
	if isEntryFunc(fn) {
		return "", ""
	}
	if par := fn.Parent(); par != nil {
		// a closure: how is it used in its parent?
		used := false
		var res, ures string
		core.Instrs(par, func(in ssa.Instruction) {
			mc, ok := in.(*ssa.MakeClosure)
			if !ok || mc.Fn != fn {
				return
			}
			for _, r := range core.Refs(mc) {
				used = true
				switch x := r.(type) {
				case *ssa.Go:
					if x.Call.Value == ssa.Value(mc) {
						res = "closure started with go in " + core.FuncName(par)
					} else {
						ures = "closure passed to a goroutine in " + core.FuncName(par)
					}
				case *ssa.Call:
					if x.Call.Value != ssa.Value(mc) {
						ures = "closure passed to " + core.InfoOf(&x.Call).Full() + " in " + core.FuncName(par)
					}
				case *ssa.Defer:
				default:
					ures = "closure stored in " + core.FuncName(par)
				}
			}
		})
		if res != "" {
			return res, ""
		}
		if ures != "" {
			return "", ures
		}
		if !used {
			return "", ""
		}
		return launchedAsync(p, par, seen, depth+1)
	}
	for _, caller := range p.LibFuncs("") {
		var res string
		hit := false
		core.Instrs(caller, func(in ssa.Instruction) {
			cc := core.CallOf(in)
			if cc == nil || core.InfoOf(cc).Static != fn {
				return
			}
			hit = true
			if _, isGo := in.(*ssa.Go); isGo {
				res = "started with go in " + core.FuncName(caller)
			}
		})
		if res != "" {
			return res, ""
		}
		if hit {
			if a, u := launchedAsync(p, caller, seen, depth+1); a != "" || u != "" {
				return a, u
			}
		}
	}
	return "", ""
}

// cancelLayers: the context.WithCancel / WithTimeout / WithDeadline calls on
// the derivation chain(s) of the context value v (through context-deriving
// calls, module helpers, capture cells and helper parameters).
func cancelLayers(p *core.Prog, v ssa.Value, depth int, seen map[ssa.Value]bool) []*ssa.Call {
	var out []*ssa.Call
	if v == nil || depth > 12 || seen[v] {
		return nil
	}
	seen[v] = true
	for _, o := range originsThroughCallers(p, v, 0) {
		o = core.ResolveFree(o)
		if mi, ok := o.(*ssa.MakeInterface); ok {
			if inner := embeddedCtx(mi.X); inner != nil {
				out = append(out, cancelLayers(p, inner, depth+1, seen)...)
				continue
			}
		}
		// a struct wrapper (the value-blocking context) built as a composite literal: continue with what is stored
		// into its embedded context field
		if al, ok := o.(*ssa.Alloc); ok {
			for _, r := range core.Refs(al) {
				fa, isFA := r.(*ssa.FieldAddr)
				if !isFA || core.TypeStr(fa.Type().Underlying().(*types.Pointer).Elem()) != "context.Context" {
					continue
				}
				for _, rr := range core.Refs(fa) {
					if st, isS := rr.(*ssa.Store); isS {
						out = append(out, cancelLayers(p, st.Val, depth+1, seen)...)
					}
				}
			}
			continue
		}
		call, _, isCall := core.CallResult(o)
		if !isCall {
			continue
		}
		ci := core.InfoOf(&call.Call)
		if ci.Is("context.WithCancel") || ci.Is("context.WithTimeout") || ci.Is("context.WithDeadline") {
			out = append(out, call)
		}
		// a context-deriving call: continue with its context argument(s)
		for _, a := range call.Call.Args {
			if core.TypeStr(a.Type()) == "context.Context" {
				out = append(out, cancelLayers(p, a, depth+1, seen)...)
			}
		}
	}
	return out
}

// cancelDeferredAround: the CancelFunc of the cancelable layer l is deferred in
// fn or in one of the functions fn is nested in (a goroutine literal of the
// entry point, or the entry point itself).
func cancelDeferredAround(l *ssa.Call, fn *ssa.Function) bool {
	var cancelV ssa.Value
	for _, r := range core.Refs(l) {
		if ex, ok := r.(*ssa.Extract); ok && ex.Index == 1 {
			cancelV = ex
		}
	}
	if cancelV == nil {
		return false
	}
	isCancel := func(v ssa.Value) bool {
		for _, o := range core.Origins(v) {
			if core.ResolveFree(o) == cancelV || o == cancelV {
				return true
			}
			// loaded from a capture cell holding the cancel func
			if u, isU := o.(*ssa.UnOp); isU {
				if al, isA := core.ResolveFree(u.X).(*ssa.Alloc); isA {
					for _, st := range core.StoresTo(al) {
						if st.Val == cancelV {
							return true
						}
					}
				}
			}
		}
		return false
	}
	next := func(f *ssa.Function) *ssa.Function {
		if f.Parent() != nil {
			return f.Parent()
		}
		// a single-use function started from the entry point (what a goroutine literal becomes after a
		// "closure to method" clean-up): continue in the function that holds its only call
		if site := core.InlineSite[f]; site != nil {
			return site.Parent()
		}
		return nil
	}
	for f := fn; f != nil; f = next(f) {
		found := false
		core.Instrs(f, func(in ssa.Instruction) {
			d, ok := in.(*ssa.Defer)
			if !ok {
				return
			}
			if isCancel(d.Call.Value) {
				found = true
			}
			// defer func() { …; cancel() }()
			if mc, isMC := d.Call.Value.(*ssa.MakeClosure); isMC {
				core.Instrs(mc.Fn.(*ssa.Function), func(x ssa.Instruction) {
					if cc := core.CallOf(x); cc != nil && isCancel(cc.Value) {
						found = true
					}
				})
			}
		})
		if found {
			return true
		}
	}
	return false
}

// writesIntoMD: fn stores into the map md (a parameter of it) or into one of
// the value slices held by it, directly or through a module function it hands
// the map (or such a slice) to.
func writesIntoMD(fn *ssa.Function, md ssa.Value, depth int) bool {
	if depth > 2 {
		return false
	}
	seen := map[ssa.Value]bool{}
	var derives func(v ssa.Value) bool
	derives = func(v ssa.Value) bool {
		if v == md {
			return true
		}
		if v == nil || seen[v] {
			return false
		}
		seen[v] = true
		defer delete(seen, v)
		for _, o := range core.Origins(v) {
			if o == md {
				return true
			}
			switch x := o.(type) {
			case *ssa.Lookup:
				if derives(x.X) {
					return true
				}
			case *ssa.Extract:
				switch t := x.Tuple.(type) {
				case *ssa.Next:
					if rg, ok := t.Iter.(*ssa.Range); ok && x.Index == 2 && derives(rg.X) {
						return true
					}
				case *ssa.Lookup:
					if x.Index == 0 && derives(t.X) {
						return true
					}
				}
			case *ssa.Slice:
				if derives(x.X) {
					return true
				}
			case *ssa.UnOp:
				// the header set of a request the function was handed
				if fa, ok := x.X.(*ssa.FieldAddr); ok && x.Op == token.MUL {
					if _, fld, isF := core.FieldOf(fa); isF && (fld == "Header" || fld == "Trailer") && derives(fa.X) {
						return true
					}
				}
			case *ssa.ChangeType:
				if derives(x.X) {
					return true
				}
			}
		}
		return false
	}
	// a map of the function's own into which one of md's slices was put holds md's memory too
	plain := derives
	holds := func(m ssa.Value) bool {
		for _, o := range core.Origins(m) {
			if _, isMk := o.(*ssa.MakeMap); !isMk {
				continue
			}
			for _, r := range core.Refs(o) {
				if mu, ok := r.(*ssa.MapUpdate); ok && mu.Map == o && plain(mu.Value) {
					return true
				}
			}
		}
		return false
	}
	derives = func(v ssa.Value) bool {
		if plain(v) {
			return true
		}
		for _, o := range core.Origins(v) {
			switch x := o.(type) {
			case *ssa.Lookup:
				if holds(x.X) {
					return true
				}
			case *ssa.Extract:
				switch t := x.Tuple.(type) {
				case *ssa.Next:
					if rg, ok := t.Iter.(*ssa.Range); ok && x.Index == 2 && holds(rg.X) {
						return true
					}
				case *ssa.Lookup:
					if x.Index == 0 && holds(t.X) {
						return true
					}
				}
			}
		}
		return false
	}
	found := false
	core.Instrs(fn, func(in ssa.Instruction) {
		if found {
			return
		}
		switch x := in.(type) {
		case *ssa.MapUpdate:
			if plain(x.Map) {
				found = true
			}
		case *ssa.Store:
			if ia, ok := x.Addr.(*ssa.IndexAddr); ok && derives(ia.X) {
				found = true
			}
		case *ssa.Call:
			h := x.Call.StaticCallee()
			if h != nil && h.Blocks != nil && strings.HasPrefix(core.InfoOf(&x.Call).Pkg, core.ModulePath) {
				for i, a := range x.Call.Args {
					if i < len(h.Params) && derives(a) && writesIntoMD(h, h.Params[i], depth+1) {
						found = true
					}
				}
			}
			// sort.Strings(vs), copy(vs, …)
			ci := core.InfoOf(&x.Call)
			if ci.Is("sort.Strings") && derives(x.Call.Args[0]) {
				found = true
			}
			if b, isB := x.Call.Value.(*ssa.Builtin); isB && b.Name() == "copy" && derives(x.Call.Args[0]) {
				found = true
			}
		}
	})
	return found
}
