package rules

import (
	"fmt"
	"go/token"
	"go/types"
	"sort"
	"strings"

	"golang.org/x/tools/go/ssa"

	"verif/checker/internal/core"
)

func init() { register("C03", c03) }

// reservedAllowed: HTTP/1.1 connection- or entity-level headers that the
// transport may refuse to forward (frozen).
var reservedAllowed = map[string]bool{"accept-encoding": true, "connection": true, "content-type": true, "content-length": true,
	"keep-alive": true, "te": true, "trailer": true, "transfer-encoding": true, "upgrade": true, "host": true, "proxy-connection": true}

// serverHeaderTypes: library types with SetHeader/SendHeader (server streams
// and server transport streams) that keep their own header state.
func serverHeaderTypes(p *core.Prog) []*types.Named {
	seen := map[*types.Named]bool{}
	var out []*types.Named
	for _, iface := range []string{"ServerStream", "ServerTransportStream"} {
		for _, nt := range streamTypes(p, iface, "SetHeader") {
			if seen[nt] {
				continue
			}
			seen[nt] = true
			// delegating wrappers (no state of their own) are skipped: they have no bool/enum/MD field
			st, ok := nt.Underlying().(*types.Struct)
			if !ok {
				continue
			}
			own := false
			for i := 0; i < st.NumFields(); i++ {
				ts := core.TypeStr(st.Field(i).Type())
				if ts == metadataPkg+".MD" || ts == "bool" {
					own = true
				}
				// header state grouped in a private struct field ({md; sent})
				if in, isS := st.Field(i).Type().Underlying().(*types.Struct); isS {
					for j := 0; j < in.NumFields(); j++ {
						if t2 := core.TypeStr(in.Field(j).Type()); t2 == metadataPkg+".MD" || t2 == "bool" {
							own = true
						}
					}
				}
			}
			if own {
				out = append(out, nt)
			}
		}
	}
	return out
}

type flagFact struct {
	field string
	// the guard fact that allows mutation ("headers may still be set")
	desc string
}

// headerMutations: instructions in fn that change the header store.
func headerMutations(p *core.Prog, fn *ssa.Function, tn string) []ssa.Instruction {
	var out []ssa.Instruction
	core.Instrs(fn, func(in ssa.Instruction) {
		switch x := in.(type) {
		case *ssa.MapUpdate:
			if core.TypeStr(x.Map.Type()) == metadataPkg+".MD" {
				if core.OriginIs(x.Map, func(o ssa.Value) bool {
					base, f, ok := core.FieldOf(o)
					return ok && core.NamedOf(base.Type()) == tn && strings.HasPrefix(strings.ToLower(f), "h")
				}) {
					out = append(out, in)
				}
			}
		case *ssa.Call:
			ci := core.InfoOf(&x.Call)
			// a helper of the module that is handed the header store and updates the map it is given
			if ci.Static != nil && ci.Static.Blocks != nil && strings.HasPrefix(ci.Pkg, core.ModulePath) {
				for i, a := range x.Call.Args {
					if core.TypeStr(a.Type()) != metadataPkg+".MD" || i >= len(ci.Static.Params) {
						continue
					}
					if !core.OriginIs(a, func(o ssa.Value) bool {
						base, f, ok := core.FieldOf(o)
						return ok && core.NamedOf(base.Type()) == tn && strings.HasPrefix(strings.ToLower(f), "h")
					}) {
						continue
					}
					if updatesMapParam(ci.Static, ci.Static.Params[i]) {
						out = append(out, in)
					}
				}
			}
			// writing into the response's http.Header through a converter, or WriteHeader
			if ci.Static != nil && core.PkgIs(ci.Static, "httpgrpc") && len(x.Call.Args) >= 2 && core.TypeStr(x.Call.Args[1].Type()) == "net/http.Header" {
				out = append(out, in)
			}
			if ci.Iface && ci.Name == "WriteHeader" {
				out = append(out, in)
			}
		}
	})
	return out
}

func c03(c *core.Ctx) {
	p := c.P
	c.Explain = "C03: (R1) each server-side stream type's header store may be mutated only under the not-yet-sent test of its flag, and data writes / SendHeader mark the flag; (R2) frame kinds leave in protocol order; (R3) call options are appended and fanned out over the whole slice, and every client path that sees response headers/trailers hands them to the options; (R4) every MD↔wire converter treats -bin keys with the base64 codec of its counterpart; (R5) request metadata is read from the post-credentials context and only connection-level headers are withheld."
	c.NotDec = []string{"byte-exactness through net/http's header canonicalisation and value sanitising", "value order across different keys", "observability timing beyond R1/R2"}

	// ---------------------------------------------------------------- R1
	if c.Rule("R1", "header typestate: header mutations are dominated by the not-sent edge of the flag (failing edge returns a non-nil error); data writes and SendHeader mark the flag", 9) {
		hts := serverHeaderTypes(p)
		if len(hts) < 3 {
			c.Missing("server-side stream types with their own header state (expected in-process, HTTP and unary transport stream)")
		}
		for _, nt := range hts {
			c03Typestate(c, nt)
		}
		c.EndRule()
	}

	// ---------------------------------------------------------------- R2
	if c.Rule("R2", "frame kinds leave in protocol order headers < data < trailers < error in every function that writes more than one kind", 3) {
		kinds := frameKinds(p)
		order := map[string]int{"headers": 0, "data": 1, "trailers": 2, "err": 3}
		if len(kinds) < 4 {
			c.Missing("frame kinds (headers, data, trailers, err)")
		}
		// summaries: kinds written by each function (direct)
		type write struct {
			instr ssa.Instruction
			kind  string
		}
		direct := map[*ssa.Function][]write{}
		fns := p.LibFuncs("inprocgrpc")
		for _, fn := range fns {
			core.Instrs(fn, func(in ssa.Instruction) {
				call, ok := in.(*ssa.Call)
				if !ok {
					return
				}
				ci := core.InfoOf(&call.Call)
				if ci.Static == nil || !isInprocFrameWriter(ci.Static) {
					return
				}
				for _, a := range call.Call.Args {
					if core.NamedOf(a.Type()) != "frame" {
						continue
					}
					for k := range order {
						if frameFieldValue(a, k) != nil {
							direct[fn] = append(direct[fn], write{in, k})
						}
					}
				}
			})
		}
		n := 0
		for _, fn := range fns {
			ws := append([]write{}, direct[fn]...)
			// calls to functions that write frames count with the callee's kinds
			core.Instrs(fn, func(in ssa.Instruction) {
				if call, ok := in.(*ssa.Call); ok {
					if ci := core.InfoOf(&call.Call); ci.Static != nil && ci.Static != fn {
						for _, w := range direct[ci.Static] {
							ws = append(ws, write{in, w.kind})
						}
					}
				}
			})
			kindsSeen := map[string]bool{}
			for _, w := range ws {
				kindsSeen[w.kind] = true
			}
			if len(kindsSeen) < 2 {
				continue
			}
			n++
			key := core.FuncName(fn) + ":frame-order"
			bad := ""
			for _, a := range ws {
				for _, b := range ws {
					if a.instr == b.instr {
						continue
					}
					if order[a.kind] > order[b.kind] && core.Reachable(core.After(a.instr), b.instr) {
						bad = fmt.Sprintf("a %s frame can be written after a %s frame", b.kind, a.kind)
					}
				}
			}
			c.Check(bad == "", key, fn.Pos(), fmt.Sprintf("writes %v in protocol order on every path", keysOf(kindsSeen)), "frames leave out of protocol order: "+bad+" (the client processes trailers before the final status only because of this order)")
		}
		if n < 2 {
			c.Fail("inprocgrpc:multi-kind-writers", token.NoPos, "ANCHOR-MISSING: expected >= 2 functions writing several frame kinds, found %d", n)
		}
		c.EndRule()
	}

	// ---------------------------------------------------------------- R3
	if c.Rule("R3", "every supplied call option is honoured: options are appended, fan-out covers the whole slice unconditionally, and every client path that obtains headers/trailers calls the fan-out", 10) {
		c03CallOptions(c)
		c.EndRule()
	}

	// ---------------------------------------------------------------- R6
	if c.Rule("R6", "no parked frame is lost: every frame kind that the header peek can park in the stream's peek slot is handled by the consumer of that slot", 1) {
		kinds := frameKinds(p)
		n := 0
		for _, nt := range streamTypes(p, "ClientStream", "RecvMsg") {
			if pkgSuffixOf(nt) != "inprocgrpc" {
				continue
			}
			tn := nt.Obj().Name()
			// handled kinds: equality tests on <recv>.last.kind() in the receive family
			handled := map[int64]bool{}
			for _, f := range methodFamily(p, nt, "RecvMsg") {
				for _, ef := range core.EdgeFactsOf(f) {
					fc := ef.Fact
					kc, isCall := fc.X.(*ssa.Call)
					k, isC := core.ConstInt(fc.Y)
					if fc.Op != token.EQL || !isCall || !isC || core.InfoOf(&kc.Call).Name != "kind" {
						continue
					}
					if core.OriginIs(kc.Call.Args[0], func(o ssa.Value) bool {
						u, ok := o.(*ssa.UnOp)
						if !ok {
							return false
						}
						_, fld, ok2 := core.FieldOf(u.X)
						if ok2 && fld == "last" {
							return true
						}
						if inner, ok3 := u.X.(*ssa.UnOp); ok3 {
							_, fld2, ok4 := core.FieldOf(inner)
							return ok4 && fld2 == "last"
						}
						return false
					}) {
						handled[k] = true
					}
				}
			}
			// parking stores outside the receive family's own re-park of an error frame
			for _, fn := range typeFuncs(p, nt) {
				if fn == nil || fn.Blocks == nil {
					continue
				}
				core.Instrs(fn, func(in ssa.Instruction) {
					st, ok := in.(*ssa.Store)
					if !ok || core.IsNilConst(st.Val) {
						return
					}
					base, fld, isF := core.FieldOf(st.Addr)
					if !isF || fld != "last" || core.NamedOf(base.Type()) != tn {
						return
					}
					possible, isRecv := parkedKinds(kinds, st)
					if !isRecv {
						return
					}
					n++
					key := core.FuncName(fn) + ":parked-kinds-handled"
					var lost []string
					for name, kk := range possible {
						if !handled[kk] {
							lost = append(lost, name)
						}
					}
					sort.Strings(lost)
					c.Check(len(lost) == 0, key, st.Pos(), fmt.Sprintf("kinds that can be parked %v are all handled by the peek-slot consumer", keysOfI(possible)), fmt.Sprintf("a frame of kind %v can be parked in the peek slot but the consumer of the slot does not handle that kind: it is silently lost (e.g. trailers read by Header() never reach Trailer() or the call options)", lost))
				})
			}
		}
		if n == 0 {
			c.Fail("inprocgrpc:peek-slot", token.NoPos, "ANCHOR-MISSING: no parking of a received frame found in the in-process client stream")
		}
		c.EndRule()
	}

	if c.Rule("R12", "headers that have arrived are handed out: Header() of a client stream does not give the caller's context a chance to win against a reply head that is already there — it waits for the head unconditionally, or, where it waits for the head and the context at once, the context's arm looks at the head's signal again (without blocking) before it reports the context's error. Go's select picks among ready arms at random: after a successful call whose context was then cancelled (defer cancel()), an unguarded race answers Canceled instead of the headers half of the time", 2) {
		n := 0
		for _, pk := range []string{"httpgrpc", "inprocgrpc"} {
			for _, nt := range streamTypes(p, "ClientStream", "RecvMsg") {
				if pkgSuffixOf(nt) != pk {
					continue
				}
				fn := declaredMethod(p, nt, "Header")
				if fn == nil {
					continue
				}
				n++
				key := core.FuncName(fn) + ":head-not-raced-against-the-context"
				bad := token.NoPos
				core.Instrs(fn, func(in ssa.Instruction) {
					sel, ok := in.(*ssa.Select)
					if !ok || !sel.Blocking || len(sel.States) < 2 {
						return
					}
					// an arm that waits for ctx.Done(), another that waits for a signal of the stream (a field)
					doneArm, sigArm := -1, -1
					var sigChan ssa.Value
					for i, st := range sel.States {
						if st.Dir != types.RecvOnly {
							continue
						}
						if cr, _, isC := core.CallResult(st.Chan); isC && core.InfoOf(&cr.Call).Name == "Done" {
							doneArm = i
							continue
						}
						if _, _, isF := core.FieldOf(st.Chan); isF && core.TypeStr(st.Chan.Type().Underlying().(*types.Chan).Elem()) == "struct{}" {
							sigArm, sigChan = i, st.Chan
						}
					}
					if doneArm < 0 || sigArm < 0 {
						return
					}
					// on the context's arm: every return passes a non-blocking look at the signal
					rechecks := func(x ssa.Instruction) bool {
						s2, ok := x.(*ssa.Select)
						if !ok || s2.Blocking {
							return false
						}
						for _, st := range s2.States {
							if st.Dir == types.RecvOnly && sameOrigins(st.Chan, sigChan) {
								return true
							}
						}
						return false
					}
					for _, b := range fn.Blocks {
						iff, isIf := b.Instrs[len(b.Instrs)-1].(*ssa.If)
						if !isIf {
							continue
						}
						f := core.CondFact(iff.Cond, true)
						ex, isEx := f.X.(*ssa.Extract)
						k, isK := core.ConstInt(f.Y)
						if !isEx || ex.Tuple != ssa.Value(sel) || ex.Index != 0 || f.Op != token.EQL || !isK || int(k) != doneArm {
							continue
						}
						reach := core.Walk(core.Loc{B: b.Succs[0], Idx: 0}, rechecks, nil)
						for _, r := range core.Returns(fn) {
							if reach[r] && core.EdgeDominates(b, 0, r) {
								bad = sel.Pos()
							}
						}
					}
				})
				c.Check(bad == token.NoPos, key, fn.Pos(), "Header() waits for the reply head unconditionally (or re-checks the head's signal on the context's arm)", "Header() waits for the reply head and for the context in one select and reports the context's error without looking at the head's signal again: when both are ready — a completed call whose context was then cancelled — the caller gets Canceled instead of the headers, at random")
			}
		}
		if n == 0 {
			c.Missing("Header() of a client stream type")
		}
		c.EndRule()
	}

	// ---------------------------------------------------------------- R9
	if c.Rule("R9", "a call that reports success has delivered the trailers: the in-process sender abandons its final frames (trailers included) once the context is done, so the receive functions may turn a closed channel into success only under a context re-check made after the receive (obligations shared with C02/R1)", 2) {
		c02InprocRecheck(c)
		c.EndRule()
	}

	// ---------------------------------------------------------------- R7
	if c.Rule("R7", "what the handler sets is taken at the call: no SetHeader/SendHeader/SetTrailer/TrySetTrailer implementation keeps the handler's metadata.MD (or one of its value slices) by reference; it only reads it (range, append of the elements, converters, copies) or forwards it to the wrapped stream", 10) {
		n := 0
		for _, fn := range p.LibFuncs("") {
			if fn.Parent() != nil || fn.Signature.Recv() == nil {
				continue
			}
			switch fn.Name() {
			case "SetHeader", "SendHeader", "SetTrailer", "TrySetTrailer":
			default:
				continue
			}
			for _, par := range fn.Params[1:] {
				if core.TypeStr(par.Type()) != metadataPkg+".MD" {
					continue
				}
				n++
				bad := mdRetained(fn, par, 0)
				c.Check(bad == "", core.FuncName(fn)+":md-not-retained", fn.Pos(), "the metadata parameter is only read or forwarded", "the handler's metadata "+bad+": a handler that reuses or edits the map after the call changes (or loses) what it had set, and the two sides share a map")
				// values of one key keep the order in which they were set: where the new metadata is merged with what
				// was set before by metadata.Join, the earlier values come first
				for _, jc := range core.CallsIn(fn, func(_ *ssa.Call, ci core.CallInfo) bool { return ci.Is(metadataPkg + ".Join") }) {
					args, unp := core.VariadicArgs(jc.Call.Args[0])
					if !unp || len(args) < 2 {
						continue
					}
					isNew := func(v ssa.Value) bool { return core.OriginIs(v, func(o ssa.Value) bool { return o == ssa.Value(par) }) }
					isAcc := func(v ssa.Value) bool {
						return core.OriginIs(v, func(o ssa.Value) bool {
							_, _, isF := core.FieldOf(o)
							return isF
						})
					}
					iNew, iAcc := -1, -1
					for i, a := range args {
						if isNew(a) && iNew < 0 {
							iNew = i
						}
						if isAcc(a) && !isNew(a) {
							iAcc = i
						}
					}
					if iNew >= 0 && iAcc >= 0 {
						c.Check(iAcc < iNew, core.FuncName(fn)+":join-order", jc.Pos(), "metadata.Join(<set before>, <new>): values of one key stay in the order they were set", "metadata.Join puts the newly set metadata in front of what was set before: a key set in two calls arrives with its values in the wrong order")
					}
				}
			}
		}
		if n == 0 {
			c.Missing("server-side metadata setters")
		}
		c.EndRule()
	}

	// ---------------------------------------------------------------- R4
	if c.Rule("R4", "binary metadata uses one codec on every wire path: each MD↔wire converter base64-codes the values of keys with the -bin suffix, like its counterpart", 4) {
		c03BinCodec(c)
		c.EndRule()
	}

	// ---------------------------------------------------------------- R8
	if c.Rule("R8", "values cross the wire verbatim: in every MD↔wire converter each value put into the output is an element of the input, unchanged or passed through the base64 coder only (no splitting, trimming, case folding, concatenation or constant)", 4) {
		c03Verbatim(c)
		c.EndRule()
	}

	// ---------------------------------------------------------------- R5
	if c.Rule("R5", "request metadata is forwarded whole: only reserved connection-level headers are withheld, nothing else is filtered", 3) {
		c03Reserved(c)
		c.EndRule()
	}

	// ---------------------------------------------------------------- R10 (shared)
	// "a transport never drops the application's [metadata]": the per-RPC credentials step joins the credential's
	// entries to the caller's, it does not replace them (C13/R2)
	c.Borrow("C13", map[string]string{"R2": "R10"}, c13)

	// ---------------------------------------------------------------- R11 (shared)
	// what a handler set for ONE call reaches that call's caller: no object that outlives a call (a pooled or
	// package-level transport stream, a field of the channel) holds header or trailer state (C01/R1)
	c.Borrow("C01", map[string]string{"R1": "R11"}, c01)
	// "request metadata arrives complete and unaltered": the in-process snapshot of the caller's outgoing metadata is
	// taken before the entry point returns (C10/R3) — taken later, on the server goroutine, it shows what the caller
	// has made of its map in the meantime
	c.Borrow("C10", map[string]string{"R3": "R13"}, c10)

}

func c03Typestate(c *core.Ctx, nt *types.Named) {
	p := c.P
	tk := typeKey(nt)
	tn := nt.Obj().Name()
	var fam []*ssa.Function
	seen := map[*ssa.Function]bool{}
	for _, root := range []string{"SetHeader", "SendHeader"} {
		for _, f := range methodFamily(p, nt, root) {
			if !seen[f] {
				seen[f] = true
				fam = append(fam, f)
			}
		}
	}
	// (a) mutations guarded
	flagField := ""
	// "sent" may be a disjunction of flags (headersSent || closed): the mutation sits on the edge where none is
	// set, and setting any of them counts as marking
	flagFields := map[string]bool{}
	nm := 0
	for _, f := range fam {
		for _, m := range headerMutations(p, f, tn) {
			nm++
			key := fmt.Sprintf("%s.%s:header-mutation-guarded", tk, f.Name())
			var ff string
			var ffs []string
			core.GuardedBy(m, func(fc core.Fact) bool {
				// "not sent": !boolFlag, or enumFlag == initial(0); all such facts are collected
				if fc.Op == token.ILLEGAL && fc.Neg {
					if base, fld, ok := core.FieldOf(fc.X); ok && core.NamedOf(base.Type()) == tn {
						ffs = append(ffs, fld)
					}
				}
				if fc.Op == token.EQL {
					if k, isC := core.ConstInt(fc.Y); isC && k == 0 {
						if base, fld, ok := core.FieldOf(fc.X); ok && core.NamedOf(base.Type()) == tn {
							ffs = append(ffs, fld)
						}
					}
				}
				return false
			})
			g := len(ffs) > 0
			if g {
				ff = ffs[0]
			}
			if !g {
				// helper (…Locked): all call sites in the family guarded
				okSites, n := true, 0
				for _, caller := range fam {
					for _, call := range core.CallsIn(caller, func(_ *ssa.Call, ci core.CallInfo) bool { return ci.Static == f }) {
						n++
						siteOK := false
						core.GuardedBy(call, func(fc core.Fact) bool {
							if fc.Op == token.ILLEGAL && fc.Neg {
								if _, fld, ok := core.FieldOf(fc.X); ok {
									ffs = append(ffs, fld)
									siteOK = true
								}
							}
							if fc.Op == token.EQL {
								k, isC := core.ConstInt(fc.Y)
								_, fld, ok := core.FieldOf(fc.X)
								if ok && isC && k == 0 {
									ffs = append(ffs, fld)
									siteOK = true
								}
							}
							return false
						})
						if !siteOK {
							okSites = false
						}
					}
				}
				g = n > 0 && okSites
				if g && len(ffs) > 0 {
					ff = ffs[0]
				}
			}
			if ff != "" {
				flagField = ff
			}
			for _, x := range ffs {
				flagFields[x] = true
			}
			c.Check(g, key, m.Pos(), "mutation of the header store only on the not-yet-sent edge of flag "+ff, "the header store can be changed after the headers were sent (no dominating 'not sent' test): setting headers late would silently succeed and be lost")
		}
	}
	if nm == 0 {
		c.Fail(tk+":header-mutations", nt.Obj().Pos(), "no header mutation found in SetHeader/SendHeader")
		return
	}
	if flagField == "" {
		c.Fail(tk+":flag", nt.Obj().Pos(), "headers-sent flag could not be discovered")
		return
	}
	// failing edge returns a non-nil error
	okFail := false
	for _, f := range fam {
		for _, r := range core.ErrReturns(f) {
			sentEdge := core.GuardedBy(r, func(fc core.Fact) bool {
				_, fld, ok := core.FieldOf(fc.X)
				if !ok || !flagFields[fld] {
					return false
				}
				if fc.Op == token.ILLEGAL && !fc.Neg {
					return true
				}
				if fc.Op == token.NEQ {
					k, isC := core.ConstInt(fc.Y)
					return isC && k == 0
				}
				return false
			})
			if sentEdge && core.ClassifyErr(r.Results[len(r.Results)-1], r) == core.ErrNonNil {
				okFail = true
			}
		}
	}
	c.Check(okFail, tk+":set-after-sent-fails", nt.Obj().Pos(), "on the already-sent edge a non-nil error is returned", "setting headers after they were sent does not fail with an error")
	// (c) SendHeader marks the flag on every nil-return path
	isMark := func(in ssa.Instruction) bool {
		if st, ok := in.(*ssa.Store); ok {
			if base, fld, ok := core.FieldOf(st.Addr); ok && flagFields[fld] && core.NamedOf(base.Type()) == tn {
				if b, isB := core.ConstBool(st.Val); isB && b {
					return true
				}
				if k, isI := core.ConstInt(st.Val); isI && k != 0 {
					return true
				}
			}
		}
		return false
	}
	var marks func(f *ssa.Function, depth int) bool
	marks = func(f *ssa.Function, depth int) bool {
		if f == nil || f.Blocks == nil || depth > 3 {
			return false
		}
		// every nil-ish return passes a mark (direct or via callee with constant 'send' argument handled path-insensitively)
		for _, r := range core.Returns(f) {
			if len(r.Results) > 0 && core.IsErrorType(r.Results[len(r.Results)-1].Type()) && core.ClassifyErr(r.Results[len(r.Results)-1], r) == core.ErrNonNil {
				continue
			}
			if !core.MustPass(core.Entry(f), r, func(in ssa.Instruction) bool {
				if isMark(in) {
					return true
				}
				if call, ok := in.(*ssa.Call); ok {
					if ci := core.InfoOf(&call.Call); ci.Static != nil && ci.Static != f && core.RecvName(ci.Static) == tn {
						return marks(ci.Static, depth+1)
					}
				}
				return false
			}) {
				return false
			}
		}
		return true
	}
	if sh := declaredMethod(p, nt, "SendHeader"); sh != nil {
		okSH := marksWithConstArg(p, nt, sh, isMark, marks)
		c.Check(okSH, tk+".SendHeader:marks-sent", sh.Pos(), "every successful SendHeader marks the headers as sent", "SendHeader can succeed without marking the headers as sent: later SetHeader calls would be accepted and lost")
	}
	// (b) data writes mark the flag first
	if sm := declaredMethod(p, nt, "SendMsg"); sm != nil {
		var dataWrites []ssa.Instruction
		core.Instrs(sm, func(in ssa.Instruction) {
			call, ok := in.(*ssa.Call)
			if !ok {
				return
			}
			ci := core.InfoOf(&call.Call)
			if ci.Static == nil {
				return
			}
			if isInprocFrameWriter(ci.Static) {
				for _, a := range call.Call.Args {
					if core.NamedOf(a.Type()) == "frame" && frameFieldValue(a, "data") != nil {
						dataWrites = append(dataWrites, in)
					}
				}
			} else {
				for ai := range call.Call.Args {
					if inprocDataWriteOfParam(ci.Static, ai, 0) {
						dataWrites = append(dataWrites, in)
						break
					}
				}
			}
			if isW, _ := httpFrameWriteCall(call); isW {
				dataWrites = append(dataWrites, in)
			}
		})
		for _, dw := range dataWrites {
			v := core.Walk(core.Entry(sm), func(in ssa.Instruction) bool {
				if isMark(in) {
					return true
				}
				if call, ok := in.(*ssa.Call); ok {
					if ci := core.InfoOf(&call.Call); ci.Static != nil && core.RecvName(ci.Static) == tn && ci.Static != sm {
						return marks(ci.Static, 0)
					}
				}
				return false
			}, func(b *ssa.BasicBlock, si int) bool {
				iff, ok := b.Instrs[len(b.Instrs)-1].(*ssa.If)
				if !ok {
					return true
				}
				fc := core.CondFact(iff.Cond, si == 0)
				_, fld, isF := core.FieldOf(fc.X)
				if !isF || !flagFields[fld] {
					return true
				}
				// edges on which the flag is known to be already marked need no marking
				if fc.Op == token.ILLEGAL && !fc.Neg {
					return false
				}
				if k, isC := core.ConstInt(fc.Y); isC && k == 0 && fc.Op == token.NEQ {
					return false
				}
				return true
			})
			c.Check(!v[dw], tk+".SendMsg:data-marks-sent", dw.Pos(), "a data write is always preceded by marking the headers as sent", "a data message can be written while the headers still count as unsent: a later SetHeader would succeed although the headers are gone")
		}
		if len(dataWrites) == 0 {
			c.Fail(tk+".SendMsg:data-write", sm.Pos(), "no data write found in SendMsg")
		}
	}
	// (d) trailers: refusal after close returns an error
	for _, name := range []string{"TrySetTrailer", "SetTrailer"} {
		tm := declaredMethod(p, nt, name)
		if tm == nil || tm.Signature.Results().Len() == 0 {
			continue
		}
		guardedMut, refusal := false, false
		core.Instrs(tm, func(in ssa.Instruction) {
			if mu, ok := in.(*ssa.MapUpdate); ok && core.TypeStr(mu.Map.Type()) == metadataPkg+".MD" {
				if core.GuardedBy(mu, func(fc core.Fact) bool { _, _, ok := core.FieldOf(fc.X); return ok }) {
					guardedMut = true
				}
			}
			// the update done by a helper of the module that is handed the trailer store
			if call, ok := in.(*ssa.Call); ok {
				ci := core.InfoOf(&call.Call)
				if ci.Static != nil && ci.Static.Blocks != nil && strings.HasPrefix(ci.Pkg, core.ModulePath) {
					for i, a := range call.Call.Args {
						if core.TypeStr(a.Type()) != metadataPkg+".MD" || i >= len(ci.Static.Params) || !updatesMapParam(ci.Static, ci.Static.Params[i]) {
							continue
						}
						if _, _, isField := core.FieldOf(a); !isField && !core.OriginIs(a, func(o ssa.Value) bool { _, _, ok := core.FieldOf(o); return ok }) {
							continue
						}
						if core.GuardedBy(call, func(fc core.Fact) bool { _, _, ok := core.FieldOf(fc.X); return ok }) {
							guardedMut = true
						}
					}
				}
			}
		})
		for _, r := range core.Returns(tm) {
			if core.ClassifyErr(r.Results[0], r) == core.ErrNonNil {
				refusal = true
			}
		}
		c.Check(guardedMut && refusal, tk+"."+name+":trailer-typestate", tm.Pos(), "trailers are added only on the not-closed edge; otherwise an error is returned", "trailers can be set after they were sent / the stream closed without an error")
	}
	// (e) what the handler sets is accepted whatever it contains: a setter refuses only because of the stream's
	// state (already sent / closed) or because the transport write failed, never because of the metadata itself —
	// an error that comes out of a function which is handed the metadata and is not itself a setter, a frame/header
	// writer or the wrapped stream is a judgement on the content (and the caller's whole SetHeader/SetTrailer call,
	// whose error is commonly ignored, is dropped)
	setters := map[*ssa.Function]bool{}
	for _, root := range []string{"SetHeader", "SendHeader", "SetTrailer", "TrySetTrailer"} {
		for _, f := range methodFamily(p, nt, root) {
			setters[f] = true
		}
	}
	var order []*ssa.Function
	for f := range setters {
		order = append(order, f)
	}
	sort.Slice(order, func(i, j int) bool { return core.FuncName(order[i]) < core.FuncName(order[j]) })
	for _, f := range order {
		var mdPar []*ssa.Parameter
		for _, pp := range f.Params {
			if core.TypeStr(pp.Type()) == metadataPkg+".MD" {
				mdPar = append(mdPar, pp)
			}
		}
		if len(mdPar) == 0 {
			continue
		}
		bad := ""
		for _, r := range core.ErrReturns(f) {
			ev := r.Results[len(r.Results)-1]
			for _, l := range core.ErrLeaves(ev, r) {
				call, _, isCall := core.CallResult(l.V)
				if !isCall {
					continue
				}
				ci := core.InfoOf(&call.Call)
				if ci.Static == nil || !strings.HasPrefix(ci.Pkg, core.ModulePath) || setters[ci.Static] {
					continue
				}
				if isInprocFrameWriter(ci.Static) {
					continue
				}
				if isW, _ := httpFrameWriteCall(call); isW {
					continue
				}
				takesMD := false
				for _, a := range call.Call.Args {
					if core.TypeStr(a.Type()) == metadataPkg+".MD" && core.OriginIs(a, func(o ssa.Value) bool {
						for _, pp := range mdPar {
							if core.ResolveFree(core.Strip(o)) == ssa.Value(pp) {
								return true
							}
						}
						return false
					}) {
						takesMD = true
					}
				}
				if takesMD && ci.Static.Signature.Results().Len() == 1 {
					bad = core.FuncName(ci.Static)
				}
			}
		}
		c.Check(bad == "", fmt.Sprintf("%s.%s:refuses-only-for-state", tk, f.Name()), f.Pos(), "errors come from the sent/closed state or from the transport write only", "the setter returns the error of "+bad+", a function that examines the handler's metadata: headers or trailers are refused because of what they contain (everything the call set is dropped, and the error of SetHeader/SetTrailer is commonly ignored), although the property promises that what the handler sets reaches the caller")
	}
}

// marksWithConstArg: SendHeader delegating to a helper with a constant
// 'send=true' argument: evaluate the helper with that branch fact.
func marksWithConstArg(p *core.Prog, nt *types.Named, sh *ssa.Function, isMark func(ssa.Instruction) bool, marks func(*ssa.Function, int) bool) bool {
	if marks(sh, 0) {
		return true
	}
	// helper(md, true): in the helper, on the 'param true' edge every nil return passes a mark
	for _, call := range core.CallsIn(sh, func(_ *ssa.Call, ci core.CallInfo) bool { return ci.Static != nil && core.RecvName(ci.Static) != "" }) {
		h := core.InfoOf(&call.Call).Static
		for i, a := range call.Call.Args {
			b, isC := core.ConstBool(a)
			if !isC || !b || i >= len(h.Params) {
				continue
			}
			par := h.Params[i]
			ok := true
			for _, r := range core.ErrReturns(h) {
				if core.ClassifyErr(r.Results[len(r.Results)-1], r) == core.ErrNonNil {
					continue
				}
				// paths with par == true
				v := core.Walk(core.Entry(h), func(in ssa.Instruction) bool {
					if isMark(in) {
						return true
					}
					if c2, isCall := in.(*ssa.Call); isCall {
						if ci := core.InfoOf(&c2.Call); ci.Static != nil && ci.Static != h && core.RecvName(ci.Static) != "" {
							return marks(ci.Static, 1)
						}
					}
					return false
				}, func(bb *ssa.BasicBlock, si int) bool {
					iff, isIf := bb.Instrs[len(bb.Instrs)-1].(*ssa.If)
					if !isIf {
						return true
					}
					fc := core.CondFact(iff.Cond, si == 0)
					if fc.Op == token.ILLEGAL && fc.X == ssa.Value(par) && fc.Neg {
						return false
					}
					return true
				})
				if v[r] {
					ok = false
				}
			}
			if ok {
				return true
			}
		}
	}
	return false
}

func c03CallOptions(c *core.Ctx) {
	p := c.P
	// the options struct: internal type with slice-of-pointer fields
	co := p.Named("internal", "CallOptions")
	if co == nil {
		c.Missing("internal.CallOptions")
		return
	}
	st := co.Underlying().(*types.Struct)
	var sliceFields []string
	for i := 0; i < st.NumFields(); i++ {
		if sl, ok := st.Field(i).Type().Underlying().(*types.Slice); ok {
			if _, isPtr := sl.Elem().Underlying().(*types.Pointer); isPtr {
				sliceFields = append(sliceFields, st.Field(i).Name())
			}
		}
	}
	// collector
	var collector *ssa.Function
	for _, fn := range p.LibFuncs("internal") {
		if fn.Parent() == nil && fn.Signature.Recv() == nil && fn.Signature.Results().Len() == 1 && core.NamedOf(fn.Signature.Results().At(0).Type()) == "CallOptions" {
			collector = fn
		}
	}
	if collector == nil {
		c.Missing("call-option collector returning *CallOptions")
		return
	}
	for _, f := range sliceFields {
		key := core.FuncName(collector) + ":" + f + ":append"
		n, okAll := 0, true
		core.InstrsDeep(collector, func(_ *ssa.Function, in ssa.Instruction) {
			stI, ok := in.(*ssa.Store)
			if !ok {
				return
			}
			_, fld, isF := core.FieldOf(stI.Addr)
			if !isF || fld != f {
				return
			}
			n++
			call, isCall := stI.Val.(*ssa.Call)
			if !isCall {
				okAll = false
				return
			}
			b, isB := call.Call.Value.(*ssa.Builtin)
			if !isB || b.Name() != "append" {
				okAll = false
				return
			}
			_, f0, ok0 := core.FieldOf(call.Call.Args[0])
			if !ok0 || f0 != f {
				okAll = false
			}
		})
		c.Check(n > 0 && okAll, key, collector.Pos(), "each option of this kind is appended to the accumulated slice", "options of kind "+f+" are not accumulated with append(<same field>, …): with duplicated call options only one target would be filled")
	}
	// fan-out methods
	for i := 0; i < co.NumMethods(); i++ {
		m := p.SSA.FuncValue(co.Method(i))
		if m == nil || m.Blocks == nil || len(m.Params) != 2 || m.Signature.Results().Len() != 0 {
			continue
		}
		if core.TypeStr(m.Params[1].Type()) == grpcPkg+".CallOption" {
			continue // a collector step (records one option), not a fan-out of a received value
		}
		key := core.FuncName(m) + ":fan-out"
		// a loop over a slice field storing through the element
		var ranged string
		stores, conds := 0, 0
		loops := core.LoopOf(m)
		core.Instrs(m, func(in ssa.Instruction) {
			switch x := in.(type) {
			case *ssa.Store:
				if loops[x.Block()] >= 0 {
					if u, ok := x.Addr.(*ssa.UnOp); ok {
						if ia, ok := u.X.(*ssa.IndexAddr); ok {
							if _, f, ok := core.FieldOf(ia.X); ok {
								ranged = f
								stores++
							}
						}
					}
				}
			case *ssa.If:
				if loops[x.Block()] >= 0 {
					conds++
				}
			}
		})
		if stores == 0 {
			// the loop sits in a helper of the module that is handed the slice field and the value (storeAll(addrs, v))
			for _, hc := range core.HelperCallsOf(m) {
				for pi, a := range hc.Call.Call.Args {
					_, f, isF := core.FieldOf(core.Strip(a))
					if !isF || pi >= len(hc.Callee.Params) {
						continue
					}
					par := hc.Callee.Params[pi]
					hl := core.LoopOf(hc.Callee)
					hs, hcnd := 0, 0
					core.Instrs(hc.Callee, func(in ssa.Instruction) {
						switch x := in.(type) {
						case *ssa.Store:
							if hl[x.Block()] >= 0 {
								if u, ok := x.Addr.(*ssa.UnOp); ok {
									if ia, ok := u.X.(*ssa.IndexAddr); ok && core.Strip(ia.X) == ssa.Value(par) {
										// the value stored is the helper's own value parameter, which the method hands its own
										if vp, isP := core.Strip(x.Val).(*ssa.Parameter); isP && vp.Parent() == hc.Callee {
											if bound, has := hc.Bind[vp]; has && core.Strip(bound) == ssa.Value(m.Params[1]) {
												hs++
											}
										}
									}
								}
							}
						case *ssa.If:
							if hl[x.Block()] >= 0 {
								hcnd++
							}
						}
					})
					if hs == 1 {
						stores, conds, ranged = hs, hcnd, f
					}
				}
			}
		}
		c.Check(stores == 1 && conds == 1 && ranged != "", key, m.Pos(), "ranges over the whole "+ranged+" slice with one unconditional store per element", fmt.Sprintf("fan-out is not 'for each element: *elem = value' (stores in loop: %d, conditions in loop: %d)", stores, conds))
	}
	// client paths: every function that reads headers/trailers of a received frame (or parses them from the reply) calls the fan-out
	type need struct{ field, call string }
	for _, fn := range append(p.LibFuncs("inprocgrpc"), p.LibFuncs("httpgrpc")...) {
		for _, nd := range []need{{"headers", "SetHeaders"}, {"trailers", "SetTrailers"}} {
			reads := false
			var pos token.Pos
			core.Instrs(fn, func(in ssa.Instruction) {
				v, ok := in.(ssa.Value)
				if !ok {
					return
				}
				var base ssa.Value
				var f string
				var isF bool
				if fl, isFld := v.(*ssa.Field); isFld {
					if stT, ok := fl.X.Type().Underlying().(*types.Struct); ok {
						base, f, isF = fl.X, stT.Field(fl.Field).Name(), true
					}
				} else if u, isU := v.(*ssa.UnOp); isU && u.Op == token.MUL {
					base, f, isF = core.FieldOf(u)
				}
				if isF && f == nd.field && core.NamedOf(base.Type()) == "frame" {
					// only received frames (not literals under construction, not the frame's own methods)
					if core.RecvName(fn) == "frame" {
						return
					}
					reads = true
					pos = in.Pos()
				}
			})
			if !reads {
				continue
			}
			// path-level: from every such read, the fan-out is passed on all paths to a return
			core.Instrs(fn, func(in ssa.Instruction) {
				if !isFrameFieldRead(fn, in, nd.field) {
					return
				}
				// a read that only feeds nil/len tests obtains nothing
				onlyTests := true
				for _, r := range core.Refs(in.(ssa.Value)) {
					switch x := r.(type) {
					case *ssa.BinOp, *ssa.DebugRef:
					case *ssa.Call:
						if b, isB := x.Call.Value.(*ssa.Builtin); !isB || b.Name() != "len" {
							onlyTests = false
						}
					default:
						onlyTests = false
					}
				}
				if onlyTests {
					return
				}
				isFan := mustCaller(func(cc *ssa.CallCommon) bool {
					ci := core.InfoOf(cc)
					return ci.Name == nd.call && ci.Recv == "CallOptions"
				})
				okPath := true
				for _, r := range core.Returns(fn) {
					if core.Reachable(core.After(in), r) && !core.MustPass(core.After(in), r, isFan) {
						okPath = false
					}
				}
				c.Check(okPath, core.FuncName(fn)+":"+nd.call+":on-every-path", in.Pos(), "after reading the "+nd.field+" of a received frame every path to a return passes "+nd.call, "the "+nd.field+" of a received frame are read, but a path to a return does not pass "+nd.call+": on that path Header()/Trailer() may see them while the grpc.Header/grpc.Trailer call options stay empty")
			})
			// skip pure predicates (len(...) tests in the server goroutine use literals, not loads)
			fan := mustCaller(func(cc *ssa.CallCommon) bool {
				ci := core.InfoOf(cc)
				return ci.Name == nd.call && ci.Recv == "CallOptions"
			})
			has := len(core.CallsIn(fn, func(call *ssa.Call, _ core.CallInfo) bool { return fan(call) })) > 0
			c.Check(has, core.FuncName(fn)+":"+nd.call, pos, "received "+nd.field+" are handed to the call options", "a client path reads the "+nd.field+" of a received frame but never calls "+nd.call+": grpc.Header/grpc.Trailer call options stay empty on this path")
		}
	}
	// HTTP: the three places
	for _, want := range []struct{ fnSuffix, call string }{{"setMetadata", "SetHeaders"}, {"setMetadata", "SetTrailers"}, {"doHttpCall", "SetTrailers"}} {
		_ = want
	}
	nH, nT := 0, 0
	for _, fn := range p.LibFuncs("httpgrpc") {
		nH += len(core.CallsIn(fn, func(_ *ssa.Call, ci core.CallInfo) bool { return ci.Name == "SetHeaders" && ci.Recv == "CallOptions" }))
		nT += len(core.CallsIn(fn, func(_ *ssa.Call, ci core.CallInfo) bool { return ci.Name == "SetTrailers" && ci.Recv == "CallOptions" }))
	}
	// ... and the fan-out is not made conditional on one KIND of option being present: a call that supplies only
	// grpc.Trailer (or only grpc.Header) options gets them filled. The usual guard "any header or trailer option"
	// requires neither; a guard that requires len(Headers) > 0 (or len(Trailers) > 0) leaves the other kind empty.
	for _, fn := range p.LibFuncs("httpgrpc") {
		for _, call := range core.CallsIn(fn, func(call *ssa.Call, ci core.CallInfo) bool {
			if ci.Static == nil || !core.PkgIs(ci.Static, "httpgrpc") {
				return false
			}
			nh := len(core.CallsIn(ci.Static, func(_ *ssa.Call, c2 core.CallInfo) bool { return c2.Name == "SetHeaders" && c2.Recv == "CallOptions" }))
			nt := len(core.CallsIn(ci.Static, func(_ *ssa.Call, c2 core.CallInfo) bool { return c2.Name == "SetTrailers" && c2.Recv == "CallOptions" }))
			return nh > 0 && nt > 0
		}) {
			var req []string
			for _, ef := range core.DominatingFacts(call) {
				for _, f := range impliedFacts(ef.Fact, 0) {
					if (f.Op == token.GTR || f.Op == token.NEQ) && !f.Neg {
						if lc, ok := f.X.(*ssa.Call); ok {
							if b, isB := lc.Call.Value.(*ssa.Builtin); isB && b.Name() == "len" {
								if base, fld, isF := core.FieldOf(lc.Call.Args[0]); isF && core.NamedOf(base.Type()) == "CallOptions" {
									req = append(req, fld)
								}
							}
						}
					}
				}
			}
			sort.Strings(req)
			c.Check(len(req) == 0, core.FuncName(fn)+":fan-out-guard", call.Pos(), "the fan-out of reply metadata does not require a particular kind of option to be present", fmt.Sprintf("the fan-out of reply metadata runs only if the option list(s) %v are non-empty: a call that supplies only the other kind of option (only grpc.Trailer, or only grpc.Header) gets nothing", req))
		}
	}
	// ... and a unary call fills the caller's targets once: a second fan-out on the same path (the same helper
	// run over another part of the reply, say) overwrites what the first one stored
	for _, ct := range channelTypes(p, "httpgrpc") {
		inv := declaredMethod(p, ct, "Invoke")
		if inv == nil {
			continue
		}
		var leads func(f *ssa.Function, name string, depth int) bool
		leads = func(f *ssa.Function, name string, depth int) bool {
			if f == nil || f.Blocks == nil || depth > 2 {
				return false
			}
			if len(core.CallsIn(f, func(_ *ssa.Call, c2 core.CallInfo) bool { return c2.Name == name && c2.Recv == "CallOptions" })) > 0 {
				return true
			}
			for _, h := range core.HelperCallsOf(f) {
				if leads(h.Callee, name, depth+1) {
					return true
				}
			}
			return false
		}
		for _, name := range []string{"SetHeaders", "SetTrailers"} {
			name := name
			isFan := func(in ssa.Instruction) bool {
				call, ok := in.(*ssa.Call)
				if !ok {
					return false
				}
				ci := core.InfoOf(&call.Call)
				if ci.Name == name && ci.Recv == "CallOptions" {
					return true
				}
				return ci.Static != nil && strings.HasPrefix(ci.Pkg, core.ModulePath) && leads(ci.Static, name, 0)
			}
			_, mx, ok := core.CountRange(core.Entry(inv), isFan, nil)
			c.Check(ok && mx <= 1, core.FuncName(inv)+":"+name+":at-most-once", inv.Pos(), "the reply metadata is handed to the call options at most once per call", "on some path of the unary call "+name+" runs more than once: the later run overwrites the targets the earlier one filled (with whatever part of the reply it was given — an empty set for the headers when it is run over the trailers)")
			// ... and a failed call fills them too (grpc.Header / grpc.Trailer are filled whatever the status: the
			// trailers of a failed call are where the error's context travels): the status decoder that makes the
			// call return the reply's non-OK status does not run before the fan-out
			for _, dec := range core.CallsIn(inv, func(call *ssa.Call, ci core.CallInfo) bool {
				return ci.Static != nil && core.PkgIs(ci.Static, "httpgrpc") && len(ci.Static.Params) == 1 && core.TypeStr(ci.Static.Params[0].Type()) == "*net/http.Response" && strings.HasSuffix(core.TypeStr(call.Type()), "status.Status")
			}) {
				late := token.NoPos
				for in := range core.Walk(core.After(dec), nil, nil) {
					if isFan(in) {
						late = in.Pos()
					}
				}
				c.Check(late == token.NoPos, core.FuncName(inv)+":"+name+":before-the-status-verdict", dec.Pos(), "the reply metadata is handed out before the reply's status can end the call", "the reply's status is decoded (and a non-OK one returned) before "+name+" runs: a failed unary call leaves the caller's grpc.Header / grpc.Trailer targets empty")
			}
		}
	}
	c.Check(nH >= 2 && nT >= 2, "httpgrpc:fan-out-sites", token.NoPos, fmt.Sprintf("HTTP client hands headers to the options at %d site(s) and trailers at %d (unary and streaming)", nH, nT), fmt.Sprintf("HTTP client calls SetHeaders %d× and SetTrailers %d×: expected both on the unary and the streaming path", nH, nT))
}

// c03BinCodec: R4.
func c03BinCodec(c *core.Ctx) {
	p := c.P
	type conv struct {
		fn   *ssa.Function
		dir  string // "encode" (MD→wire) | "decode" (wire→MD)
		wire string
	}
	var convs []conv
	for _, fn := range p.LibFuncs("httpgrpc") {
		if fn.Parent() != nil || fn.Signature.Recv() != nil {
			continue
		}
		var ptypes, rtypes []string
		for _, pp := range fn.Params {
			ptypes = append(ptypes, core.TypeStr(pp.Type()))
		}
		for i := 0; i < fn.Signature.Results().Len(); i++ {
			rtypes = append(rtypes, core.TypeStr(fn.Signature.Results().At(i).Type()))
		}
		has := func(l []string, s string) bool {
			for _, x := range l {
				if x == s {
					return true
				}
			}
			return false
		}
		md := metadataPkg + ".MD"
		isWire := func(s string) bool {
			return s == "net/http.Header" || strings.HasPrefix(s, "map[string]*") && strings.Contains(s, "TrailerValues")
		}
		wireOf := func(l []string) string {
			for _, x := range l {
				if isWire(x) {
					return x
				}
			}
			return ""
		}
		switch {
		case has(ptypes, md) && (wireOf(ptypes) != "" || wireOf(rtypes) != ""):
			w := wireOf(ptypes)
			if w == "" {
				w = wireOf(rtypes)
			}
			convs = append(convs, conv{fn, "encode", w})
		case has(rtypes, md) && wireOf(ptypes) != "" && len(fn.Params) == 1:
			convs = append(convs, conv{fn, "decode", wireOf(ptypes)})
		}
	}
	if len(convs) < 4 {
		c.Fail("httpgrpc:converters", token.NoPos, "ANCHOR-MISSING: expected 4 MD↔wire converters (headers and trailer proto, both directions), found %d", len(convs))
	}
	encs := map[string]string{}
	for _, cv := range convs {
		key := core.FuncName(cv.fn) + ":bin-codec"
		want := "EncodeToString"
		if cv.dir == "decode" {
			want = "DecodeString"
		}
		var b64 *ssa.Call
		for _, call := range core.CallsIn(cv.fn, func(_ *ssa.Call, ci core.CallInfo) bool {
			return ci.Pkg == "encoding/base64" && ci.Name == want
		}) {
			b64 = call
		}
		if b64 == nil {
			c.Fail(key, cv.fn.Pos(), "%s converter for %s does not base64-%s the values of '-bin' keys (its header counterpart does): an arbitrary-byte binary value cannot be carried (proto3 string / header text), and both peers disagree on the representation", cv.dir, shortWire(cv.wire), cv.dir)
			continue
		}
		// guarded by HasSuffix(key, "-bin")
		g := core.GuardedBy(b64, func(f core.Fact) bool {
			if f.Op != token.ILLEGAL || f.Neg {
				return false
			}
			call, ok := f.X.(*ssa.Call)
			if !ok || !core.InfoOf(&call.Call).Is("strings.HasSuffix") {
				return false
			}
			s, isS := core.ConstString(call.Call.Args[1])
			return isS && s == "-bin"
		})
		enc := ""
		for _, o := range core.Origins(b64.Call.Args[0]) {
			if gname, ok := core.GlobalLoad(o); ok {
				enc = gname
			}
		}
		encs[core.FuncName(cv.fn)] = enc
		c.Check(g, key, b64.Pos(), "base64 "+want+" exactly for keys with the -bin suffix ("+enc+")", "base64 coding is not tied to the '-bin' key suffix")
	}
	// decoding is the converter's job: no consumer of a wire→MD converter rewrites the values of the result, so
	// that every consumer of the same wire data (Trailer(), the Trailer call option, Header(), …) sees the same
	nUse := 0
	for _, cv := range convs {
		if cv.dir != "decode" {
			continue
		}
		for _, caller := range p.LibFuncs("httpgrpc") {
			for _, call := range core.CallsIn(caller, func(_ *ssa.Call, ci core.CallInfo) bool { return ci.Static == cv.fn }) {
				nUse++
				key := core.FuncName(caller) + ":" + cv.fn.Name() + ":result-not-rewritten"
				var res ssa.Value = call
				if cv.fn.Signature.Results().Len() > 1 {
					res = nil
					for _, r := range core.Refs(call) {
						if ex, ok := r.(*ssa.Extract); ok && ex.Index == 0 {
							res = ex
						}
					}
				}
				rewritten := false
				if res != nil {
					var walk func(v ssa.Value, d int)
					walk = func(v ssa.Value, d int) {
						if d > 3 {
							return
						}
						for _, r := range core.Refs(v) {
							switch x := r.(type) {
							case *ssa.MapUpdate:
								if x.Map == v {
									rewritten = true
								}
							case *ssa.Phi:
								walk(x, d+1)
							case *ssa.ChangeType:
								walk(x, d+1)
							}
						}
					}
					walk(res, 0)
				}
				c.Check(!rewritten, key, call.Pos(), "the converter's result is used as it is", "the caller rewrites entries of the converter's result: this consumer decodes or alters values that the other consumers of the same wire data (e.g. the Trailer call option vs. Trailer()) report as they came")
			}
		}
	}
	if nUse < 4 {
		c.Fail("httpgrpc:converter-uses", token.NoPos, "ANCHOR-MISSING: expected >= 4 uses of the wire→MD converters in httpgrpc, found %d", nUse)
	}
	// one encoding everywhere
	vals := map[string]bool{}
	for _, e := range encs {
		vals[e] = true
	}
	if len(encs) > 0 {
		c.Check(len(vals) == 1, "httpgrpc:bin-codec-agreement", token.NoPos, fmt.Sprintf("all converters use %v", keysOf(vals)), fmt.Sprintf("converters use different base64 alphabets %v: a value encoded by one side is rejected or garbled by the other", keysOf(vals)))
	}
}

func shortWire(s string) string {
	if s == "net/http.Header" {
		return "HTTP headers"
	}
	return "the stream trailer message"
}

func c03Reserved(c *core.Ctx) {
	p := c.P
	// the reserved table: a package-level map[string]struct{} in httpgrpc
	var table *ssa.Global
	if sp := p.SSAPkgs[core.ModulePath+"/httpgrpc"]; sp != nil {
		for _, m := range sp.Members {
			if g, ok := m.(*ssa.Global); ok && core.TypeStr(g.Type()) == "*map[string]struct{}" {
				table = g
			}
		}
	}
	// … or a predicate func(string) bool of the package whose negation guards the Header.Add of the encode
	// converter (the table written as a switch)
	var pred *ssa.Function
	var tablePos token.Pos
	for _, fn := range p.LibFuncs("httpgrpc") {
		if table != nil || fn.Parent() != nil || len(fn.Params) != 3 || core.TypeStr(fn.Params[0].Type()) != metadataPkg+".MD" || core.TypeStr(fn.Params[1].Type()) != "net/http.Header" {
			continue
		}
		for _, add := range core.CallsIn(fn, func(_ *ssa.Call, ci core.CallInfo) bool {
			return ci.Is("net/http.Header.Add") || ci.Is("net/http.Header.Set")
		}) {
			for _, ef := range core.DominatingFacts(add) {
				if ef.Fact.Op != token.ILLEGAL || !ef.Fact.Neg {
					continue
				}
				if pc, ok := ef.Fact.X.(*ssa.Call); ok {
					if h := pc.Call.StaticCallee(); h != nil && h.Blocks != nil && core.PkgIs(h, "httpgrpc") && len(h.Params) == 1 && core.TypeStr(h.Params[0].Type()) == "string" && h.Signature.Results().Len() == 1 && core.TypeStr(h.Signature.Results().At(0).Type()) == "bool" {
						pred = h
					}
				}
			}
		}
	}
	if table == nil && pred == nil {
		c.Missing("reserved-header table (package-level map[string]struct{}) in httpgrpc")
		return
	}
	if table != nil {
		tablePos = table.Pos()
	} else {
		tablePos = pred.Pos()
	}
	// keys from the init function
	var keys []string
	if pred != nil {
		// every `return true` of the predicate sits on an edge `param == "<constant>"`; those constants are the table
		enumerable := true
		for _, r := range core.Returns(pred) {
			for _, o := range core.Origins(r.Results[0]) {
				b, isB := core.ConstBool(o)
				if !isB {
					enumerable = false
					continue
				}
				if !b {
					continue
				}
			}
		}
		for _, ef := range core.EdgeFactsOf(pred) {
			f := ef.Fact
			if f.Op == token.EQL && f.X == ssa.Value(pred.Params[0]) {
				if k, isS := core.ConstString(f.Y); isS {
					keys = append(keys, k)
				}
			}
		}
		// a true result not tied to one of those comparisons (a prefix test, a length test, …) cannot be enumerated
		for _, r := range core.Returns(pred) {
			mayTrue := false
			for _, o := range core.Origins(r.Results[0]) {
				if b, isB := core.ConstBool(o); !isB || b {
					mayTrue = true
				}
			}
			if mayTrue && !core.GuardedBy(r, func(f core.Fact) bool {
				_, isS := core.ConstString(f.Y)
				return f.Op == token.EQL && f.X == ssa.Value(pred.Params[0]) && isS
			}) {
				// a φ of constants: every true edge must come from such a comparison
				okPhi := false
				if phi, isPhi := r.Results[0].(*ssa.Phi); isPhi {
					okPhi = true
					for i, e := range phi.Edges {
						if b, isB := core.ConstBool(e); isB && !b {
							continue
						}
						pb := phi.Block().Preds[i]
						if !core.LeafGuarded(core.ErrLeaf{V: e, At: pb.Instrs[len(pb.Instrs)-1], Succ: phi.Block()}, func(f core.Fact) bool {
							_, isS := core.ConstString(f.Y)
							return f.Op == token.EQL && f.X == ssa.Value(pred.Params[0]) && isS
						}) {
							okPhi = false
						}
					}
				}
				if !okPhi {
					enumerable = false
				}
			}
		}
		c.Check(enumerable, "reserved-headers:enumerable", pred.Pos(), "the reserved-header predicate is true only for a fixed list of keys", "the reserved-header predicate can be true for keys other than a fixed list of constants: application metadata with such a key is silently dropped")
	}
	initFn := p.SSAPkgs[core.ModulePath+"/httpgrpc"].Func("init")
	if initFn != nil && table != nil {
		core.Instrs(initFn, func(in ssa.Instruction) {
			if mu, ok := in.(*ssa.MapUpdate); ok {
				if k, isS := core.ConstString(mu.Key); isS && core.TypeStr(mu.Map.Type()) == "map[string]struct{}" {
					keys = append(keys, k)
				}
			}
		})
	}
	sort.Strings(keys)
	if len(keys) == 0 {
		c.Fail("reserved-headers:keys", tablePos, "could not read the keys of the reserved-header table")
	}
	for _, k := range keys {
		c.Check(reservedAllowed[strings.ToLower(k)], "reserved-headers:"+k, tablePos, "connection/entity-level header", "header "+k+" is withheld from request metadata although it is not an HTTP/1.1 connection- or entity-level header: application metadata with this key is silently dropped")
	}
	// converters: the only skip in the encode converter for http.Header is the table lookup
	for _, fn := range p.LibFuncs("httpgrpc") {
		if fn.Parent() != nil || len(fn.Params) != 3 || core.TypeStr(fn.Params[0].Type()) != metadataPkg+".MD" || core.TypeStr(fn.Params[1].Type()) != "net/http.Header" {
			continue
		}
		key := core.FuncName(fn) + ":only-reserved-filter"
		// every Header.Add/Set call: its dominating facts inside the loop are only: range-ok, the negated table lookup, value loop bound, the -bin test
		bad := ""
		for _, add := range core.CallsIn(fn, func(_ *ssa.Call, ci core.CallInfo) bool {
			return ci.Is("net/http.Header.Add") || ci.Is("net/http.Header.Set")
		}) {
			for _, ef := range core.DominatingFacts(add) {
				f := ef.Fact
				switch {
				case f.Op == token.ILLEGAL:
					if ex, ok := f.X.(*ssa.Extract); ok {
						if _, isNext := ex.Tuple.(*ssa.Next); isNext {
							continue
						}
						if lk, isLk := ex.Tuple.(*ssa.Lookup); isLk && f.Neg && table != nil {
							if g, ok := core.GlobalLoad(lk.X); ok && strings.HasSuffix(g, table.Name()) {
								continue
							}
						}
					}
					if pc, isCall := f.X.(*ssa.Call); isCall && f.Neg && pred != nil && pc.Call.StaticCallee() == pred {
						continue
					}
					bad = "an additional condition decides whether a metadata pair is forwarded"
				case f.Op == token.LSS:
					continue
				default:
					bad = "an additional comparison decides whether a metadata pair is forwarded"
				}
			}
			// key written = prefix + original key; value = v or base64(v)
		}
		c.Check(bad == "", key, fn.Pos(), "a pair is withheld only if its key is in the reserved table", bad)
	}
}

func keysOfI(m map[string]int64) []string {
	var out []string
	for k := range m {
		out = append(out, k)
	}
	sort.Strings(out)
	return out
}

// isFrameFieldRead: in reads field `field` of a received frame value (not in
// the frame's own methods).
func isFrameFieldRead(fn *ssa.Function, in ssa.Instruction, field string) bool {
	v, ok := in.(ssa.Value)
	if !ok {
		return false
	}
	if core.RecvName(fn) == "frame" {
		return false
	}
	var base ssa.Value
	var f string
	var isF bool
	if fl, isFld := v.(*ssa.Field); isFld {
		if stT, ok := fl.X.Type().Underlying().(*types.Struct); ok {
			base, f, isF = fl.X, stT.Field(fl.Field).Name(), true
		}
	} else if u, isU := v.(*ssa.UnOp); isU && u.Op == token.MUL {
		base, f, isF = core.FieldOf(u)
	}
	return isF && f == field && core.NamedOf(base.Type()) == "frame"
}

// mdRetained reports how the metadata parameter (or a value slice ranged out of
// it) is kept by reference ("" if it is only read, copied or forwarded).
func mdRetained(fn *ssa.Function, par ssa.Value, depth int) string {
	bad := ""
	seen := map[ssa.Value]bool{}
	var visit func(v ssa.Value, isSlice bool)
	visit = func(v ssa.Value, isSlice bool) {
		if seen[v] || bad != "" {
			return
		}
		seen[v] = true
		for _, r := range core.Refs(v) {
			if bad != "" {
				return
			}
			switch x := r.(type) {
			case *ssa.DebugRef, *ssa.BinOp, *ssa.Lookup, *ssa.Index:
			case *ssa.Phi, *ssa.ChangeType:
				visit(r.(ssa.Value), isSlice)
			case *ssa.Range:
				// for k, v := range md: the value slices
				for _, nx := range core.Refs(x) {
					if n, ok := nx.(*ssa.Next); ok {
						for _, ex := range core.Refs(n) {
							if e, ok := ex.(*ssa.Extract); ok && e.Index == 2 {
								visit(e, true)
							}
						}
					}
				}
			case *ssa.Store:
				if x.Val != v {
					continue
				}
				if al, ok := x.Addr.(*ssa.Alloc); ok && !capturedCell(al) {
					for _, ld := range core.LoadsOf(al) {
						visit(ld, isSlice)
					}
					continue
				}
				if ia, ok := x.Addr.(*ssa.IndexAddr); ok {
					if arr, ok := ia.X.(*ssa.Alloc); ok && !capturedCell(arr) {
						// packed for a variadic call: fine if the pack only goes to copying readers (metadata.Join)
						onlyReaders := true
						for _, ar := range core.Refs(arr) {
							sl, isSl := ar.(*ssa.Slice)
							if !isSl {
								continue
							}
							for _, su := range core.Refs(sl) {
								call, isCall := su.(*ssa.Call)
								if !isCall {
									onlyReaders = false
									continue
								}
								ci := core.InfoOf(&call.Call)
								if _, isB := call.Call.Value.(*ssa.Builtin); isB || !(ci.Pkg == metadataPkg) {
									onlyReaders = false
								}
							}
						}
						if onlyReaders {
							continue
						}
					}
				}
				bad = "is stored (field, slice element or captured variable) at " + posStr(fn, x)
			case *ssa.MapUpdate:
				if x.Value == v {
					bad = "value is stored into a map by reference at " + posStr(fn, x)
				}
			case *ssa.Send:
				bad = "is sent on a channel"
			case *ssa.Return:
				bad = "is returned"
			case *ssa.MakeClosure:
				bad = "is captured by a function literal"
			case *ssa.MakeInterface:
				bad = "is boxed into an interface at " + posStr(fn, x)
			case *ssa.Go, *ssa.Defer:
				bad = "is passed to a go/defer call"
			case *ssa.Slice:
				visit(x, true)
			case *ssa.IndexAddr:
				// element reads only (strings are immutable)
				for _, rr := range core.Refs(x) {
					switch y := rr.(type) {
					case *ssa.UnOp, *ssa.DebugRef:
					case *ssa.Store:
						if y.Addr == ssa.Value(x) {
							bad = "value slice is written through at " + posStr(fn, y)
						}
					default:
						bad = fmt.Sprintf("has an element address used by %T", rr)
					}
				}
			case *ssa.Call:
				ci := core.InfoOf(&x.Call)
				if b, ok := x.Call.Value.(*ssa.Builtin); ok {
					switch b.Name() {
					case "len", "cap", "copy":
					case "append":
						// append(dst, v...) copies v's elements; append(v, ...) would alias v
						if len(x.Call.Args) > 0 && x.Call.Args[0] == v {
							bad = "value slice is used as the base of an append (aliases the handler's backing array)"
						}
					default:
						bad = "is passed to builtin " + b.Name()
					}
					continue
				}
				switch {
				case x.Call.IsInvoke():
					// forwarded to the wrapped stream's own setter
				case ci.Static != nil && ci.Static.Blocks != nil && strings.HasPrefix(ci.Pkg, core.ModulePath):
					if depth >= 4 {
						bad = "is passed down more than 4 helper levels"
						continue
					}
					for i, a := range x.Call.Args {
						if a == v && i < len(ci.Static.Params) {
							if b := mdRetained(ci.Static, ci.Static.Params[i], depth+1); b != "" {
								bad = "is passed to " + core.FuncName(ci.Static) + ", where it " + b
							}
						}
					}
				case ci.Pkg == metadataPkg || strings.HasPrefix(ci.Full(), metadataPkg):
					// Join, Copy, Get, Len: readers that copy
				default:
					bad = "is passed to " + ci.Full()
				}
			default:
				bad = fmt.Sprintf("is used by %T", r)
			}
		}
	}
	visit(par, false)
	return bad
}

func posStr(fn *ssa.Function, in ssa.Instruction) string {
	if fn.Prog == nil {
		return "?"
	}
	ps := fn.Prog.Fset.Position(in.Pos())
	return fmt.Sprintf("line %d", ps.Line)
}

func capturedCell(al *ssa.Alloc) bool {
	for _, r := range core.Refs(al) {
		if _, ok := r.(*ssa.MakeClosure); ok {
			return true
		}
	}
	return false
}

// mdConverters: top-level httpgrpc functions converting between metadata.MD
// and a wire form (http.Header / the trailer proto map).
func mdConverters(p *core.Prog) []*ssa.Function {
	var out []*ssa.Function
	md := metadataPkg + ".MD"
	isWire := func(s string) bool {
		return s == "net/http.Header" || strings.HasPrefix(s, "map[string]*") && strings.Contains(s, "TrailerValues")
	}
	for _, fn := range p.LibFuncs("httpgrpc") {
		if fn.Parent() != nil || fn.Signature.Recv() != nil {
			continue
		}
		hasMD, hasWire := false, false
		for _, pp := range fn.Params {
			t := core.TypeStr(pp.Type())
			hasMD = hasMD || t == md
			hasWire = hasWire || isWire(t)
		}
		for i := 0; i < fn.Signature.Results().Len(); i++ {
			t := core.TypeStr(fn.Signature.Results().At(i).Type())
			hasMD = hasMD || t == md
			hasWire = hasWire || isWire(t)
		}
		if hasMD && hasWire {
			out = append(out, fn)
		}
	}
	return out
}

func isStringish(t types.Type) bool {
	if b, ok := t.Underlying().(*types.Basic); ok && b.Kind() == types.String {
		return true
	}
	if sl, ok := t.Underlying().(*types.Slice); ok {
		return isStringish(sl.Elem())
	}
	return false
}

func c03Verbatim(c *core.Ctx) {
	p := c.P
	convs := mdConverters(p)
	if len(convs) < 4 {
		c.Fail("httpgrpc:converters", token.NoPos, "ANCHOR-MISSING: expected 4 MD↔wire converters, found %d", len(convs))
	}
	for _, fn := range convs {
		key := core.FuncName(fn) + ":values-verbatim"
		var sinks []ssa.Value
		var sinkAt []ssa.Instruction
		add := func(v ssa.Value, at ssa.Instruction) {
			if v != nil && isStringish(v.Type()) {
				sinks = append(sinks, v)
				sinkAt = append(sinkAt, at)
			}
		}
		core.Instrs(fn, func(in ssa.Instruction) {
			switch x := in.(type) {
			case *ssa.MapUpdate:
				add(x.Value, in)
			case *ssa.Call:
				if b, ok := x.Call.Value.(*ssa.Builtin); ok {
					if b.Name() == "append" && len(x.Call.Args) == 2 {
						if els, ok := core.VariadicArgs(x.Call.Args[1]); ok {
							for _, e := range els {
								add(e, in)
							}
						} else {
							add(x.Call.Args[1], in)
						}
					}
					return
				}
				ci := core.InfoOf(&x.Call)
				if ci.Recv == "Header" && (ci.Name == "Add" || ci.Name == "Set") && len(x.Call.Args) >= 2 {
					add(x.Call.Args[len(x.Call.Args)-1], in)
				}
			case *ssa.Store:
				if _, f, ok := core.FieldOf(x.Addr); ok && f == "Values" {
					add(x.Val, in)
				}
			}
		})
		if len(sinks) == 0 {
			c.Fail(key, fn.Pos(), "ANCHOR-MISSING: converter has no recognisable output (append / map update / Header.Add)")
			continue
		}
		bad, undec := "", ""
		for _, sv := range sinks {
			b, u := traceVerbatim(sv, base64Coder)
			if b != "" {
				bad = b
			}
			if u != "" {
				undec = u
			}
		}
		switch {
		case bad != "":
			c.Fail(key, fn.Pos(), "%s: what one side set is not what the other side sees (values containing the separator, spaces or upper-case letters are altered or multiplied)", bad)
		case undec != "":
			c.Undecided(key, fn.Pos(), "cannot trace an output value back to the input (%s)", undec)
		default:
			c.Ok(key, fn.Pos(), "%d output value(s): each is an input element, unchanged or base64-coded", len(sinks))
		}
	}
}

// base64Coder: the only value transformation the metadata converters may apply.
func base64Coder(call *ssa.Call) (ssa.Value, bool) {
	ci := core.InfoOf(&call.Call)
	if ci.Pkg == "encoding/base64" && (ci.Name == "DecodeString" || ci.Name == "EncodeToString") {
		return call.Call.Args[len(call.Call.Args)-1], true
	}
	return nil, false
}

// traceVerbatim follows a string / []string value backwards to where it comes
// from and reports the first operation on the way that changes it (bad) or
// that the tracer does not understand (undec). Transparent: φ, conversions,
// full slices, appends (all operands), element and field reads, range
// elements, and the calls accepted by allow (which names the operand to
// continue with).
func traceVerbatim(root ssa.Value, allow func(*ssa.Call) (ssa.Value, bool)) (bad, undec string) {
	seen := map[ssa.Value]bool{}
	var trace func(v ssa.Value)
	trace = func(v ssa.Value) {
		if v == nil || seen[v] || bad != "" {
			return
		}
		seen[v] = true
		for _, o := range core.Origins(v) {
			if o != v && seen[o] {
				continue
			}
			seen[o] = true
			switch x := o.(type) {
			case *ssa.Parameter, *ssa.Lookup, *ssa.Alloc, *ssa.FreeVar, *ssa.MakeMap:
			case *ssa.Const:
				if !x.IsNil() {
					bad = "a constant is put into the output in place of the input's value"
				}
			case *ssa.Phi:
				for _, e := range x.Edges {
					trace(e)
				}
			case *ssa.Convert:
				trace(x.X)
			case *ssa.ChangeType:
				trace(x.X)
			case *ssa.MakeInterface:
				trace(x.X)
			case *ssa.Slice:
				_, isStr := x.X.Type().Underlying().(*types.Basic)
				if x.Low != nil || x.High != nil || isStr && (x.Low != nil || x.High != nil) {
					bad = "a sub-string / sub-slice of the input's value is put into the output"
				} else {
					trace(x.X)
				}
			case *ssa.Extract:
				switch t := x.Tuple.(type) {
				case *ssa.Next:
					// range element
				case *ssa.Call:
					if next, ok := allow(t); ok {
						trace(next)
					} else if rets := helperReturns(t, x.Index); rets != nil {
						for _, rv := range rets {
							trace(rv)
						}
					} else {
						bad = "the value passes through " + core.InfoOf(&t.Call).Full() + " on its way to the output"
					}
				case *ssa.TypeAssert:
					trace(t.X)
				default:
					undec = fmt.Sprintf("value extracted from %T", x.Tuple)
				}
			case *ssa.Call:
				if b, ok := x.Call.Value.(*ssa.Builtin); ok && b.Name() == "append" {
					for _, a := range x.Call.Args {
						if els, ok := core.VariadicArgs(a); ok && len(els) > 0 {
							for _, e := range els {
								trace(e)
							}
						} else {
							trace(a)
						}
					}
					continue
				}
				if next, ok := allow(x); ok {
					trace(next)
				} else if rets := helperReturns(x, 0); rets != nil {
					for _, rv := range rets {
						trace(rv)
					}
				} else {
					bad = "the value passes through " + core.InfoOf(&x.Call).Full() + " on its way to the output"
				}
			case *ssa.UnOp:
				if x.Op != token.MUL {
					undec = "unary operation on a value"
					continue
				}
				switch a := x.X.(type) {
				case *ssa.IndexAddr:
					trace(a.X) // element of a container: where does the container come from
				case *ssa.FieldAddr:
					// field of an input object / local accumulator
				default:
					undec = fmt.Sprintf("load through %T", x.X)
				}
			case *ssa.Field:
			case *ssa.BinOp:
				bad = "the value is concatenated/combined (" + x.Op.String() + ") before it is put into the output"
			case *ssa.Index:
				bad = "a single byte of the value is put into the output"
			default:
				undec = fmt.Sprintf("%T", o)
			}
		}
	}
	trace(root)
	return
}

// parkedKinds: for a store of a frame into a stream's peek slot, the frame
// kinds the parked frame can have at that point (from the dominating tests of
// its kind()); isRecv is false if the frame is a literal built in place rather
// than one received from the channel.
func parkedKinds(kinds map[string]int64, st *ssa.Store) (map[string]int64, bool) {
	fr, isAl := st.Val.(*ssa.Alloc)
	if !isAl && core.NamedOf(st.Val.Type()) == "frame" {
		// the slot holds a frame VALUE: what is stored is the received frame itself
		if ld, isLd := st.Val.(*ssa.UnOp); isLd && ld.Op == token.MUL {
			if al, ok := ld.X.(*ssa.Alloc); ok && len(core.StoresTo(al)) == 0 {
				return nil, false // a composite literal built in place
			}
		}
		if !isReceivedFrame(st.Val, 0) {
			return nil, false
		}
		possible := map[string]int64{}
		for name, k := range kinds {
			possible[name] = k
		}
		for _, ef := range core.DominatingFacts(st) {
			fc := ef.Fact
			k, isC := core.ConstInt(fc.Y)
			kc, isCall := fc.X.(*ssa.Call)
			if !isC || !isCall || core.InfoOf(&kc.Call).Name != "kind" || len(kc.Call.Args) == 0 {
				continue
			}
			if !(kc.Call.Args[0] == st.Val || core.SameVal(kc.Call.Args[0], st.Val) || sameOrigins(kc.Call.Args[0], st.Val)) {
				continue
			}
			for name, kk := range possible {
				if fc.Op == token.NEQ && kk == k {
					delete(possible, name)
				}
				if fc.Op == token.EQL && kk != k {
					delete(possible, name)
				}
			}
		}
		return possible, true
	}
	if !isAl || core.NamedOf(fr.Type()) != "frame" {
		return nil, false
	}
	if len(core.StoresTo(fr)) == 0 {
		return nil, false // a literal built in place (only field stores): it has exactly the kind of its one field
	}
	lit := true
	for _, s2 := range core.StoresTo(fr) {
		if _, isEx := s2.Val.(*ssa.Extract); isEx {
			lit = false
		}
		if _, isU := s2.Val.(*ssa.UnOp); isU {
			lit = false
		}
		if pp, isPar := s2.Val.(*ssa.Parameter); isPar && isReceivedFrame(pp, 0) {
			lit = false // the received frame handed to a step function
		}
	}
	if lit {
		return nil, false
	}
	possible := map[string]int64{}
	for name, k := range kinds {
		possible[name] = k
	}
	isKindOfFrame := func(v ssa.Value) bool {
		kc, ok := v.(*ssa.Call)
		if !ok || core.InfoOf(&kc.Call).Name != "kind" {
			return false
		}
		return core.OriginIs(kc.Call.Args[0], func(o ssa.Value) bool {
			u, ok := o.(*ssa.UnOp)
			return ok && u.X == ssa.Value(fr)
		}) || core.OriginIs(kc.Call.Args[0], func(o ssa.Value) bool {
			for _, s2 := range core.StoresTo(fr) {
				if s2.Val == o {
					return true
				}
			}
			return false
		})
	}
	for _, ef := range core.DominatingFacts(st) {
		fc := ef.Fact
		k, isC := core.ConstInt(fc.Y)
		if !isC || !isKindOfFrame(fc.X) {
			continue
		}
		for name, kk := range possible {
			if fc.Op == token.NEQ && kk == k {
				delete(possible, name)
			}
			if fc.Op == token.EQL && kk != k {
				delete(possible, name)
			}
		}
	}
	return possible, true
}

// updatesMapParam: fn stores into the map it receives as par (directly, or into
// the map it allocates in par's place when par is nil and returns).
func updatesMapParam(fn *ssa.Function, par *ssa.Parameter) bool {
	found := false
	core.Instrs(fn, func(in ssa.Instruction) {
		mu, ok := in.(*ssa.MapUpdate)
		if !ok {
			return
		}
		if core.OriginIs(mu.Map, func(o ssa.Value) bool { return o == ssa.Value(par) }) {
			found = true
		}
	})
	return found
}

// helperReturns: call is a static call of a module function with a body; the
// values it returns in position idx (nil if it is not such a call). A value
// computed by an extracted helper is traced into the helper.
func helperReturns(call *ssa.Call, idx int) []ssa.Value {
	h := call.Call.StaticCallee()
	if h == nil || h.Blocks == nil || h.Pkg == nil || h.Parent() != nil || !strings.HasPrefix(h.Pkg.Pkg.Path(), core.ModulePath) {
		return nil
	}
	var out []ssa.Value
	for _, r := range core.Returns(h) {
		if idx < len(r.Results) {
			out = append(out, r.Results[idx])
		}
	}
	return out
}

// impliedFacts: the facts that certainly hold when f holds, looking through
// bool helpers of the module and short-circuit conjunctions: f itself, and,
// where f says "call(...) is true" for a module function, what every
// true-returning path of that function establishes.
func impliedFacts(f core.Fact, depth int) []core.Fact {
	out := []core.Fact{f}
	if depth > 2 || f.Op != token.ILLEGAL || f.Neg {
		return out
	}
	call, ok := f.X.(*ssa.Call)
	if !ok {
		return out
	}
	fn := call.Call.StaticCallee()
	if fn == nil || fn.Blocks == nil || fn.Pkg == nil || !strings.HasPrefix(fn.Pkg.Pkg.Path(), core.ModulePath) {
		return out
	}
	// facts common to all ways the function returns true
	var common []core.Fact
	first := true
	addWay := func(fs []core.Fact) {
		if first {
			common, first = fs, false
			return
		}
		var keep []core.Fact
		for _, a := range common {
			for _, b := range fs {
				if a.Op == b.Op && a.Neg == b.Neg && (a.X == b.X || core.SameVal(a.X, b.X)) && (a.Y == b.Y || core.SameVal(a.Y, b.Y)) {
					keep = append(keep, a)
					break
				}
			}
		}
		common = keep
	}
	var waysTrue func(v ssa.Value, at ssa.Instruction, acc []core.Fact, d int)
	waysTrue = func(v ssa.Value, at ssa.Instruction, acc []core.Fact, d int) {
		if d > 6 {
			addWay(acc)
			return
		}
		if b, isC := core.ConstBool(v); isC {
			if b {
				addWay(acc)
			}
			return
		}
		if phi, isPhi := v.(*ssa.Phi); isPhi {
			for i, e := range phi.Edges {
				pred := phi.Block().Preds[i]
				term := pred.Instrs[len(pred.Instrs)-1]
				fs := append([]core.Fact{}, acc...)
				for _, ef := range core.DominatingFacts(term) {
					fs = append(fs, ef.Fact)
				}
				if iff, isIf := term.(*ssa.If); isIf {
					for si, sb := range pred.Succs {
						if sb == phi.Block() && pred.Succs[0] != pred.Succs[1] {
							fs = append(fs, core.CondFact(iff.Cond, si == 0))
						}
					}
				}
				waysTrue(e, term, fs, d+1)
			}
			return
		}
		fs := append(append([]core.Fact{}, acc...), core.CondFact(v, true))
		addWay(fs)
	}
	for _, r := range core.Returns(fn) {
		if len(r.Results) != 1 {
			return out
		}
		var acc []core.Fact
		for _, ef := range core.DominatingFacts(r) {
			acc = append(acc, ef.Fact)
		}
		waysTrue(r.Results[0], r, acc, 0)
	}
	for _, cf := range common {
		out = append(out, impliedFacts(cf, depth+1)...)
	}
	return out
}
