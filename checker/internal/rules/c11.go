package rules

import (
	"fmt"
	"go/ast"
	"go/constant"
	"go/token"
	"go/types"
	"sort"
	"strings"

	"golang.org/x/tools/go/ssa"

	"verif/checker/internal/core"
)

func init() { register("C11", c11) }

// codecSelectors: httpgrpc functions func(string) encoding.Codec.
func codecSelectors(p *core.Prog) []*ssa.Function {
	var out []*ssa.Function
	for _, fn := range p.LibFuncs("httpgrpc") {
		if fn.Parent() != nil || fn.Signature.Params().Len() != 1 || fn.Signature.Results().Len() != 1 {
			continue
		}
		// a plain function, or a method of a field-less type (a namespace such as `protocolV1 struct{}`): its
		// receiver carries nothing the answer could depend on
		if rv := fn.Signature.Recv(); rv != nil {
			st, isSt := core.Deref(rv.Type()).Underlying().(*types.Struct)
			if !isSt || st.NumFields() != 0 {
				continue
			}
		}
		if core.TypeStr(fn.Signature.Params().At(0).Type()) == "string" && core.TypeStr(fn.Signature.Results().At(0).Type()) == "google.golang.org/grpc/encoding.Codec" {
			out = append(out, fn)
		}
	}
	return out
}

// selectorTable: media type → codec name, extracted from the returns.
func selectorTable(fn *ssa.Function) (map[string]string, string) {
	return selectorTableBound(fn, nil, 0)
}

// selectorTableBound: the table of fn with some of its parameters bound to
// constants (a selector that delegates to a shared function of the package,
// handing it its media-type constant and a flag, is evaluated through it).
func selectorTableBound(fn *ssa.Function, bind map[*ssa.Parameter]ssa.Value, depth int) (map[string]string, string) {
	tab := map[string]string{}
	bad := ""
	constOf := func(v ssa.Value) (string, bool) {
		if s, ok := core.ConstString(v); ok {
			return s, true
		}
		if par, ok := v.(*ssa.Parameter); ok && bind != nil {
			if b, has := bind[par]; has {
				return core.ConstString(b)
			}
		}
		return "", false
	}
	for _, r := range core.Returns(fn) {
		v := r.Results[0]
		if core.IsNilConst(v) {
			continue
		}
		// infeasible under the binding of a bool parameter?
		infeasible := false
		for _, ef := range core.DominatingFacts(r) {
			if ef.Fact.Op == token.ILLEGAL {
				if par, ok := ef.Fact.X.(*ssa.Parameter); ok && bind != nil {
					if b, has := bind[par]; has {
						if bv, isC := core.ConstBool(b); isC && bv == ef.Fact.Neg {
							infeasible = true
						}
					}
				}
			}
		}
		if infeasible {
			continue
		}
		// delegation to a shared selector of the package with constant arguments
		if dc, _, isCall := core.CallResult(v); isCall && depth < 2 {
			if h := dc.Call.StaticCallee(); h != nil && h.Blocks != nil && core.PkgIs(h, "httpgrpc") && core.TypeStr(h.Signature.Results().At(0).Type()) == "google.golang.org/grpc/encoding.Codec" {
				b2 := map[*ssa.Parameter]ssa.Value{}
				for i, pp := range h.Params {
					if i < len(dc.Call.Args) {
						if _, isConst := dc.Call.Args[i].(*ssa.Const); isConst {
							b2[pp] = dc.Call.Args[i]
						}
					}
				}
				t2, bad2 := selectorTableBound(h, b2, depth+1)
				for k, vv := range t2 {
					tab[k] = vv
				}
				if bad2 != "" {
					bad = bad2
				}
				continue
			}
		}
		call, _, ok := core.CallResult(v)
		if !ok || !core.InfoOf(&call.Call).Is("google.golang.org/grpc/encoding.GetCodec") {
			bad = "returns a codec that is not encoding.GetCodec(<name>)"
			continue
		}
		// a lookup table: GetCodec(name) with name, ok := table[mediaType] on the ok edge, table a package-level
		// map of string constants that nothing modifies
		if lt, okLT := lookupTableOf(call.Call.Args[0], r); okLT {
			for k, vv := range lt {
				tab[k] = vv
			}
			continue
		}
		name := ""
		for _, o := range core.Origins(call.Call.Args[0]) {
			if s, ok := core.ConstString(o); ok {
				name = s
			}
		}
		media := ""
		for _, ef := range core.DominatingFacts(r) {
			if ef.Fact.Op == token.EQL {
				if s, ok := constOf(ef.Fact.Y); ok {
					media = s
				}
				if s, ok := constOf(ef.Fact.X); ok {
					media = s
				}
			}
		}
		if media == "" || name == "" {
			bad = "a codec is returned without an equality test of the media type against a constant"
			continue
		}
		tab[media] = name
	}
	return tab, bad
}

func c11(c *core.Ctx) {
	p := c.P
	c.Explain = "C11: in both HTTP handler closures every handler invocation is dominated by the POST test, by the non-nil codec chosen from the request's Content-Type by that kind's selector, and by the nil error of the header decoder; each failing edge replies with the constant 405/415/400 and reaches no handler; at most one handler invocation per request; the selector tables are extracted and compared with the client's Content-Type constants; after the stream handler exactly one trailer frame is written (except after a failed response write); an undecodable unary request yields InvalidArgument."
	c.NotDec = []string{"404 for unknown paths (http.ServeMux)", "JSON/protobuf equivalence of decoded values (codec semantics)", "well-formedness of what net/http emits"}
	hcs := httpHandlerClosures(p)
	sels := codecSelectors(p)
	tables := map[*ssa.Function]map[string]string{}
	for _, s := range sels {
		t, _ := selectorTable(s)
		tables[s] = t
	}

	// ---------------------------------------------------------------- R1
	if c.Rule("R1", "gate before dispatch: POST, supported content type, decodable headers; each failing edge answers 405 / 415 / 400 without running a handler", 12) {
		if len(hcs) < 2 {
			c.Missing("HTTP handler closures (unary and streaming)")
		}
		for _, hc := range hcs {
			key := core.FuncName(hc.Fn)
			sites := handlerInvocations(hc.Fn)
			if len(sites) == 0 {
				c.Fail(key+":dispatch", hc.Fn.Pos(), "no handler invocation in the HTTP handler")
				continue
			}
			isMethodPost := func(f core.Fact, eq bool) bool {
				want := token.EQL
				if !eq {
					want = token.NEQ
				}
				if f.Op != want {
					return false
				}
				s, isS := core.ConstString(f.Y)
				_, fld, ok := core.FieldOf(f.X)
				return isS && s == "POST" && ok && fld == "Method"
			}
			var selCall *ssa.Call
			for _, call := range core.CallsIn(hc.Fn, func(_ *ssa.Call, ci core.CallInfo) bool {
				for _, s := range sels {
					if ci.Static == s {
						return true
					}
				}
				return false
			}) {
				selCall = call
			}
			var hdrCall *ssa.Call
			for _, call := range core.CallsIn(hc.Fn, func(call *ssa.Call, ci core.CallInfo) bool {
				_, is := headerDecoderCall(call)
				return is
			}) {
				hdrCall = call
			}
			hdrErrIdx := -1
			if hdrCall != nil {
				hdrErrIdx, _ = headerDecoderCall(hdrCall)
			}
			if selCall == nil {
				c.Fail(key+":codec-selector", hc.Fn.Pos(), "no codec selection from the content type")
			} else {
				// argument: r.Header.Get("Content-Type")
				okArg := core.OriginIs(selCall.Call.Args[len(selCall.Call.Args)-1], func(o ssa.Value) bool {
					gc, _, ok := core.CallResult(o)
					if !ok || !core.InfoOf(&gc.Call).Is("net/http.Header.Get") {
						return false
					}
					k, _ := core.ConstString(gc.Call.Args[1])
					return strings.EqualFold(k, "content-type")
				})
				c.Check(okArg, key+":codec-from-content-type", selCall.Pos(), "codec selected from the request's Content-Type header", "codec is not selected from the request's Content-Type")
				// right selector for the kind: streaming must not accept JSON
				tab := tables[core.InfoOf(&selCall.Call).Static]
				if hc.Stream {
					_, hasJSON := tab["application/json"]
					c.Check(!hasJSON && len(tab) == 1, key+":selector-kind", selCall.Pos(), "streaming handler uses the streaming selector", fmt.Sprintf("streaming handler uses a selector accepting %v", keysOfS(tab)))
				} else {
					c.Check(len(tab) == 2, key+":selector-kind", selCall.Pos(), "unary handler uses the unary selector", fmt.Sprintf("unary handler uses a selector accepting %v", keysOfS(tab)))
				}
			}
			if hdrCall == nil {
				c.Fail(key+":header-decoder", hc.Fn.Pos(), "no call of the headers→context decoder")
			}
			for i, hs := range sites {
				k := fmt.Sprintf("%s:dispatch#%d", key, i)
				c.Check(core.GuardedBy(hs, func(f core.Fact) bool { return isMethodPost(f, true) }), k+":post", hs.Pos(), "dominated by r.Method == \"POST\"", "a handler can run for a request whose method is not POST")
				if selCall != nil {
					c.Check(core.GuardedBy(hs, func(f core.Fact) bool {
						return f.Op == token.NEQ && core.IsNilConst(f.Y) && core.OriginIs(f.X, func(o ssa.Value) bool { return o == ssa.Value(selCall) })
					}), k+":codec", hs.Pos(), "dominated by codec != nil", "a handler can run for an unsupported content type (nil codec)")
				}
				if hdrCall != nil {
					c.Check(core.GuardedBy(hs, func(f core.Fact) bool {
						return f.Op == token.EQL && core.IsNilConst(f.Y) && core.OriginIs(f.X, func(o ssa.Value) bool {
							cr, idx, ok := core.CallResult(o)
							return ok && cr == hdrCall && idx == hdrErrIdx
						})
					}), k+":headers", hs.Pos(), "dominated by headerErr == nil", "a handler can run although the request headers did not decode")
				}
			}
			// failing edges
			type gate struct {
				name string
				code int64
				pred func(core.Fact) bool
			}
			gates := []gate{
				{"method", 405, func(f core.Fact) bool { return isMethodPost(f, false) }},
			}
			if selCall != nil {
				gates = append(gates, gate{"content-type", 415, func(f core.Fact) bool {
					return f.Op == token.EQL && core.IsNilConst(f.Y) && core.OriginIs(f.X, func(o ssa.Value) bool { return o == ssa.Value(selCall) })
				}})
			}
			if hdrCall != nil {
				gates = append(gates, gate{"headers", 400, func(f core.Fact) bool {
					return f.Op == token.NEQ && core.IsNilConst(f.Y) && core.OriginIs(f.X, func(o ssa.Value) bool {
						cr, idx, ok := core.CallResult(o)
						return ok && cr == hdrCall && idx == hdrErrIdx
					})
				}})
			}
			for _, g := range gates {
				k := fmt.Sprintf("%s:reject-%s", key, g.name)
				found := false
				for _, ef := range core.EdgeFactsOf(hc.Fn) {
					if !g.pred(ef.Fact) {
						continue
					}
					found = true
					// reply with the constant code, unavoidable, and no handler reachable
					var reply ssa.Instruction
					v := core.Walk(core.Loc{B: ef.B.Succs[ef.Succ], Idx: 0}, nil, nil)
					for in := range v {
						if call, ok := in.(*ssa.Call); ok {
							ci := core.InfoOf(&call.Call)
							if (ci.Static != nil && core.PkgIs(ci.Static, "httpgrpc") && len(call.Call.Args) == 2 && core.TypeStr(call.Call.Args[0].Type()) == "net/http.ResponseWriter") || ci.Is("net/http.Error") {
								code := call.Call.Args[len(call.Call.Args)-1]
								if n, isC := core.ConstInt(code); isC && n == g.code {
									reply = in
								}
							}
						}
					}
					ranHandler := false
					for _, hs := range sites {
						if v[hs] {
							ranHandler = true
						}
					}
					okReply := reply != nil && core.EdgeMustReach(ef.B, ef.Succ, reply)
					c.Check(okReply && !ranHandler, k, ef.If.Pos(), fmt.Sprintf("answers %d and returns without running application code", g.code), fmt.Sprintf("the %s-rejection edge does not unavoidably answer %d (or can still reach a handler)", g.name, g.code))
				}
				if !found {
					c.Fail(k, hc.Fn.Pos(), "no %s test found", g.name)
				}
			}
		}
		c.EndRule()
	}

	// ---------------------------------------------------------------- R6
	if c.Rule("R6", "header decoding refuses what it cannot decode: the result of every base64 decode of a header value is used only on the nil-error edge of that very call", 2) {
		n := 0
		for _, fn := range p.LibFuncs("httpgrpc") {
			for _, dc := range core.CallsIn(fn, func(_ *ssa.Call, ci core.CallInfo) bool {
				return ci.Pkg == "encoding/base64" && ci.Name == "DecodeString"
			}) {
				n++
				key := core.FuncName(fn) + ":decode-checked"
				var val, errV ssa.Value
				for _, r := range core.Refs(dc) {
					if ex, ok := r.(*ssa.Extract); ok {
						if ex.Index == 0 {
							val = ex
						} else {
							errV = ex
						}
					}
				}
				bad := ""
				if errV == nil {
					bad = "the decode error is discarded"
				}
				if val != nil && errV != nil {
					for _, u := range core.Refs(val) {
						if _, isDbg := u.(*ssa.DebugRef); isDbg {
							continue
						}
						if !core.GuardedBy(u, func(f core.Fact) bool {
							return f.Op == token.EQL && core.IsNilConst(f.Y) && core.OriginIs(f.X, func(o ssa.Value) bool { return o == errV })
						}) {
							bad = "the decoded bytes are used without this decode's error having been found nil (a later value's result can overwrite the error)"
						}
					}
				}
				c.Check(bad == "", key, dc.Pos(), "decoded bytes are used only under err == nil of the same call", bad+": a request with an undecodable binary header value would reach the handler")
				// ... and in the function that turns a whole header set into metadata, which headers get decoded is a
				// matter of the "-bin" suffix alone: a name filter in front of the decode (skip what is "reserved")
				// lets an undecodable value of a filtered name through unvalidated — and drops metadata on the way
				if len(fn.Params) == 1 && core.TypeStr(fn.Params[0].Type()) == "net/http.Header" {
					var extra []string
					for _, ef := range core.DominatingFacts(dc) {
						f := ef.Fact
						if ex, ok := f.X.(*ssa.Extract); ok {
							if _, isNext := ex.Tuple.(*ssa.Next); isNext {
								continue // range over the map
							}
						}
						if f.Op == token.LSS || f.Op == token.GEQ || f.Op == token.GTR || f.Op == token.LEQ {
							continue // the inner loop over the values
						}
						if call, ok := f.X.(*ssa.Call); ok && f.Op == token.ILLEGAL {
							ci := core.InfoOf(&call.Call)
							if ci.Is("strings.HasSuffix") && !f.Neg {
								continue
							}
							extra = append(extra, ci.Name)
							continue
						}
						extra = append(extra, core.ValName(f.X))
					}
					c.Check(len(extra) == 0, core.FuncName(fn)+":decodes-every-bin-header", dc.Pos(), "whether a header value is base64-decoded depends on the -bin suffix of its name only", fmt.Sprintf("the decode of -bin header values is reached only under further conditions (%v): header names that fail them are skipped, so their values are never validated (a request with an undecodable one is dispatched) and never become metadata", extra))
				}
			}
		}
		if n < 2 {
			c.Fail("httpgrpc:base64-decodes", token.NoPos, "ANCHOR-MISSING: expected base64 decoding of header values (metadata and error details), found %d", n)
		}
		c.EndRule()
	}

	// ---------------------------------------------------------------- R2
	if c.Rule("R2", "at most one handler invocation per request; on the accepting path exactly one of {interceptor call, direct call}", 2) {
		for _, hc := range hcs {
			key := core.FuncName(hc.Fn) + ":handler-once"
			isH := func(in ssa.Instruction) bool {
				call, ok := in.(*ssa.Call)
				if !ok {
					return false
				}
				_, is := isHandlerInvocation(&call.Call)
				return is
			}
			_, mx, ok := core.CountRange(core.Entry(hc.Fn), isH, nil)
			sites := handlerInvocations(hc.Fn)
			// accepting path: after the last gate (the header decoder's nil edge)
			mnAcc := -1
			for _, ef := range core.EdgeFactsOf(hc.Fn) {
				f := ef.Fact
				if f.Op == token.EQL && core.IsNilConst(f.Y) && core.OriginIs(f.X, func(o ssa.Value) bool {
					cr, idx, ok := core.CallResult(o)
					if !ok {
						return false
					}
					ei, is := headerDecoderCall(cr)
					return is && idx == ei
				}) {
					m, _, ok2 := core.CountRange(core.Loc{B: ef.B.Succs[ef.Succ], Idx: 0}, isH, nil)
					if ok2 {
						mnAcc = m
					}
				}
			}
			// the unary handler may still bail out before dispatch when the body cannot be read (client went away)
			okMin := mnAcc == 1 || (!hc.Stream && mnAcc == 0)
			c.Check(ok && mx == 1 && len(sites) > 0 && okMin, key, hc.Fn.Pos(), fmt.Sprintf("handler invocations per request: max %d; accepting path min %d", mx, mnAcc), fmt.Sprintf("handler invocation count per request is not 'at most one, and one on the accepting path' (max %d, accepting-path min %d)", mx, mnAcc))
			// an accepted request is dispatched: a path from the last gate to a return that runs no handler passes one
			// of the bare-status rejections (the module's func(http.ResponseWriter, int) helper) — it is not answered
			// through the error renderer / trailer as if a handler had failed, with no interceptor ever having seen it
			isReject := func(in ssa.Instruction) bool {
				call, ok := in.(*ssa.Call)
				if !ok {
					return false
				}
				h := call.Call.StaticCallee()
				return h != nil && core.PkgIs(h, "httpgrpc") && len(call.Call.Args) == 2 && core.TypeStr(call.Call.Args[0].Type()) == "net/http.ResponseWriter" && core.TypeStr(call.Call.Args[1].Type()) == "int"
			}
			skipped := token.NoPos
			for _, ef := range core.EdgeFactsOf(hc.Fn) {
				f := ef.Fact
				if f.Op == token.EQL && core.IsNilConst(f.Y) && core.OriginIs(f.X, func(o ssa.Value) bool {
					cr, idx, ok := core.CallResult(o)
					if !ok {
						return false
					}
					ei, is := headerDecoderCall(cr)
					return is && idx == ei
				}) {
					reach := core.Walk(core.Loc{B: ef.B.Succs[ef.Succ], Idx: 0}, func(x ssa.Instruction) bool { return isH(x) || isReject(x) }, nil)
					for _, r := range core.Returns(hc.Fn) {
						if reach[r] {
							skipped = r.Pos()
							if !skipped.IsValid() {
								skipped = hc.Fn.Pos()
							}
						}
					}
				}
			}
			c.Check(skipped == token.NoPos, key+":accepted-means-dispatched", hc.Fn.Pos(), "after the last gate every path to a return runs the handler or passes a bare-status rejection", "a request that passed every gate can be answered without the handler (and so the interceptors) having been run and without a rejection status — e.g. a shortcut for a context that is already done, answered through the error renderer as if the handler had failed: interceptors never see the RPC")
		}
		c.EndRule()
	}

	// ---------------------------------------------------------------- R3
	if c.Rule("R3", "codec tables: unary accepts exactly {application/x-protobuf→proto, application/json→json}, streaming exactly {application/x-httpgrpc-proto+v1→proto}; the client sends exactly those types; the json codec is registered at init", 6) {
		if len(sels) != 2 {
			c.Fail("httpgrpc:selectors", token.NoPos, "ANCHOR-MISSING: expected two codec selectors (unary, streaming), found %d", len(sels))
		}
		wantU := map[string]string{"application/x-protobuf": "proto", "application/json": "json"}
		wantS := map[string]string{"application/x-httpgrpc-proto+v1": "proto"}
		for _, s := range sels {
			tab, bad := selectorTable(s)
			key := core.FuncName(s) + ":table"
			if bad != "" {
				c.Fail(key, s.Pos(), "%s", bad)
				continue
			}
			want := wantS
			if len(tab) >= 2 || tab["application/x-protobuf"] != "" {
				want = wantU
			}
			c.Check(sameTable(tab, want), key, s.Pos(), fmt.Sprintf("accepts exactly %v", tab), fmt.Sprintf("selector table is %v, want %v", tab, want))
			// media type is the parsed main type of the parameter
			var parses func(f *ssa.Function, pi int, depth int) bool
			parses = func(f *ssa.Function, pi int, depth int) bool {
				if len(core.CallsIn(f, func(call *ssa.Call, ci core.CallInfo) bool {
					return ci.Is("mime.ParseMediaType") && call.Call.Args[0] == ssa.Value(f.Params[pi])
				})) == 1 {
					return true
				}
				// the selector hands its parameter to a shared selector of the package that parses it
				if depth >= 2 {
					return false
				}
				for _, hc := range core.CallsIn(f, func(_ *ssa.Call, ci core.CallInfo) bool { return ci.Static != nil && core.PkgIs(ci.Static, "httpgrpc") }) {
					for ai, a := range hc.Call.Args {
						if a == ssa.Value(f.Params[pi]) && ai < len(hc.Call.StaticCallee().Params) && parses(hc.Call.StaticCallee(), ai, depth+1) {
							return true
						}
					}
				}
				return false
			}
			okParse := parses(s, len(s.Params)-1, 0)
			c.Check(okParse, core.FuncName(s)+":media-type-parsed", s.Pos(), "compares the parsed main media type (parameters ignored)", "the content type is not parsed with mime.ParseMediaType of the parameter")
		}
		// client constants
		for _, ct := range channelTypes(p, "httpgrpc") {
			for _, m := range []struct {
				name string
				want map[string]string
			}{{"Invoke", wantU}, {"NewStream", wantS}} {
				fn := declaredMethod(p, ct, m.name)
				if fn == nil {
					continue
				}
				key := typeKey(ct) + "." + m.name + ":content-type"
				got := ""
				for _, sc := range core.CallsIn(fn, func(call *ssa.Call, ci core.CallInfo) bool { return ci.Is("net/http.Header.Set") }) {
					if k, _ := core.ConstString(sc.Call.Args[1]); strings.EqualFold(k, "content-type") {
						got, _ = core.ConstString(sc.Call.Args[2])
					}
				}
				// set by a helper of the package that is handed the value
				for _, h := range core.HelperCallsOf(fn) {
					for _, sc := range core.CallsIn(h.Callee, func(call *ssa.Call, ci core.CallInfo) bool { return ci.Is("net/http.Header.Set") }) {
						if k, _ := core.ConstString(sc.Call.Args[1]); strings.EqualFold(k, "content-type") {
							v := sc.Call.Args[2]
							if a, ok := h.Bind[v]; ok {
								v = a
							}
							if s, ok := core.ConstString(v); ok {
								got = s
							}
						}
					}
				}
				_, accepted := m.want[got]
				c.Check(accepted && m.want[got] == "proto", key, fn.Pos(), "client sends "+got+", which that kind's server selector maps to the proto codec", fmt.Sprintf("client sends Content-Type %q, which the %s server selector does not map to the proto codec", got, m.name))
			}
		}
		// json codec registered in init
		reg := false
		for _, fn := range p.LibFuncs("httpgrpc") {
			if !strings.HasPrefix(fn.Name(), "init") {
				continue
			}
			for _, call := range core.CallsIn(fn, func(_ *ssa.Call, ci core.CallInfo) bool {
				return ci.Is("google.golang.org/grpc/encoding.RegisterCodec")
			}) {
				tn := core.NamedOf(core.Strip(call.Call.Args[0]).Type())
				if nt := p.Named("httpgrpc", tn); nt != nil {
					if nm := declaredMethod(p, nt, "Name"); nm != nil {
						for _, r := range core.Returns(nm) {
							if s, ok := core.ConstString(r.Results[0]); ok && s == "json" {
								reg = true
							}
						}
					}
				}
			}
		}
		c.Check(reg, "httpgrpc:json-codec-registered", token.NoPos, "a codec named \"json\" is registered in an init function", "no codec named \"json\" is registered at init: application/json requests would be answered 415 or crash")
		c.EndRule()
	}

	// ---------------------------------------------------------------- R4
	if c.Rule("R4", "a streaming reply always ends with exactly one trailer frame, built from the handler's error, except after a failed response write; nothing is written after it", 2) {
		c11OneTrailer(c, hcs)
		c.EndRule()
	}

	// ---------------------------------------------------------------- R7
	if c.Rule("R7", "no request makes a handler call a nil function: a func value the HTTP code calls or defers and that is a result of a package function is non-nil on every return of that function, or the call is made only on the nil-error edge of that call and every return with a nil func carries a non-nil error", 2) {
		n := 0
		for _, fn := range p.LibFuncs("httpgrpc") {
			core.Instrs(fn, func(in ssa.Instruction) {
				cc := core.CallOf(in)
				if cc == nil || cc.IsInvoke() {
					return
				}
				if _, isFn := cc.Value.Type().Underlying().(*types.Signature); !isFn {
					return
				}
				for _, o := range core.Origins(cc.Value) {
					src, idx, ok := core.CallResult(o)
					// a func kept in a field of a struct the package function returns by value (results packed into a result struct)
					fieldIdx := -1
					if !ok {
						if s2, i2, f2, ok2 := core.ResultField(o); ok2 {
							src, idx, ok, fieldIdx = s2, i2, true, f2
						}
					}
					if !ok {
						continue
					}
					callee := core.InfoOf(&src.Call).Static
					if callee == nil || callee.Blocks == nil || !core.PkgIs(callee, "httpgrpc") {
						continue
					}
					n++
					key := fmt.Sprintf("%s:call-of-result(%s#%d)", core.FuncName(fn), core.FuncName(callee), idx)
					errIdx := core.ErrResultIndex(callee.Signature)
					nilRets, nilWithoutErr := 0, false
					for _, r := range core.Returns(callee) {
						if idx >= len(r.Results) {
							continue
						}
						mayNil := false
						rv := r.Results[idx]
						if fieldIdx >= 0 {
							fv, zero, okF := structLitField(rv, fieldIdx)
							if !okF || zero {
								mayNil = true
							}
							rv = fv
						}
						if rv != nil {
							for _, ro := range core.Origins(rv) {
								if core.IsNilConst(ro) {
									mayNil = true
								}
							}
						}
						if !mayNil {
							continue
						}
						nilRets++
						if errIdx < 0 || core.ClassifyErr(r.Results[errIdx], r) != core.ErrNonNil {
							nilWithoutErr = true
						}
					}
					if nilRets == 0 {
						c.Ok(key, in.Pos(), "every return of %s gives a non-nil func", core.FuncName(callee))
						continue
					}
					guarded := errIdx >= 0 && core.GuardedBy(in, func(f core.Fact) bool {
						return f.Op == token.EQL && core.IsNilConst(f.Y) && core.OriginIs(f.X, func(v ssa.Value) bool {
							cr, i, ok := core.CallResult(v)
							return ok && cr == src && i == errIdx
						})
					})
					c.Check(guarded && !nilWithoutErr, key, in.Pos(), "called only on the nil-error edge, and nil funcs are returned only together with an error",
						fmt.Sprintf("%s can return a nil func (%d return(s)) and this call/defer is not confined to the nil-error edge of that call: a request that takes the error path panics the server goroutine", core.FuncName(callee), nilRets))
				}
			})
		}
		if n == 0 {
			c.Fail("httpgrpc:func-results", token.NoPos, "ANCHOR-MISSING: no call of a func value returned by a package function (the per-request cancel) found")
		}
		// ... nor a nil func kept in an options struct: a func-typed field of a package struct that the HTTP code calls
		// is tested non-nil where it is loaded (with a default on the other edge), or every place that creates such a
		// struct gives the field a non-nil value on all paths
		nF := 0
		for _, fn := range p.LibFuncs("httpgrpc") {
			core.InstrsDeep(fn, func(f *ssa.Function, in ssa.Instruction) {
				if f != fn {
					return
				}
				cc := core.CallOf(in)
				if cc == nil || cc.IsInvoke() {
					return
				}
				if _, isFn := cc.Value.Type().Underlying().(*types.Signature); !isFn {
					return
				}
				for _, lv := range core.Origins(cc.Value) {
					base, fld, isF := core.FieldOf(lv)
					if !isF {
						continue
					}
					if core.ResultPart(lv) != nil {
						continue // a field of a package function's result struct: decided with the function results above
					}
					tn := core.NamedOf(base.Type())
					nt := p.Named("httpgrpc", tn)
					if nt == nil {
						continue
					}
					nF++
					key := fmt.Sprintf("%s:call-of-field(%s.%s):non-nil", core.FuncName(fn), tn, fld)
					nonNil := func(fc core.Fact) bool {
						return fc.Op == token.NEQ && core.IsNilConst(fc.Y) && (fc.X == lv || core.SameVal(fc.X, lv))
					}
					if core.GuardedBy(in, nonNil) {
						c.Ok(key, in.Pos(), "the field's value is used only where it was tested non-nil")
						continue
					}
					// `f := x.fld; if f == nil { f = Default }`: the loaded value sits in a local cell; it survives to the
					// use (or to the literal that captures the cell) only along the edge on which the cell was found non-nil
					viaCell := false
					if li, isI := lv.(ssa.Instruction); isI {
						g := li.Parent()
						core.Instrs(g, func(x ssa.Instruction) {
							st, isS := x.(*ssa.Store)
							if !isS || st.Val != lv {
								return
							}
							cell, isA := st.Addr.(*ssa.Alloc)
							if !isA {
								return
							}
							// targets: the call itself (same function) or the literals capturing the cell
							var targets []ssa.Instruction
							if g == in.Parent() {
								targets = append(targets, in)
							}
							core.Instrs(g, func(y ssa.Instruction) {
								if mc, isMC := y.(*ssa.MakeClosure); isMC {
									for _, bnd := range mc.Bindings {
										if bnd == ssa.Value(cell) {
											targets = append(targets, mc)
										}
									}
								}
							})
							if len(targets) == 0 {
								return
							}
							reach := core.Walk(core.After(st), func(y ssa.Instruction) bool {
								s2, isS2 := y.(*ssa.Store)
								return isS2 && s2 != st && s2.Addr == ssa.Value(cell)
							}, func(bb *ssa.BasicBlock, si int) bool {
								iff, isIf := bb.Instrs[len(bb.Instrs)-1].(*ssa.If)
								if !isIf {
									return true
								}
								fc := core.CondFact(iff.Cond, si == 0)
								if fc.Op == token.NEQ && core.IsNilConst(fc.Y) {
									if u, isU := fc.X.(*ssa.UnOp); isU && u.Op == token.MUL && u.X == ssa.Value(cell) {
										return false
									}
								}
								return true
							})
							ok := true
							for _, t := range targets {
								if reach[t] {
									ok = false
								}
							}
							if ok {
								viaCell = true
							}
						})
					}
					// the same without a cell (`f := x.fld; if f == nil { f = Default }` with f not captured): the loaded
					// value is only compared with nil, or merged (φ) along an edge on which it was found non-nil
					if !viaCell {
						if li, isI := lv.(ssa.Instruction); isI && lv.Referrers() != nil && li.Parent() != in.Parent() || isI && lv.Referrers() != nil && !core.GuardedBy(in, nonNil) {
							all, nPhi := true, 0
							for _, r := range *lv.Referrers() {
								switch rr := r.(type) {
								case *ssa.BinOp:
									if !(rr.Op == token.EQL || rr.Op == token.NEQ) || !(core.IsNilConst(rr.X) || core.IsNilConst(rr.Y)) {
										all = false
									}
								case *ssa.Phi:
									for i, e := range rr.Edges {
										if e != lv {
											continue
										}
										nPhi++
										pred := rr.Block().Preds[i]
										okEdge := false
										if iff, isIf := pred.Instrs[len(pred.Instrs)-1].(*ssa.If); isIf {
											for si, sb := range pred.Succs {
												if sb == rr.Block() && nonNil(core.CondFact(iff.Cond, si == 0)) {
													okEdge = true
												}
											}
										}
										if !okEdge && core.GuardedBy(pred.Instrs[len(pred.Instrs)-1], nonNil) {
											okEdge = true
										}
										if !okEdge {
											all = false
										}
									}
								default:
									all = false
								}
							}
							if all && nPhi > 0 {
								viaCell = true
							}
						}
					}
					if viaCell {
						c.Ok(key, in.Pos(), "the field's value reaches the call only along the edge on which it was found non-nil (a default replaces it otherwise)")
						continue
					}
					// by construction?
					bad := ""
					sites := 0
					for _, g := range p.LibFuncs("httpgrpc") {
						core.Instrs(g, func(x ssa.Instruction) {
							al, isA := x.(*ssa.Alloc)
							if !isA || core.NamedOf(al.Type()) != tn {
								return
							}
							if pt, isP := al.Type().Underlying().(*types.Pointer); !isP || core.NamedOf(pt.Elem()) != tn {
								return
							}
							sites++
							setsField := func(y ssa.Instruction) bool {
								st, isS := y.(*ssa.Store)
								if !isS || core.IsNilConst(st.Val) {
									return false
								}
								b2, f2, ok2 := core.FieldOf(st.Addr)
								return ok2 && f2 == fld && core.NamedOf(b2.Type()) == tn
							}
							for _, r := range core.Returns(g) {
								if core.Reachable(core.After(al), r) && !core.MustPass(core.After(al), r, setsField) {
									bad = core.FuncName(g)
								}
							}
						})
					}
					if bad == "" && sites > 0 {
						c.Ok(key, in.Pos(), "every one of the %d places that create a %s stores a non-nil %s on all paths", sites, tn, fld)
					} else {
						c.Fail(key, in.Pos(), "the func in %s.%s is called without a nil test, and %s creates a %s without giving the field a value on every path: a request that reaches this call through that entry point panics the server goroutine", tn, fld, bad, tn)
					}
				}
			})
		}
		c.EndRule()
	}

	// ---------------------------------------------------------------- R8
	if c.Rule("R9", "no request bytes make the server index out of range: every index/slice expression in hand-written httpgrpc code (header parsing, timeout units, framing) is in range on all paths (obligations shared with C07/R4)", 20) {
		for _, fn := range p.LibFuncs("httpgrpc") {
			for _, ob := range core.BoundsOf(fn) {
				key := core.FuncName(fn) + ":" + ob.Desc
				if ob.Proven {
					if strings.Contains(ob.Why, "array type") {
						c.OkTrivial(key, ob.Instr.Pos(), "%s", ob.Why)
					} else {
						c.Ok(key, ob.Instr.Pos(), "%s", ob.Why)
					}
				} else {
					c.Fail(key, ob.Instr.Pos(), "index expression may be out of range: %s (a panic inside the HTTP handler)", ob.Why)
				}
			}
		}
		c.EndRule()
	}

	if c.Rule("R8", "a codec that reports success has coded: in every encoding.Codec implementation of the package, each possibly-nil return of Unmarshal passes a decode call that takes the input bytes and the destination message, and the bytes Marshal returns on success come from an encode call that takes the message", 2) {
		n := 0
		for _, nt := range codecTypes(p) {
			// "a JSON-encoded request is handled identically to its protobuf encoding": the codec takes every message
			// the protobuf codec takes — messages generated before API v2 included — so the message argument is
			// asserted to the v1 message interface (then adapted), never to one that demands ProtoReflect
			for _, mn := range []string{"Marshal", "Unmarshal"} {
				m := declaredMethod(p, nt, mn)
				if m == nil {
					continue
				}
				core.Instrs(m, func(in ssa.Instruction) {
					ta, ok := in.(*ssa.TypeAssert)
					if !ok {
						return
					}
					isMsgParam := false
					for _, pp := range m.Params[1:] {
						if !isByteSlice(pp.Type()) && core.OriginIs(ta.X, func(o ssa.Value) bool { return o == ssa.Value(pp) }) {
							isMsgParam = true
						}
					}
					it, isI := ta.AssertedType.Underlying().(*types.Interface)
					if !isMsgParam || !isI {
						return
					}
					needsReflect := false
					for i := 0; i < it.NumMethods(); i++ {
						if it.Method(i).Name() == "ProtoReflect" {
							needsReflect = true
						}
					}
					c.Check(!needsReflect, core.FuncName(m)+":accepts-legacy-messages", ta.Pos(), "the message is asserted to the v1 proto.Message interface (every generated message has it) and adapted", "the message is asserted to an interface that requires ProtoReflect: messages generated before protobuf API v2 are refused by this codec although the protobuf codec accepts them, so the same request works as protobuf and fails as JSON")
				})
			}
			if um := declaredMethod(p, nt, "Unmarshal"); um != nil && len(um.Params) == 3 {
				n++
				data, dst := derivedFrom(um.Params[1], false), derivedFrom(um.Params[2], false)
				isDecode := func(in ssa.Instruction) bool {
					call, ok := in.(*ssa.Call)
					if !ok {
						return false
					}
					hasData, hasDst := false, false
					for _, a := range call.Call.Args {
						if data[a] && isByteSlice(a.Type()) {
							hasData = true
						}
						if dst[a] && !isByteSlice(a.Type()) {
							hasDst = true
						}
					}
					return hasData && hasDst
				}
				bad := false
				for _, r := range core.Returns(um) {
					for _, l := range core.ErrLeaves(r.Results[0], r) {
						if l.Class != core.ErrNonNil && !core.MustPass(core.Entry(um), l.At, isDecode) {
							bad = true
						}
					}
				}
				c.Check(!bad, core.FuncName(um)+":success-decodes", um.Pos(), "every possibly-nil return passes a decode of the input bytes into the destination", "a possibly-nil (success) return is reachable without decoding the bytes into the message (e.g. a shortcut for empty input): input that is not valid for this codec is accepted and the handler runs on an empty message")
			}
			if mm := declaredMethod(p, nt, "Marshal"); mm != nil && len(mm.Params) == 2 {
				n++
				src := derivedFrom(mm.Params[1], false)
				bad := false
				for _, r := range core.Returns(mm) {
					if core.ClassifyErr(r.Results[1], r) == core.ErrNonNil {
						continue
					}
					for _, o := range core.Origins(r.Results[0]) {
						call, _, ok := core.CallResult(o)
						fromMsg := false
						if ok {
							for _, a := range call.Call.Args {
								if src[a] {
									fromMsg = true
								}
							}
						}
						if !fromMsg {
							bad = true
						}
					}
				}
				c.Check(!bad, core.FuncName(mm)+":success-encodes", mm.Pos(), "the bytes returned on success are the result of an encode call on the message", "bytes returned with a possibly-nil error do not come from an encode call that takes the message")
			}
		}
		if n == 0 {
			c.Fail("httpgrpc:codecs", token.NoPos, "ANCHOR-MISSING: no codec implementation (Marshal/Unmarshal/Name) in httpgrpc")
		}
		c.EndRule()
	}

	// ---------------------------------------------------------------- R5
	if c.Rule("R5", "an undecodable request reaches the caller as an error: the unary decode callback wraps the codec's error with the constant code InvalidArgument; a streaming request truncated inside a message never reaches the handler as a clean end of the request stream (shared with C07/R2)", 3) {
		n := 0
		for _, hc := range hcs {
			if hc.Stream {
				continue
			}
			lits := append([]*ssa.Function{}, hc.Fn.AnonFuncs...)
			// the callback may be built by a single-use factory function of the package (unaryDecoder(codec, req))
			for _, h := range core.HelperCallsOf(hc.Fn) {
				if h.Callee != nil && h.Callee.Blocks != nil && core.InlineSite[h.Callee] != nil {
					lits = append(lits, h.Callee.AnonFuncs...)
				}
			}
			for _, a := range lits {
				if len(a.Params) != 1 || a.Signature.Results().Len() != 1 || !core.IsErrorType(a.Signature.Results().At(0).Type()) {
					continue
				}
				ums := core.CallsIn(a, func(_ *ssa.Call, ci core.CallInfo) bool { return ci.Name == "Unmarshal" })
				if len(ums) == 0 {
					continue
				}
				n++
				key := core.FuncName(a) + ":decode-error-code"
				um := ums[0]
				ok := false
				for _, r := range core.Returns(a) {
					if core.GuardedBy(r, func(f core.Fact) bool { return f.Op == token.NEQ && core.IsNilConst(f.Y) && f.X == ssa.Value(um) }) {
						for _, l := range core.ErrLeaves(r.Results[0], r) {
							if code, isS := core.StatusCtorCode(l.V); isS && code == 3 {
								ok = true
							} else {
								ok = false
							}
						}
					}
				}
				c.Check(ok, key, um.Pos(), "Unmarshal error is returned as status InvalidArgument(3)", "an undecodable request is not reported with the constant code InvalidArgument")
				// every possibly-nil return of the callback passes the decode
				okAll := true
				for _, r := range core.Returns(a) {
					if core.ClassifyErr(r.Results[0], r) == core.ErrNonNil {
						continue
					}
					if !core.MustPass(core.Entry(a), r, func(in ssa.Instruction) bool { return in == ssa.Instruction(um) }) {
						okAll = false
					}
				}
				c.Check(okAll, core.FuncName(a)+":always-decodes", um.Pos(), "the callback reports success only after codec.Unmarshal ran", "the decode callback can report success without calling the codec (e.g. a shortcut for some bodies): an undecodable request for that codec is handled as if it were valid")
				// the bytes decoded are the request body read in full
				okBody := core.OriginIs(um.Call.Args[0], func(o ssa.Value) bool {
					if core.IsResultOf(o, 0, "io/ioutil.ReadAll", "io.ReadAll") {
						return true
					}
					// captured from a factory's parameter: the argument of the factory's only call
					if r := core.ResolveFree(o); r != o {
						return core.OriginIs(r, func(o2 ssa.Value) bool { return core.IsResultOf(o2, 0, "io/ioutil.ReadAll", "io.ReadAll") })
					}
					return false
				})
				c.Check(okBody, core.FuncName(a)+":decodes-request-body", um.Pos(), "decodes the bytes read from the request body", "the decode callback does not decode the request body")
			}
		}
		if n == 0 {
			c.Fail("httpgrpc:unary-decode-callback", token.NoPos, "ANCHOR-MISSING: no decode callback in the unary handler")
		}
		// streaming: a request cut inside a message is an undecodable request, not the clean end of the request
		// stream (obligations shared with C07/R2)
		if c07ServerPayloadEOF(c, p.LibFuncs("httpgrpc")) == 0 {
			c.Missing("httpgrpc server stream RecvMsg")
		}
		c.EndRule()
	}

	// ---------------------------------------------------------------- R10 (shared)
	// "no request makes the server panic": every allocation sized by a preface is dominated by the sign and the
	// upper-bound test (C07/R1) — a negated MinInt32 preface stays negative and make() panics
	c.Borrow("C07", map[string]string{"R1": "R10"}, c07)

	// ---------------------------------------------------------------- R11 (shared)
	// "404 for unknown paths without running application code": the only patterns registered are the exact
	// join(base, service/method) paths of the descriptor entries — no subtree pattern, no alias (C12/R4)
	c.Borrow("C12", map[string]string{"R4": "R11"}, c12)
	// "always answers well-formed" for every ResponseWriter: a send must not fail because the writer cannot flush (C01/R12)
	c.Borrow("C01", map[string]string{"R12": "R12"}, c01)
	// "an undecodable request message reaches the caller as a non-OK status": what the unary decode callback is
	// given is the WHOLE request body (a full read of the body itself, not of a truncating view of it) — a body cut
	// at a limit can decode although the request as sent does not (C07/R3)
	c.Borrow("C07", map[string]string{"R3": "R13"}, c07)
	// what follows the one request of a single-request method is looked at: the handler's receive reads on to the end
	// of the request body, so that trailing garbage or a cut second frame ends the call with a non-OK status instead
	// of being ignored (C08/R3)
	c.Borrow("C08", map[string]string{"R3": "R14"}, c08)

}

func sameTable(a, b map[string]string) bool {
	if len(a) != len(b) {
		return false
	}
	for k, v := range a {
		if b[k] != v {
			return false
		}
	}
	return true
}

func keysOfS(m map[string]string) []string {
	var out []string
	for k := range m {
		out = append(out, k)
	}
	sort.Strings(out)
	return out
}

// c11OneTrailer: the body of C11/R4 (also a necessary condition of C04: a
// handler's context error reaches the client only through the trailer).
func c11OneTrailer(c *core.Ctx, hcs []handlerClosure) {
	for _, hc := range hcs {
		if !hc.Stream {
			continue
		}
		key := core.FuncName(hc.Fn)
		sites := handlerInvocations(hc.Fn)
		isTrailerWrite := func(in ssa.Instruction) bool {
			call, ok := in.(*ssa.Call)
			if !ok {
				return false
			}
			isW, end := httpFrameWriteCall(call)
			return isW && end == 1
		}
		edgeOK := func(b *ssa.BasicBlock, si int) bool {
			iff, ok := b.Instrs[len(b.Instrs)-1].(*ssa.If)
			if !ok {
				return true
			}
			f := core.CondFact(iff.Cond, si == 0)
			// tabled exit: a response write already failed
			if f.Op == token.ILLEGAL && !f.Neg {
				if _, fld, ok := core.FieldOf(f.X); ok && strings.Contains(strings.ToLower(fld), "fail") {
					return false
				}
			}
			return true
		}
		// ... and the trailer follows the handler's return at once: nothing in between waits for the rest of the
		// request (a drain of the body blocks until the client half-closes, which a client waiting for the final
		// status may never do)
		if len(hc.Fn.Params) == 2 {
			rPar := hc.Fn.Params[1]
			for i, hs := range sites {
				reach := core.Walk(core.After(hs), isTrailerWrite, nil)
				bad := token.NoPos
				for in := range reach {
					if _, isDefer := in.(*ssa.Defer); isDefer {
						continue
					}
					if readsRequestBody(in, rPar, 0) {
						bad = in.Pos()
					}
				}
				c.Check(bad == token.NoPos, fmt.Sprintf("%s:dispatch#%d:trailer-not-behind-a-request-read", key, i), hs.Pos(), "no read of the request body between the handler's return and the trailer write", "between the handler's return and the trailer write the request body is read (drained): the final status is held back until the client stops sending, and a client that waits for the status first never gets it")
			}
		}
		for i, hs := range sites {
			mn, mx, ok := core.CountRange(core.After(hs), isTrailerWrite, edgeOK)
			c.Check(ok && mn == 1 && mx == 1, fmt.Sprintf("%s:dispatch#%d:one-trailer", key, i), hs.Pos(), "exactly one trailer frame on every path after the handler (write-failed exit excepted)", fmt.Sprintf("after the handler returned the number of trailer frames written is in [%d,%d], want exactly 1: the client cannot learn the final status", mn, mx))
		}
		// trailer is the HttpTrailer built here, and it is the last write
		for _, call := range core.CallsIn(hc.Fn, func(call *ssa.Call, _ core.CallInfo) bool { return isTrailerWrite(call) }) {
			msg := call.Call.Args[2]
			okMsg := core.OriginIs(msg, func(o ssa.Value) bool {
				al, ok := o.(*ssa.Alloc)
				return ok && core.NamedOf(al.Type()) == "HttpTrailer"
			})
			c.Check(okMsg, key+":trailer-message", call.Pos(), "the final frame carries the HttpTrailer built from the handler's outcome", "the final frame is not the HttpTrailer built in this handler")
			after := core.Walk(core.After(call), nil, nil)
			later := false
			for in := range after {
				if c2, ok := in.(*ssa.Call); ok {
					ci := core.InfoOf(&c2.Call)
					if ci.Iface && (ci.Name == "Write" || ci.Name == "WriteHeader") {
						later = true
					}
					if isW, _ := httpFrameWriteCall(c2); isW {
						later = true
					}
				}
			}
			c.Check(!later, key+":nothing-after-trailer", call.Pos(), "nothing is written after the trailer frame", "something can be written to the reply after the trailer frame")
		}
	}
}

func isByteSlice(t types.Type) bool {
	sl, ok := t.Underlying().(*types.Slice)
	if !ok {
		return false
	}
	b, ok := sl.Elem().Underlying().(*types.Basic)
	return ok && (b.Kind() == types.Byte || b.Kind() == types.Uint8)
}

// codecTypes: library types of httpgrpc with Marshal, Unmarshal and Name methods.
func codecTypes(p *core.Prog) []*types.Named {
	var out []*types.Named
	pk := p.Pkgs[core.ModulePath+"/httpgrpc"]
	if pk == nil {
		return nil
	}
	sc := pk.Types.Scope()
	for _, n := range sc.Names() {
		tn, ok := sc.Lookup(n).(*types.TypeName)
		if !ok {
			continue
		}
		nt, ok := tn.Type().(*types.Named)
		if !ok || !p.IsLibFile(tn.Pos()) {
			continue
		}
		has := map[string]bool{}
		for i := 0; i < nt.NumMethods(); i++ {
			has[nt.Method(i).Name()] = true
		}
		if has["Marshal"] && has["Unmarshal"] && has["Name"] {
			out = append(out, nt)
		}
	}
	return out
}

// headerDecoderCall: call is a call of the package's request-headers→context
// decoder — a function of httpgrpc taking (context, http.Header) whose last
// result is an error (the context and its cancel function travel in the results
// before it, or packed into one result struct); returns the index of the error.
func headerDecoderCall(call *ssa.Call) (int, bool) {
	ci := core.InfoOf(&call.Call)
	if ci.Static == nil || !core.PkgIs(ci.Static, "httpgrpc") || len(call.Call.Args) != 2 || core.TypeStr(call.Call.Args[1].Type()) != "net/http.Header" {
		return -1, false
	}
	res := ci.Static.Signature.Results()
	if res.Len() < 2 || !core.IsErrorType(res.At(res.Len()-1).Type()) {
		return -1, false
	}
	return res.Len() - 1, true
}

// structLitField: v is a struct value built by a composite literal in its
// function (a load of the literal's cell); the value stored to field i, or
// zero == true when the literal leaves the field out. ok is false for anything
// else.
func structLitField(v ssa.Value, i int) (val ssa.Value, zero bool, ok bool) {
	u, isU := v.(*ssa.UnOp)
	if !isU || u.Op != token.MUL {
		return nil, false, false
	}
	al, isAl := u.X.(*ssa.Alloc)
	if !isAl {
		return nil, false, false
	}
	n := 0
	for _, r := range core.Refs(al) {
		fa, isFA := r.(*ssa.FieldAddr)
		if !isFA {
			if _, isLoad := r.(*ssa.UnOp); isLoad {
				continue
			}
			if _, isDbg := r.(*ssa.DebugRef); isDbg {
				continue
			}
			return nil, false, false
		}
		if fa.Field != i {
			continue
		}
		for _, rr := range core.Refs(fa) {
			if st, isSt := rr.(*ssa.Store); isSt && st.Addr == ssa.Value(fa) {
				val = st.Val
				n++
			}
		}
	}
	if n == 0 {
		return nil, true, true
	}
	return val, false, n == 1
}

// lookupTableOf: v is the value part of a comma-ok lookup in a package-level
// map[string]string whose initialiser is a literal of constants and which no
// library code modifies; at (the use) is dominated by the ok edge. It returns
// the table.
func lookupTableOf(v ssa.Value, at ssa.Instruction) (map[string]string, bool) {
	var res map[string]string
	found := false
	for _, o := range core.Origins(v) {
		ex, ok := core.Strip(o).(*ssa.Extract)
		if !ok || ex.Index != 0 {
			return nil, false
		}
		lk, ok := ex.Tuple.(*ssa.Lookup)
		if !ok || !lk.CommaOk {
			return nil, false
		}
		ld, ok := core.Strip(lk.X).(*ssa.UnOp)
		if !ok {
			return nil, false
		}
		g, ok := ld.X.(*ssa.Global)
		if !ok || theProg == nil {
			return nil, false
		}
		// on the ok edge
		if !core.GuardedBy(at, func(f core.Fact) bool {
			if f.Op != token.ILLEGAL || f.Neg {
				return false
			}
			e2, isEx := core.Strip(f.X).(*ssa.Extract)
			return isEx && e2.Tuple == ssa.Value(lk) && e2.Index == 1
		}) {
			return nil, false
		}
		// never modified
		for _, fn := range theProg.LibFuncs("") {
			mod := false
			core.Instrs(fn, func(in ssa.Instruction) {
				switch x := in.(type) {
				case *ssa.MapUpdate:
					if core.OriginIs(x.Map, func(m ssa.Value) bool {
						u, isU := core.Strip(m).(*ssa.UnOp)
						return isU && u.X == ssa.Value(g)
					}) {
						mod = true
					}
				case *ssa.Store:
					if x.Addr == ssa.Value(g) && fn.Name() != "init" {
						mod = true
					}
				}
			})
			if mod {
				return nil, false
			}
		}
		init := theProg.VarInit(g.Object())
		cl, ok := init.(*ast.CompositeLit)
		if !ok {
			return nil, false
		}
		_, pk := theProg.FileOf(cl.Pos())
		if pk == nil {
			return nil, false
		}
		tab := map[string]string{}
		for _, e := range cl.Elts {
			kv, ok := e.(*ast.KeyValueExpr)
			if !ok {
				return nil, false
			}
			kt, vt := pk.TypesInfo.Types[kv.Key], pk.TypesInfo.Types[kv.Value]
			if kt.Value == nil || vt.Value == nil || kt.Value.Kind() != constant.String || vt.Value.Kind() != constant.String {
				return nil, false
			}
			tab[constant.StringVal(kt.Value)] = constant.StringVal(vt.Value)
		}
		res, found = tab, true
	}
	return res, found
}
