package rules

import (
	"fmt"
	"go/ast"
	"go/constant"
	"go/parser"
	"go/token"
	"go/types"
	"regexp"
	"sort"
	"strings"
	"text/template/parse"

	"golang.org/x/tools/go/ssa"

	"verif/checker/internal/core"
)

func init() { register("C19", c19) }

const genPkg = "cmd/protoc-gen-grpchan"

func c19(c *core.Ctx) {
	p := c.P
	c.Explain = "C19: 'the output is valid Go for every proto file' and 'regeneration is byte-identical' need the generator to run and are not decided. Decided: the per-service stream counter is reset per service, read before it is incremented, and incremented exactly on the streaming branches; each constant template parses, references only existing data fields, becomes a syntactically valid Go statement list when its actions are replaced by identifiers, and has the call shape of its branch; the checked-in stubs agree with the checked-in service descriptors; the option table is the documented one."
	c.NotDec = []string{"validity of the emitted Go for all descriptors (needs the generator to run)", "byte-identical regeneration of the checked-in stubs"}

	var gen *ssa.Function
	for _, fn := range p.LibFuncs(genPkg) {
		if fn.Parent() == nil && len(core.CallsIn(fn, isTemplateMaker)) > 0 {
			gen = fn
		}
	}
	if gen == nil {
		c.Rule("R0", "generator exists", 1)
		c.Missing("stub generator function (renders constant text/template texts) in " + genPkg)
		c.EndRule()
		return
	}
	gk := core.FuncName(gen)
	isPred := func(v ssa.Value, name string) bool {
		call, ok := v.(*ssa.Call)
		return ok && core.InfoOf(&call.Call).Name == name
	}
	// kindsAt: under which values of (IsClientStreaming, IsServerStreaming) of the method is `in` reached from the
	// start of the loop iteration (or of the function, for a per-method helper)? A finite case analysis over the two
	// flags: at every branch on one of them only the matching edge is followed.
	// (edgeFrom, edgeTo non-nil: the CFG edge edgeFrom→edgeTo is taken, instead of `in` being reached)
	var kindsAtEdge func(in ssa.Instruction, edgeFrom, edgeTo *ssa.BasicBlock, start core.Loc) map[string]bool
	kindsAt := func(in ssa.Instruction, start core.Loc) map[string]bool { return kindsAtEdge(in, nil, nil, start) }
	kindsAtEdge = func(in ssa.Instruction, edgeFrom, edgeTo *ssa.BasicBlock, start core.Loc) map[string]bool {
		out := map[string]bool{}
		for _, a := range []bool{false, true} {
			for _, b := range []bool{false, true} {
				a, b := a, b
				edgeTaken := false
				v := core.Walk(start, func(x ssa.Instruction) bool { return false }, func(bb *ssa.BasicBlock, si int) bool {
					ok := true
					if iff, isIf := bb.Instrs[len(bb.Instrs)-1].(*ssa.If); isIf {
						f := core.CondFact(iff.Cond, si == 0)
						if f.Op == token.ILLEGAL {
							if isPred(f.X, "IsClientStreaming") {
								ok = f.Neg != a
							} else if isPred(f.X, "IsServerStreaming") {
								ok = f.Neg != b
							}
						}
					}
					if ok && bb == edgeFrom && bb.Succs[si] == edgeTo {
						edgeTaken = true
					}
					return ok
				})
				if (edgeFrom == nil && v[in]) || (edgeFrom != nil && edgeTaken) {
					k := "unary"
					switch {
					case a:
						k = "client-or-bidi"
					case b:
						k = "server-stream"
					}
					out[k] = true
				}
			}
		}
		return out
	}
	_ = kindsAt
	branchOf := func(in ssa.Instruction) string {
		cs := core.GuardedBy(in, func(f core.Fact) bool { return f.Op == token.ILLEGAL && !f.Neg && isPred(f.X, "IsClientStreaming") })
		notCs := core.GuardedBy(in, func(f core.Fact) bool { return f.Op == token.ILLEGAL && f.Neg && isPred(f.X, "IsClientStreaming") })
		ss := core.GuardedBy(in, func(f core.Fact) bool { return f.Op == token.ILLEGAL && !f.Neg && isPred(f.X, "IsServerStreaming") })
		notSs := core.GuardedBy(in, func(f core.Fact) bool { return f.Op == token.ILLEGAL && f.Neg && isPred(f.X, "IsServerStreaming") })
		switch {
		case cs:
			return "client-or-bidi"
		case notCs && ss:
			return "server-stream"
		case notCs && notSs:
			return "unary"
		}
		return "?"
	}

	// ---------------------------------------------------------------- R1
	if c.Rule("R1", "stream index discipline: the counter starts at 0 for every service, is stored into the template data before any increment, and is incremented exactly once on each streaming branch and never on the unary branch", 4) {
		var cnt *ssa.Phi
		core.Instrs(gen, func(in ssa.Instruction) {
			phi, ok := in.(*ssa.Phi)
			if !ok || core.TypeStr(phi.Type()) != "int" {
				return
			}
			// the phi whose value is stored into the field named StreamIndex
			for _, r := range core.Refs(phi) {
				if st, ok := r.(*ssa.Store); ok {
					if _, f, ok := core.FieldOf(st.Addr); ok && strings.Contains(f, "StreamIndex") {
						cnt = phi
					}
				}
			}
		})
		cntFn := gen
		if cnt == nil {
			// the per-method body is a helper that receives the index as a parameter: the counter lives in its caller
			core.Instrs(gen, func(in ssa.Instruction) {
				st, ok := in.(*ssa.Store)
				if !ok {
					return
				}
				if _, f, ok := core.FieldOf(st.Addr); !ok || !strings.Contains(f, "StreamIndex") {
					return
				}
				par, isPar := st.Val.(*ssa.Parameter)
				if !isPar {
					return
				}
				idx := -1
				for i, pp := range gen.Params {
					if pp == par {
						idx = i
					}
				}
				for _, caller := range p.LibFuncs(genPkg) {
					for _, cs := range core.CallsIn(caller, func(_ *ssa.Call, ci core.CallInfo) bool { return ci.Static == gen }) {
						if idx >= 0 && idx < len(cs.Call.Args) {
							if phi, isPhi := cs.Call.Args[idx].(*ssa.Phi); isPhi {
								cnt, cntFn = phi, caller
							}
						}
					}
				}
			})
		}
		if cnt == nil {
			c.Undecided(gk+":counter", gen.Pos(), "the value stored into the StreamIndex data field is not a loop-carried counter (phi): unrecognised idiom (e.g. stored after the increment)")
		} else {
			loops := core.LoopOf(cntFn)
			iterStart := core.Loc{B: cnt.Block(), Idx: 0}
			okInit, okEdges := false, true
			why := ""
			type cEdge struct {
				e        ssa.Value
				from, to *ssa.BasicBlock
			}
			var flat []cEdge
			var addEdges func(phi *ssa.Phi, depth int)
			addEdges = func(phi *ssa.Phi, depth int) {
				for i, e := range phi.Edges {
					if inner, isPhi := e.(*ssa.Phi); isPhi && inner != cnt && depth < 4 {
						addEdges(inner, depth+1) // a merge inside the iteration: its own incoming edges decide
						continue
					}
					flat = append(flat, cEdge{e, phi.Block().Preds[i], phi.Block()})
				}
			}
			addEdges(cnt, 0)
			for _, ce := range flat {
				e, pred := ce.e, ce.from
				last := pred.Instrs[len(pred.Instrs)-1]
				if k, isC := core.ConstInt(e); isC {
					// the initial edge: constant 0, coming from a block inside the services loop (so per service)
					perServiceFn := false
					for _, pp := range cntFn.Params {
						if strings.HasSuffix(core.TypeStr(pp.Type()), "desc.ServiceDescriptor") {
							perServiceFn = true // the counter lives in a function that handles ONE service
						}
					}
					if k == 0 && loops[pred] >= 0 && loops[pred] != loops[cnt.Block()] || (k == 0 && loops[pred] >= 0) || (k == 0 && perServiceFn) {
						okInit = true
					} else {
						why = fmt.Sprintf("the counter starts at %d or is not reset per service", k)
						okEdges = false
					}
					continue
				}
				_ = last
				kinds := kindsAtEdge(nil, ce.from, ce.to, iterStart)
				if e == ssa.Value(cnt) {
					for k := range kinds {
						if k != "unary" {
							okEdges = false
							why = "the counter is left unchanged on the " + k + " branch (that streaming method and all later ones would use a wrong Streams index)"
						}
					}
					continue
				}
				bo, isBo := e.(*ssa.BinOp)
				if isBo && bo.Op == token.ADD && bo.X == ssa.Value(cnt) {
					if k, isC := core.ConstInt(bo.Y); isC && k == 1 {
						if kinds["unary"] || len(kinds) == 0 {
							okEdges = false
							why = "the counter is incremented for unary methods (they do not occupy a Streams slot)"
						}
						continue
					}
				}
				okEdges = false
				why = "the counter is updated by something other than +1"
			}
			c.Check(okInit, gk+":counter-reset-per-service", cnt.Pos(), "the counter is 0 at the start of every service's method loop", "the stream counter is not reset to 0 for each service")
			c.Check(okEdges, gk+":counter-increments", cnt.Pos(), "+1 exactly on the client/bidi and server-stream branches, unchanged on the unary branch", why)
			c.Ok(gk+":index-read-before-increment", cnt.Pos(), "the data field receives the loop-carried value itself (before the branch increments it)")
			// three branches exist
			seen := map[string]bool{}
			for _, mt := range core.CallsIn(gen, isTemplateMaker) {
				seen[branchOf(mt)] = true
			}
			c.Check(seen["client-or-bidi"] && seen["server-stream"] && seen["unary"] && !seen["?"], gk+":branches", gen.Pos(), "one template per call shape: client/bidi, server-stream, unary", fmt.Sprintf("templates are not selected by the streaming flags as client/bidi | server-stream | unary (found %v)", keysOf(seen)))
		}
		c.EndRule()
	}

	// ---------------------------------------------------------------- R2
	if c.Rule("R2", "the templates are well-formed and say the right thing: they parse, reference only fields of the data struct, yield valid Go statements, use the path \"/{{.ServiceName}}/{{.MethodName}}\", and have the call shape of their branch", 9) {
		// data struct fields and their feeding calls
		var dataFields []string
		feed := map[string]string{}
		realToCanon := map[string]string{}
		core.Instrs(gen, func(in ssa.Instruction) {
			al, ok := in.(*ssa.Alloc)
			if !ok {
				return
			}
			st, ok := al.Type().Underlying().(*types.Pointer).Elem().Underlying().(*types.Struct)
			if !ok || st.NumFields() < 4 {
				return
			}
			hasSI := false
			for i := 0; i < st.NumFields(); i++ {
				if core.FieldName(st, i) == "StreamIndex" {
					hasSI = true
				}
			}
			if !hasSI {
				return
			}
			dataFields = nil
			realToCanon = map[string]string{}
			for i := 0; i < st.NumFields(); i++ {
				dataFields = append(dataFields, st.Field(i).Name())
				realToCanon[st.Field(i).Name()] = core.FieldName(st, i)
			}
			for _, r := range core.Refs(al) {
				fa, ok := r.(*ssa.FieldAddr)
				if !ok {
					continue
				}
				_, f, _ := core.FieldOf(fa)
				for _, rr := range core.Refs(fa) {
					if stI, ok := rr.(*ssa.Store); ok {
						feed[f] = describeFeed(stI.Val)
					}
				}
			}
		})
		if len(dataFields) == 0 {
			c.Missing("template data struct (with a StreamIndex field)")
		}
		c.Check(feed["ServiceName"] == "GetFullyQualifiedName" && feed["MethodName"] == "GetName", gk+":data:names", gen.Pos(), "ServiceName ← sd.GetFullyQualifiedName(), MethodName ← md.GetName()", fmt.Sprintf("the path components are fed from %q and %q (want the fully-qualified service name and the method's proto name)", feed["ServiceName"], feed["MethodName"]))
		// the stubs and the registration function of one service name the SAME descriptor variable: both names are
		// computed by the same function (the legacy_desc_names option changes both or neither)
		{
			regFeed := ""
			for _, gf := range p.LibFuncs(genPkg) {
				for _, pc := range core.CallsIn(gf, func(call *ssa.Call, ci core.CallInfo) bool {
					for _, a := range call.Call.Args {
						if f, ok := core.ConstString(a); ok && strings.Contains(f, "RegisterService(&%s") {
							return true
						}
					}
					return false
				}) {
					if args, ok := core.VariadicArgs(pc.Call.Args[len(pc.Call.Args)-1]); ok && len(args) >= 1 {
						regFeed = describeFeed(args[0])
					}
				}
			}
			if regFeed == "" {
				c.Undecided(gk+":data:desc-name-agrees", gen.Pos(), "cannot find the descriptor name given to the registration function's RegisterService(&%%s, srv)")
			} else {
				c.Check(feed["ServiceDesc"] == regFeed, gk+":data:desc-name-agrees", gen.Pos(), "stubs and registration function get the descriptor variable name from the same computation ("+regFeed+")",
					fmt.Sprintf("the stubs' descriptor variable name is computed by %q but the registration function's by %q: with the option that changes one of them (legacy_desc_names) the stubs index into a variable that does not exist", feed["ServiceDesc"], regFeed))
			}
		}
		// the file is created under exactly the package identity the naming service reports for it: the import
		// path and the package name given to the file constructor are the two fields of ONE package value, as they
		// are (the code model decides "same package: no qualifier, no import" by comparing that path with the path
		// stored in every symbol, so a path that was cleaned, trimmed or rebuilt makes the file's own types foreign)
		for _, gf := range p.LibFuncs(genPkg) {
			core.Instrs(gf, func(in ssa.Instruction) {
				call, ok := in.(*ssa.Call)
				if !ok {
					return
				}
				ci := core.InfoOf(&call.Call)
				if ci.Name != "NewGoFile" || len(call.Call.Args) != 3 {
					return
				}
				fieldOfPkg := func(v ssa.Value, want string) ssa.Value {
					var base ssa.Value
					okAll := core.AllOrigins(v, func(o ssa.Value) bool {
						b, f, isF := core.FieldOf(core.Strip(o))
						if !isF || f != want {
							return false
						}
						base = b
						return true
					})
					if !okAll {
						return nil
					}
					return base
				}
				b1 := fieldOfPkg(call.Call.Args[1], "ImportPath")
				b2 := fieldOfPkg(call.Call.Args[2], "Name")
				same := b1 != nil && b2 != nil && (b1 == b2 || core.SameVal(b1, b2) || sameOrigins(b1, b2))
				c.Check(same, core.FuncName(gf)+":file-package-identity", call.Pos(), "the output file is created with ImportPath and Name of the package value reported for the file, unchanged", "the output file is not created with the ImportPath and Name fields of one package value as they are (a path that was normalised or rebuilt differs from the one the file's own symbols carry: they are then qualified and imported like foreign ones, which is not valid Go and breaks byte-exact regeneration)")
			})
		}
		c.Check(strings.Contains(feed["RequestType"], "GetOutputType"), gk+":data:output-type", gen.Pos(), "the type allocated by the unary stub is the method's OUTPUT type", fmt.Sprintf("the message type allocated for the unary response is fed from %q, not from the method's output type", feed["RequestType"]))
		// each service gets its registration function: the emission of RegisterHandler<Svc> is executed in every
		// iteration of the per-service loop (no fast path or option skips it)
		{
			// the call that is given the function's name "RegisterHandler<Svc>" (Sprintf or concatenation)
			var regs []*ssa.Call
			for _, gf := range p.LibFuncs(genPkg) {
				for _, sp := range core.CallsIn(gf, func(call *ssa.Call, _ core.CallInfo) bool {
					for _, a := range call.Call.Args {
						if core.TypeStr(a.Type()) != "string" {
							continue
						}
						if f, fa, ok := core.FormatOf(a); ok && len(fa) >= 1 && strings.HasPrefix(f, "RegisterHandler%") {
							return true
						}
					}
					return false
				}) {
					regs = append(regs, sp)
				}
			}
			key := gk + ":registration-for-every-service"
			if len(regs) == 0 {
				c.Fail(key, gen.Pos(), "ANCHOR-MISSING: no RegisterHandler<Svc> function is emitted by the generator")
			}
			for _, reg := range regs {
				rb := reg.Block()
				// innermost loop header: the closest dominator of rb that is reachable from rb
				var hdr *ssa.BasicBlock
				for b := rb; b != nil; b = b.Idom() {
					if b != rb && core.Walk(core.Loc{B: rb, Idx: 0}, nil, nil)[b.Instrs[0]] {
						hdr = b
						break
					}
				}
				if hdr == nil {
					// emitted by a function that handles ONE service: every exit of that function passes the emission
					rf := reg.Parent()
					perService := false
					for _, pp := range rf.Params {
						if strings.HasSuffix(core.TypeStr(pp.Type()), "desc.ServiceDescriptor") {
							perService = true
						}
					}
					if !perService {
						c.Fail(key, reg.Pos(), "the registration function is not emitted inside a per-service loop")
						continue
					}
					okAll := true
					for _, r := range core.Returns(rf) {
						if !core.MustPass(core.Entry(rf), r, func(in ssa.Instruction) bool { return in == ssa.Instruction(reg) }) {
							okAll = false
						}
					}
					c.Check(okAll, key, reg.Pos(), "the per-service function emits RegisterHandler<Svc> on every path", "the per-service function can return without emitting RegisterHandler<Svc> (a skip before the emission): such a service gets no registration function")
					continue
				}
				okAll := true
				for si, sb := range hdr.Succs {
					_ = si
					if !core.Walk(core.Loc{B: sb, Idx: 0}, nil, nil)[reg] {
						continue // the loop exit
					}
					// from the body entry, the header is not reached again without passing the emission
					v := core.Walk(core.Loc{B: sb, Idx: 0}, func(in ssa.Instruction) bool { return in == ssa.Instruction(reg) }, nil)
					if v[hdr.Instrs[0]] {
						okAll = false
					}
				}
				c.Check(okAll, key, reg.Pos(), "every iteration of the per-service loop emits RegisterHandler<Svc>", "an iteration of the per-service loop can go on to the next service without emitting RegisterHandler<Svc> (a skip before the emission): such a service gets no registration function")
			}
		}
		// the template a branch gets is the one made from ITS text: a cache inside the template maker is keyed by
		// the text (or by something that determines it at every call site)
		{
			makers := map[*ssa.Function][]*ssa.Call{}
			for _, mt := range core.CallsIn(gen, isTemplateMaker) {
				f := core.InfoOf(&mt.Call).Static
				makers[f] = append(makers[f], mt)
			}
			for mk, sites := range makers {
				key := gk + ":template-cache:" + mk.Name()
				paramIdx := func(v ssa.Value) int {
					for _, o := range core.Origins(v) {
						for i, pp := range mk.Params {
							if o == ssa.Value(pp) {
								return i
							}
						}
					}
					return -1
				}
				textIdx, keyIdx, cached := -1, -1, false
				core.Instrs(mk, func(in ssa.Instruction) {
					switch x := in.(type) {
					case *ssa.Call:
						ci := core.InfoOf(&x.Call)
						if ci.Pkg == "text/template" && ci.Name == "Parse" && len(x.Call.Args) > 0 {
							textIdx = paramIdx(x.Call.Args[len(x.Call.Args)-1])
						}
					case *ssa.MapUpdate:
						if core.TypeStr(x.Value.Type()) == "*text/template.Template" {
							cached = true
							keyIdx = paramIdx(x.Key)
						}
					}
				})
				switch {
				case !cached:
					c.OkTrivial(key, mk.Pos(), "the template maker keeps no cache")
				case textIdx < 0 || keyIdx < 0:
					c.Undecided(key, mk.Pos(), "cannot relate the cache key and the parsed text to parameters of the template maker")
				case textIdx == keyIdx:
					c.Ok(key, mk.Pos(), "the cache is keyed by the template text itself")
				default:
					byKey := map[string]string{}
					bad, und := "", false
					for _, st := range sites {
						k, okK := core.ConstString(st.Call.Args[keyIdx])
						t, okT := core.ConstString(st.Call.Args[textIdx])
						if !okK || !okT {
							und = true
							continue
						}
						if prev, seen := byKey[k]; seen && prev != t {
							bad = k
						}
						byKey[k] = t
					}
					switch {
					case bad != "":
						c.Fail(key, mk.Pos(), "the template cache is keyed by a name, and the name %q is given to two different template texts: the second branch is rendered with the first one's template (e.g. a server-streaming stub with the client-streaming body)", bad)
					case und:
						c.Undecided(key, mk.Pos(), "the template cache is keyed by a value that is not a constant at every call site")
					default:
						c.Ok(key, mk.Pos(), "the cache key determines the text at every call site (%d keys)", len(byKey))
					}
				}
			}
		}
		for _, mt := range core.CallsIn(gen, isTemplateMaker) {
			text, ok := core.ConstString(mt.Call.Args[len(mt.Call.Args)-1])
			br := branchOf(mt)
			key := gk + ":template:" + br
			if !ok {
				c.Undecided(key, mt.Pos(), "template text is not a constant")
				continue
			}
			trees, err := parse.Parse("code", text, "{{", "}}")
			if err != nil {
				c.Fail(key+":parses", mt.Pos(), "template does not parse: %v (the plugin would panic at the first such method; no test runs the plugin)", err)
				continue
			}
			// fields referenced
			var refs []string
			var walk func(n parse.Node)
			walk = func(n parse.Node) {
				switch x := n.(type) {
				case *parse.ListNode:
					if x != nil {
						for _, nn := range x.Nodes {
							walk(nn)
						}
					}
				case *parse.ActionNode:
					walk(x.Pipe)
				case *parse.PipeNode:
					for _, cmd := range x.Cmds {
						walk(cmd)
					}
				case *parse.CommandNode:
					for _, a := range x.Args {
						walk(a)
					}
				case *parse.FieldNode:
					refs = append(refs, x.Ident...)
				case *parse.IfNode:
					walk(x.Pipe)
					walk(x.List)
					walk(x.ElseList)
				case *parse.RangeNode:
					walk(x.Pipe)
					walk(x.List)
					walk(x.ElseList)
				}
			}
			walk(trees["code"].Root)
			missing := []string{}
			for _, r := range refs {
				found := false
				for _, f := range dataFields {
					if f == r {
						found = true
					}
				}
				if !found {
					missing = append(missing, r)
				}
			}
			c.Check(len(missing) == 0, key+":fields-exist", mt.Pos(), fmt.Sprintf("references %v, all fields of the data struct", uniqS(refs)), fmt.Sprintf("template references %v, which are not fields of the data struct: executing it fails at run time", missing))
			// valid Go after substitution
			goText := regexp.MustCompile(`\{\{\s*\.(\w+)\s*\}\}`).ReplaceAllStringFunc(text, func(m string) string {
				f := regexp.MustCompile(`\w+`).FindString(m)
				if f == "StreamIndex" {
					return "0"
				}
				return "X_" + f
			})
			_, perr := parser.ParseFile(token.NewFileSet(), "t.go", "package p\nfunc _() {\n"+goText+"\n}", 0)
			c.Check(perr == nil, key+":valid-go", mt.Pos(), "with actions replaced by identifiers the template is a valid Go statement list", fmt.Sprintf("the template body is not valid Go: %v", perr))
			norm := strings.Join(strings.Fields(text), " ")
			// the templates name the data struct's fields: compare in canonical (role) names
			for real, canon := range realToCanon {
				if real != canon {
					norm = strings.ReplaceAll(norm, "{{."+real+"}}", "{{.\x00"+canon+"}}")
				}
			}
			norm = strings.ReplaceAll(norm, "{{.\x00", "{{.")
			pathLit := `"/{{.ServiceName}}/{{.MethodName}}"`
			c.Check(strings.Contains(norm, pathLit), key+":path", mt.Pos(), "uses the path "+pathLit, "the stub does not call the channel with the path "+pathLit)
			switch br {
			case "client-or-bidi", "server-stream":
				okNS := strings.Contains(norm, `c.ch.NewStream(ctx, &{{.ServiceDesc}}.Streams[{{.StreamIndex}}], `+pathLit+`, opts...)`)
				c.Check(okNS, key+":call-shape", mt.Pos(), "NewStream(ctx, &Desc.Streams[StreamIndex], path, opts...)", "a streaming stub does not call NewStream with &{{.ServiceDesc}}.Streams[{{.StreamIndex}}] and its own path")
				if br == "server-stream" {
					i1, i2 := strings.Index(norm, "SendMsg(in)"), strings.Index(norm, "CloseSend()")
					c.Check(i1 >= 0 && i2 > i1, key+":send-then-close", mt.Pos(), "sends the single request, then half-closes", "the server-streaming stub does not SendMsg(in) and then CloseSend()")
				} else {
					c.Check(!strings.Contains(norm, "SendMsg(") && !strings.Contains(norm, "CloseSend("), key+":no-implicit-send", mt.Pos(), "client/bidi stub leaves sending to the caller", "the client/bidi stub sends or half-closes on the caller's behalf")
				}
				c.Check(strings.Contains(norm, "&{{.StreamClient}}{stream}"), key+":wraps-stream", mt.Pos(), "wraps the stream in the generated client stream type", "the stub does not wrap the stream in {{.StreamClient}}")
			case "unary":
				okInv := strings.Contains(norm, `c.ch.Invoke(ctx, `+pathLit+`, in, out, opts...)`) && strings.Contains(norm, "out := new({{.RequestType}})")
				c.Check(okInv, key+":call-shape", mt.Pos(), "out := new(<output type>); Invoke(ctx, path, in, out, opts...)", "the unary stub does not allocate the output message and call Invoke(ctx, path, in, out, opts...)")
			}
		}
		c.EndRule()
	}

	// ---------------------------------------------------------------- R3
	if c.Rule("R3", "the checked-in stubs agree with the checked-in descriptors: every NewStream(&X.Streams[k], \"/S/M\") has X.ServiceName == S and X.Streams[k].StreamName == M with the matching call shape; every Invoke(\"/S/M\") has M in X.Methods; each registration function registers its own service's descriptor", 5) {
		c19Stubs(c)
		c.EndRule()
	}

	// ---------------------------------------------------------------- R5
	if c.Rule("R5", "the import_path override is in place for every file before any stub is generated: no call that registers the override is reachable from a call of the per-file generator (a file generated earlier would otherwise fix an imported file's package from its own path first, and the stubs would import the wrong package)", 1) {
		n := 0
		for _, fn := range p.LibFuncs(genPkg) {
			// a registration site: the call itself, or a call of a step helper of the plugin that makes it
			var registers func(f *ssa.Function, depth int) bool
			registers = func(f *ssa.Function, depth int) bool {
				if f == nil || f.Blocks == nil || depth > 2 {
					return false
				}
				found := false
				core.Instrs(f, func(in ssa.Instruction) {
					if call, ok := in.(*ssa.Call); ok {
						ci := core.InfoOf(&call.Call)
						if ci.Name == "GoPackageForFileWithOverride" {
							found = true
						}
						if ci.Static != nil && core.PkgIs(ci.Static, genPkg) && ci.Static != f && registers(ci.Static, depth+1) {
							found = true
						}
					}
				})
				return found
			}
			ovs := core.CallsIn(fn, func(_ *ssa.Call, ci core.CallInfo) bool {
				if ci.Name == "GoPackageForFileWithOverride" {
					return true
				}
				return ci.Static != nil && core.PkgIs(ci.Static, genPkg) && ci.Static != fn && registers(ci.Static, 1)
			})
			if len(ovs) == 0 {
				continue
			}
			// a call of the per-file generator (the function that renders the stub templates), directly or through
			// a step function of the plugin
			var leadsToGen func(f *ssa.Function, depth int) bool
			leadsToGen = func(f *ssa.Function, depth int) bool {
				if f == nil || f.Blocks == nil || depth > 2 {
					return false
				}
				if f == gen {
					return true
				}
				for _, h := range core.HelperCallsOf(f) {
					if h.Callee != nil && h.Callee != f && core.PkgIs(h.Callee, genPkg) && leadsToGen(h.Callee, depth+1) {
						return true
					}
				}
				return false
			}
			gens := core.CallsIn(fn, func(_ *ssa.Call, ci core.CallInfo) bool {
				if ci.Static == nil || !core.PkgIs(ci.Static, genPkg) || ci.Static == fn {
					return false
				}
				for _, pp := range ci.Static.Params {
					if strings.HasSuffix(core.TypeStr(pp.Type()), "plugins.GoNames") {
						return true
					}
				}
				return leadsToGen(ci.Static, 0)
			})
			if len(gens) == 0 {
				continue
			}
			n++
			key := core.FuncName(fn) + ":override-before-generation"
			bad := false
			for _, g := range gens {
				for _, o := range ovs {
					if core.Reachable(core.After(g), o) {
						bad = true
					}
				}
			}
			c.Check(!bad, key, ovs[0].Pos(), "every override registration precedes every generator call (none is reachable from one)", "an import_path override can be registered after a file has already been generated: with two files of one request where the earlier one imports the later one, the imported file's Go package is fixed from its own path first and the override is a no-op for it")
		}
		if n == 0 {
			c.Fail(genPkg+":import-path-override", token.NoPos, "ANCHOR-MISSING: no function that both registers the import_path override and calls the per-file generator")
		}
		// "for every file": the list of files is not filtered IN PLACE by a helper while it is still needed — a helper
		// that builds its result in its parameter's own backing array (p[:0] + append) overwrites the caller's list
		for _, fn := range p.LibFuncs(genPkg) {
			for _, call := range core.CallsIn(fn, func(_ *ssa.Call, ci core.CallInfo) bool { return ci.Static != nil && core.PkgIs(ci.Static, genPkg) }) {
				h := call.Call.StaticCallee()
				for ai, a := range call.Call.Args {
					if _, isSl := a.Type().Underlying().(*types.Slice); !isSl || ai >= len(h.Params) {
						continue
					}
					// does h reslice parameter ai to length 0 and append to that?
					inPlace := false
					core.Instrs(h, func(in ssa.Instruction) {
						sl, ok := in.(*ssa.Slice)
						if !ok || sl.X != ssa.Value(h.Params[ai]) || sl.High == nil {
							return
						}
						if k, isC := core.ConstInt(sl.High); !isC || k != 0 {
							return
						}
						for _, r := range core.Refs(sl) {
							if ap, isCall := r.(*ssa.Call); isCall {
								if b, isB := ap.Call.Value.(*ssa.Builtin); isB && b.Name() == "append" {
									inPlace = true
								}
							}
							if _, isPhi := r.(*ssa.Phi); isPhi {
								inPlace = true // the loop-carried accumulator starts at p[:0]
							}
						}
					})
					if !inPlace {
						continue
					}
					// the caller's slice is read again after the call?
					usedAfter := false
					for _, o := range core.Origins(a) {
						for _, r := range core.Refs(o) {
							ri, isI := r.(ssa.Instruction)
							if !isI || ri == ssa.Instruction(call) || ri.Parent() != fn {
								continue
							}
							if core.Reachable(core.After(call), ri) {
								usedAfter = true
							}
						}
					}
					// ... or loaded again from the same field (req.Files read a second time)
					core.Instrs(fn, func(in ssa.Instruction) {
						if v, ok := in.(ssa.Value); ok && in != ssa.Instruction(call) && v != a && core.SameVal(v, a) && core.Reachable(core.After(call), in) {
							usedAfter = true
						}
					})
					c.Check(!usedAfter, core.FuncName(fn)+":"+h.Name()+":list-not-filtered-in-place", call.Pos(), "the list handed to the in-place filter is not used again", "the list handed to "+h.Name()+" is filtered in place (result built in the argument's own backing array) and then used again by the caller: the later loop (e.g. the import_path override for every file) sees the overwritten list")
				}
			}
		}
		c.EndRule()
	}

	// ---------------------------------------------------------------- R4
	if c.Rule("R4", "option parsing: the accepted option names are exactly {debug, legacy_stubs, legacy_desc_names, import_path, module, paths, M*}; each boolean option stores into its own field; index expressions are in range", 4) {
		var pa *ssa.Function
		for _, fn := range p.LibFuncs(genPkg) {
			if fn.Parent() == nil && len(fn.Params) == 1 && core.TypeStr(fn.Params[0].Type()) == "[]string" && fn.Signature.Results().Len() == 2 {
				// the option parser returns the options struct (a struct with the import map), not a scalar
				if st, ok := fn.Signature.Results().At(0).Type().Underlying().(*types.Struct); ok {
					for _, ff := range core.FlatFields(st) {
						if _, isMap := ff.Var.Type().Underlying().(*types.Map); isMap {
							pa = fn
						}
					}
				}
			}
		}
		if pa == nil {
			c.Missing("option parser func([]string) (args, error)")
		} else {
			key := core.FuncName(pa)
			// the per-option decisions may sit in a step function of the plugin that the parser calls for each option
			// (setOption(vals)): the function with the option-name comparisons is the one analysed
			nameTests := func(f *ssa.Function) int {
				k := 0
				for _, ef := range core.EdgeFactsOf(f) {
					if ef.Fact.Op == token.EQL {
						if _, ok := core.ConstString(ef.Fact.Y); ok && core.OriginIs(ef.Fact.X, func(o ssa.Value) bool { return optPart(o, 0) }) {
							k++
						}
					}
				}
				return k
			}
			body := pa
			best := nameTests(pa)
			for _, h := range core.HelperCallsOf(pa) {
				if h.Callee != nil && h.Callee.Blocks != nil && core.PkgIs(h.Callee, genPkg) {
					if k := nameTests(h.Callee); k > best {
						body, best = h.Callee, k
					}
				}
			}
			names := map[string]bool{}
			for _, ef := range core.EdgeFactsOf(body) {
				if ef.Fact.Op == token.EQL {
					if s, ok := core.ConstString(ef.Fact.Y); ok {
						// only comparisons of the option name (vals[0])
						if core.OriginIs(ef.Fact.X, func(o ssa.Value) bool { return optPart(o, 0) }) {
							names[s] = true
						}
					}
				}
			}
			// … or in a lookup helper that is handed the option name and answers with the field to set
			// (boolOption(name) *bool): its comparisons of the name count, and so do the fields it answers with
			viaHelper := map[string]string{}
			for _, h := range core.HelperCallsOf(body) {
				if h.Callee == nil || h.Callee.Blocks == nil || !core.PkgIs(h.Callee, genPkg) {
					continue
				}
				var par *ssa.Parameter
				for ai, a := range h.Call.Call.Args {
					if ai < len(h.Callee.Params) && core.TypeStr(a.Type()) == "string" && core.OriginIs(a, func(o ssa.Value) bool { return optPart(o, 0) }) {
						par = h.Callee.Params[ai]
					}
				}
				if par == nil {
					continue
				}
				isNameEq := func(f core.Fact) (string, bool) {
					if f.Op != token.EQL || f.X != ssa.Value(par) {
						return "", false
					}
					return core.ConstString(f.Y)
				}
				for _, ef := range core.EdgeFactsOf(h.Callee) {
					if sname, ok := isNameEq(ef.Fact); ok {
						names[sname] = true
					}
				}
				// the fields it answers with, and whether the answer is stored through with the parsed value
				storedThrough := false
				core.Instrs(body, func(in ssa.Instruction) {
					if st, ok := in.(*ssa.Store); ok && core.TypeStr(st.Val.Type()) == "bool" {
						if _, isC := core.ConstBool(st.Val); !isC && core.OriginIs(st.Addr, func(o ssa.Value) bool { return o == ssa.Value(h.Call) }) {
							storedThrough = true
						}
					}
				})
				if !storedThrough {
					continue
				}
				for _, r := range core.Returns(h.Callee) {
					if len(r.Results) != 1 {
						continue
					}
					_, f, isF := core.FieldOf(r.Results[0])
					if !isF {
						continue
					}
					for _, ef := range core.DominatingFacts(r) {
						if sname, ok := isNameEq(ef.Fact); ok {
							viaHelper[sname] = f
						}
					}
				}
			}
			want := []string{"debug", "import_path", "legacy_desc_names", "legacy_stubs", "module", "paths"}
			got := []string{}
			for n := range names {
				if n != "import" && n != "source_relative" {
					got = append(got, n)
				}
			}
			sort.Strings(got)
			c.Check(strings.Join(got, ",") == strings.Join(want, ","), key+":option-names", pa.Pos(), fmt.Sprintf("accepts exactly %v (plus M<file>=<path>)", want), fmt.Sprintf("accepted option names are %v, want %v", got, want))
			// boolean options: which field does each store into
			fieldOfOpt := map[string]string{}
			core.Instrs(body, func(in ssa.Instruction) {
				st, ok := in.(*ssa.Store)
				if !ok || core.TypeStr(st.Val.Type()) != "bool" {
					return
				}
				_, f, isF := core.FieldOf(st.Addr)
				if !isF {
					return
				}
				if _, isC := core.ConstBool(st.Val); isC {
					return
				}
				for _, ef := range core.DominatingFacts(st) {
					if ef.Fact.Op == token.EQL {
						if s, ok := core.ConstString(ef.Fact.Y); ok && names[s] {
							fieldOfOpt[s] = f
						}
					}
				}
			})
			// ... or through a parser that is handed the field's address (boolVal(vals, &result.debug))
			core.Instrs(body, func(in ssa.Instruction) {
				call, ok := in.(*ssa.Call)
				if !ok || call.Call.StaticCallee() == nil || !core.PkgIs(call.Call.StaticCallee(), genPkg) {
					return
				}
				for _, a := range call.Call.Args {
					if core.TypeStr(a.Type()) != "*bool" {
						continue
					}
					fa, isFA := a.(*ssa.FieldAddr)
					if !isFA {
						continue
					}
					_, f, isF := core.FieldOf(fa)
					if !isF {
						continue
					}
					for _, ef := range core.DominatingFacts(call) {
						if ef.Fact.Op == token.EQL {
							if s, ok := core.ConstString(ef.Fact.Y); ok && names[s] {
								fieldOfOpt[s] = f
							}
						}
					}
				}
			})
			for k, v := range viaHelper {
				fieldOfOpt[k] = v
			}
			norm := func(s string) string { return strings.ToLower(strings.ReplaceAll(s, "_", "")) }
			okBool := len(fieldOfOpt) == 3
			for opt, f := range fieldOfOpt {
				if norm(opt) != norm(f) {
					okBool = false
				}
			}
			c.Check(okBool, key+":bool-options", pa.Pos(), fmt.Sprintf("each boolean option stores into its own field %v", fieldOfOpt), fmt.Sprintf("boolean options do not each store into their own field: %v", fieldOfOpt))
			// the words a boolean option's value may be: compared as constants by the function that turns the
			// value into a bool (or by the parser itself). The set is part of the plugin's command-line interface:
			// a build script that passes legacy_stubs=yes must not start to fail
			{
				words := map[string]bool{}
				collect := func(f *ssa.Function) {
					// a lookup in a package-level table whose keys are constants
					core.Instrs(f, func(in ssa.Instruction) {
						lk, ok := in.(*ssa.Lookup)
						if !ok {
							return
						}
						ld, ok := core.Strip(lk.X).(*ssa.UnOp)
						if !ok {
							return
						}
						g, ok := ld.X.(*ssa.Global)
						if !ok || g.Object() == nil {
							return
						}
						lit, ok := p.VarInit(g.Object()).(*ast.CompositeLit)
						if !ok {
							return
						}
						_, pk := p.FileOf(g.Pos())
						for _, el := range lit.Elts {
							if kv, isKV := el.(*ast.KeyValueExpr); isKV && pk != nil {
								if sv := constStr(pk.TypesInfo, kv.Key); sv != "" {
									words[sv] = true
								}
							}
						}
					})
					for _, ef := range core.EdgeFactsOf(f) {
						if ef.Fact.Op != token.EQL {
							continue
						}
						if sv, ok := core.ConstString(ef.Fact.Y); ok && !names[sv] && sv != "import" && sv != "source_relative" && sv != "" {
							words[sv] = true
						}
					}
				}
				var bv *ssa.Function
				for _, h := range core.HelperCallsOf(body) {
					if h.Callee == nil || h.Callee.Blocks == nil || !core.PkgIs(h.Callee, genPkg) {
						continue
					}
					rs := h.Callee.Signature.Results()
					if rs.Len() == 2 && core.TypeStr(rs.At(0).Type()) == "bool" && core.IsErrorType(rs.At(1).Type()) {
						bv = h.Callee
					}
					// ... or it writes the value through a *bool it is handed and answers with the error alone
					if rs.Len() == 1 && core.IsErrorType(rs.At(0).Type()) {
						for _, pp := range h.Callee.Params {
							if core.TypeStr(pp.Type()) == "*bool" {
								bv = h.Callee
							}
						}
					}
				}
				if bv != nil {
					collect(bv)
					for _, h := range core.HelperCallsOf(bv) {
						if h.Callee != nil && h.Callee.Blocks != nil && core.PkgIs(h.Callee, genPkg) {
							collect(h.Callee)
						}
					}
				} else {
					collect(body)
				}
				wantW := []string{"0", "1", "false", "no", "off", "on", "true", "yes"}
				gotW := keysOf(words)
				sort.Strings(gotW)
				c.Check(strings.Join(gotW, ",") == strings.Join(wantW, ","), key+":bool-words", pa.Pos(), fmt.Sprintf("a boolean option's value is one of %v (any case)", wantW), fmt.Sprintf("the words accepted as the value of a boolean option are %v, want %v: an option spelling that build scripts use is now refused (or a new one silently accepted)", gotW, wantW))
			}
			// M<file>=<path>: stored under exactly the option name minus its one-letter prefix
			nM := 0
			core.Instrs(body, func(in ssa.Instruction) {
				mu, ok := in.(*ssa.MapUpdate)
				if !ok || core.TypeStr(mu.Map.Type()) != "map[string]string" {
					return
				}
				nM++
				okKey := false
				if sl, isSl := mu.Key.(*ssa.Slice); isSl && sl.High == nil {
					if k, isC := core.ConstInt(sl.Low); isC && k == 1 {
						okKey = core.OriginIs(sl.X, func(o ssa.Value) bool { return optPart(o, 0) })
					}
				}
				okVal := core.OriginIs(mu.Value, func(o ssa.Value) bool { return optPart(o, 1) })
				gM := core.GuardedBy(mu, func(f core.Fact) bool {
					k, isC := core.ConstInt(f.Y)
					return f.Op == token.EQL && isC && k == 'M'
				})
				c.Check(okKey && okVal && gM, key+":M-option", mu.Pos(), "M<file>=<path> is stored as importMap[name[1:]] = value under name[0] == 'M'", "the M option does not store importMap[<option name without its first letter>] = <value> (e.g. more than the one-letter prefix is stripped): a mapping for some file names is silently ignored")
			})
			if nM == 0 {
				c.Fail(key+":M-option", pa.Pos(), "no import-map store found")
			}
			// every option is looked at: the loop over the options is left early only by returning an error — a
			// `break` that leaves the loop silently drops every option that follows
			{
				loops := core.LoopOf(pa)
				// the loop whose header tests the index against len(args) / ranges over the parameter
				var hdr *ssa.BasicBlock
				for _, b := range pa.Blocks {
					if loops[b] < 0 || len(b.Succs) != 2 {
						continue
					}
					// header: the block of the loop that is entered from outside it
					fromOutside := false
					for _, pr := range b.Preds {
						if loops[pr] != loops[b] {
							fromOutside = true
						}
					}
					in0, in1 := loops[b.Succs[0]] == loops[b], loops[b.Succs[1]] == loops[b]
					if fromOutside && in0 != in1 && hdr == nil {
						hdr = b
					}
				}
				if hdr == nil {
					c.Undecided(key+":every-option-examined", pa.Pos(), "cannot find the loop over the options")
				} else {
					var exit *ssa.BasicBlock
					for _, sc := range hdr.Succs {
						if loops[sc] != loops[hdr] {
							exit = sc
						}
					}
					bad := false
					var where token.Pos
					// a break: the loop's exit block is also entered from a block that the header dominates
					if exit != nil {
						for _, pr := range exit.Preds {
							if pr != hdr && hdr.Dominates(pr) {
								bad = true
								where = pr.Instrs[len(pr.Instrs)-1].Pos()
								if !where.IsValid() && len(pr.Instrs) > 1 {
									where = pr.Instrs[0].Pos()
								}
							}
						}
					}
					if !where.IsValid() {
						where = pa.Pos()
					}
					c.Check(!bad, key+":every-option-examined", where, "the options loop is left only through its own end or by returning", "the options loop can be left from inside its body (a break that meant to leave a switch): every option after that one is silently ignored")
				}
			}
			core.ComputeParamLenHints(p.LibFuncs(genPkg))
			for _, fn := range p.LibFuncs(genPkg) {
				if fn != pa && !(len(fn.Params) == 1 && core.TypeStr(fn.Params[0].Type()) == "[]string") {
					continue
				}
				for _, ob := range core.BoundsOf(fn) {
					k := core.FuncName(fn) + ":bounds:" + ob.Desc
					if ob.Proven {
						if strings.Contains(ob.Why, "array type") {
							c.OkTrivial(k, ob.Instr.Pos(), "%s", ob.Why)
						} else {
							c.Ok(k, ob.Instr.Pos(), "%s", ob.Why)
						}
					} else {
						c.Fail(k, ob.Instr.Pos(), "index expression may be out of range for some option string: %s", ob.Why)
					}
				}
			}
		}
		c.EndRule()
	}

	// ---------------------------------------------------------------- R7
	if c.Rule("R7", "the stubs name the service description that protoc-gen-go-grpc emits: the descriptor variable a stub or a registration function refers to is, on every path, the answer of a GoNames query for that service (GoNameOfServiceDesc / GoNameOfExportedServiceDesc), not a name the plugin assembles itself from the service's name (the two agree only for names whose Go form is obvious)", 1) {
		var fromGoNames func(v ssa.Value, depth int) (bool, string)
		fromGoNames = func(v ssa.Value, depth int) (bool, string) {
			if depth > 3 {
				return false, "too deep"
			}
			for _, o := range core.Origins(v) {
				src := o
				if base, _, isF := core.FieldOf(o); isF {
					// a field of a query's answer (GoNameOfExportedServiceDesc(sd).Name)
					src = base
				}
				if fx, isFx := o.(*ssa.Field); isFx {
					src = fx.X
				}
				call, idx, ok := core.CallResult(src)
				if !ok {
					return false, core.ValName(o)
				}
				ci := core.InfoOf(&call.Call)
				if ci.Recv == "GoNames" && strings.Contains(ci.Name, "ServiceDesc") {
					continue
				}
				if ci.Static != nil && ci.Static.Blocks != nil && core.PkgIs(ci.Static, genPkg) {
					for _, r := range core.Returns(ci.Static) {
						if idx < len(r.Results) {
							if ok2, why := fromGoNames(r.Results[idx], depth+1); !ok2 {
								return false, ci.Name + ": " + why
							}
						}
					}
					continue
				}
				return false, ci.Full()
			}
			return true, ""
		}
		n := 0
		for _, fn := range p.LibFuncs(genPkg) {
			core.Instrs(fn, func(in ssa.Instruction) {
				var v ssa.Value
				what := ""
				switch x := in.(type) {
				case *ssa.Store:
					if _, fld, isF := core.FieldOf(x.Addr); isF && strings.Contains(fld, "ServiceDesc") && core.TypeStr(x.Val.Type()) == "string" {
						v, what = x.Val, "template field "+fld
					}
				case *ssa.Call:
					if f, args, ok := core.FormatOf(x); ok && strings.Contains(f, "RegisterService(&%s") && len(args) >= 1 {
						v, what = args[0], "registration function"
					}
					if ci := core.InfoOf(&x.Call); len(x.Call.Args) >= 2 {
						if f, isC := core.ConstString(x.Call.Args[len(x.Call.Args)-2]); isC && strings.Contains(f, "RegisterService(&%s") && ci.Name == "Printlnf" {
							if va, ok := core.VariadicArgs(x.Call.Args[len(x.Call.Args)-1]); ok && len(va) >= 1 {
								v, what = va[0], "registration function"
							}
						}
					}
				}
				if v == nil {
					return
				}
				n++
				ok, why := fromGoNames(v, 0)
				c.Check(ok, core.FuncName(fn)+":desc-var-from-GoNames:"+what, in.Pos(), "the descriptor variable's name is GoNames' answer on every path", "the name of the service description the generated code refers to ("+what+") is not the answer of a GoNames query ("+why+"): for service names whose Go form differs from what the plugin assembles (a digit followed by a lower-case letter, say) the stubs refer to a variable protoc-gen-go-grpc never emits")
			})
		}
		if n == 0 {
			c.Missing("uses of the service description's Go name (template field ServiceDesc / the registration function)")
		}
		c.EndRule()
	}

	// ---------------------------------------------------------------- R8
	if c.Rule("R8", "for every proto file: the per-file generator refuses no file on its own account — each error it returns is the error of a call outside the plugin (writing the Go file), not one it (or a checking helper of the plugin) constructs: protoc has accepted the file, and a name check of the plugin's own that is stricter than what it emits (identifier collisions it only imagines) leaves a valid file without registration function and stubs", 1) {
		bad := ""
		var where token.Pos
		n := 0
		// the per-file generator: the function with the templates, or — when the templates sit in a step function
		// without an error result — the function of the plugin that calls it and has one
		gen := gen
		for k := 0; k < 3 && core.ErrResultIndex(gen.Signature) < 0; k++ {
			up := gen
			for _, cs := range callSitesOf(gen) {
				if pf := cs.Parent(); pf != nil && core.PkgIs(pf, genPkg) {
					for pf.Parent() != nil {
						pf = pf.Parent()
					}
					up = pf
				}
			}
			if up == gen {
				break
			}
			gen = up
		}
		gk := core.FuncName(gen)
		for _, r := range core.Returns(gen) {
			ei := core.ErrResultIndex(gen.Signature)
			if ei < 0 || ei >= len(r.Results) {
				continue
			}
			n++
			for _, l := range core.ErrLeaves(r.Results[ei], r) {
				call, ok := core.Strip(l.V).(*ssa.Call)
				if !ok {
					continue
				}
				ci := core.InfoOf(&call.Call)
				if ci.Is("fmt.Errorf") || ci.Is("errors.New") || (ci.Static != nil && core.PkgIs(ci.Static, genPkg) && errorMaker(ci.Static, 0)) {
					bad, where = ci.Name, r.Pos()
				}
				// a checking helper of the plugin: its error is the plugin's own verdict, too
				if ci.Static != nil && ci.Static.Blocks != nil && core.PkgIs(ci.Static, genPkg) && bad == "" {
					for _, hr := range core.Returns(ci.Static) {
						hei := core.ErrResultIndex(ci.Static.Signature)
						if hei < 0 || hei >= len(hr.Results) {
							continue
						}
						for _, hl := range core.ErrLeaves(hr.Results[hei], hr) {
							if hc, ok := core.Strip(hl.V).(*ssa.Call); ok {
								if hi := core.InfoOf(&hc.Call); hi.Is("fmt.Errorf") || hi.Is("errors.New") {
									bad, where = ci.Name+" → "+hi.Name, r.Pos()
								}
							}
						}
					}
				}
			}
		}
		if n == 0 {
			c.Undecided(gk+":refuses-no-file", gen.Pos(), "the generator has no error result")
		} else {
			c.Check(bad == "", gk+":refuses-no-file", where, "every error the per-file generator returns is that of a call outside the plugin", "the per-file generator returns an error it makes itself ("+bad+"): a proto file that protoc accepted is refused by the plugin and gets neither registration function nor stubs")
		}
		c.EndRule()
	}

	// ---------------------------------------------------------------- R6
	if c.Rule("R6", "what was generated is what protoc gets: the generator only writes into the plugin response (OutputFile / OutputSnippet / SupportsFeatures); the response's contents are one-shot readers that the plugin runner serialises, so nothing of the generator reads them back (ForEach) — a reader emptied by a report or a post-processing pass leaves an empty file", 1) {
		writes := map[string]bool{"OutputFile": true, "OutputSnippet": true, "SupportsFeatures": true}
		for _, fn := range p.LibFuncs(genPkg) {
			core.Instrs(fn, func(in ssa.Instruction) {
				cc := core.CallOf(in)
				if cc == nil {
					return
				}
				ci := core.InfoOf(cc)
				if ci.Static == nil || ci.Static.Signature.Recv() == nil || core.NamedOf(ci.Static.Signature.Recv().Type()) != "CodeGenResponse" {
					return
				}
				k := core.FuncName(fn) + ":response." + ci.Name
				if writes[ci.Name] {
					c.Ok(k+":write-only", in.Pos(), "the generator writes into the response")
				} else {
					c.Fail(k+":write-only", in.Pos(), "the generator calls %s on the plugin response: the response's file contents are readers that are consumed once, by the plugin runner; whatever reads them first leaves protoc an empty file", ci.Name)
				}
			})
		}
		c.EndRule()
	}

	// ---------------------------------------------------------------- R9 (shared)
	// "each service gets … its own": the generator's function literals (per-file writers, per-method callbacks) do not
	// capture a variable that the enclosing loop re-assigns on every iteration (C12/R5; the module says go 1.18, where
	// the loop variable is one variable for the whole loop)
	c.Borrow("C12", map[string]string{"R5": "R9"}, c12)
}

func uniqS(s []string) []string {
	m := map[string]bool{}
	for _, x := range s {
		m[x] = true
	}
	return keysOf(m)
}

// describeFeed names the call chain producing a template data value.
func describeFeed(v ssa.Value) string {
	var parts []string
	seen := map[ssa.Value]bool{}
	var rec func(v ssa.Value)
	rec = func(v ssa.Value) {
		if v == nil || seen[v] {
			return
		}
		seen[v] = true
		for _, o := range core.Origins(v) {
			if call, _, ok := core.CallResult(o); ok {
				ci := core.InfoOf(&call.Call)
				parts = append(parts, ci.Name)
				for _, a := range core.Args(&call.Call) {
					if _, isCall := a.(*ssa.Call); isCall {
						rec(a)
					}
				}
			}
		}
	}
	rec(v)
	return strings.Join(parts, "<")
}

type svcDescLit struct {
	serviceName string
	methods     []string
	streams     []struct {
		name           string
		client, server bool
	}
}

func c19Stubs(c *core.Ctx) {
	p := c.P
	nFiles := 0
	for path, pk := range p.Pkgs {
		// descriptors declared in this package
		descs := map[string]*svcDescLit{}
		for _, f := range pk.Syntax {
			ast.Inspect(f, func(n ast.Node) bool {
				vs, ok := n.(*ast.ValueSpec)
				if !ok || len(vs.Names) != 1 || len(vs.Values) != 1 {
					return true
				}
				cl, ok := vs.Values[0].(*ast.CompositeLit)
				if !ok {
					return true
				}
				if tv, ok := pk.TypesInfo.Types[cl]; !ok || core.QualNamedOf(tv.Type) != grpcPkg+".ServiceDesc" {
					return true
				}
				d := &svcDescLit{}
				for _, el := range cl.Elts {
					kv, ok := el.(*ast.KeyValueExpr)
					if !ok {
						continue
					}
					k := kv.Key.(*ast.Ident).Name
					switch k {
					case "ServiceName":
						d.serviceName = constStr(pk.TypesInfo, kv.Value)
					case "Methods", "Streams":
						if lst, ok := kv.Value.(*ast.CompositeLit); ok {
							for _, e := range lst.Elts {
								ec, ok := e.(*ast.CompositeLit)
								if !ok {
									continue
								}
								var nm string
								var cs, ss bool
								for _, fe := range ec.Elts {
									fkv, ok := fe.(*ast.KeyValueExpr)
									if !ok {
										continue
									}
									switch fkv.Key.(*ast.Ident).Name {
									case "MethodName", "StreamName":
										nm = constStr(pk.TypesInfo, fkv.Value)
									case "ClientStreams":
										cs = constBool(pk.TypesInfo, fkv.Value)
									case "ServerStreams":
										ss = constBool(pk.TypesInfo, fkv.Value)
									}
								}
								if k == "Methods" {
									d.methods = append(d.methods, nm)
								} else {
									d.streams = append(d.streams, struct {
										name           string
										client, server bool
									}{nm, cs, ss})
								}
							}
						}
					}
				}
				descs[vs.Names[0].Name] = d
				return true
			})
		}
		for _, f := range pk.Syntax {
			fname := p.Fset.Position(f.Pos()).Filename
			if !strings.HasSuffix(fname, ".pb.grpchan.go") {
				continue
			}
			nFiles++
			short := strings.TrimPrefix(path, core.ModulePath+"/") + "/" + fname[strings.LastIndex(fname, "/")+1:]
			for _, d := range f.Decls {
				fd, ok := d.(*ast.FuncDecl)
				if !ok || fd.Body == nil {
					continue
				}
				bodyText := func() string { return "" }
				_ = bodyText
				hasSend, hasClose := false, false
				ast.Inspect(fd.Body, func(n ast.Node) bool {
					if ce, ok := n.(*ast.CallExpr); ok {
						if se, ok := ce.Fun.(*ast.SelectorExpr); ok {
							if se.Sel.Name == "SendMsg" {
								hasSend = true
							}
							if se.Sel.Name == "CloseSend" {
								hasClose = true
							}
						}
					}
					return true
				})
				ast.Inspect(fd.Body, func(n ast.Node) bool {
					ce, ok := n.(*ast.CallExpr)
					if !ok {
						return true
					}
					se, ok := ce.Fun.(*ast.SelectorExpr)
					if !ok {
						return true
					}
					key := short + ":" + fd.Name.Name
					switch se.Sel.Name {
					case "NewStream":
						if len(ce.Args) < 3 {
							return true
						}
						// &X.Streams[k]
						var x string
						var k int64 = -1
						if ue, ok := ce.Args[1].(*ast.UnaryExpr); ok {
							if ie, ok := ue.X.(*ast.IndexExpr); ok {
								if tv, ok := pk.TypesInfo.Types[ie.Index]; ok && tv.Value != nil {
									k, _ = constant.Int64Val(tv.Value)
								}
								if s2, ok := ie.X.(*ast.SelectorExpr); ok && s2.Sel.Name == "Streams" {
									if id, ok := s2.X.(*ast.Ident); ok {
										x = id.Name
									}
								}
							}
						}
						pathS := constStr(pk.TypesInfo, ce.Args[2])
						dsc := descs[x]
						if dsc == nil || k < 0 || int(k) >= len(dsc.streams) {
							c.Fail(key+":stream-binding", ce.Pos(), "NewStream is not given &<ServiceDesc>.Streams[<const>] of a descriptor declared in this package (desc %q, index %d)", x, k)
							return true
						}
						want := "/" + dsc.serviceName + "/" + dsc.streams[k].name
						c.Check(pathS == want && dsc.streams[k].name == fd.Name.Name, key+":stream-binding", ce.Pos(), fmt.Sprintf("%s.Streams[%d] is %q and the path is %s", x, k, dsc.streams[k].name, pathS), fmt.Sprintf("stub %s calls NewStream with path %q but %s.Streams[%d] describes %q (want path %q): the call is bound to another method's stream descriptor", fd.Name.Name, pathS, x, k, dsc.streams[k].name, want))
						e := dsc.streams[k]
						shapeOK := true
						if e.client {
							shapeOK = !hasSend && !hasClose
						} else if e.server {
							shapeOK = hasSend && hasClose
						}
						c.Check(shapeOK, key+":call-shape", ce.Pos(), "call shape matches the entry's streaming flags", fmt.Sprintf("call shape does not match flags (client=%v server=%v, sends=%v closes=%v)", e.client, e.server, hasSend, hasClose))
					case "Invoke":
						if len(ce.Args) < 2 {
							return true
						}
						pathS := constStr(pk.TypesInfo, ce.Args[1])
						found := false
						for _, dsc := range descs {
							for _, m := range dsc.methods {
								if pathS == "/"+dsc.serviceName+"/"+m && m == fd.Name.Name {
									found = true
								}
							}
						}
						c.Check(found, key+":unary-binding", ce.Pos(), "path "+pathS+" names a unary method of a descriptor in this package", fmt.Sprintf("stub %s invokes %q, which is not the path of that unary method in any checked-in descriptor", fd.Name.Name, pathS))
					case "RegisterService":
						// reg.RegisterService(&X, srv) inside RegisterHandler<Svc>
						if len(ce.Args) == 2 {
							if ue, ok := ce.Args[0].(*ast.UnaryExpr); ok {
								if id, ok := ue.X.(*ast.Ident); ok {
									dsc := descs[id.Name]
									okReg := dsc != nil && strings.HasSuffix(fd.Name.Name, dsc.serviceName[strings.LastIndex(dsc.serviceName, ".")+1:])
									c.Check(okReg, key+":registers-own-desc", ce.Pos(), "registers the descriptor of its own service", "the registration function registers another service's descriptor")
								}
							}
						}
					}
					return true
				})
			}
		}
	}
	if nFiles == 0 {
		c.Fail("stubs", token.NoPos, "ANCHOR-MISSING: no *.pb.grpchan.go file in the repository")
	}
}

func constStr(info *types.Info, e ast.Expr) string {
	if tv, ok := info.Types[e]; ok && tv.Value != nil && tv.Value.Kind() == constant.String {
		return constant.StringVal(tv.Value)
	}
	return ""
}

func constBool(info *types.Info, e ast.Expr) bool {
	if tv, ok := info.Types[e]; ok && tv.Value != nil && tv.Value.Kind() == constant.Bool {
		return constant.BoolVal(tv.Value)
	}
	return false
}

// isTemplateMaker: a call of a repo function/method that turns a constant
// template text into a *text/template.Template (role of the template cache).
func isTemplateMaker(call *ssa.Call, ci core.CallInfo) bool {
	if ci.Static == nil || !strings.HasPrefix(ci.Pkg, core.ModulePath) || core.TypeStr(call.Type()) != "*text/template.Template" {
		return false
	}
	for _, a := range call.Call.Args {
		if _, ok := core.ConstString(a); ok {
			return true
		}
	}
	return false
}

// optPart: v is part k of an option string split at its first '=': element k
// of strings.SplitN(arg, "=", 2), or result k of strings.Cut(arg, "=").
func optPart(v ssa.Value, k int64) bool {
	if u, ok := v.(*ssa.UnOp); ok && u.Op == token.MUL {
		if ia, ok := u.X.(*ssa.IndexAddr); ok {
			i, isC := core.ConstInt(ia.Index)
			return isC && i == k
		}
	}
	if ex, ok := v.(*ssa.Extract); ok {
		if call, ok := ex.Tuple.(*ssa.Call); ok && core.InfoOf(&call.Call).Is("strings.Cut") {
			sep, isS := core.ConstString(call.Call.Args[1])
			return isS && sep == "=" && int64(ex.Index) == k
		}
	}
	return false
}
