package rules

import (
	"go/token"
	"go/types"
	"strings"

	"golang.org/x/tools/go/ssa"

	"verif/checker/internal/core"
)

func init() { register("C13", c13) }

// credsApplier: internal function (ctx, *CallOptions, string, bool) (ctx, error).
func credsApplier(p *core.Prog) *ssa.Function {
	for _, fn := range p.LibFuncs("internal") {
		if fn.Parent() != nil || fn.Signature.Recv() != nil || len(fn.Params) != 4 || fn.Signature.Results().Len() != 2 {
			continue
		}
		if core.TypeStr(fn.Params[0].Type()) == "context.Context" && core.TypeStr(fn.Params[3].Type()) == "bool" &&
			core.TypeStr(fn.Signature.Results().At(0).Type()) == "context.Context" && core.IsErrorType(fn.Signature.Results().At(1).Type()) {
			return fn
		}
	}
	return nil
}

func c13(c *core.Ctx) {
	p := c.P
	c.Explain = "C13: in both HTTP client entry points every request-issuing call is shown to be dominated by the nil-error edge of the per-RPC-credentials step whose 'secure' argument is the scheme test on the URL actually requested; inside that step the credential is queried only when security is not required or present; metadata is joined caller-first; peers are built from the reply's TLS state and the request's remote address."
	c.NotDec = []string{"what net/http puts in Response.TLS", "behaviour of credential implementations"}
	apply := credsApplier(p)
	if apply == nil {
		c.Rule("R0", "credentials step exists", 1)
		c.Missing("per-RPC credentials function (ctx, *CallOptions, string, bool) (ctx, error) in internal")
		c.EndRule()
		return
	}
	isApply := func(call *ssa.Call) bool { return core.InfoOf(&call.Call).Static == apply }

	// ---------------------------------------------------------------- R1
	if c.Rule("R1", "the security decision precedes any I/O: RoundTrip (or the goroutine that performs it) is dominated by the nil-error edge of the credentials step, whose secure argument is URL.Scheme == \"https\" of the requested URL; credentials are queried only if security is not required or present", 6) {
		for _, pkgS := range []string{"httpgrpc", "inprocgrpc"} {
			for _, ct := range channelTypes(p, pkgS) {
				for _, m := range []string{"Invoke", "NewStream"} {
					fn := declaredMethod(p, ct, m)
					if fn == nil {
						continue
					}
					key := typeKey(ct) + "." + m
					calls := core.CallsIn(fn, func(call *ssa.Call, _ core.CallInfo) bool { return isApply(call) })
					if len(calls) != 1 {
						c.Fail(key+":creds-step", fn.Pos(), "expected exactly one call of the credentials step, found %d", len(calls))
						continue
					}
					ac := calls[0]
					sec := ac.Call.Args[3]
					if pkgS == "inprocgrpc" {
						b, isC := core.ConstBool(sec)
						c.Check(isC && b, key+":secure-arg", ac.Pos(), "in-process: constant true (no network)", "in-process channel passes a non-constant / false secure flag")
						continue
					}
					// secure = (<url>.Scheme == "https"), computed in place or by a helper of the package that returns
					// the flag (and the URL string) for the URL it builds
					schemeTest := func(v ssa.Value) (ssa.Value, bool) {
						bo, ok := v.(*ssa.BinOp)
						if !ok || bo.Op != token.EQL {
							return nil, false
						}
						x, y := bo.X, bo.Y
						if _, isS := core.ConstString(x); isS {
							x, y = y, x
						}
						if s, isS := core.ConstString(y); isS && s == "https" {
							if base, f, ok := core.FieldOf(x); ok && f == "Scheme" && strings.HasSuffix(core.QualNamedOf(base.Type()), "net/url.URL") {
								return base, true
							}
						}
						return nil, false
					}
					isStringOf := func(v, base ssa.Value) bool {
						return core.OriginIs(v, func(o ssa.Value) bool {
							sc, _, ok := core.CallResult(o)
							return ok && core.InfoOf(&sc.Call).Is("net/url.URL.String") && sc.Call.Args[0] == base
						})
					}
					requestURLArgs := func() []ssa.Value {
						var out []ssa.Value
						for _, nr := range core.CallsIn(fn, func(_ *ssa.Call, ci core.CallInfo) bool {
							return ci.Is("net/http.NewRequest") || ci.Is("net/http.NewRequestWithContext")
						}) {
							if core.InfoOf(&nr.Call).Is("net/http.NewRequestWithContext") {
								out = append(out, nr.Call.Args[2])
							} else {
								out = append(out, nr.Call.Args[1])
							}
						}
						return out
					}
					okSec, okURL := false, false
					if urlBase, ok := schemeTest(sec); ok {
						okSec = true
						for _, uarg := range requestURLArgs() {
							if isStringOf(uarg, urlBase) {
								okURL = true
							}
						}
					} else if hc, k, isCall := core.CallResult(sec); isCall {
						if h := core.InfoOf(&hc.Call).Static; h != nil && h.Blocks != nil && core.PkgIs(h, pkgS) {
							okSec = len(core.Returns(h)) > 0
							okURL = okSec
							for _, r := range core.Returns(h) {
								base, ok := schemeTest(r.Results[k])
								if !ok {
									okSec, okURL = false, false
									continue
								}
								// the request is built from the string this same helper call returned for that URL
								found := false
								for _, uarg := range requestURLArgs() {
									for _, o := range core.Origins(uarg) {
										uc, j, isC := core.CallResult(o)
										if isC && uc == hc && j < len(r.Results) && isStringOf(r.Results[j], base) {
											found = true
										}
									}
								}
								if !found {
									okURL = false
								}
							}
						}
					}
					c.Check(okSec, key+":secure-arg", ac.Pos(), "secure = URL.Scheme == \"https\"", "the secure flag handed to the credentials step is not the test URL.Scheme == \"https\" (a constant or another expression lets credentials cross plain http)")
					// the URL tested is the one requested
					if okSec {
						c.Check(okURL, key+":secure-url-is-request-url", ac.Pos(), "the URL whose scheme is tested is the one the request is built from", "the scheme test is made on a URL other than the one the request is sent to")
					}
					// issuing calls
					var issuing []ssa.Instruction
					core.Instrs(fn, func(in ssa.Instruction) {
						cc := core.CallOf(in)
						if cc == nil {
							return
						}
						ci := core.InfoOf(cc)
						if ci.Iface && ci.Name == "RoundTrip" {
							issuing = append(issuing, in)
						}
						if ci.Static != nil && mustCallRoundTrip(ci.Static, 0) {
							issuing = append(issuing, in)
						}
					})
					if len(issuing) == 0 {
						c.Fail(key+":issues-request", fn.Pos(), "no request-issuing call found")
					}
					for _, is := range issuing {
						g := core.GuardedBy(is, func(f core.Fact) bool {
							return f.Op == token.EQL && core.IsNilConst(f.Y) && core.OriginIs(f.X, func(o ssa.Value) bool {
								cr, idx, ok := core.CallResult(o)
								return ok && cr == ac && idx == 1
							})
						})
						c.Check(g, key+":creds-before-io", is.Pos(), "request is issued only after the credentials step returned nil", "a request can be issued without the credentials step having succeeded (credentials requiring transport security could cross an insecure transport)")
					}
				}
			}
		}
		// inside the step
		key := core.FuncName(apply)
		secure := apply.Params[3]
		var grm, rts *ssa.Call
		core.Instrs(apply, func(in ssa.Instruction) {
			if call, ok := in.(*ssa.Call); ok && call.Call.IsInvoke() {
				switch call.Call.Method.Name() {
				case "GetRequestMetadata":
					grm = call
				case "RequireTransportSecurity":
					rts = call
				}
			}
		})
		if grm == nil || rts == nil {
			c.Fail(key+":creds-calls", apply.Pos(), "GetRequestMetadata / RequireTransportSecurity calls not found")
		} else {
			g := core.GuardedBy(grm, func(f core.Fact) bool {
				if f.Op != token.ILLEGAL {
					return false
				}
				return (f.X == ssa.Value(rts) && f.Neg) || (f.X == ssa.Value(secure) && !f.Neg)
			})
			c.Check(g, key+":query-only-if-allowed", grm.Pos(), "GetRequestMetadata dominated by ¬RequireTransportSecurity() ∨ secure", "credentials are queried although they require transport security and the channel is not secure")
			// the refusing path returns a non-nil error
			refuse := false
			for _, r := range core.Returns(apply) {
				onRefuse := core.GuardedBy(r, func(f core.Fact) bool { return f.Op == token.ILLEGAL && f.X == ssa.Value(secure) && f.Neg }) &&
					core.GuardedBy(r, func(f core.Fact) bool { return f.Op == token.ILLEGAL && f.X == ssa.Value(rts) && !f.Neg })
				if onRefuse && core.ClassifyErr(r.Results[1], r) == core.ErrNonNil {
					refuse = true
				}
			}
			c.Check(refuse, key+":refusal-is-error", apply.Pos(), "the required-but-insecure path returns a non-nil error", "no non-nil error is returned when security is required but absent")
			// credential error is returned
			credErr := false
			for _, r := range core.Returns(apply) {
				for _, l := range core.ErrLeaves(r.Results[1], r) {
					if cr, idx, ok := core.CallResult(l.V); ok && cr == grm && idx == 1 && l.Class == core.ErrNonNil {
						credErr = true
					}
				}
			}
			c.Check(credErr, key+":cred-error-returned", grm.Pos(), "an error from the credential is returned", "an error from GetRequestMetadata is not returned to the caller")
			// ... on EVERY path: after the credential was asked, a return that may report success is dominated by the
			// nil edge of the credential's error (an early "nothing to add" return placed before the error test lets the
			// call go out without the credential)
			okEvery := true
			var where token.Pos
			// paths from the credential call that never take the "err == nil" edge
			noNilEdge := core.Walk(core.After(grm), nil, func(b *ssa.BasicBlock, si int) bool {
				iff, ok := b.Instrs[len(b.Instrs)-1].(*ssa.If)
				if !ok {
					return true
				}
				f := core.CondFact(iff.Cond, si == 0)
				if f.Op == token.EQL && core.IsNilConst(f.Y) {
					if cr, idx, ok := core.CallResult(f.X); ok && cr == grm && idx == 1 {
						return false
					}
				}
				return true
			})
			for _, r := range core.Returns(apply) {
				if !noNilEdge[r] || core.ClassifyErr(r.Results[1], r) == core.ErrNonNil {
					continue
				}
				okEvery, where = false, r.Pos()
			}
			if !where.IsValid() {
				where = grm.Pos()
			}
			c.Check(okEvery, key+":no-success-before-cred-error-test", where, "every possibly-successful return after GetRequestMetadata is on the nil edge of its error", "a return that reports success is reachable after GetRequestMetadata without its error having been found nil: a failing credential does not fail the call, which goes out without the credential's metadata")
		}
		c.EndRule()
	}

	// ---------------------------------------------------------------- R2
	if c.Rule("R2", "credential metadata is merged after the caller's own (metadata.Join(existing, new)), and the context returned by the step is the one request headers are taken from", 3) {
		key := core.FuncName(apply)
		var noc *ssa.Call
		var nocs []*ssa.Call
		// the attach may sit in a step helper of the package that the credentials step calls
		family := []*ssa.Function{apply}
		for _, h := range core.HelperCallsOf(apply) {
			if h.Callee != nil && h.Callee.Blocks != nil && strings.HasPrefix(core.FuncName(h.Callee), "internal.") {
				family = append(family, h.Callee)
			}
		}
		for _, f := range family {
			for _, call := range core.CallsIn(f, func(_ *ssa.Call, ci core.CallInfo) bool { return ci.Is(metadataPkg + ".NewOutgoingContext") }) {
				noc = call
				nocs = append(nocs, call)
			}
		}
		if noc == nil {
			c.Fail(key+":attach", apply.Pos(), "no metadata.NewOutgoingContext call")
		} else {
			okJoin, okNew := false, false
			var attached []ssa.Value
			for _, nc := range nocs {
				attached = append(attached, core.Origins(nc.Call.Args[1])...)
			}
			for _, o := range attached {
				call, _, ok := core.CallResult(o)
				if !ok {
					continue
				}
				ci := core.InfoOf(&call.Call)
				if ci.Is(metadataPkg + ".Join") {
					args, unp := core.VariadicArgs(call.Call.Args[0])
					if unp && len(args) == 2 &&
						core.OriginIs(args[0], func(v ssa.Value) bool { return core.IsResultOf(v, 0, metadataPkg+".FromOutgoingContext") }) &&
						core.OriginIs(args[1], func(v ssa.Value) bool { return core.IsResultOf(v, 0, metadataPkg+".New") }) {
						okJoin = true
					}
				}
				if ci.Is(metadataPkg + ".New") {
					okNew = true
				}
			}
			c.Check(okJoin, key+":join-caller-first", noc.Pos(), "Join(caller's outgoing metadata, credential metadata)", "caller's outgoing metadata is not joined (first) with the credential metadata: the caller's keys would be lost or reordered")
			c.Check(okNew, key+":new-when-none", noc.Pos(), "metadata.New(md) when the caller had none", "no metadata.New path for a caller without metadata")
			// whatever is attached contains the caller's own metadata on every path: a value that is not the Join with
			// the caller's is attached only where the caller was found to have none (the !ok edge of FromOutgoingContext)
			okAlways := true
			for _, nc := range nocs {
				for _, l := range core.ErrLeaves(nc.Call.Args[1], nc) {
					call, _, isCall := core.CallResult(l.V)
					if isCall && core.InfoOf(&call.Call).Is(metadataPkg+".Join") {
						continue
					}
					if !core.LeafGuarded(l, func(f core.Fact) bool {
						ex, isEx := f.X.(*ssa.Extract)
						if !isEx || ex.Index != 1 || f.Op != token.ILLEGAL || !f.Neg {
							return false
						}
						fc, isC := ex.Tuple.(*ssa.Call)
						return isC && core.InfoOf(&fc.Call).Is(metadataPkg+".FromOutgoingContext")
					}) {
						okAlways = false
					}
				}
			}
			c.Check(okAlways, key+":caller-metadata-kept-on-every-path", noc.Pos(), "a metadata set without the caller's entries is attached only where the caller had none", "on some path the context gets a metadata set that does not contain the caller's own outgoing metadata although the caller may have some (e.g. when the credential returns an empty map): the caller's metadata is wiped")
			// returned ctx on that path is the NewOutgoingContext result
			retOK := false
			for _, r := range core.Returns(apply) {
				for _, o := range core.XOrigins(r.Results[0]) {
					for _, nc := range nocs {
						if o == ssa.Value(nc) {
							retOK = true
						}
					}
				}
			}
			c.Check(retOK, key+":returns-merged-ctx", noc.Pos(), "the merged context is returned", "the context carrying the merged metadata is not returned")
		}
		// callers use the returned ctx for request metadata
		for _, pkgS := range []string{"httpgrpc", "inprocgrpc"} {
			for _, ct := range channelTypes(p, pkgS) {
				for _, m := range []string{"Invoke", "NewStream"} {
					fn := declaredMethod(p, ct, m)
					if fn == nil {
						continue
					}
					key := typeKey(ct) + "." + m + ":metadata-from-creds-ctx"
					var ac *ssa.Call
					for _, call := range core.CallsIn(fn, func(call *ssa.Call, _ core.CallInfo) bool { return isApply(call) }) {
						ac = call
					}
					if ac == nil {
						continue
					}
					// every call that extracts outgoing metadata (directly or via a helper taking ctx) gets a ctx derived from ac#0
					n, bad := 0, 0
					core.InstrsDeep(fn, func(f *ssa.Function, in ssa.Instruction) {
						call, ok := in.(*ssa.Call)
						if !ok {
							return
						}
						ci := core.InfoOf(&call.Call)
						reads := ci.Is(metadataPkg + ".FromOutgoingContext")
						if ci.Static != nil && core.PkgIs(ci.Static, pkgS) && ci.Static.Parent() == nil && callsFromOutgoing(ci.Static) {
							reads = true
						}
						if !reads {
							return
						}
						n++
						// the context(s) the metadata is read from: the argument itself, or — for a helper — every
						// argument in the position of a parameter that the helper reads outgoing metadata from
						var ctxArgs []ssa.Value
						if ci.Is(metadataPkg + ".FromOutgoingContext") {
							ctxArgs = append(ctxArgs, call.Call.Args[0])
						} else {
							for i, pp := range ci.Static.Params {
								if core.TypeStr(pp.Type()) == "context.Context" && i < len(call.Call.Args) && paramReadsOutgoing(ci.Static, pp, 0) {
									ctxArgs = append(ctxArgs, call.Call.Args[i])
								}
							}
						}
						if len(ctxArgs) == 0 {
							bad++
						}
						for _, ctxArg := range ctxArgs {
							if !ctxDerivesFromCall(ctxArg, ac) {
								bad++
							}
						}
					})
					switch {
					case n == 0:
						c.Fail(key, fn.Pos(), "no read of outgoing metadata found in the entry point")
					case bad > 0:
						c.Fail(key, ac.Pos(), "request metadata is read from a context that does not derive from the one returned by the credentials step (credential metadata would be dropped)")
					default:
						c.Ok(key, ac.Pos(), "%d read(s) of outgoing metadata all use the context returned by the credentials step", n)
					}
				}
			}
		}
		c.EndRule()
	}

	// ---------------------------------------------------------------- R3
	if c.Rule("R3", "client peers are built from the TLS state of the reply obtained from RoundTrip in the same call, on both paths; server peers from r.RemoteAddr with AuthInfo on the r.TLS != nil edge, attached in both handler kinds", 5) {
		// peer constructor role
		var getPeer, peerFromReq *ssa.Function
		for _, fn := range p.LibFuncs("httpgrpc") {
			if fn.Parent() != nil || fn.Signature.Results().Len() != 1 || strings.TrimPrefix(core.TypeStr(fn.Signature.Results().At(0).Type()), "*") != peerPkg+".Peer" {
				continue
			}
			if len(fn.Params) == 2 && (core.TypeStr(fn.Params[1].Type()) == "*crypto/tls.ConnectionState" || core.TypeStr(fn.Params[1].Type()) == "*net/http.Response") {
				getPeer = fn
			}
			if len(fn.Params) == 1 && core.TypeStr(fn.Params[0].Type()) == "*net/http.Request" {
				peerFromReq = fn
			}
		}
		if getPeer == nil {
			c.Missing("client peer constructor func(*url.URL, *tls.ConnectionState) *peer.Peer")
		} else {
			n := 0
			for _, fn := range p.LibFuncs("httpgrpc") {
				for _, call := range core.CallsIn(fn, func(_ *ssa.Call, ci core.CallInfo) bool { return ci.Static == getPeer }) {
					n++
					key := core.FuncName(fn) + ":peer-tls"
					tlsArg := call.Call.Args[1]
					ok := false
					why := "TLS argument is not the TLS field of the *http.Response returned by RoundTrip in this call"
					fromRoundTrip := func(v ssa.Value) bool {
						return core.OriginIs(v, func(o ssa.Value) bool {
							cr, idx, ok := core.CallResult(o)
							return ok && idx == 0 && core.InfoOf(&cr.Call).Iface && core.InfoOf(&cr.Call).Name == "RoundTrip"
						})
					}
					if core.TypeStr(tlsArg.Type()) == "*net/http.Response" {
						// the constructor is handed the reply itself and reads its TLS field
						readsTLS := false
						core.Instrs(getPeer, func(in ssa.Instruction) {
							if u, isU := in.(*ssa.UnOp); isU && u.Op == token.MUL {
								if base, f, isF := core.FieldOf(u); isF && f == "TLS" && base == ssa.Value(getPeer.Params[1]) {
									readsTLS = true
								}
							}
						})
						if fromRoundTrip(tlsArg) && readsTLS {
							ok = true
							why = "peer built from the TLS field of this call's RoundTrip reply"
						} else {
							why = "the reply handed to the peer constructor is not the one returned by RoundTrip in this call"
						}
					} else if base, f, isF := core.FieldOf(tlsArg); isF && f == "TLS" {
						if core.TypeStr(base.Type()) == "*net/http.Response" && core.OriginIs(base, func(o ssa.Value) bool {
							cr, idx, ok := core.CallResult(o)
							return ok && idx == 0 && core.InfoOf(&cr.Call).Iface && core.InfoOf(&cr.Call).Name == "RoundTrip"
						}) {
							ok = true
							why = "peer built from reply.TLS of this call's RoundTrip"
						} else if core.TypeStr(base.Type()) == "*net/http.Request" {
							why = "peer built from the TLS field of the outgoing *http.Request, which is always nil on the client: TLS auth info is never reported"
						}
					} else if core.IsNilConst(tlsArg) {
						why = "peer built with a nil TLS state"
					}
					c.Check(ok, key, call.Pos(), why, why)
					// result goes to SetPeer
					toSet := false
					for _, r := range core.Refs(call) {
						if sc, ok := r.(*ssa.Call); ok && core.InfoOf(&sc.Call).Name == "SetPeer" {
							toSet = true
						}
					}
					c.Check(toSet, core.FuncName(fn)+":peer-set", call.Pos(), "peer handed to SetPeer", "constructed peer is not handed to SetPeer")
				}
			}
			if n < 2 {
				c.Fail("client:peer-sites", getPeer.Pos(), "peer constructor must be used on both the unary and the streaming path, found %d call(s)", n)
			}
			// the peer option alone is enough: once RoundTrip has returned a reply, every path to a return passes
			// SetPeer unless it leaves on the RoundTrip-error edge or on the "no peer options" edge (len(Peer) == 0)
			for _, fn := range p.LibFuncs("httpgrpc") {
				rts := core.CallsIn(fn, func(_ *ssa.Call, ci core.CallInfo) bool { return ci.Iface && ci.Name == "RoundTrip" })
				if len(rts) == 0 || len(core.CallsIn(fn, func(_ *ssa.Call, ci core.CallInfo) bool { return ci.Static == getPeer })) == 0 {
					continue
				}
				for _, rt := range rts {
					isSetPeer := func(in ssa.Instruction) bool {
						cc := core.CallOf(in)
						return cc != nil && core.InfoOf(cc).Name == "SetPeer" && core.InfoOf(cc).Recv == "CallOptions"
					}
					visited := core.Walk(core.After(rt), isSetPeer, func(b *ssa.BasicBlock, si int) bool {
						iff, ok := b.Instrs[len(b.Instrs)-1].(*ssa.If)
						if !ok {
							return true
						}
						f := core.CondFact(iff.Cond, si == 0)
						// RoundTrip failed
						if f.Op == token.NEQ && core.IsNilConst(f.Y) && core.OriginIs(f.X, func(o ssa.Value) bool { cr, idx, ok := core.CallResult(o); return ok && cr == rt && idx == 1 }) {
							return false
						}
						// no peer option supplied: len(copts.Peer) <= 0 / == 0
						if lc, ok := f.X.(*ssa.Call); ok {
							if b2, isB := lc.Call.Value.(*ssa.Builtin); isB && b2.Name() == "len" {
								if _, fld, isF := core.FieldOf(lc.Call.Args[0]); isF && fld == "Peer" {
									if k, isC := core.ConstInt(f.Y); isC && k == 0 && (f.Op == token.LEQ || f.Op == token.EQL) {
										return false
									}
								}
							}
						}
						return true
					})
					bad := false
					for _, r := range core.Returns(fn) {
						if visited[r] {
							bad = true
						}
					}
					c.Check(!bad, core.FuncName(fn)+":peer-option-alone-suffices", rt.Pos(), "after a reply was obtained every path passes SetPeer, except where no peer option was supplied",
						"after RoundTrip returned a reply a return is reachable without SetPeer although peer options may have been supplied (the report is tied to some other condition): a call with only grpc.Peer gets no peer")
				}
			}
			// AuthInfo set iff tls != nil
			okAuth := false
			core.Instrs(getPeer, func(in ssa.Instruction) {
				if st, ok := in.(*ssa.Store); ok {
					if _, f, isF := core.FieldOf(st.Addr); isF && f == "AuthInfo" {
						if core.GuardedExactlyBy(st, func(f core.Fact) bool {
							if f.Op != token.NEQ || !core.IsNilConst(f.Y) {
								return false
							}
							if f.X == ssa.Value(getPeer.Params[1]) {
								return true
							}
							// handed the reply: the test is on its TLS field
							base, fld, isF := core.FieldOf(f.X)
							return isF && fld == "TLS" && base == ssa.Value(getPeer.Params[1]) && core.TypeStr(base.Type()) == "*net/http.Response"
						}) {
							okAuth = true
						}
					}
				}
			})
			// the address: url.Host as it is (plus a default port), or net.JoinHostPort — never Hostname() glued to a
			// port with ":" (Hostname strips the brackets of an IPv6 literal)
			core.Instrs(getPeer, func(in ssa.Instruction) {
				st, ok := in.(*ssa.Store)
				if !ok {
					return
				}
				if _, f, isF := core.FieldOf(st.Addr); !isF || f != "Addr" {
					return
				}
				bad := false
				for _, o := range core.Origins(st.Val) {
					parts, _ := core.StringParts(core.Strip(o))
					if len(parts) < 2 {
						continue
					}
					for _, pt := range parts {
						if pt.IsConst {
							continue
						}
						for _, po := range core.Origins(pt.Val) {
							if pc, _, isCall := core.CallResult(po); isCall && core.InfoOf(&pc.Call).Is("net/url.URL.Hostname") {
								bad = true
							}
						}
					}
				}
				c.Check(!bad, core.FuncName(getPeer)+":addr-keeps-ipv6-brackets", st.Pos(), "the address is not assembled from Hostname() by concatenation", "the peer address is assembled by concatenating url.Hostname() with a port: Hostname() strips the brackets of an IPv6 literal, so the address of http://[2001:db8::1]:8080 becomes 2001:db8::1:8080 (net.JoinHostPort, or url.Host as it is, keeps them)")
			})
			c.Check(okAuth, core.FuncName(getPeer)+":authinfo", getPeer.Pos(), "AuthInfo set on the tls != nil edge", "AuthInfo is not set from the TLS state on exactly the tls != nil edge (missing, or subject to a further condition)")
		}
		if peerFromReq == nil {
			c.Missing("server peer constructor func(*http.Request) *peer.Peer")
		} else {
			key := core.FuncName(peerFromReq)
			okAddr, okAuth := false, false
			core.Instrs(peerFromReq, func(in ssa.Instruction) {
				st, ok := in.(*ssa.Store)
				if !ok {
					return
				}
				_, f, isF := core.FieldOf(st.Addr)
				if !isF {
					return
				}
				if f == "Addr" && core.AllOrigins(st.Val, func(o ssa.Value) bool { _, ff, ok := core.FieldOf(o); return ok && ff == "RemoteAddr" }) {
					okAddr = true
				}
				if f == "AuthInfo" && core.GuardedExactlyBy(st, func(fc core.Fact) bool {
					if fc.Op != token.NEQ || !core.IsNilConst(fc.Y) {
						return false
					}
					_, ff, ok := core.FieldOf(fc.X)
					return ok && ff == "TLS"
				}) {
					okAuth = true
				}
			})
			c.Check(okAddr, key+":addr", peerFromReq.Pos(), "Addr from r.RemoteAddr on every path", "the peer address is not (on every path) the connection's r.RemoteAddr: something a client can put into a header (e.g. X-Forwarded-For, which is plain caller metadata here) decides what the handler sees as its peer")
			c.Check(okAuth, key+":authinfo", peerFromReq.Pos(), "AuthInfo on the r.TLS != nil edge", "AuthInfo is not set from r.TLS on exactly the r.TLS != nil edge (missing, or subject to a further condition): TLS connections would be reported without auth info")
			for _, hc := range httpHandlerClosures(p) {
				k := core.FuncName(hc.Fn) + ":peer-attached"
				ok := false
				for _, hs := range handlerInvocations(hc.Fn) {
					// the ctx reaching the handler passes through peer.NewContext(…, peerFromRequest(r))
					for _, a := range hs.Call.Args {
						if core.TypeStr(a.Type()) != "context.Context" {
							continue
						}
						if ctxPassesThroughSome(a, func(call *ssa.Call) bool {
							if !core.InfoOf(&call.Call).Is(peerPkg + ".NewContext") {
								return false
							}
							return isResultOfFn(call.Call.Args[1], peerFromReq)
						}) {
							ok = true
						}
					}
				}
				if hc.Stream {
					// stream handlers get the ctx through the stream object: check any peer.NewContext in the closure
					scope := []*ssa.Function{hc.Fn}
					for _, h := range core.HelperCallsOf(hc.Fn) {
						scope = append(scope, h.Callee)
					}
					var ncs []*ssa.Call
					for _, f := range scope {
						ncs = append(ncs, core.CallsIn(f, func(_ *ssa.Call, ci core.CallInfo) bool { return ci.Is(peerPkg + ".NewContext") })...)
					}
					for _, call := range ncs {
						if isResultOfFn(call.Call.Args[1], peerFromReq) {
							ok = true
						}
					}
				}
				c.Check(ok, k, hc.Fn.Pos(), "handler context carries peer.NewContext(ctx, peerFromRequest(r))", "handler context does not carry the peer built from the request")
			}
		}
		c.EndRule()
	}

	// ---------------------------------------------------------------- R5
	if c.Rule("R5", "the credentials' metadata is what goes on the wire: in the HTTP client functions that build or issue the request, no function of the module that is handed the request's header set writes into it or into its value slices (a \"redacted copy for the log\" whose slices alias the original overwrites the Authorization value that is about to be sent)", 2) {
		n := 0
		for _, fn := range p.LibFuncs("httpgrpc") {
			builds := false
			core.Instrs(fn, func(in ssa.Instruction) {
				if isRequestIssue(in) {
					builds = true
				}
				if cc := core.CallOf(in); cc != nil {
					if ci := core.InfoOf(cc); ci.Is("net/http.NewRequest") || ci.Is("net/http.NewRequestWithContext") {
						builds = true
					}
				}
			})
			if !builds {
				continue
			}
			n++
			bad := ""
			var where token.Pos
			core.Instrs(fn, func(in ssa.Instruction) {
				call, ok := in.(*ssa.Call)
				if !ok {
					return
				}
				h := call.Call.StaticCallee()
				if h == nil || h.Blocks == nil || !strings.HasPrefix(core.InfoOf(&call.Call).Pkg, core.ModulePath) {
					return
				}
				for i, a := range call.Call.Args {
					if (core.TypeStr(a.Type()) == "net/http.Header" || core.TypeStr(a.Type()) == "*net/http.Request") && i < len(h.Params) && writesIntoMD(h, h.Params[i], 0) {
						bad, where = h.Name(), call.Pos()
					}
				}
			})
			key := core.FuncName(fn) + ":request-headers-not-rewritten"
			if bad != "" {
				c.Fail(key, where, "%s is handed a header set of the call and writes into it (or into value slices it shares with it): what the credentials contributed is not what the server receives", bad)
			} else {
				c.Ok(key, fn.Pos(), "no module function handed a header set writes into it")
			}
		}
		if n < 2 {
			c.Fail("httpgrpc:request-building-functions", token.NoPos, "ANCHOR-MISSING: expected the unary and the streaming request construction, found %d", n)
		}
		c.EndRule()
	}

	// ---------------------------------------------------------------- R4
	if c.Rule("R4", "of several per-RPC-credentials options the LAST one counts (gRPC's rule: a stub's default options come first in the list, the call's own after them): the credentials field of the collected call options is assigned inside the loop over the whole option list, which is not left once a match is found", 1) {
		n := 0
		isReader := func(fn *ssa.Function) bool {
			if fn == nil || fn.Parent() != nil || len(fn.Params) != 1 || !strings.HasSuffix(core.TypeStr(fn.Params[0].Type()), "grpc.CallOption") {
				return false
			}
			_, isSl := fn.Params[0].Type().Underlying().(*types.Slice)
			return isSl
		}
		for _, host := range p.LibFuncs("internal") {
			fn := host
			// the per-option decisions may sit in a step function that the reader calls for each option
			var stepSite ssa.Instruction
			if !isReader(fn) {
				site := core.InlineSite[host]
				if site == nil || !isReader(site.Parent()) {
					continue
				}
				fn, stepSite = site.Parent(), site
			}
			core.Instrs(host, func(in ssa.Instruction) {
				st, ok := in.(*ssa.Store)
				if !ok {
					return
				}
				base, fld, isF := core.FieldOf(st.Addr)
				if !isF || core.NamedOf(base.Type()) != "CallOptions" || !strings.HasSuffix(core.TypeStr(st.Val.Type()), "PerRPCCredentials") {
					return
				}
				n++
				key := core.FuncName(fn) + ":" + fld + ":last-option-wins"
				// selected where? In the loop over the options of fn itself, or in a helper that is handed them
				lastWins := func(f *ssa.Function, sel ssa.Instruction, ends func(ssa.Instruction) bool) (bool, string) {
					loops := core.LoopOf(f)
					id := loops[sel.Block()]
					if id < 0 {
						return false, "the selection is not made in a loop over the options"
					}
					// from the selection, the function's end is reached only through the loop's own exit: every path
					// passes the loop header again
					var hdr *ssa.BasicBlock
					for _, b := range f.Blocks {
						if loops[b] != id {
							continue
						}
						for _, pr := range b.Preds {
							if loops[pr] != id {
								hdr = b
							}
						}
					}
					if hdr == nil {
						return false, "loop header not found"
					}
					reach := core.Walk(core.After(sel), func(x ssa.Instruction) bool { return x.Block() == hdr && x == hdr.Instrs[0] }, nil)
					for x := range reach {
						if ends(x) {
							return false, "the loop is left as soon as one option matched: the first option of the kind is used and a later one (the call's own override of a stub-level default) ignored"
						}
					}
					return true, ""
				}
				isRet := func(x ssa.Instruction) bool { _, r := x.(*ssa.Return); return r }
				if stepSite != nil {
					ok, why := lastWins(fn, stepSite, isRet)
					c.Check(ok, key, st.Pos(), "assigned by a step function run for every option of the whole list", why)
					return
				}
				if core.LoopOf(fn)[st.Block()] >= 0 {
					ok, why := lastWins(fn, st, isRet)
					c.Check(ok, key, st.Pos(), "assigned on every match inside the loop over the whole option list", why)
					return
				}
				// through a helper: the value is (part of) the result of a module function handed the option list
				decided := false
				for _, o := range core.Origins(st.Val) {
					var call *ssa.Call
					if fa, isFA := o.(*ssa.Field); isFA {
						if cr, _, ok := core.CallResult(fa.X); ok {
							call = cr
						}
					}
					if cr, _, ok := core.CallResult(o); ok && call == nil {
						call = cr
					}
					if base, _, isF := core.FieldOf(o); isF && call == nil {
						if cr, _, ok := core.CallResult(base); ok {
							call = cr
						}
					}
					if call == nil {
						continue
					}
					h := call.Call.StaticCallee()
					if h == nil || h.Blocks == nil {
						continue
					}
					h = core.Generic(h)
					// the type assertions on the ranged element
					core.Instrs(h, func(x ssa.Instruction) {
						ta, isTA := x.(*ssa.TypeAssert)
						if !isTA || decided {
							return
						}
						decided = true
						ok, why := lastWins(h, ta, isRet)
						c.Check(ok, key, st.Pos(), "selected by "+h.Name()+", which looks at the whole option list", "selected by "+h.Name()+": "+why)
					})
				}
				if !decided {
					// ... or the helper answers with the option itself (find[O](opts) (O, bool))
					for _, call := range core.CallsIn(fn, func(call *ssa.Call, ci core.CallInfo) bool {
						if ci.Static == nil || ci.Static.Blocks == nil || len(call.Call.Args) == 0 || call.Call.Args[0] != ssa.Value(fn.Params[0]) {
							return false
						}
						return strings.Contains(core.TypeStr(call.Type()), "PerRPCCredsCallOption")
					}) {
						h := core.Generic(call.Call.StaticCallee())
						core.Instrs(h, func(x ssa.Instruction) {
							ta, isTA := x.(*ssa.TypeAssert)
							if !isTA || decided {
								return
							}
							decided = true
							ok, why := lastWins(h, ta, isRet)
							c.Check(ok, key, st.Pos(), "selected by "+h.Name()+", which looks at the whole option list", "selected by "+h.Name()+": "+why)
						})
					}
				}
				if !decided {
					c.Undecided(key, st.Pos(), "cannot see how the credentials option is selected from the option list")
				}
			})
		}
		if n == 0 {
			c.Missing("store of the per-RPC credentials into the collected call options (internal)")
		}
		c.EndRule()
	}

	// ---------------------------------------------------------------- R6 (shared)
	// the credentials of a call are that call's: what a call collects from its options is not kept in (or recycled
	// through) a long-lived object for another call to find (C01/R1) — a pooled options struct whose credentials
	// field is not reset sends one caller's token with another caller's request
	c.Borrow("C01", map[string]string{"R1": "R6"}, c01)
	// "the call fails before any request is issued": an error met while the request's headers are built from the
	// credentials' metadata is not dropped on the way (C02/R4: no discarded error result outside the justified table)
	c.Borrow("C02", map[string]string{"R4": "R7"}, c02)
}

// mustCallRoundTrip: fn (or a static callee, depth ≤ 2) invokes RoundTrip.
func mustCallRoundTrip(fn *ssa.Function, depth int) bool {
	if fn == nil || fn.Blocks == nil || depth > 2 {
		return false
	}
	found := false
	core.Instrs(fn, func(in ssa.Instruction) {
		cc := core.CallOf(in)
		if cc == nil {
			return
		}
		ci := core.InfoOf(cc)
		if ci.Iface && ci.Name == "RoundTrip" {
			found = true
		}
		if ci.Static != nil && strings.HasPrefix(ci.Pkg, core.ModulePath) && mustCallRoundTrip(ci.Static, depth+1) {
			found = true
		}
	})
	return found
}

func callsFromOutgoing(fn *ssa.Function) bool {
	return callsFromOutgoingDepth(fn, 0)
}

func callsFromOutgoingDepth(fn *ssa.Function, depth int) bool {
	if fn == nil || fn.Blocks == nil || depth > 2 {
		return false
	}
	if len(core.CallsIn(fn, func(_ *ssa.Call, ci core.CallInfo) bool { return ci.Is(metadataPkg + ".FromOutgoingContext") })) > 0 {
		return true
	}
	// through a helper of the module that is handed a context
	for _, h := range core.HelperCallsOf(fn) {
		for _, a := range h.Call.Call.Args {
			if core.TypeStr(a.Type()) == "context.Context" && callsFromOutgoingDepth(h.Callee, depth+1) {
				return true
			}
		}
	}
	return false
}

// ctxDerivesFromCall: the context value v derives (through context-deriving
// calls, cells and closures) from result 0 of call.
func ctxDerivesFromCall(v ssa.Value, call *ssa.Call) bool {
	return ctxPassesThrough(v, func(c *ssa.Call) bool { return c == call })
}

// ctxPassesThrough walks all derivation chains of v backwards and reports
// whether every chain reaches a call satisfying pred.
func ctxPassesThrough(v ssa.Value, pred func(*ssa.Call) bool) bool {
	seen := map[ssa.Value]bool{}
	var rec func(v ssa.Value) bool
	rec = func(v ssa.Value) bool {
		if v == nil || seen[v] {
			return true
		}
		seen[v] = true
		for _, o := range core.Origins(v) {
			if isBoundValue(o) {
				r := core.ResolveFree(o)
				if r == o || !rec(r) {
					return false
				}
				continue
			}
			if u, ok := o.(*ssa.UnOp); ok && u.Op == token.MUL {
				// load from captured cell: all stores
				if al, ok := core.ResolveFree(u.X).(*ssa.Alloc); ok {
					sts := core.StoresTo(al)
					if len(sts) == 0 {
						return false
					}
					// flow-insensitive: at least the stores that are context-deriving must all pass; parameter spill stores are roots
					okAny := false
					for _, s := range sts {
						if s.Val == v {
							continue
						}
						if rec(s.Val) {
							okAny = true
						}
					}
					if !okAny {
						return false
					}
					continue
				}
				return false
			}
			call, idx, ok := core.CallResult(o)
			if !ok {
				if c2, i2, _, okF := core.ResultField(o); okF && core.TypeStr(o.Type()) == "context.Context" {
					call, idx, ok = c2, i2, true
				}
			}
			if !ok || idx != 0 {
				return false
			}
			if pred(call) {
				continue
			}
			nxt, _, ok := ctxDeriving(call)
			if !ok || !rec(nxt) {
				return false
			}
		}
		return true
	}
	return rec(v)
}

// ctxPassesThroughSome: some derivation chain of v reaches a call satisfying pred.
func ctxPassesThroughSome(v ssa.Value, pred func(*ssa.Call) bool) bool {
	seen := map[ssa.Value]bool{}
	var rec func(v ssa.Value) bool
	rec = func(v ssa.Value) bool {
		if v == nil || seen[v] {
			return false
		}
		seen[v] = true
		for _, o := range core.Origins(v) {
			if isBoundValue(o) {
				if r := core.ResolveFree(o); r != o && rec(r) {
					return true
				}
				continue
			}
			call, idx, ok := core.CallResult(o)
			if !ok {
				// the context field of a result struct
				if c2, i2, _, okF := core.ResultField(o); okF && core.TypeStr(o.Type()) == "context.Context" {
					call, idx, ok = c2, i2, true
				}
			}
			if !ok || idx != 0 {
				continue
			}
			if pred(call) {
				return true
			}
			if nxt, _, ok := ctxDeriving(call); ok && rec(nxt) {
				return true
			}
			// a helper of the module that builds and returns the context: look at what it returns
			if h := call.Call.StaticCallee(); h != nil && h.Blocks != nil && h.Pkg != nil && strings.HasPrefix(h.Pkg.Pkg.Path(), core.ModulePath) &&
				h.Signature.Results().Len() >= 1 && core.TypeStr(h.Signature.Results().At(0).Type()) == "context.Context" {
				// (on SOME way through it, as for a value merged from several branches in one function: a helper
				// that attaches "if there is something to attach" has a return that hands its argument back)
				for _, r := range core.Returns(h) {
					if rec(r.Results[0]) {
						return true
					}
				}
			}
		}
		return false
	}
	return rec(v)
}

// isBoundValue: a free variable of a function literal, or a parameter of a
// "virtual closure" (core.InlineSite): core.ResolveFree maps it to the value it
// is bound to in the enclosing function.
func isBoundValue(v ssa.Value) bool {
	switch x := v.(type) {
	case *ssa.FreeVar:
		return true
	case *ssa.Parameter:
		return core.InlineSite[x.Parent()] != nil
	}
	return false
}

// isResultOfFn: v is what fn returned: its call result, or the address of a
// local that holds nothing but its call result (a value result whose address
// is handed on).
func isResultOfFn(v ssa.Value, fn *ssa.Function) bool {
	isRes := func(o ssa.Value) bool {
		cr, _, ok := core.CallResult(o)
		return ok && core.InfoOf(&cr.Call).Static == fn
	}
	if core.OriginIs(v, isRes) {
		return true
	}
	al, ok := core.ResolveFree(core.Strip(v)).(*ssa.Alloc)
	if !ok {
		return false
	}
	sts := core.StoresTo(al)
	if len(sts) == 0 {
		return false
	}
	for _, st := range sts {
		if !core.OriginIs(st.Val, isRes) {
			return false
		}
	}
	return true
}

// paramReadsOutgoing: fn reads outgoing metadata from (a context that may be)
// its parameter par: par reaches the argument of metadata.FromOutgoingContext,
// directly or through a helper of the module.
func paramReadsOutgoing(fn *ssa.Function, par *ssa.Parameter, depth int) bool {
	if fn == nil || fn.Blocks == nil || depth > 2 {
		return false
	}
	found := false
	core.Instrs(fn, func(in ssa.Instruction) {
		call, ok := in.(*ssa.Call)
		if !ok || found {
			return
		}
		ci := core.InfoOf(&call.Call)
		fromPar := func(a ssa.Value) bool {
			return core.Strip(a) == ssa.Value(par) || core.OriginIs(a, func(o ssa.Value) bool {
				return core.Strip(o) == ssa.Value(par) || core.ResolveFree(core.Strip(o)) == ssa.Value(par)
			})
		}
		if ci.Is(metadataPkg+".FromOutgoingContext") && fromPar(call.Call.Args[0]) {
			found = true
			return
		}
		if ci.Static != nil && ci.Static.Blocks != nil && strings.HasPrefix(ci.Pkg, core.ModulePath) {
			for i, a := range call.Call.Args {
				if i < len(ci.Static.Params) && core.TypeStr(a.Type()) == "context.Context" && fromPar(a) && paramReadsOutgoing(ci.Static, ci.Static.Params[i], depth+1) {
					found = true
				}
			}
		}
	})
	return found
}
