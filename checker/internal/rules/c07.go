package rules

import (
	"fmt"
	"go/token"
	"go/types"
	"strings"

	"golang.org/x/tools/go/ssa"

	"verif/checker/internal/core"
)

func init() { register("C07", c07) }

// prefaceReaders: httpgrpc functions returning (int32-ish, error) that call
// binary.Read on their reader parameter.
func prefaceReaders(p *core.Prog) []*ssa.Function {
	var out []*ssa.Function
	for _, fn := range p.LibFuncs("httpgrpc") {
		if fn.Parent() != nil || fn.Signature.Results().Len() != 2 || !core.IsErrorType(fn.Signature.Results().At(1).Type()) {
			continue
		}
		if b, ok := fn.Signature.Results().At(0).Type().Underlying().(*types.Basic); !ok || b.Info()&types.IsInteger == 0 {
			continue
		}
		if len(core.CallsIn(fn, func(_ *ssa.Call, ci core.CallInfo) bool { return ci.Is("encoding/binary.Read") })) > 0 {
			out = append(out, fn)
		}
	}
	return out
}

func isPrefaceResult(p *core.Prog, v ssa.Value, readers []*ssa.Function) bool {
	call, idx, ok := core.CallResult(v)
	if !ok || idx != 0 {
		return false
	}
	ci := core.InfoOf(&call.Call)
	for _, r := range readers {
		if ci.Static == r {
			return true
		}
	}
	return false
}

// stripNum strips integer conversions and negation.
func stripNum(v ssa.Value) ssa.Value {
	for {
		switch x := v.(type) {
		case *ssa.Convert:
			v = x.X
		case *ssa.ChangeType:
			v = x.X
		case *ssa.UnOp:
			if x.Op == token.SUB {
				v = x.X
				continue
			}
			return v
		default:
			return v
		}
	}
}

// eofSpec: values that may be exactly io.EOF.
func eofSpec(includePreface, includeRoundTrip bool) core.TaintSpec {
	isEOF := func(v ssa.Value) bool {
		g, ok := core.GlobalLoad(v)
		return ok && g == "io.EOF"
	}
	return core.TaintSpec{
		Name: "EOFCapable",
		IsSource: func(v ssa.Value) bool {
			call, idx, ok := core.CallResult(v)
			if !ok || !core.IsErrorType(v.Type()) {
				return false
			}
			ci := core.InfoOf(&call.Call)
			switch ci.Full() {
			case "io.ReadFull", "io.ReadAtLeast":
				return idx == 1
			case "encoding/binary.Read":
				return includePreface
			}
			if ci.Iface && ci.Name == "Read" && idx == 1 {
				return true
			}
			if ci.Iface && ci.Name == "RoundTrip" && idx == 1 {
				return includeRoundTrip
			}
			return false
		},
		CleanedBy: func(f core.Fact) ssa.Value {
			if f.Op != token.NEQ {
				return nil
			}
			if isEOF(f.Y) {
				return f.X
			}
			if isEOF(f.X) {
				return f.Y
			}
			return nil
		},
	}
}

func c07(c *core.Ctx) {
	p := c.P
	c.Explain = "C07: every allocation in httpgrpc whose size derives from a size preface (or an integer parameter) must be dominated by the sign test and by an upper-bound test against the package's message-size constant; a buffer reaches the application only on the nil-error edge of a full read of that buffer; an io.EOF from a payload read never leaves the server's RecvMsg unnormalised; all index expressions in httpgrpc are in range."
	c.NotDec = []string{"total memory held by many concurrent streams", "'exactly the framed messages that were encoded' as a value statement"}
	readers := prefaceReaders(p)
	fns := p.LibFuncs("httpgrpc")

	// the package's size limit constant(s)
	limit := int64(0)
	if pk := p.Pkgs[core.ModulePath+"/httpgrpc"]; pk != nil {
		sc := pk.Types.Scope()
		for _, n := range sc.Names() {
			if cst, ok := sc.Lookup(n).(*types.Const); ok && strings.Contains(strings.ToLower(n), "max") && strings.Contains(strings.ToLower(n), "size") {
				if v, ok := constInt64(cst); ok {
					limit = v
				}
			}
		}
	}

	// ---------------------------------------------------------------- R1
	if c.Rule("R1", "every make() whose size derives from a size preface or an integer parameter is dominated by n >= 0 and n <= K, K the package's message-size limit (< 2^30)", 2) {
		if len(readers) == 0 {
			c.Missing("size-preface reader (func returning (int32, error) that calls binary.Read) in httpgrpc")
		}
		if limit == 0 {
			c.Missing("message-size limit constant in httpgrpc")
		}
		for _, fn := range fns {
			core.Instrs(fn, func(in ssa.Instruction) {
				mk, ok := in.(*ssa.MakeSlice)
				if !ok {
					return
				}
				sizes := []ssa.Value{mk.Len}
				if stripNum(mk.Cap) != stripNum(mk.Len) {
					sizes = append(sizes, mk.Cap)
				}
				for _, sz := range sizes {
					n := stripNum(sz)
					tainted := isPrefaceResult(p, n, readers)
					if par, isPar := n.(*ssa.Parameter); isPar {
						if b, ok := par.Type().Underlying().(*types.Basic); ok && b.Info()&types.IsInteger != 0 {
							tainted = true
						}
					}
					// loaded from a binary.Read target
					if u, isU := n.(*ssa.UnOp); isU && u.Op == token.MUL {
						for _, r := range core.Refs(u.X) {
							if mi, ok := r.(*ssa.MakeInterface); ok {
								for _, rr := range core.Refs(mi) {
									if call, ok := rr.(*ssa.Call); ok && core.InfoOf(&call.Call).Is("encoding/binary.Read") {
										tainted = true
									}
								}
							}
						}
					}
					if !tainted {
						continue
					}
					key := core.FuncName(fn) + ":make(" + core.ValName(n) + ")"
					guardsAt := func(at ssa.Instruction, n ssa.Value) (bool, bool, int64) {
						lower := core.GuardedBy(at, func(f core.Fact) bool {
							k, isC := core.ConstInt(f.Y)
							return stripNum(f.X) == n && isC && ((f.Op == token.GEQ && k >= 0) || (f.Op == token.GTR && k >= -1))
						})
						var bound int64 = -1
						upper := core.GuardedBy(at, func(f core.Fact) bool {
							k, isC := core.ConstInt(f.Y)
							if stripNum(f.X) != n || !isC {
								return false
							}
							if f.Op == token.LEQ || f.Op == token.LSS {
								if k > bound {
									bound = k
								}
								return true
							}
							return false
						})
						return lower, upper, bound
					}
					lower, upper, bound := guardsAt(mk, n)
					// a size that is a parameter of an unexported helper: the tests may be made by every caller instead
					if par, isPar := n.(*ssa.Parameter); isPar && (!lower || !upper) && fn.Parent() == nil && fn.Object() != nil && !fn.Object().Exported() {
						idx := -1
						for i, pp := range fn.Params {
							if pp == par {
								idx = i
							}
						}
						nSites := 0
						lo2, up2 := true, true
						var b2 int64 = -1
						for _, caller := range fns {
							for _, cs := range core.CallsIn(caller, func(_ *ssa.Call, ci core.CallInfo) bool { return ci.Static == fn }) {
								if idx < 0 || idx >= len(cs.Call.Args) {
									continue
								}
								nSites++
								l, u, b := guardsAt(cs, stripNum(cs.Call.Args[idx]))
								lo2 = lo2 && l
								up2 = up2 && u
								if b2 < 0 || b > b2 {
									b2 = b
								}
							}
						}
						if nSites > 0 {
							lower, upper = lower || lo2, upper || up2
							if b2 > bound {
								bound = b2
							}
						}
					}
					c.Check(lower, key+":non-negative", mk.Pos(), "dominated by the n >= 0 edge", "allocation size derived from an unverified length prefix is not dominated by a sign test (negative size panics)")
					switch {
					case !upper:
						c.Fail(key+":bounded", mk.Pos(), "make([]byte, n) with n taken from the wire is not dominated by an upper-bound test: a 4-byte prefix makes the decoder allocate up to 2 GiB")
					case bound != limit || bound >= 1<<30:
						c.Fail(key+":bounded", mk.Pos(), "upper bound %d is not the package's message-size limit %d (< 2^30)", bound, limit)
					default:
						c.Ok(key+":bounded", mk.Pos(), "dominated by n <= %d (= the package limit)", bound)
					}
				}
			})
		}
		c.EndRule()
	}

	// ---------------------------------------------------------------- R2
	if c.Rule("R2", "truncation is an error: an io.EOF from a payload read never leaves the server stream's RecvMsg (normalised to ErrUnexpectedEOF); a clean EOF at a preface stays io.EOF; client: every exit of the response reader established an error, a non-OK code or a decoded trailer, an unnormalised io.EOF never becomes the terminal error, and after the single-response probe only io.EOF is success", 8) {
		if c07ServerPayloadEOF(c, fns) == 0 {
			c.Missing("httpgrpc server stream RecvMsg")
		}
		// client part: the response reader's exits and the terminal-error normalisation (obligations shared
		// with C02/R1), and the single-response probe, where a terminal transport error surfaces (C08/R1)
		c02HttpEOF(c)
		c02TrailerIffNegative(c)
		if singleResponseProbes(c, "httpgrpc") < 1 {
			c.Missing("HTTP client stream type with a single-response probe")
		}
		c.EndRule()
	}

	// ---------------------------------------------------------------- R3
	if c.Rule("R3", "a buffer is handed to the application (channel send / Unmarshal) only on the nil-error edge of a full read (ReadFull / ReadAtLeast with min == len) of that very buffer", 2) {
		c07BufferProvenance(c, fns)
		c.EndRule()
	}

	// ---------------------------------------------------------------- R4
	if c.Rule("R4", "no panic on any bytes: every index/slice expression in hand-written httpgrpc code is in range on all paths; unchecked type assertions are tabled; the end of a message channel is told by the comma-ok result (an element compared with nil / empty only if no sender can send one)", 1) {
		n := 0
		for _, fn := range fns {
			for _, ob := range core.BoundsOf(fn) {
				n++
				key := core.FuncName(fn) + ":" + ob.Desc
				if ob.Proven {
					if strings.Contains(ob.Why, "array type") {
						c.OkTrivial(key, ob.Instr.Pos(), "%s", ob.Why)
					} else {
						c.Ok(key, ob.Instr.Pos(), "%s", ob.Why)
					}
				} else {
					c.Fail(key, ob.Instr.Pos(), "index expression may be out of range: %s", ob.Why)
				}
			}
			// the end of a message channel is recognised by the comma-ok result, never by the zero value of the
			// element — unless no sender can send one (an empty message is a legitimate, possibly nil, element)
			for _, rc := range nilableReceives(fn) {
				n++
				key := core.FuncName(fn) + ":recv(" + rc.key + "):closure-by-ok"
				if !rc.zeroTested {
					c.Ok(key, rc.pos, "the received element is not compared with nil / empty: closure is told by the ok result")
					continue
				}
				bad := ""
				sends := 0
				for _, g := range fns {
					for _, sv := range sendsOn(g, rc.key) {
						sends++
						if !core.AllOrigins(sv, func(o ssa.Value) bool {
							switch o.(type) {
							case *ssa.MakeSlice, *ssa.Alloc, *ssa.MakeMap, *ssa.MakeChan, *ssa.MakeClosure:
								return !rc.lenTested
							}
							return false
						}) {
							bad = core.FuncName(g)
						}
					}
				}
				c.Check(bad == "" && sends > 0, key, rc.pos, "the element is compared with nil, and every sender sends a freshly made (non-nil) value", "the received element is compared with nil / empty (taken as \"channel closed\"), but "+bad+" can send such an element: an empty message is mistaken for the end of the stream (and the sanity check panics)")
			}
			// unchecked type assertions
			core.Instrs(fn, func(in ssa.Instruction) {
				ta, ok := in.(*ssa.TypeAssert)
				if !ok || ta.CommaOk {
					return
				}
				key := core.FuncName(fn) + ":assert(" + core.TypeStr(ta.AssertedType) + ")"
				recv := core.RecvName(fn)
				// tabled: the JSON codec asserts its argument to proto.Message; the
				// argument is always the generated handler's proto message.
				codecOnly := implementsCodec(p, fn)
				if !codecOnly && fn.Parent() == nil && fn.Object() != nil && !fn.Object().Exported() {
					// an unexported helper called only from codec methods shares their justification
					n, all := 0, true
					for _, g := range p.LibFuncs("httpgrpc") {
						core.Instrs(g, func(x ssa.Instruction) {
							if cc := core.CallOf(x); cc != nil && cc.StaticCallee() == fn {
								n++
								if !implementsCodec(p, g) {
									all = false
								}
							}
						})
					}
					codecOnly = n > 0 && all
				}
				if codecOnly && strings.HasSuffix(core.TypeStr(ta.AssertedType), "proto.Message") {
					c.Ok(key, ta.Pos(), "tabled: codec %s is only handed generated proto messages by the handler glue", recv)
				} else {
					c.Fail(key, ta.Pos(), "type assertion without comma-ok in HTTP code can panic on unexpected input")
				}
			})
		}
		_ = n
		c.EndRule()
	}
	_ = fmt.Sprint

	// ---------------------------------------------------------------- R5, R6 (shared)
	// "the decoder yields exactly the framed messages that were encoded": a frame of any size, zero included, is
	// decoded into the destination (C01/R3: a receive reports success only after filling the destination), and on
	// single-request methods the server looks for a second frame where the messages come from (C08/R3).
	c.Borrow("C01", map[string]string{"R3": "R5"}, c01)
	c.Borrow("C08", map[string]string{"R3": "R6"}, c08)
	// "no panic" on the receive path: the explicit sanity panics of the HTTP client's RecvMsg are discharged, and
	// nothing offered to a sync/atomic.Value can make it panic (C05/R5)
	c.Borrow("C05", map[string]string{"R5": "R7"}, c05)
}

func constInt64(cst *types.Const) (int64, bool) {
	v := cst.Val()
	if v == nil {
		return 0, false
	}
	i, ok := constantInt64(v)
	return i, ok
}

func lenArg(v ssa.Value) (ssa.Value, bool) {
	c, ok := v.(*ssa.Call)
	if !ok {
		return nil, false
	}
	b, ok := c.Call.Value.(*ssa.Builtin)
	if !ok || b.Name() != "len" {
		return nil, false
	}
	return c.Call.Args[0], true
}

// bufferSinks: channel sends of buf and Unmarshal-like calls taking buf.
func bufferSinks(fn *ssa.Function, buf ssa.Value) []ssa.Instruction {
	var out []ssa.Instruction
	core.Instrs(fn, func(in ssa.Instruction) {
		switch x := in.(type) {
		case *ssa.Send:
			if x.X == buf {
				out = append(out, x)
			}
		case *ssa.Select:
			for _, st := range x.States {
				if st.Send == buf {
					out = append(out, x)
				}
			}
		case *ssa.Call:
			ci := core.InfoOf(&x.Call)
			if ci.Name == "Unmarshal" {
				for _, a := range core.Args(&x.Call) {
					if a == buf {
						out = append(out, x)
					}
				}
			}
		}
	})
	return out
}

// implementsCodec: fn is a method of a type implementing grpc encoding.Codec.
func implementsCodec(p *core.Prog, fn *ssa.Function) bool {
	if fn.Signature.Recv() == nil {
		return false
	}
	it := p.ExtType("google.golang.org/grpc/encoding", "Codec")
	if it == nil {
		return false
	}
	iface, ok := it.Underlying().(*types.Interface)
	if !ok {
		return false
	}
	rt := fn.Signature.Recv().Type()
	return types.Implements(rt, iface) || types.Implements(types.NewPointer(rt), iface)
}

// isFullReadHelper: func(io.Reader, n) ([]byte, error) of httpgrpc whose
// returned buffer is a slice made in it and filled by io.ReadFull /
// io.ReadAtLeast(min == len), and whose returned error is that read's error.
func isFullReadHelper(fn *ssa.Function) bool {
	if fn == nil || fn.Blocks == nil || !core.PkgIs(fn, "httpgrpc") || fn.Signature.Results().Len() != 2 ||
		core.TypeStr(fn.Signature.Results().At(0).Type()) != "[]byte" || !core.IsErrorType(fn.Signature.Results().At(1).Type()) {
		return false
	}
	rets := core.Returns(fn)
	if len(rets) == 0 {
		return false
	}
	for _, r := range rets {
		if core.ClassifyErr(r.Results[1], r) == core.ErrNonNil && core.IsNilConst(r.Results[0]) {
			continue // refusal
		}
		var read *ssa.Call
		okBuf := core.AllOrigins(r.Results[0], func(o ssa.Value) bool {
			mk, ok := o.(*ssa.MakeSlice)
			if !ok {
				return false
			}
			for _, rr := range core.Refs(mk) {
				call, ok := rr.(*ssa.Call)
				if !ok {
					continue
				}
				ci := core.InfoOf(&call.Call)
				if ci.Is("io.ReadFull") {
					read = call
				}
				if ci.Is("io.ReadAtLeast") {
					if lx, isLen := lenArg(call.Call.Args[2]); (isLen && lx == ssa.Value(mk)) || stripNum(mk.Len) == stripNum(call.Call.Args[2]) {
						read = call
					}
				}
			}
			return read != nil
		})
		if !okBuf || read == nil {
			return false
		}
		rd := read
		if !core.AllOrigins(r.Results[1], func(o ssa.Value) bool {
			cr, i, ok := core.CallResult(o)
			return ok && cr == rd && i == 1
		}) {
			return false
		}
	}
	return true
}

// c07BufferProvenance: the obligations of C07/R3 (also a necessary condition
// of C01 over HTTP: what the receiver decodes are exactly the bytes of one
// frame / of the whole body).
func c07BufferProvenance(c *core.Ctx, fns []*ssa.Function) {
	p := c.P
	_ = p
	n := 0
	for _, fn := range fns {
		core.Instrs(fn, func(in ssa.Instruction) {
			fr, ok := in.(*ssa.Call)
			if !ok {
				return
			}
			ci := core.InfoOf(&fr.Call)
			if !ci.Is("io.ReadAtLeast") && !ci.Is("io.ReadFull") && !(ci.Iface && ci.Name == "Read") {
				return
			}
			n++
			var buf ssa.Value
			if ci.Iface {
				buf = fr.Call.Args[0]
			} else {
				buf = fr.Call.Args[1]
			}
			key := core.FuncName(fn) + ":" + ci.Name + "(" + core.ValName(buf) + ")"
			if ci.Iface {
				c.Fail(key+":full-read", fr.Pos(), "direct Reader.Read fills a message buffer: a short read would silently corrupt large messages (use io.ReadFull / io.ReadAtLeast(len))")
				return
			}
			if ci.Is("io.ReadAtLeast") {
				min := fr.Call.Args[2]
				okMin := false
				if lx, isLen := lenArg(min); isLen && lx == buf {
					okMin = true
				}
				if mk, isMk := buf.(*ssa.MakeSlice); isMk && stripNum(mk.Len) == stripNum(min) {
					okMin = true
				}
				c.Check(okMin, key+":full-read", fr.Pos(), "ReadAtLeast with min == len(buf)", "ReadAtLeast with a minimum that is not the buffer length: a short read is accepted")
			} else {
				c.Ok(key+":full-read", fr.Pos(), "io.ReadFull")
			}
			// sinks of buf
			for _, use := range bufferSinks(fn, buf) {
				g := core.GuardedBy(use, func(f core.Fact) bool {
					return f.Op == token.EQL && core.IsNilConst(f.Y) && core.OriginIs(f.X, func(o ssa.Value) bool {
						cr, idx, ok := core.CallResult(o)
						return ok && cr == fr && idx == 1
					})
				})
				c.Check(g, key+":deliver-after-ok", use.Pos(), "hand-over dominated by readErr == nil", "buffer is handed to the application without the full read's error having been checked: a truncated frame fabricates a message")
			}
		})
	}
	if n == 0 {
		c.Missing("full-read call sites in httpgrpc")
	}
	// sink-driven: provenance of every buffer handed to a decoder or to the
	// message channel
	for _, fn := range fns {
		core.Instrs(fn, func(in ssa.Instruction) {
			var buf ssa.Value
			what := ""
			switch x := in.(type) {
			case *ssa.Call:
				ci := core.InfoOf(&x.Call)
				if ci.Name != "Unmarshal" {
					return
				}
				for _, a := range core.Args(&x.Call) {
					if core.TypeStr(a.Type()) == "[]byte" {
						buf = a
					}
				}
				what = "Unmarshal"
			case *ssa.Send:
				if core.TypeStr(x.X.Type()) == "[]byte" {
					buf = x.X
					what = "chan-send"
				}
			case *ssa.Select:
				for _, st := range x.States {
					if st.Send != nil && core.TypeStr(st.Send.Type()) == "[]byte" {
						buf = st.Send
						what = "chan-send"
					}
				}
			}
			if buf == nil {
				return
			}
			key := core.FuncName(fn) + ":" + what + "(" + core.ValName(buf) + "):provenance"
			bad := ""
			for _, o := range core.Origins(buf) {
				switch y := o.(type) {
				case *ssa.MakeSlice:
					// must be filled by a full read whose nil error dominates (checked above); here: such a read exists
					found := false
					for _, r := range core.Refs(y) {
						if call, ok := r.(*ssa.Call); ok {
							ci := core.InfoOf(&call.Call)
							if ci.Is("io.ReadFull") || ci.Is("io.ReadAtLeast") {
								found = true
							}
						}
					}
					if !found {
						bad = "a made buffer that is not filled by io.ReadFull/io.ReadAtLeast"
					}
					continue
				case *ssa.Parameter:
					continue
				case *ssa.UnOp:
					if y.Op == token.ARROW {
						continue
					}
				case *ssa.Const:
					continue
				}
				call, idx, ok := core.CallResult(o)
				if !ok {
					if ex, isEx := o.(*ssa.Extract); isEx {
						if _, isSel := ex.Tuple.(*ssa.Select); isSel {
							continue // received from the message channel
						}
					}
					bad = "a value of unrecognised provenance (" + core.ValName(o) + ")"
					continue
				}
				ci := core.InfoOf(&call.Call)
				switch {
				case idx == 0 && (ci.Is("io.ReadAll") || ci.Is("io/ioutil.ReadAll")):
					arg := core.Strip(call.Call.Args[0])
					if ci2, isCI := call.Call.Args[0].(*ssa.ChangeInterface); isCI {
						arg = ci2.X
					}
					// the read may run in a single-use step function that is handed the body
					if r := core.ResolveFree(arg); r != arg {
						arg = core.Strip(r)
						if ci2, isCI := r.(*ssa.ChangeInterface); isCI {
							arg = ci2.X
						}
					}
					_, f, isF := core.FieldOf(arg)
					if !isF || f != "Body" {
						bad = "ReadAll of something other than the HTTP body itself (a wrapped/limited reader ends early without error: a truncated frame would be decoded as a message)"
					}
					// ... and its error has been found nil where the bytes are handed over (the error may travel through
					// a captured variable when the read runs on another goroutine; an error kept in a variable of its
					// own never reaches that test)
					rcall := call
					errNil := func(f core.Fact) bool {
						return f.Op == token.EQL && core.IsNilConst(f.Y) && core.OriginIs(f.X, func(o2 ssa.Value) bool {
							cr, i2, ok := core.CallResult(o2)
							return ok && cr == rcall && i2 == 1
						})
					}
					guarded := core.GuardedBy(in, errNil)
					// a decode callback built after the test: the literal's creation site is what the test dominates
					for f := in.Parent(); !guarded && f != nil && f.Parent() != nil; f = f.Parent() {
						core.Instrs(f.Parent(), func(pi ssa.Instruction) {
							if mc, isMC := pi.(*ssa.MakeClosure); isMC && mc.Fn == f && core.GuardedBy(mc, errNil) {
								guarded = true
							}
						})
					}
					if !guarded {
						bad = "a ReadAll whose error has not been found nil on the way here (the read error is lost or shadowed): a body cut short would be decoded as the message"
					}
				case idx == 0 && ci.Name == "Marshal":
				case idx == 0 && ci.Name == "DecodeString":
				case idx == 0 && isFullReadHelper(ci.Static):
					// a helper of the package that makes the buffer, fills it with a full read and returns that
					// read's error: the hand-over must sit on the nil edge of the error of this very call
					hcall := call
					if !core.GuardedBy(in, func(f core.Fact) bool {
						return f.Op == token.EQL && core.IsNilConst(f.Y) && core.OriginIs(f.X, func(o2 ssa.Value) bool {
							cr, i2, ok := core.CallResult(o2)
							return ok && cr == hcall && i2 == 1
						})
					}) {
						bad = "a full-read helper whose error has not been found nil: a truncated frame would be handed over as a message"
					}
				default:
					bad = "the result of " + ci.Full()
				}
			}
			if bad != "" {
				c.Fail(key, in.Pos(), "buffer handed to %s comes from %s", what, bad)
			} else {
				c.Ok(key, in.Pos(), "buffer comes from a full read / the whole HTTP body / the message channel / a codec")
			}
		})
	}
}

type nilableRecv struct {
	key        string // <type>.<field> of the channel
	pos        token.Pos
	zeroTested bool // the element is compared with nil, or its length with 0
	lenTested  bool
}

func chanKeyOf(v ssa.Value) string {
	base, f, ok := core.FieldOf(core.Strip(v))
	if !ok {
		return ""
	}
	return core.NamedOf(base.Type()) + "." + f
}

func nilableElem(t types.Type) bool {
	ch, ok := t.Underlying().(*types.Chan)
	if !ok {
		return false
	}
	switch ch.Elem().Underlying().(type) {
	case *types.Slice, *types.Pointer, *types.Map, *types.Interface, *types.Signature, *types.Chan:
		return true
	}
	return false
}

// nilableReceives: receives in fn from a struct-field channel whose element
// type has a nil value, and whether the received element is tested against
// nil / empty.
func nilableReceives(fn *ssa.Function) []nilableRecv {
	var out []nilableRecv
	tested := func(v ssa.Value) (zero, byLen bool) {
		var walk func(v ssa.Value, depth int)
		walk = func(v ssa.Value, depth int) {
			if v == nil || depth > 3 {
				return
			}
			for _, r := range core.Refs(v) {
				switch x := r.(type) {
				case *ssa.BinOp:
					if (x.Op == token.EQL || x.Op == token.NEQ) && (core.IsNilConst(x.X) || core.IsNilConst(x.Y)) {
						zero = true
					}
				case *ssa.Call:
					if b, ok := x.Call.Value.(*ssa.Builtin); ok && b.Name() == "len" {
						for _, lr := range core.Refs(x) {
							if bo, ok := lr.(*ssa.BinOp); ok {
								if k, isC := core.ConstInt(bo.Y); isC && k == 0 && (bo.Op == token.EQL || bo.Op == token.NEQ || bo.Op == token.GTR) {
									zero, byLen = true, true
								}
							}
						}
					}
				case *ssa.Phi:
					walk(x, depth+1)
				case *ssa.Store:
					// a local cell: follow its loads
					if al, ok := x.Addr.(*ssa.Alloc); ok && x.Val == v {
						for _, lr := range core.Refs(al) {
							if ld, ok := lr.(*ssa.UnOp); ok && ld.Op == token.MUL {
								walk(ld, depth+1)
							}
						}
					}
				}
			}
		}
		walk(v, 0)
		return
	}
	core.Instrs(fn, func(in ssa.Instruction) {
		switch x := in.(type) {
		case *ssa.UnOp:
			if x.Op != token.ARROW || !nilableElem(x.X.Type()) {
				return
			}
			k := chanKeyOf(x.X)
			if k == "" {
				return
			}
			var v ssa.Value = x
			if x.CommaOk {
				v = nil
				for _, r := range core.Refs(x) {
					if ex, ok := r.(*ssa.Extract); ok && ex.Index == 0 {
						v = ex
					}
				}
			}
			z, l := tested(v)
			out = append(out, nilableRecv{k, x.Pos(), z, l})
		case *ssa.Select:
			ri := 0
			for _, st := range x.States {
				if st.Dir != types.RecvOnly {
					continue
				}
				idx := 2 + ri
				ri++
				k := chanKeyOf(st.Chan)
				if k == "" || !nilableElem(st.Chan.Type()) {
					continue
				}
				var v ssa.Value
				for _, r := range core.Refs(x) {
					if ex, ok := r.(*ssa.Extract); ok && ex.Index == idx {
						v = ex
					}
				}
				z, l := tested(v)
				pos := st.Pos
				if !pos.IsValid() {
					pos = x.Pos()
				}
				out = append(out, nilableRecv{k, pos, z, l})
			}
		}
	})
	return out
}

// sendsOn: the values sent in fn on the channel field key.
func sendsOn(fn *ssa.Function, key string) []ssa.Value {
	var out []ssa.Value
	core.Instrs(fn, func(in ssa.Instruction) {
		switch x := in.(type) {
		case *ssa.Send:
			if chanKeyOf(x.Chan) == key {
				out = append(out, x.X)
			}
		case *ssa.Select:
			for _, st := range x.States {
				if st.Dir == types.SendOnly && chanKeyOf(st.Chan) == key {
					out = append(out, st.Send)
				}
			}
		}
	})
	return out
}

// c07ServerPayloadEOF: an io.EOF produced by reading a message payload never
// leaves the HTTP server stream's RecvMsg as it is (C07/R2; shared with C11/R5:
// a truncated streaming request is an undecodable request, not a clean end).
func c07ServerPayloadEOF(c *core.Ctx, fns []*ssa.Function) int {
	p := c.P
	t := core.NewTaint(eofSpec(false, false), fns)
	n := 0
	for _, nt := range streamTypes(p, "ServerStream", "RecvMsg") {
		if pkgSuffixOf(nt) != "httpgrpc" {
			continue
		}
		fn := declaredMethod(p, nt, "RecvMsg")
		for _, r := range core.ErrReturns(fn) {
			n++
			ev := r.Results[len(r.Results)-1]
			key := typeKey(nt) + ".RecvMsg:return"
			if t.At(ev, r) {
				c.Fail(key+":payload-eof", r.Pos(), "an io.EOF produced by reading a message payload can be returned as is: a request truncated inside a message would look like a clean half-close")
			} else {
				c.Ok(key+":payload-eof", r.Pos(), "no unnormalised payload-read io.EOF reaches this return")
			}
		}
		c.Paths += len(core.Returns(fn))
	}
	return n
}
