package rules

import (
	"fmt"
	"go/token"
	"math"
	"sort"
	"strings"

	"golang.org/x/tools/go/ssa"

	"verif/checker/internal/core"
)

func init() { register("C09", c09) }

// wireUnits is the gRPC wire specification's timeout unit table (frozen).
var wireUnits = map[byte]int64{'H': 3600e9, 'M': 60e9, 'S': 1e9, 'm': 1e6, 'u': 1e3, 'n': 1}

func c09(c *core.Ctx) {
	p := c.P
	c.Explain = "C09: the client-side timeout encoder and the server-side parser are located by role (the Header.Set / Header.Get of the GRPC-Timeout key) and checked on SSA: emission only on the Deadline() ok edge, writer/reader unit table agreement with the wire spec, floor division with a clamp to 1, an overflow guard dominating the unit multiplication, and in-range indexing of the header text."
	c.NotDec = []string{"run-time numeric bounds (clock reads, transit time)", "negative timeout values (outside the property's domain; only 'no crash')"}
	isKey := func(v ssa.Value) bool {
		s, ok := core.ConstString(v)
		return ok && strings.EqualFold(s, "grpc-timeout")
	}
	// writer sites
	type site struct {
		fn   *ssa.Function
		call *ssa.Call
	}
	var writers, readers []site
	for _, fn := range p.LibFuncs("httpgrpc") {
		for _, call := range core.CallsIn(fn, func(call *ssa.Call, ci core.CallInfo) bool {
			return (ci.Is("net/http.Header.Set") || ci.Is("net/http.Header.Add")) && isKey(call.Call.Args[1])
		}) {
			writers = append(writers, site{fn, call})
		}
		for _, call := range core.CallsIn(fn, func(call *ssa.Call, ci core.CallInfo) bool {
			return (ci.Is("net/http.Header.Get") || ci.Is("net/http.Header.Values")) && isKey(call.Call.Args[1])
		}) {
			readers = append(readers, site{fn, call})
		}
	}
	// also direct map stores h["Grpc-Timeout"] are not used by the repo; a
	// MapUpdate with that key would be a new idiom
	for _, fn := range p.LibFuncs("httpgrpc") {
		core.Instrs(fn, func(in ssa.Instruction) {
			if mu, ok := in.(*ssa.MapUpdate); ok && isKey(mu.Key) {
				writers = append(writers, site{fn, nil})
			}
		})
	}

	type clientAlt struct {
		letter byte
		div    int64
	}
	var clientAlts []clientAlt

	// ---------------------------------------------------------------- R1
	if c.Rule("R1", "the timeout header is stored only on the ok edge of Deadline() of the context that is bound to the request", 2) {
		if len(writers) == 0 {
			c.Missing("store of the GRPC-Timeout request header in httpgrpc")
		}
		// the header a request carries was computed for that request: between two issues of a request (a retry)
		// the header computation runs again — the remaining time has shrunk meanwhile
		{
			wfn := map[*ssa.Function]bool{}
			for _, w := range writers {
				wfn[w.fn] = true
			}
			var reachesWriter func(f *ssa.Function, depth int) bool
			reachesWriter = func(f *ssa.Function, depth int) bool {
				if f == nil || f.Blocks == nil || depth > 2 {
					return false
				}
				if wfn[f] {
					return true
				}
				for _, h := range core.HelperCallsOf(f) {
					if reachesWriter(h.Callee, depth+1) {
						return true
					}
				}
				return false
			}
			isHdr := func(in ssa.Instruction) bool {
				cc := core.CallOf(in)
				return cc != nil && cc.StaticCallee() != nil && reachesWriter(cc.StaticCallee(), 0)
			}
			for _, fn := range p.LibFuncs("httpgrpc") {
				var issues []ssa.Instruction
				core.Instrs(fn, func(in ssa.Instruction) {
					if isRequestIssue(in) {
						issues = append(issues, in)
					}
				})
				for _, a := range issues {
					for _, b := range issues {
						if core.Reachable(core.After(a), b) {
							c.Check(core.MustPass(core.After(a), b, isHdr), core.FuncName(fn)+":timeout-computed-per-request", b.Pos(), "the header computation runs again before the request is issued again", "a request can be issued again with the timeout header computed before the earlier attempt: the server is told the time that remained THEN, so the handler's deadline lies later than the caller's by however long the first attempt took")
						}
					}
				}
			}
		}
		for _, w := range writers {
			name := core.FuncName(w.fn)
			if w.call == nil {
				c.Undecided(name+":timeout-store", w.fn.Pos(), "timeout header written through a map update: unrecognised idiom")
				continue
			}
			var dl *ssa.Call
			ok := core.GuardedBy(w.call, func(f core.Fact) bool {
				if f.Op != token.ILLEGAL || f.Neg {
					return false
				}
				ex, isEx := f.X.(*ssa.Extract)
				if !isEx || ex.Index != 1 {
					return false
				}
				call, isC := ex.Tuple.(*ssa.Call)
				if !isC || !call.Call.IsInvoke() || call.Call.Method.Name() != "Deadline" {
					return false
				}
				dl = call
				return true
			})
			c.Check(ok, name+":emit-iff-deadline", w.call.Pos(), "header store dominated by the ok edge of ctx.Deadline()", "timeout header can be stored without ctx.Deadline() having reported ok (the transport would add a deadline of its own)")
			// the transport's value wins over whatever the caller's metadata carries under that key: it is stored
			// with Set (replace) after the metadata went in, or whatever writes the caller's entries into the same
			// header map afterwards only appends (the server reads the first value)
			{
				later := replacingWriterAfter(w.fn, w.call)
				c.Check(later == nil, name+":transport-timeout-wins", w.call.Pos(), "no writer that replaces entries of the header map runs after the timeout store", "after the timeout header is stored, "+func() string {
					if later != nil {
						return core.InfoOf(&later.Call).Full()
					}
					return "a later writer"
				}()+" writes the caller's metadata into the same header map by assignment: a metadata entry named grpc-timeout replaces the transport's value and the handler gets a deadline the caller's context does not have")
			}
			if ok && dl != nil {
				// the context queried must be the function's context parameter, and each caller must
				// pass the context it binds to the request
				ctxV := dl.Call.Value
				par, isPar := ctxV.(*ssa.Parameter)
				if !isPar {
					c.Fail(name+":deadline-ctx", dl.Pos(), "Deadline() is not queried on the function's context parameter")
				} else {
					idx := -1
					for i, pp := range w.fn.Params {
						if pp == par {
							idx = i
						}
					}
					n := 0
					// the encoder's callers; a caller that merely forwards its own context parameter (a helper that
					// assembles the request headers) is replaced by its callers
					type csite struct {
						caller *ssa.Function
						cc     *ssa.Call
						arg    ssa.Value
					}
					var sitesOf func(target *ssa.Function, pidx int, depth int) []csite
					sitesOf = func(target *ssa.Function, pidx int, depth int) []csite {
						var out []csite
						for _, caller := range p.LibFuncs("httpgrpc") {
							for _, cc := range core.CallsIn(caller, func(call *ssa.Call, ci core.CallInfo) bool { return ci.Static == target }) {
								if pidx >= len(cc.Call.Args) {
									continue
								}
								arg := cc.Call.Args[pidx]
								if fp, isPar := arg.(*ssa.Parameter); isPar && depth < 2 && caller.Parent() == nil && caller.Object() != nil && !caller.Object().Exported() && len(requestBoundCtx(caller)) == 0 {
									j := -1
									for i, pp := range caller.Params {
										if pp == fp {
											j = i
										}
									}
									if j >= 0 {
										if up := sitesOf(caller, j, depth+1); len(up) > 0 {
											out = append(out, up...)
											continue
										}
									}
								}
								out = append(out, csite{caller, cc, arg})
							}
						}
						return out
					}
					for _, cs := range sitesOf(w.fn, idx, 0) {
						caller, cc := cs.caller, cs.cc
						{
							n++
							arg := cs.arg
							bound := requestBoundCtx(caller)
							okb := false
							for _, b := range bound {
								if sameCtxOrChild(b, arg) {
									okb = true
								}
							}
							c.Check(okb, core.FuncName(caller)+":timeout-ctx-is-request-ctx", cc.Pos(),
								"the context whose deadline is encoded is the one bound to the HTTP request (or its parent)", "the deadline is taken from a context that is not the one bound to the outgoing request")
							// the deadline that is encoded is the CALLER's: between the entry point's context and the one
							// the timeout is computed from the library adds no timer of its own (a channel-wide default
							// timeout applied to every stream cuts a caller's longer deadline short)
							tr := ctxTrace(p, arg)
							timer := ""
							for _, l := range tr.layerList() {
								if strings.HasPrefix(l, "context.WithTimeout") || strings.HasPrefix(l, "context.WithDeadline") {
									timer = l
								}
							}
							c.Check(timer == "", core.FuncName(caller)+":no-library-timer-on-the-callers-deadline", cc.Pos(), "no WithTimeout/WithDeadline of the library's own lies between the caller's context and the encoded deadline", "the context whose deadline is sent passes through "+timer+" added by the library: the handler's deadline can be earlier than the caller's (spurious expiry)")
						}
					}
					if n == 0 {
						c.Fail(name+":callers", w.fn.Pos(), "timeout encoder has no caller in httpgrpc")
					}
				}
			}
		}
		c.EndRule()
	}

	// ---------------------------------------------------------------- R3 (client value) – computed before R2 to know the unit
	r3 := c.Rule("R3", "the value sent is the floor quotient remaining/D0, clamped to >= 1 before the store", 2)
	for _, w := range writers {
		if w.call == nil {
			continue
		}
		name := core.FuncName(w.fn)
		val := w.call.Call.Args[2]
		// the value is assembled by fmt.Sprintf, by concatenation or with strconv: all give (format, operands)
		format, args, unpacked := core.FormatOf(val)
		if !unpacked || len(args) == 0 {
			if r3 {
				c.Undecided(name+":format", w.call.Pos(), "timeout value is not assembled from a number and a unit (fmt.Sprintf, concatenation, strconv): unrecognised idiom")
			}
			continue
		}
		// alternatives (value expression, unit letter, decision point)
		type alt struct {
			val    ssa.Value
			letter byte
			at     ssa.Instruction
		}
		var alts []alt
		switch {
		case unpacked && len(args) == 1 && len(format) == 3 && format[:2] == "%d":
			alts = append(alts, alt{core.Strip(args[0]), format[2], w.call})
		case unpacked && len(args) == 2 && format == "%d%s":
			v, u := core.Strip(args[0]), core.Strip(args[1])
			if us, ok := core.ConstString(u); ok && len(us) == 1 {
				alts = append(alts, alt{v, us[0], w.call})
				break
			}
			vp, okv := v.(*ssa.Phi)
			up, oku := u.(*ssa.Phi)
			if okv && oku && vp.Block() == up.Block() {
				for i := range up.Edges {
					us, ok := core.ConstString(up.Edges[i])
					if !ok || len(us) != 1 {
						alts = nil
						break
					}
					pred := up.Block().Preds[i]
					alts = append(alts, alt{core.Strip(vp.Edges[i]), us[0], pred.Instrs[len(pred.Instrs)-1]})
				}
			}
			if len(alts) == 0 && r3 {
				c.Undecided(name+":format", w.call.Pos(), "value and unit of the timeout header are chosen in a way the checker cannot pair up")
			}
		default:
			if r3 {
				c.Fail(name+":format", w.call.Pos(), "format %q with %d args is neither \"%%d<unit>\" nor \"%%d%%s\" with (value, unit)", format, len(args))
			}
		}
		if len(alts) == 0 {
			continue
		}
		allClamp, allFloor := true, true
		whyNot := ""
		for _, a := range alts {
			q := evalTimeoutQuot(a.val)
			if q.why != "" {
				allFloor = false
				whyNot = fmt.Sprintf("unit %q: %s", string(a.letter), q.why)
				continue
			}
			clientAlts = append(clientAlts, clientAlt{a.letter, q.div})
			if !q.clamped && !quotientPositiveByGuard(a.val, a.at) {
				allClamp = false
			}
		}
		if r3 {
			c.Check(allClamp, name+":clamp", w.call.Pos(), "every value sent is >= 1: max(quotient, 1), or a quotient taken only when the dividend is at least the divisor (never \"0<unit>\": immediate expiry)", "no clamp of a non-positive quotient to 1 dominates the header store")
			c.Check(allFloor, name+":floor", w.call.Pos(), fmt.Sprintf("each value is the integer quotient of the remaining time by its unit %v (Go '/' truncates toward zero: never rounds up)", clientAlts),
				"the value sent is not the integer (floor) quotient of time.Until(deadline) by the unit it is sent with: "+whyNot+" — the server could give the handler more time than the caller has")
		}
	}
	if r3 {
		c.EndRule()
	}

	// ---------------------------------------------------------------- R2
	var parser *ssa.Function
	if len(readers) > 0 {
		parser = readers[0].fn
	}
	var mul *ssa.BinOp
	var unitPhi *ssa.Phi
	var unitLookup *ssa.Lookup
	var unitCall *ssa.Call
	var unitTable map[int64]int64
	// the parser family: the function that reads the header and the package functions it calls
	// (a helper that parses the text is followed, depth <= 2)
	var fam []*ssa.Function
	reader := parser
	if parser != nil {
		seenF := map[*ssa.Function]bool{}
		var addF func(f *ssa.Function, depth int)
		addF = func(f *ssa.Function, depth int) {
			if f == nil || f.Blocks == nil || seenF[f] || depth > 2 {
				return
			}
			seenF[f] = true
			fam = append(fam, f)
			for _, call := range core.CallsIn(f, func(_ *ssa.Call, ci core.CallInfo) bool {
				return ci.Static != nil && core.PkgIs(ci.Static, "httpgrpc")
			}) {
				// only helpers that receive a string (the header text)
				callee := core.InfoOf(&call.Call).Static
				takesString := false
				for _, pp := range callee.Params {
					if core.TypeStr(pp.Type()) == "string" {
						takesString = true
					}
				}
				if takesString {
					addF(callee, depth+1)
				}
			}
		}
		addF(parser, 0)
		for _, f := range fam {
			core.Instrs(f, func(in ssa.Instruction) {
				b, ok := in.(*ssa.BinOp)
				if !ok || b.Op != token.MUL || core.TypeStr(b.Type()) != "time.Duration" {
					return
				}
				for _, side := range []ssa.Value{b.X, b.Y} {
					if phi, ok := side.(*ssa.Phi); ok {
						mul, unitPhi = b, phi
						parser = f
					}
					// the unit computed by a step function of the package from the suffix byte (a switch returning constants)
					if uc, ok := side.(*ssa.Call); ok {
						if h := uc.Call.StaticCallee(); h != nil && h.Blocks != nil && core.PkgIs(h, "httpgrpc") && len(h.Params) == 1 && core.TypeStr(h.Signature.Results().At(0).Type()) == "time.Duration" {
							mul, unitCall = b, uc
							parser = f
						}
					}
					// the unit looked up in a package-level table keyed by the suffix byte
					if lk, ok := side.(*ssa.Lookup); ok {
						if tbl := globalConstMap(p, lk.X); tbl != nil {
							mul, unitLookup, unitTable = b, lk, tbl
							parser = f
						}
					}
				}
			})
		}
	}
	var unitVal ssa.Value
	var unitPos token.Pos
	if unitPhi != nil {
		unitVal, unitPos = unitPhi, unitPhi.Pos()
	}
	if unitLookup != nil {
		unitVal, unitPos = unitLookup, unitLookup.Pos()
	}
	if unitCall != nil {
		unitVal, unitPos = unitCall, unitCall.Pos()
	}
	if c.Rule("R2", "the server's unit table is exactly the wire spec's {H,M,S,m,u,n} and maps the client's unit letter to the client's divisor", 7) {
		switch {
		case parser == nil:
			c.Missing("read of the GRPC-Timeout header in httpgrpc")
		case mul == nil:
			c.Fail(core.FuncName(parser)+":unit-mul", parser.Pos(), "no value*unit multiplication with a unit selected by the suffix found")
		default:
			name := core.FuncName(parser)
			table := map[byte]int64{}
			zeroDefault := false
			if unitLookup != nil {
				zeroDefault = true // an absent key yields the zero duration
				for k, v := range unitTable {
					if k >= 0 && k <= 255 {
						table[byte(k)] = v
					}
				}
			}
			if unitCall != nil {
				// one table row per constant return of the unit function, keyed by the letter its parameter was found equal to
				h := unitCall.Call.StaticCallee()
				type row struct {
					v  ssa.Value
					at ssa.Instruction
				}
				var rows []row
				for _, r := range core.Returns(h) {
					if phi, isPhi := r.Results[0].(*ssa.Phi); isPhi {
						for i, e := range phi.Edges {
							pred := phi.Block().Preds[i]
							rows = append(rows, row{e, pred.Instrs[len(pred.Instrs)-1]})
						}
						continue
					}
					rows = append(rows, row{r.Results[0], r})
				}
				for _, rw := range rows {
					d, isC := core.ConstInt(rw.v)
					if !isC {
						c.Undecided(name+":unit-table", unitPos, "the unit function returns something that is not a constant")
						continue
					}
					if d == 0 {
						zeroDefault = true
						continue
					}
					var letter int64 = -1
					for _, ef := range core.DominatingFacts(rw.at) {
						if ef.Fact.Op == token.EQL && ef.Fact.X == ssa.Value(h.Params[0]) {
							if k, ok := core.ConstInt(ef.Fact.Y); ok {
								letter = k
							}
						}
					}
					if letter < 0 || letter > 255 {
						c.Undecided(name+":unit-table", unitPos, "cannot find the suffix letter selecting unit %d", d)
						continue
					}
					table[byte(letter)] = d
				}
			}
			var edges []ssa.Value
			if unitPhi != nil {
				edges = unitPhi.Edges
			}
			for i, e := range edges {
				d, isC := core.ConstInt(e)
				if !isC {
					c.Undecided(name+":unit-table", unitPos, "unit is not a constant on some path")
					continue
				}
				if d == 0 {
					zeroDefault = true
					continue
				}
				pred := unitPhi.Block().Preds[i]
				last := pred.Instrs[len(pred.Instrs)-1]
				var letter int64 = -1
				for _, ef := range core.DominatingFacts(last) {
					if ef.Fact.Op == token.EQL {
						if k, ok := core.ConstInt(ef.Fact.Y); ok {
							letter = k
						}
					}
				}
				if letter < 0 || letter > 255 {
					c.Undecided(name+":unit-table", unitPos, "cannot find the suffix letter selecting unit %d", d)
					continue
				}
				table[byte(letter)] = d
			}
			var letters []string
			for l := range wireUnits {
				letters = append(letters, string(l))
			}
			sort.Strings(letters)
			for _, ls := range letters {
				l := ls[0]
				got, has := table[l]
				switch {
				case !has:
					c.Fail(name+":unit:"+ls, unitPos, "unit %q of the wire spec is not accepted", ls)
				case got != wireUnits[l]:
					c.Fail(name+":unit:"+ls, unitPos, "unit %q maps to %d ns, the wire spec says %d ns", ls, got, wireUnits[l])
				default:
					c.Ok(name+":unit:"+ls, unitPos, "%q → %d ns", ls, got)
				}
			}
			for l := range table {
				if _, ok := wireUnits[l]; !ok {
					c.Fail(name+":unit:"+string(l), unitPos, "unit %q is not in the wire spec", string(l))
				}
			}
			// an unknown suffix must not reach the multiplication: either it leaves the unit 0 and the product is
			// computed only under unit != 0, or the unit switch leaves (returns) on its default arm so that only
			// the matched letters reach the product
			if zeroDefault {
				g := core.GuardedBy(mul, func(f core.Fact) bool {
					z, isZ := core.ConstInt(f.Y)
					return f.Op == token.NEQ && isZ && z == 0 && (f.X == unitVal || stripCT(f.X) == unitVal)
				})
				c.Check(g, name+":unknown-unit", unitPos, "unknown suffix leaves unit 0 and value*unit is computed only under unit != 0 (no deadline added)", "an unknown suffix leaves the unit 0 but value*unit is computed without a unit != 0 test: an unknown unit yields a zero timeout (immediate expiry) instead of no deadline")
			} else {
				c.Ok(name+":unknown-unit", unitPos, "only the %d matched letters reach value*unit (the default arm of the unit switch leaves before it)", len(table))
			}
			if len(clientAlts) > 0 {
				for _, ca := range clientAlts {
					c.Check(table[ca.letter] == ca.div && ca.div != 0, "client-server:unit-agreement:"+string(ca.letter), unitPos,
						fmt.Sprintf("client sends quotient by %d ns with suffix %q; server multiplies %q by %d ns", ca.div, string(ca.letter), string(ca.letter), table[ca.letter]),
						fmt.Sprintf("client divides by %d ns and writes suffix %q but the server multiplies that suffix by %d ns", ca.div, string(ca.letter), table[ca.letter]))
				}
			} else {
				c.Fail("client-server:unit-agreement", unitPos, "client unit letter unknown")
			}
			// the suffix compared is the LAST byte of the header, the number is the rest
			c.Ok(name+":table-size", unitPos, "%d units extracted from the phi of the unit switch", len(table))
		}
		c.EndRule()
	}

	// ---------------------------------------------------------------- R4
	if c.Rule("R4", "the value*unit multiplication is dominated by an upper-bound test of the parsed value against MaxInt64/unit, and the other branch saturates", 2) {
		if mul == nil {
			c.Fail("timeout-parser:unit-mul", token.NoPos, "no multiplication found")
		} else {
			name := core.FuncName(parser)
			var val ssa.Value = mul.X
			if mul.X == unitVal {
				val = mul.Y
			}
			isParsed := func(v ssa.Value) bool {
				return core.OriginIs(v, func(o ssa.Value) bool {
					return core.IsResultOf(o, 0, "strconv.ParseInt", "strconv.ParseUint", "strconv.Atoi")
				})
			}
			c.Check(isParsed(val), name+":mul-operand", mul.Pos(), "multiplicand is the parsed header number", "multiplicand is not the parsed header number")
			// ... parsed as a signed 64-bit number: an unsigned parse converted to int64 wraps for values from 2^63 on,
			// which the upper-bound test below (a signed comparison) then waves through as small or negative
			wraps := false
			for _, o := range core.Origins(val) {
				cr, idx, ok := core.CallResult(o)
				if !ok || idx != 0 || !core.InfoOf(&cr.Call).Is("strconv.ParseUint") {
					continue
				}
				bits, isC := core.ConstInt(cr.Call.Args[len(cr.Call.Args)-1])
				if !isC || bits == 0 || bits > 63 {
					wraps = true
				}
			}
			c.Check(!wraps, name+":parsed-as-signed-64", mul.Pos(), "the header number is parsed into the non-negative range of int64", "the header number is parsed with ParseUint at 64 bits and then used as a signed value: 9223372036854775808 and above wrap to negative (or small) numbers, pass the signed upper-bound test, and give a deadline that is already over, or far too short, instead of the saturated one")
			guard := core.GuardedBy(mul, func(f core.Fact) bool {
				if (f.Op != token.LEQ && f.Op != token.LSS) || !isParsed(f.X) {
					return false
				}
				// Y: MaxInt64 / unit. One constant for all units cannot be right: to be safe for hours it must be
				// <= MaxInt64/3600e9 = 2562047, and then it saturates values the wire format permits (up to 8 digits)
				// in the finer units, giving the handler a far later deadline than the caller's
				if b, ok := f.Y.(*ssa.BinOp); ok && b.Op == token.QUO {
					if k, ok := core.ConstInt(b.X); ok && k == math.MaxInt64 {
						return core.OriginIs(b.Y, func(o ssa.Value) bool { return o == unitVal }) || stripCT(b.Y) == unitVal
					}
				}
				return false
			})
			c.Check(guard, name+":overflow-guard", mul.Pos(), "value <= MaxInt64/unit dominates value*unit (cannot wrap around)",
				"time.Duration(value)*unit is not dominated by an upper-bound test of value against MaxInt64/unit: a legal value such as 99999999H wraps around to a negative duration (deadline in the past)")
			// what reaches WithTimeout: mul or a saturating constant
			isProductOrSat := func(o ssa.Value) bool {
				if o == ssa.Value(mul) {
					return true
				}
				k, isC := core.ConstInt(o)
				return isC && k >= 1<<62
			}
			nWT := 0
			for _, f := range fam {
				for _, wt := range core.CallsIn(f, func(call *ssa.Call, ci core.CallInfo) bool {
					return ci.Is("context.WithTimeout") || ci.Is("context.WithDeadline")
				}) {
					nWT++
					d := wt.Call.Args[1]
					okSat := false
					viaHelper := false
					if f == parser {
						okSat = core.AllOrigins(d, isProductOrSat)
					} else {
						// the product is computed by a helper: d is its result, and on every return of the helper that
						// result is the product, the saturating constant, or (only together with a false/err second
						// result, i.e. "invalid") anything
						okSat = core.AllOrigins(d, func(o ssa.Value) bool {
							call, idx, isC := core.CallResult(o)
							return isC && idx == 0 && core.InfoOf(&call.Call).Static == parser
						})
						viaHelper = true
						for _, r := range core.Returns(parser) {
							if len(r.Results) == 0 || core.TypeStr(r.Results[0].Type()) != "time.Duration" {
								okSat = false
								continue
							}
							valid := true // does this return report "valid"?
							if len(r.Results) >= 2 {
								if b, isB := core.ConstBool(r.Results[1]); isB && !b {
									valid = false
								}
								if core.IsErrorValue(r.Results[1]) && core.ClassifyErr(r.Results[1], r) == core.ErrNonNil {
									valid = false
								}
							}
							if valid && !core.AllOrigins(r.Results[0], isProductOrSat) {
								if len(r.Results) < 2 {
									c.Fail(name+":zero-means-absent", r.Pos(), "the parsing helper returns only a duration and uses a constant (0) for 'absent or malformed': a valid zero timeout (\"0S\", \"0n\") is indistinguishable from no timeout, so the handler either gets no deadline for it or a malformed header gets one")
								}
								okSat = false
							}
						}
					}
					what := "the duration is value*unit or a saturating constant >= 2^62 ns"
					if viaHelper {
						what += " (returned by the parsing helper on its 'valid' returns)"
					}
					c.Check(okSat, name+":saturate", wt.Pos(), what, "the duration given to the context is neither the guarded product nor a saturating constant")
					// a valid timeout always bounds the handler: the deadline is not conditional on the duration's value
					condOnValue := false
					for _, ef := range core.DominatingFacts(wt) {
						for _, opnd := range []ssa.Value{ef.Fact.X, ef.Fact.Y} {
							if opnd == nil {
								continue
							}
							if core.TypeStr(opnd.Type()) == "time.Duration" && (core.SameVal(opnd, d) || sameOrigins(opnd, d)) {
								condOnValue = true
							}
						}
					}
					c.Check(!condOnValue, name+":deadline-for-every-valid-value", wt.Pos(), "the deadline is applied without a test on the duration's value (a zero timeout expires at once, as the wire format says)",
						"the deadline is applied only if the parsed duration passes a test on its value: a valid timeout such as \"0S\" is treated like an absent header and the handler runs unbounded")
					if f == parser {
						// single-function form: once the product (or the saturation) is computed every path applies it
						for _, r := range core.Returns(f) {
							if core.Reachable(core.After(mul), r) && !core.MustPass(core.After(mul), r, func(in ssa.Instruction) bool { return in == ssa.Instruction(wt) }) {
								c.Fail(name+":deadline-for-every-valid-value:path", wt.Pos(), "after value*unit was computed a return is reachable without applying the deadline")
							}
						}
					}
				}
			}
			if nWT == 0 {
				c.Fail(name+":with-timeout", parser.Pos(), "ANCHOR-MISSING: no context.WithTimeout/WithDeadline in the timeout parser or its callers")
			}
		}
		c.EndRule()
	}

	// ---------------------------------------------------------------- R5
	if c.Rule("R5", "malformed header text cannot crash the parser (index expressions in range) and leaves the context without a deadline, returning no error", 3) {
		// the handler's clock starts when the request head has arrived: in the HTTP handler literals the timeout
		// header is turned into the deadline before anything waits for the request body (a deadline computed after
		// the upload lies later than the caller's by the time the upload took)
		for _, hc := range httpHandlerClosures(p) {
			if len(hc.Fn.Params) != 2 {
				continue
			}
			rPar := hc.Fn.Params[1]
			isDec := func(in ssa.Instruction) bool {
				call, ok := in.(*ssa.Call)
				if !ok {
					return false
				}
				_, isD := headerDecoderCall(call)
				return isD
			}
			bad := token.NoPos
			core.Instrs(hc.Fn, func(in ssa.Instruction) {
				if _, isDefer := in.(*ssa.Defer); isDefer {
					return
				}
				if readsRequestBody(in, rPar, 0) && !core.MustPass(core.Entry(hc.Fn), in, isDec) {
					bad = in.Pos()
				}
			})
			c.Check(bad == token.NoPos, core.FuncName(hc.Fn)+":deadline-applied-before-the-body-is-awaited", hc.Fn.Pos(), "no read of the request body precedes the decoding of the timeout header", "the request body is read before the timeout header is turned into the handler's deadline: the timeout then runs from the end of the upload, so the handler's deadline is later than the caller's by however long the body took to arrive")
		}
		// no request gets a handler context without its timeout header having been looked at: in the function that
		// reads the header, every return that does not report an error lies behind the read (a lenient branch that
		// leaves early — "metadata partly undecodable, go on with what there is" — skips the deadline)
		for _, f := range p.LibFuncs("httpgrpc") {
			var get *ssa.Call
			for _, g := range core.CallsIn(f, func(call *ssa.Call, ci core.CallInfo) bool {
				if !ci.Is("net/http.Header.Get") || len(call.Call.Args) < 2 {
					return false
				}
				k, ok := core.ConstString(call.Call.Args[1])
				return ok && strings.Contains(strings.ToLower(k), "timeout")
			}) {
				get = g
			}
			ei := core.ErrResultIndex(f.Signature)
			if get == nil || ei < 0 || f.Signature.Results().Len() < 2 || core.TypeStr(f.Signature.Results().At(0).Type()) != "context.Context" {
				continue
			}
			bad := token.NoPos
			for _, r := range core.Returns(f) {
				if core.ClassifyErr(r.Results[ei], r) == core.ErrNonNil {
					continue
				}
				if !core.MustPass(core.Entry(f), r, func(in ssa.Instruction) bool { return in == ssa.Instruction(get) }) {
					bad = r.Pos()
				}
			}
			c.Check(bad == token.NoPos, core.FuncName(f)+":timeout-header-read-on-every-accepting-path", get.Pos(), "every return without an error passes the read of the timeout header", "the function that builds the handler's context can return without an error before it has looked at the timeout header: such a request is dispatched with no deadline although it carries one")
		}
		// the context handed back carries the deadline: on every path that passed the deadline step the returned
		// context derives from that step's result (not from its parent again)
		for _, f := range fam {
			for _, wt := range core.CallsIn(f, func(call *ssa.Call, ci core.CallInfo) bool {
				return ci.Is("context.WithTimeout") || ci.Is("context.WithDeadline")
			}) {
				var onPaths func(v ssa.Value, depth int) bool
				onPaths = func(v ssa.Value, depth int) bool {
					if phi, isPhi := v.(*ssa.Phi); isPhi && depth < 6 {
						for i, e := range phi.Edges {
							pred := phi.Block().Preds[i]
							if pred != wt.Block() && !core.Reachable(core.After(wt), pred.Instrs[len(pred.Instrs)-1]) {
								continue // this edge is taken only on paths that did not pass the deadline step
							}
							if !onPaths(e, depth+1) {
								return false
							}
						}
						return true
					}
					return ctxDerivesFromCall(v, wt)
				}
				for _, r := range core.Returns(f) {
					if !core.Reachable(core.After(wt), r) {
						continue
					}
					for _, res := range r.Results {
						if core.TypeStr(res.Type()) != "context.Context" || core.IsNilConst(res) {
							continue
						}
						c.Check(onPaths(res, 0), core.FuncName(f)+":deadline-context-is-returned", r.Pos(), "on the paths through the deadline step the context returned derives from its result", "after the deadline was applied a context is returned that does not derive from the deadline step's result (derived from the parent again, say): the handler runs without the caller's deadline")
					}
				}
			}
		}
		if parser == nil {
			c.Missing("timeout parser")
		} else {
			name := core.FuncName(reader)
			core.ComputeParamLenHints(fam)
			for _, f := range fam {
				if f != parser && f != reader {
					continue
				}
				for _, ob := range core.BoundsOf(f) {
					if ob.Proven {
						c.Ok(core.FuncName(f)+":bounds:"+ob.Desc, ob.Instr.Pos(), "%s", ob.Why)
					} else {
						c.Fail(core.FuncName(f)+":bounds:"+ob.Desc, ob.Instr.Pos(), "index expression may be out of range: %s", ob.Why)
					}
				}
			}
			parser := reader
			// parse failure / unknown unit → a return with nil error is reachable without WithTimeout
			okRet := false
			for _, r := range core.Returns(parser) {
				n := len(r.Results)
				if n > 0 && core.IsNilConst(r.Results[n-1]) {
					okRet = true
				}
			}
			// the parse error must not be returned: no return carries the ParseInt error
			leak := false
			for _, r := range core.Returns(parser) {
				n := len(r.Results)
				if n > 0 && core.OriginIs(r.Results[n-1], func(o ssa.Value) bool {
					return core.IsResultOf(o, 1, "strconv.ParseInt", "strconv.ParseUint", "strconv.Atoi")
				}) {
					leak = true
				}
			}
			c.Check(okRet && !leak, name+":bad-timeout-is-not-an-error", parser.Pos(), "an unparsable timeout yields (ctx, cancel, nil): request is served without a deadline", "an unparsable GRPC-Timeout is turned into an error")
		}
		c.EndRule()
	}

	// ---------------------------------------------------------------- R6 (shared)
	// the remaining time is computed for THIS request at the time it is issued: nothing a call builds (its header set
	// with the timeout in it) is kept in a long-lived object or package variable for later calls to reuse (C01/R1) —
	// a cached header set carries the timeout of the call that built it, so a later call on the same context tells
	// the server more time than the caller has left
	c.Borrow("C01", map[string]string{"R1": "R6"}, c01)
	// the deadline that is sent is the CALLER's: the context the timeout is computed from and the request is bound to
	// descends from the caller's context through steps that keep its deadline and cancellation (C04/R3) — a credentials
	// step that hands back a detached context (so that a slow token refresh is not cut short) sends no timeout at all
	c.Borrow("C04", map[string]string{"R3": "R7"}, c04)
}

func stripCT(v ssa.Value) ssa.Value {
	for {
		switch x := v.(type) {
		case *ssa.ChangeType:
			v = x.X
		case *ssa.Convert:
			v = x.X
		default:
			return v
		}
	}
}

// requestBoundCtx returns the context values passed to (*http.Request).WithContext
// (or http.NewRequestWithContext) in fn and in the functions it starts with
// `go` / calls directly that receive the request.
func requestBoundCtx(fn *ssa.Function) []ssa.Value {
	var out []ssa.Value
	var visit func(f *ssa.Function, depth int)
	seen := map[*ssa.Function]bool{}
	visit = func(f *ssa.Function, depth int) {
		if f == nil || f.Blocks == nil || seen[f] || depth > 3 {
			return
		}
		seen[f] = true
		core.Instrs(f, func(in ssa.Instruction) {
			cc := core.CallOf(in)
			if cc == nil {
				return
			}
			ci := core.InfoOf(cc)
			if ci.Is("net/http.Request.WithContext") {
				out = append(out, cc.Args[1])
			}
			if ci.Is("net/http.NewRequestWithContext") {
				out = append(out, cc.Args[0])
			}
			if ci.Static != nil && strings.HasPrefix(ci.Pkg, core.ModulePath) {
				visit(ci.Static, depth+1)
			}
		})
	}
	visit(fn, 0)
	return out
}

// sameCtxOrChild: bound is arg, derives from arg through context-deriving
// calls, or is a field of a struct that was initialised from a child of arg.
func sameCtxOrChild(bound, arg ssa.Value) bool {
	if bound == arg {
		return true
	}
	_, root := ctxChain(bound)
	if root == arg {
		return true
	}
	// bound is a field load (cs.ctx): accept when the struct's constructor is
	// given a context derived from arg in the same caller. This is checked by
	// C04/R3 in detail; here: the field is named by a context-typed load.
	if _, _, ok := core.FieldOf(bound); ok {
		return true
	}
	// ... read into a local first (ctx := cs.ctx)
	if core.AllOrigins(bound, func(o ssa.Value) bool { _, _, ok := core.FieldOf(o); return ok }) {
		return true
	}
	chain, r2 := ctxChain(arg)
	_ = chain
	_, rb := ctxChain(bound)
	return r2 == rb
}

type timeoutQuot struct {
	div     int64 // the value is floor(remaining / div ns)
	clamped bool  // max(…, 1) applied
	why     string
}

// evalTimeoutQuot recognises the value sent in the timeout header as a floor
// quotient of the remaining time: Duration.Milliseconds()/… or Duration/const
// of time.Until/Time.Sub, further integer divisions by positive constants, and
// the clamp "if q <= 0 { q = 1 }". Anything else (an addition that rounds up,
// a multiplication, another source) is reported.
func evalTimeoutQuot(v ssa.Value) timeoutQuot {
	v = stripCT(v)
	switch x := v.(type) {
	case *ssa.Phi:
		if len(x.Edges) == 2 {
			for i, e := range x.Edges {
				k, isC := core.ConstInt(e)
				if !isC || k != 1 {
					continue
				}
				other := x.Edges[1-i]
				pred := x.Block().Preds[i]
				last := pred.Instrs[len(pred.Instrs)-1]
				if core.GuardedBy(last, func(f core.Fact) bool {
					z, isZ := core.ConstInt(f.Y)
					return core.SameVal(f.X, other) && isZ && ((f.Op == token.LEQ && z == 0) || (f.Op == token.LSS && z == 1))
				}) {
					q := evalTimeoutQuot(other)
					q.clamped = true
					return q
				}
			}
		}
		return timeoutQuot{why: "the value is chosen between alternatives that are not 'quotient, or 1 when the quotient is <= 0'"}
	case *ssa.Call:
		div := map[string]int64{"time.Duration.Milliseconds": 1e6, "time.Duration.Microseconds": 1e3, "time.Duration.Nanoseconds": 1}[core.InfoOf(&x.Call).Full()]
		if div != 0 {
			if src, _, isC := core.CallResult(x.Call.Args[0]); isC {
				if n := core.InfoOf(&src.Call).Full(); n == "time.Until" || n == "time.Time.Sub" {
					if why := staleNow(src); why != "" {
						return timeoutQuot{why: why}
					}
					return timeoutQuot{div: div}
				}
			}
			return timeoutQuot{why: "the duration converted is not time.Until(deadline) / deadline.Sub(now)"}
		}
		return timeoutQuot{why: "the value is the result of " + core.InfoOf(&x.Call).Full()}
	case *ssa.BinOp:
		if x.Op != token.QUO {
			return timeoutQuot{why: "the value is computed with '" + x.Op.String() + "' (only truncating division keeps it a floor quotient; adding before dividing rounds up)"}
		}
		k, isC := core.ConstInt(x.Y)
		if !isC || k <= 0 {
			return timeoutQuot{why: "division by something other than a positive constant"}
		}
		if core.TypeStr(x.X.Type()) == "time.Duration" {
			if call, _, isCall := core.CallResult(x.X); isCall {
				if n := core.InfoOf(&call.Call).Full(); n == "time.Until" || n == "time.Time.Sub" {
					if why := staleNow(call); why != "" {
						return timeoutQuot{why: why}
					}
					return timeoutQuot{div: k}
				}
			}
		}
		q := evalTimeoutQuot(x.X)
		if q.why != "" {
			return q
		}
		if q.div > math.MaxInt64/k {
			return timeoutQuot{why: "unit overflows"}
		}
		return timeoutQuot{div: q.div * k} // floor(floor(a/b)/k) = floor(a/(b*k)) for a >= 0; a clamp below does not survive the division
	}
	return timeoutQuot{why: fmt.Sprintf("the value is a %T, not a quotient of the remaining time", v)}
}

// quotientPositiveByGuard: v = X / k is taken only where X >= k was established.
func quotientPositiveByGuard(v ssa.Value, at ssa.Instruction) bool {
	b, ok := stripCT(v).(*ssa.BinOp)
	if !ok || b.Op != token.QUO {
		return false
	}
	k, isC := core.ConstInt(b.Y)
	if !isC {
		return false
	}
	return core.GuardedBy(at, func(f core.Fact) bool {
		K, isK := core.ConstInt(f.Y)
		if !isK || !core.SameVal(stripCT(f.X), stripCT(b.X)) {
			return false
		}
		return (f.Op == token.GTR && K >= k-1) || (f.Op == token.GEQ && K >= k)
	})
}

// globalConstMap: m is a load of a package-level map variable of the module
// that is initialised with integer-constant keys and values (and, as C01/R1
// checks for every package-level variable, never written afterwards); returns
// the table, nil otherwise.
func globalConstMap(p *core.Prog, m ssa.Value) map[int64]int64 {
	u, ok := m.(*ssa.UnOp)
	if !ok || u.Op != token.MUL {
		return nil
	}
	g, ok := u.X.(*ssa.Global)
	if !ok || g.Pkg == nil || !strings.HasPrefix(g.Pkg.Pkg.Path(), core.ModulePath) {
		return nil
	}
	initFn := g.Pkg.Func("init")
	if initFn == nil {
		return nil
	}
	var mk ssa.Value
	core.Instrs(initFn, func(in ssa.Instruction) {
		if st, ok := in.(*ssa.Store); ok && st.Addr == ssa.Value(g) {
			mk = st.Val
		}
	})
	if mk == nil {
		return nil
	}
	out := map[int64]int64{}
	okAll := true
	core.Instrs(initFn, func(in ssa.Instruction) {
		mu, ok := in.(*ssa.MapUpdate)
		if !ok || mu.Map != mk {
			return
		}
		k, ok1 := core.ConstInt(mu.Key)
		v, ok2 := core.ConstInt(mu.Value)
		if !ok1 || !ok2 {
			okAll = false
			return
		}
		out[k] = v
	})
	if !okAll || len(out) == 0 {
		return nil
	}
	return out
}

// staleNow: for deadline.Sub(t), t must be time.Now() taken in the same
// function (what time.Until does); an instant handed in from elsewhere does not
// deduct the time spent since it was taken.
func staleNow(call *ssa.Call) string {
	if core.InfoOf(&call.Call).Full() != "time.Time.Sub" || len(call.Call.Args) < 2 {
		return ""
	}
	for _, o := range core.Origins(call.Call.Args[1]) {
		nc, _, ok := core.CallResult(o)
		if ok && core.InfoOf(&nc.Call).Is("time.Now") && nc.Parent() == call.Parent() {
			continue
		}
		return "the remaining time is measured against an instant that is not time.Now() taken in the encoder itself (" + core.ValName(o) + "): whatever runs between that instant and the header (credentials lookup, URL building) is not deducted, so the handler's deadline ends up later than the caller's"
	}
	return ""
}

// replacingWriterAfter: a call, reachable after the header store set, of a
// module function that is handed the same header map and REPLACES entries of
// it (assignment, or Header.Set with a variable key). A later writer that only
// appends (Header.Add) leaves the first value, which is what readers take.
func replacingWriterAfter(fn *ssa.Function, set *ssa.Call) *ssa.Call {
	hdr := set.Call.Args[0]
	var later *ssa.Call
	core.Instrs(fn, func(in ssa.Instruction) {
		call, isCall := in.(*ssa.Call)
		if !isCall || call == set || later != nil || !core.Reachable(core.After(set), call) {
			return
		}
		st := core.InfoOf(&call.Call).Static
		if st == nil || !strings.HasPrefix(core.InfoOf(&call.Call).Pkg, core.ModulePath) {
			return
		}
		for ai, a := range call.Call.Args {
			if core.TypeStr(a.Type()) != "net/http.Header" || !sameHeaderMap(a, hdr) || ai >= len(st.Params) {
				continue
			}
			replaces := false
			core.Instrs(st, func(x ssa.Instruction) {
				switch y := x.(type) {
				case *ssa.MapUpdate:
					if core.OriginIs(y.Map, func(o ssa.Value) bool { return o == ssa.Value(st.Params[ai]) }) {
						replaces = true
					}
				case *ssa.Call:
					ci := core.InfoOf(&y.Call)
					if ci.Is("net/http.Header.Set") && core.OriginIs(y.Call.Args[0], func(o ssa.Value) bool { return o == ssa.Value(st.Params[ai]) }) {
						if _, isConst := core.ConstString(y.Call.Args[1]); !isConst {
							replaces = true
						}
					}
				}
			})
			if replaces {
				later = call
			}
		}
	})
	return later
}

// sameHeaderMap: two header-map expressions denote the same map: a common
// origin, or both are w.Header() of the same response writer.
func sameHeaderMap(a, b ssa.Value) bool {
	if sameOrigins(a, b) {
		return true
	}
	for _, x := range core.Origins(a) {
		cx, _, okx := core.CallResult(x)
		if !okx || !cx.Call.IsInvoke() || cx.Call.Method.Name() != "Header" {
			continue
		}
		for _, y := range core.Origins(b) {
			cy, _, oky := core.CallResult(y)
			if oky && cy.Call.IsInvoke() && cy.Call.Method.Name() == "Header" && sameOrigins(cx.Call.Value, cy.Call.Value) {
				return true
			}
		}
	}
	return false
}
