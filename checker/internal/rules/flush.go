package rules

import (
	"fmt"
	"go/token"
	"go/types"
	"strings"

	"golang.org/x/tools/go/ssa"

	"verif/checker/internal/core"
)

// Frames leave the process when they are written (C01/R12, borrowed by C05 and
// C11): net/http buffers what a handler writes; a frame that is not flushed
// reaches the client only when the handler returns, so a client that answers
// each reply before it sends the next request would wait for ever.

func hasFlush(t types.Type) bool {
	for _, tt := range []types.Type{t, types.NewPointer(t)} {
		ms := types.NewMethodSet(tt)
		for i := 0; i < ms.Len(); i++ {
			if ms.At(i).Obj().Name() == "Flush" {
				return true
			}
		}
	}
	return false
}

// isFlushAttempt: a call of a method named Flush, or a comma-ok assertion to
// an interface that has one (the idiom `if f, ok := w.(http.Flusher); ok`).
func isFlushAttempt(in ssa.Instruction) bool {
	switch x := in.(type) {
	case *ssa.Call:
		ci := core.InfoOf(&x.Call)
		if ci.Name == "Flush" {
			return true
		}
		// a helper of the package that does nothing but try to flush its argument
		if ci.Static != nil && ci.Static.Blocks != nil && core.PkgIs(ci.Static, "httpgrpc") && ci.Static.Signature.Results().Len() == 0 {
			found := false
			core.Instrs(ci.Static, func(y ssa.Instruction) {
				if y2, ok := y.(*ssa.Call); ok && core.InfoOf(&y2.Call).Name == "Flush" {
					found = true
				}
			})
			return found
		}
	case *ssa.TypeAssert:
		if it, ok := x.AssertedType.Underlying().(*types.Interface); ok {
			for i := 0; i < it.NumMethods(); i++ {
				if it.Method(i).Name() == "Flush" {
					return true
				}
			}
		}
	}
	return false
}

// flushCapable: does every value v can be keep the Flush method of the
// ResponseWriter net/http handed the handler? why names the first origin that
// does not.
func flushCapable(v ssa.Value, depth int) (ok bool, why string) {
	if depth > 3 {
		return false, "too deep"
	}
	for _, o := range core.Origins(v) {
		if mi, isMI := o.(*ssa.MakeInterface); isMI {
			if !hasFlush(mi.X.Type()) {
				return false, fmt.Sprintf("a %s, which has no Flush method", core.TypeStr(mi.X.Type()))
			}
			continue
		}
		o = core.Strip(o)
		switch x := o.(type) {
		case *ssa.Alloc:
			if !hasFlush(x.Type()) {
				return false, fmt.Sprintf("a %s, which has no Flush method", core.TypeStr(x.Type()))
			}
			continue
		case *ssa.Parameter:
			// the writer the function was handed (the obligation is its caller's)
			continue
		case *ssa.FreeVar:
			r := core.ResolveFree(x)
			if r != ssa.Value(x) {
				if ok, why := flushCapable(r, depth+1); !ok {
					return false, why
				}
			}
			continue
		case *ssa.MakeInterface:
			if !hasFlush(x.X.Type()) {
				return false, fmt.Sprintf("a %s, which has no Flush method", core.TypeStr(x.X.Type()))
			}
			continue
		case *ssa.Const:
			continue
		}
		if call, idx, isC := core.CallResult(o); isC {
			ci := core.InfoOf(&call.Call)
			if ci.Static != nil && ci.Static.Blocks != nil && strings.HasPrefix(ci.Pkg, core.ModulePath) {
				for _, r := range core.Returns(ci.Static) {
					if idx < len(r.Results) {
						if ok, why := flushCapable(r.Results[idx], depth+1); !ok {
							return false, "the result of " + ci.Name + ": " + why
						}
					}
				}
				continue
			}
			return false, "the result of " + ci.Full()
		}
		if _, _, isF := core.FieldOf(o); isF {
			// a writer kept in a field: the store into the field is a site of its own
			continue
		}
		return false, fmt.Sprintf("%T", o)
	}
	return true, ""
}

func c01Flush(c *core.Ctx) {
	p := c.P
	// (a) the frame writer tries to flush after every payload it wrote, and a writer that cannot flush is no error
	nW := 0
	for _, fn := range p.LibFuncs("httpgrpc") {
		if fn.Parent() != nil || !isHTTPFrameWriter(fn) {
			continue
		}
		key := core.FuncName(fn)
		var writes []*ssa.Call
		core.InstrsDeep(fn, func(f *ssa.Function, in ssa.Instruction) {
			if f != fn {
				return
			}
			if call, ok := in.(*ssa.Call); ok {
				ci := core.InfoOf(&call.Call)
				if ci.Iface && ci.Name == "Write" {
					writes = append(writes, call)
				}
			}
		})
		if len(writes) == 0 {
			// the write sits in a step helper: the helper call is the write
			for _, h := range core.HelperCallsOf(fn) {
				if h.Callee == nil || h.Callee.Blocks == nil || !core.PkgIs(h.Callee, "httpgrpc") {
					continue
				}
				has := false
				core.Instrs(h.Callee, func(in ssa.Instruction) {
					if call, ok := in.(*ssa.Call); ok {
						if ci := core.InfoOf(&call.Call); ci.Iface && ci.Name == "Write" {
							has = true
						}
					}
				})
				flushes := false
				core.Instrs(h.Callee, func(in ssa.Instruction) {
					if isFlushAttempt(in) {
						flushes = true
					}
				})
				if has && flushes {
					// the helper writes and flushes: analysed as the frame writer's tail
					nW++
					flushAfterWrite(c, h.Callee, core.FuncName(h.Callee))
				}
			}
			continue
		}
		nW++
		flushAfterWrite(c, fn, key)
	}
	if nW == 0 {
		c.Missing("HTTP frame writer (marshals and writes to its io.Writer parameter)")
	}
	// ... and only there: net/http (HTTP/1.1) gives up on the unread rest of the request body at the moment the reply
	// is first flushed, so what gets flushed, and when, is the frame writer's business alone — a header setter that
	// flushes "so that Header() returns early" makes a handler that has not yet read all its requests lose them
	for _, fn := range p.LibFuncs("httpgrpc") {
		root := fn
		for root.Parent() != nil {
			root = root.Parent()
		}
		if isHTTPFrameWriter(root) {
			continue
		}
		// a write-and-flush tail of a frame writer
		if site := core.InlineSite[root]; site != nil && isHTTPFrameWriter(site.Parent()) {
			continue
		}
		callers := callSitesOf(root)
		tail := len(callers) > 0
		for _, cs := range callers {
			cr := cs.Parent()
			for cr.Parent() != nil {
				cr = cr.Parent()
			}
			if !isHTTPFrameWriter(cr) {
				tail = false
			}
		}
		if tail {
			continue
		}
		core.Instrs(fn, func(in ssa.Instruction) {
			call, ok := in.(*ssa.Call)
			if !ok || core.InfoOf(&call.Call).Name != "Flush" {
				return
			}
			c.Fail(core.FuncName(fn)+":flushes-outside-the-frame-writer", in.Pos(), "the reply is flushed outside the frame writer: on HTTP/1.1 the first flush of the reply makes net/http discard what is still unread of the request body, so a handler that has not consumed all its request messages yet (it sent its headers first) never gets them")
		})
	}

	// (b) what the reply is written through is the ResponseWriter the handler was given, or something that keeps its
	// Flush: every value of type http.ResponseWriter (or io.Writer made from one) that the server side stores into a
	// field or hands to a function of the module
	nS := 0
	for _, fn := range p.LibFuncs("httpgrpc") {
		// server side: the function, or a function it is nested in, has a ResponseWriter parameter
		server := false
		for f := fn; f != nil; f = f.Parent() {
			for _, pp := range f.Params {
				if core.TypeStr(pp.Type()) == "net/http.ResponseWriter" {
					server = true
				}
			}
		}
		if !server {
			continue
		}
		isRW := func(v ssa.Value) bool {
			if core.TypeStr(v.Type()) == "net/http.ResponseWriter" {
				return true
			}
			if ci, ok := v.(*ssa.ChangeInterface); ok {
				return core.TypeStr(ci.X.Type()) == "net/http.ResponseWriter"
			}
			return false
		}
		core.Instrs(fn, func(in ssa.Instruction) {
			var vals []ssa.Value
			what := ""
			switch x := in.(type) {
			case *ssa.Store:
				if _, _, isF := core.FieldOf(x.Addr); isF && isRW(x.Val) {
					vals = append(vals, x.Val)
					what = "stored as the stream's writer"
				}
			case *ssa.Call:
				ci := core.InfoOf(&x.Call)
				if ci.Static == nil || !strings.HasPrefix(ci.Pkg, core.ModulePath) {
					return
				}
				for _, a := range x.Call.Args {
					if isRW(a) {
						vals = append(vals, a)
						what = "handed to " + ci.Name
					}
				}
			}
			for _, v := range vals {
				nS++
				ok, why := flushCapable(v, 0)
				k := core.FuncName(fn) + ":reply-writer-keeps-flush:" + strings.TrimPrefix(what, "handed to ")
				if ok {
					c.Ok(k, in.Pos(), "the writer %s is the handler's own ResponseWriter (or keeps its Flush)", what)
				} else {
					c.Fail(k, in.Pos(), "the writer %s can be %s: the frame writer's flush finds nothing to flush, net/http keeps the frames in its buffer until the handler returns, and a client that waits for a reply before it sends on never gets it", what, why)
				}
			}
		})
	}
	if nS == 0 {
		c.Missing("server-side uses of the handler's ResponseWriter")
	}
}

// flushAfterWrite: in fn (the frame writer, or its write-and-flush tail) every
// return that may report success lies behind a flush attempt that follows the
// last Write, and no error the function returns is a flush's.
func flushAfterWrite(c *core.Ctx, fn *ssa.Function, key string) {
	var last *ssa.Call
	core.Instrs(fn, func(in ssa.Instruction) {
		if call, ok := in.(*ssa.Call); ok {
			if ci := core.InfoOf(&call.Call); ci.Iface && ci.Name == "Write" {
				last = call
			}
		}
	})
	if last == nil {
		c.Undecided(key+":flush-after-write", fn.Pos(), "no Write call")
		return
	}
	ei := core.ErrResultIndex(fn.Signature)
	ok := true
	// paths on which an error is known to be non-nil are failures: followed no further
	noErrEdge := func(b *ssa.BasicBlock, si int) bool {
		iff, isIf := b.Instrs[len(b.Instrs)-1].(*ssa.If)
		if !isIf {
			return true
		}
		f := core.CondFact(iff.Cond, si == 0)
		if f.X != nil && core.IsErrorType(f.X.Type()) && f.Y != nil && core.IsNilConst(f.Y) && f.Op == token.NEQ {
			return false
		}
		return true
	}
	unflushed := core.Walk(core.After(last), isFlushAttempt, noErrEdge)
	for _, r := range core.Returns(fn) {
		if ei >= 0 && core.ClassifyErr(r.Results[ei], r) == core.ErrNonNil {
			continue
		}
		if unflushed[r] {
			ok = false
		}
	}
	c.Check(ok, key+":flush-after-write", last.Pos(), "every success return after the payload write passes a flush attempt", "the frame writer can report success without trying to flush what it wrote: the frame stays in net/http's buffer until the handler returns")
	if ei < 0 {
		return
	}
	bad := ""
	for _, r := range core.Returns(fn) {
		for _, l := range core.ErrLeaves(r.Results[ei], r) {
			if call, _, isC := core.CallResult(l.V); isC {
				if ci := core.InfoOf(&call.Call); ci.Name == "Flush" || ci.Name == "FlushError" {
					bad = ci.Full()
				}
			}
		}
	}
	c.Check(bad == "", key+":flush-is-best-effort", last.Pos(), "no error the frame writer returns comes from flushing", "the frame writer returns the error of "+bad+": a writer that cannot flush (a recorder, a middleware's wrapper, the client's request pipe) now fails every send although the frame was written")
}
