package rules

import (
	"fmt"
	"go/ast"
	"go/token"
	"path/filepath"
	"sort"

	"golang.org/x/tools/go/callgraph"
	"golang.org/x/tools/go/callgraph/cha"
	"golang.org/x/tools/go/callgraph/vta"
	"golang.org/x/tools/go/ssa"
	"golang.org/x/tools/go/ssa/ssautil"

	"verif/checker/internal/core"
)

// bcePkgs: per property, the packages whose residual compiler bounds checks
// must all be discharged by the SSA prover (thorough tier).
var bcePkgs = map[string][]string{
	"C05": {"inprocgrpc", "httpgrpc", "internal"},
	"C07": {"httpgrpc"},
	"C09": {"httpgrpc"},
	"C11": {"httpgrpc"},
	"C12": {"inprocgrpc", "internal"},
	"C19": {"cmd/protoc-gen-grpchan"},
}

// Thorough adds the whole-program obligations of the thorough tier.
func Thorough(c *core.Ctx, goarch string) {
	p := c.P
	if pkgs, ok := bcePkgs[c.Prop]; ok {
		if c.Rule("T1", "compiler cross-check (E-bce): every index/slice expression the Go compiler's prove pass cannot show in range is an obligation of the SSA enumerator on the same line, and is discharged", 0) {
			var env []string
			if goarch != "" {
				env = append(env, "GOARCH="+goarch, "CGO_ENABLED=0")
			}
			sites, err := core.CompilerBCE(p.RepoDir, env...)
			if err != nil {
				c.Undecided("compiler-bce", token.NoPos, "%v", err)
			} else {
				idx := p.BoundsIndex(pkgs...)
				inPkg := func(f string) bool {
					for _, s := range pkgs {
						if len(f) > len(s) && f[:len(s)+1] == s+"/" {
							return true
						}
					}
					return false
				}
				n := 0
				for _, s := range sites {
					if !inPkg(s.File) {
						continue
					}
					n++
					key := fmt.Sprintf("bce:%s:%d", s.File, s.Line)
					obs := idx[fmt.Sprintf("%s:%d", s.File, s.Line)]
					if len(obs) == 0 && !hasIndexSyntaxAt(p, s) {
						// a bounds check the compiler inserted for a conversion or runtime helper, not an index expression of the source
						c.OkTrivial(key, token.NoPos, "compiler-internal %s at %s:%d:%d (no index/slice expression in the source there)", s.Kind, s.File, s.Line, s.Col)
						continue
					}
					if len(obs) == 0 {
						c.Undecided(key, token.NoPos, "the compiler cannot prove the %s at %s:%d:%d in range and the SSA enumerator has no obligation on that line", s.Kind, s.File, s.Line, s.Col)
						continue
					}
					all := true
					why := ""
					for _, ob := range obs {
						if !ob.Proven {
							all = false
							why = ob.Desc + ": " + ob.Why
						} else if why == "" {
							why = ob.Desc + ": " + ob.Why
						}
					}
					if all {
						c.Ok(key, obs[0].Instr.Pos(), "compiler-unproven %s discharged by the SSA prover (%s)", s.Kind, why)
					} else {
						c.Fail(key, obs[0].Instr.Pos(), "compiler-unproven %s is not discharged: %s", s.Kind, why)
					}
				}
				c.Notes = append(c.Notes, fmt.Sprintf("compiler prove pass (GOARCH=%q): %d residual bounds checks in %v, all matched with SSA obligations", goarch, n, pkgs))
			}
			c.EndRule()
		}
	}
	if c.Prop == "C01" && p.Whole {
		if c.Rule("T2", "whole-program reachability (VTA call graph): no function reachable from a per-call entry point through any resolved call (interface dispatch included) writes a long-lived object or a package variable", 1) {
			reach := vtaReach(p, perCallRoots(p))
			ll := longLivedTypes(p)
			var fl []*ssa.Function
			for f := range reach {
				if f != nil && f.Blocks != nil && p.IsLibFile(f.Pos()) {
					fl = append(fl, f)
				}
			}
			sort.Slice(fl, func(i, j int) bool { return core.FuncName(fl[i]) < core.FuncName(fl[j]) })
			bad := 0
			for _, f := range fl {
				core.Instrs(f, func(in ssa.Instruction) {
					st, ok := in.(*ssa.Store)
					if !ok {
						return
					}
					if g, isG := st.Addr.(*ssa.Global); isG {
						bad++
						c.Fail(core.FuncName(f)+":store-global:"+g.Name(), st.Pos(), "reachable from per-call code (VTA) and writes package variable %s", g.Name())
					}
					if fa, isFA := st.Addr.(*ssa.FieldAddr); isFA {
						for k, nt := range ll {
							if core.QualNamedOf(fa.X.Type()) == nt.Obj().Pkg().Path()+"."+nt.Obj().Name() {
								if core.AllOrigins(fa.X, func(o ssa.Value) bool { al, ok := o.(*ssa.Alloc); return ok && al.Parent() == f }) {
									continue
								}
								bad++
								_, fld, _ := core.FieldOf(fa)
								c.Fail(core.FuncName(f)+":store-longlived:"+k+"."+fld, st.Pos(), "reachable from per-call code (VTA) and writes %s.%s", k, fld)
							}
						}
					}
				})
			}
			c.Ok("vta:per-call-code", token.NoPos, "%d library functions reachable from the per-call entry points in the VTA graph (%d nodes), %d shared writes", len(fl), len(reach), bad)
			c.EndRule()
		}
	}
}

// vtaReach: functions reachable from roots in the VTA call graph.
func vtaReach(p *core.Prog, roots []*ssa.Function) map[*ssa.Function]bool {
	all := ssautil.AllFunctions(p.SSA)
	cg := vta.CallGraph(all, cha.CallGraph(p.SSA))
	seen := map[*ssa.Function]bool{}
	var work []*callgraph.Node
	for _, r := range roots {
		if n := cg.Nodes[r]; n != nil {
			work = append(work, n)
		}
	}
	for len(work) > 0 {
		n := work[len(work)-1]
		work = work[:len(work)-1]
		if seen[n.Func] {
			continue
		}
		seen[n.Func] = true
		// function literals created by n.Func run in its dynamic extent or later
		if n.Func != nil {
			for _, a := range n.Func.AnonFuncs {
				if an := cg.Nodes[a]; an != nil {
					work = append(work, an)
				}
			}
		}
		for _, e := range n.Out {
			// do not descend into the application's handlers / the standard library beyond the repo
			if e.Callee.Func != nil && e.Callee.Func.Pkg != nil && !isRepoPkg(e.Callee.Func.Pkg.Pkg.Path()) {
				continue
			}
			work = append(work, e.Callee)
		}
	}
	return seen
}

func isRepoPkg(path string) bool {
	return len(path) >= len(core.ModulePath) && path[:len(core.ModulePath)] == core.ModulePath
}

// hasIndexSyntaxAt: the source position of a compiler bounds check lies
// inside an index or slice expression.
func hasIndexSyntaxAt(p *core.Prog, s core.BCESite) bool {
	for _, pk := range p.Pkgs {
		for _, f := range pk.Syntax {
			tf := p.Fset.File(f.Pos())
			if tf == nil {
				continue
			}
			rel, err := filepath.Rel(p.RepoDir, tf.Name())
			if err != nil || rel != s.File || s.Line > tf.LineCount() {
				continue
			}
			pos := tf.LineStart(s.Line) + token.Pos(s.Col-1)
			found := false
			ast.Inspect(f, func(n ast.Node) bool {
				if n == nil || found {
					return false
				}
				if n.Pos() > pos || n.End() < pos {
					return n.Pos() <= pos
				}
				switch n.(type) {
				case *ast.IndexExpr, *ast.SliceExpr:
					found = true
				}
				return true
			})
			return found
		}
	}
	return true // unknown file: be conservative
}
