package rules

import (
	"fmt"
	"go/token"
	"go/types"
	"strings"

	"golang.org/x/tools/go/ssa"

	"verif/checker/internal/core"
)

func init() { register("C04", c04) }

// ctxTranslators: func(error) error comparing its argument with both
// context.Canceled and context.DeadlineExceeded (role: context translator).
func ctxTranslators(p *core.Prog) []*ssa.Function {
	var out []*ssa.Function
	for _, fn := range p.LibFuncs("") {
		if fn.Parent() != nil || fn.Signature.Recv() != nil || len(fn.Params) != 1 || fn.Signature.Results().Len() != 1 {
			continue
		}
		if !core.IsErrorType(fn.Params[0].Type()) || !core.IsErrorType(fn.Signature.Results().At(0).Type()) {
			continue
		}
		seen := map[string]bool{}
		core.Instrs(fn, func(in ssa.Instruction) {
			if v, ok := in.(ssa.Value); ok {
				if g, ok := core.GlobalLoad(v); ok {
					seen[g] = true
				}
			}
		})
		if seen["context.Canceled"] && seen["context.DeadlineExceeded"] {
			out = append(out, fn)
		}
	}
	// wrappers: func(error) error that hands its argument to a translator and never returns it raw
	base := append([]*ssa.Function(nil), out...)
	for _, fn := range p.LibFuncs("") {
		if fn.Parent() != nil || fn.Signature.Recv() != nil || len(fn.Params) != 1 || fn.Signature.Results().Len() != 1 || fn.Blocks == nil {
			continue
		}
		if !core.IsErrorType(fn.Params[0].Type()) || !core.IsErrorType(fn.Signature.Results().At(0).Type()) {
			continue
		}
		isBase := false
		for _, b := range base {
			if b == fn {
				isBase = true
			}
		}
		if isBase {
			continue
		}
		translates := len(core.CallsIn(fn, func(call *ssa.Call, _ core.CallInfo) bool {
			return isTranslatorCall(&call.Call, base) && len(call.Call.Args) == 1 && core.OriginIs(call.Call.Args[0], func(o ssa.Value) bool { return o == ssa.Value(fn.Params[0]) })
		})) > 0
		raw := false
		for _, r := range core.Returns(fn) {
			if core.OriginIs(r.Results[0], func(o ssa.Value) bool { return o == ssa.Value(fn.Params[0]) }) {
				raw = true
			}
		}
		if translates && !raw {
			out = append(out, fn)
		}
	}
	return out
}

func isTranslatorCall(cc *ssa.CallCommon, trs []*ssa.Function) bool {
	ci := core.InfoOf(cc)
	for _, t := range trs {
		if ci.Static == t {
			return true
		}
	}
	return ci.Is(statusPkg + ".FromContextError")
}

// ctxRawSpec: values that may be a raw context.Canceled/DeadlineExceeded (or
// an I/O error provoked by the context ending).
func ctxRawSpec(p *core.Prog, trs []*ssa.Function) core.TaintSpec {
	callCtx := map[ssa.Value]bool{}
	isCallCtx := func(v ssa.Value) bool {
		if b, ok := callCtx[v]; ok {
			return b
		}
		tr := ctxTrace(p, v)
		ok := len(tr.Roots) > 0
		for r := range tr.Roots {
			if !strings.HasPrefix(r, "param:") {
				ok = false
			}
		}
		callCtx[v] = ok
		return ok
	}
	return core.TaintSpec{
		Name: "CtxRaw",
		IsSource: func(v ssa.Value) bool {
			call, idx, ok := core.CallResult(v)
			if !ok || !core.IsErrorType(v.Type()) {
				return false
			}
			ci := core.InfoOf(&call.Call)
			if ci.Iface && ci.Name == "Err" && core.TypeStr(call.Call.Value.Type()) == "context.Context" {
				return true
			}
			if ci.Iface && ci.Name == "RoundTrip" && idx == 1 {
				return true
			}
			if ci.Iface && ci.Name == "Read" && idx == 1 {
				return true
			}
			switch ci.Full() {
			case "io.ReadFull", "io.ReadAtLeast", "io/ioutil.ReadAll", "io.ReadAll", "io.Copy":
				return idx == 1
			case "encoding/binary.Read":
				return true
			}
			return false
		},
		IsSanitizer: func(cc *ssa.CallCommon) bool { return isTranslatorCall(cc, trs) },
		CleansAll: func(f core.Fact) bool {
			// ctx.Err() == nil: nothing so far was caused by the context
			if f.Op != token.EQL || !core.IsNilConst(f.Y) {
				return false
			}
			call, _, ok := core.CallResult(f.X)
			if !ok || !call.Call.IsInvoke() || call.Call.Method.Name() != "Err" || core.TypeStr(call.Call.Value.Type()) != "context.Context" {
				return false
			}
			// only the call's own context (descending from the caller's) proves anything
			return isCallCtx(call.Call.Value)
		},
		Passthrough: func(cc *ssa.CallCommon) []int { return nil },
	}
}

func c04(c *core.Ctx) {
	p := c.P
	c.Explain = "C04: every blocking channel operation in the library has a ctx.Done() arm; a may-taint analysis (sources: ctx.Err(), RoundTrip and body-read errors; sanitisers: the context translators found by role; 'ctx.Err() == nil' cleans) shows that no raw context error reaches the result of Invoke or of a client stream's RecvMsg, including through the terminal-error fields; the context handed to every handler (and bound to every outgoing HTTP request) is traced back to the caller's context through context-deriving steps only; a handler's own error is translated before it becomes the client-visible status."
	c.NotDec = []string{"'promptly' (timing)", "the exact outcome of genuine races beyond 'complete result or cancellation status'"}
	trs := ctxTranslators(p)

	// ---------------------------------------------------------------- R1
	if c.Rule("R1", "every blocking channel operation can be interrupted by the call's context (blocking select with a ctx.Done() arm; no bare send/receive; tabled WaitGroup.Wait)", 6) {
		for _, pkgS := range []string{"inprocgrpc", "httpgrpc", "internal", "."} {
			for _, fn := range p.LibFuncs(pkgS) {
				nsel := 0
				core.Instrs(fn, func(in ssa.Instruction) {
					key := core.FuncName(fn)
					switch x := in.(type) {
					case *ssa.Select:
						nsel++
						k := fmt.Sprintf("%s:select#%d", key, nsel)
						hasDone := false
						for _, st := range x.States {
							if st.Dir != types.RecvOnly {
								continue
							}
							for _, o := range core.Origins(st.Chan) {
								if dc, ok := o.(*ssa.Call); ok && dc.Call.IsInvoke() && dc.Call.Method.Name() == "Done" && core.TypeStr(dc.Call.Value.Type()) == "context.Context" {
									hasDone = true
								}
							}
						}
						switch {
						case !x.Blocking:
							c.Fail(k, x.Pos(), "non-blocking select (default arm) around a channel operation: a frame can be dropped or a wait skipped")
						case !hasDone:
							c.Fail(k, x.Pos(), "blocking select without a ctx.Done() arm: the operation cannot be interrupted by cancellation or deadline")
						default:
							c.Ok(k, x.Pos(), "blocking select with a ctx.Done() arm")
						}
					case *ssa.Send:
						c.Fail(key+":bare-send", x.Pos(), "bare channel send outside a select: cannot be interrupted by the call's context")
					case *ssa.UnOp:
						if x.Op == token.ARROW {
							c.Fail(key+":bare-recv", x.Pos(), "bare channel receive outside a select: cannot be interrupted by the call's context")
						}
					case *ssa.Call:
						ci := core.InfoOf(&x.Call)
						if ci.Is("sync.WaitGroup.Wait") {
							recv := core.RecvName(fn)
							// tabled: client stream Header() waits for onReady, which every path of the response reader calls right after RoundTrip (ctx-bound)
							if fn.Name() == "Header" && recv != "" && readyDoneOnAllPaths(p, fn) {
								c.Ok(key+":waitgroup", x.Pos(), "tabled: released by the response reader on every path after the ctx-bound RoundTrip")
							} else {
								c.Fail(key+":waitgroup", x.Pos(), "WaitGroup.Wait not covered by the table: may block beyond the context")
							}
						}
					}
				})
			}
		}
		// the unary HTTP call waits for the reply body in an interruptible way too: the body is read on a goroutine
		// of its own (the caller selects on ctx.Done() next to it, checked above); a read on the caller's goroutine
		// returns only when the transport's body does — a transport whose body does not watch the request context
		// (anything but net/http's own) would hold the caller beyond its deadline
		for _, ct := range channelTypes(p, "httpgrpc") {
			inv := declaredMethod(p, ct, "Invoke")
			if inv == nil {
				continue
			}
			var readsBody func(f *ssa.Function, par *ssa.Parameter, depth int) bool
			isBodyVal := func(v ssa.Value, f *ssa.Function, par *ssa.Parameter) bool {
				return core.OriginIs(v, func(o ssa.Value) bool {
					o = core.Strip(o)
					if par != nil && o == ssa.Value(par) {
						return true
					}
					base, fld, isF := core.FieldOf(o)
					if isF && fld == "Body" && core.TypeStr(core.Deref(base.Type())) == "net/http.Response" {
						return par == nil || core.OriginIs(base, func(b ssa.Value) bool { return core.Strip(b) == ssa.Value(par) })
					}
					if core.TypeStr(o.Type()) == "*net/http.Response" {
						return par == nil || o == ssa.Value(par)
					}
					return false
				})
			}
			readsAt := func(f *ssa.Function, par *ssa.Parameter, depth int, report func(in ssa.Instruction)) {
				core.Instrs(f, func(in ssa.Instruction) {
					call, ok := in.(*ssa.Call)
					if !ok {
						return
					}
					ci := core.InfoOf(&call.Call)
					args := core.Args(&call.Call)
					touches := false
					for _, a := range args {
						if isBodyVal(a, f, par) {
							touches = true
						}
					}
					if call.Call.IsInvoke() && isBodyVal(call.Call.Value, f, par) {
						touches = ci.Name == "Read"
					}
					if !touches {
						return
					}
					switch {
					case ci.Is("io.ReadAll") || ci.Is("io/ioutil.ReadAll") || ci.Is("io.ReadFull") || ci.Is("io.ReadAtLeast") || ci.Is("io.Copy") || ci.Is("io.CopyN") || (ci.Iface && ci.Name == "Read"):
						report(in)
					case ci.Static != nil && ci.Static.Blocks != nil && strings.HasPrefix(ci.Pkg, core.ModulePath) && depth < 2:
						for i, a := range call.Call.Args {
							if i < len(ci.Static.Params) && isBodyVal(a, f, par) && readsBody(ci.Static, ci.Static.Params[i], depth+1) {
								report(in)
							}
						}
					}
				})
			}
			readsBody = func(f *ssa.Function, par *ssa.Parameter, depth int) bool {
				found := false
				readsAt(f, par, depth, func(ssa.Instruction) { found = true })
				return found
			}
			bad := token.NoPos
			readsAt(inv, nil, 0, func(in ssa.Instruction) {
				if _, isDefer := in.(*ssa.Defer); !isDefer {
					bad = in.Pos()
				}
			})
			key := core.FuncName(inv) + ":reply-body-read-off-the-callers-goroutine"
			if bad != token.NoPos {
				c.Fail(key, bad, "the unary call reads the reply body on the caller's own goroutine: the call returns only when the transport's body read does, not when the context ends")
			} else {
				c.Ok(key, inv.Pos(), "the reply body is read by a goroutine of its own; the caller waits in a select with ctx.Done()")
			}
		}
		c.EndRule()
	}

	// ---------------------------------------------------------------- R2
	if c.Rule("R2", "context errors reach the client only as status errors: no CtxRaw-tainted value is returned by Invoke or a client stream's RecvMsg (terminal-error fields included)", 6) {
		if len(trs) < 2 {
			c.Missing("context translators (func(error) error comparing with context.Canceled and context.DeadlineExceeded) in internal and httpgrpc")
		}
		for _, pkgS := range []string{"inprocgrpc", "httpgrpc"} {
			fns := append(p.LibFuncs(pkgS), p.LibFuncs("internal")...)
			t := core.NewTaint(ctxRawSpec(p, trs), fns)
			var sinks []*ssa.Function
			for _, ct := range channelTypes(p, pkgS) {
				if f := declaredMethod(p, ct, "Invoke"); f != nil {
					sinks = append(sinks, f)
				}
			}
			for _, nt := range streamTypes(p, "ClientStream", "RecvMsg") {
				if pkgSuffixOf(nt) == pkgS {
					if f := declaredMethod(p, nt, "RecvMsg"); f != nil && len(methodFamily(p, nt, "RecvMsg")) > 0 {
						sinks = append(sinks, f)
					}
				}
			}
			for _, fn := range sinks {
				for i, r := range core.ErrReturns(fn) {
					ev := r.Results[len(r.Results)-1]
					key := fmt.Sprintf("%s:return#%d", core.FuncName(fn), i)
					if t.At(ev, r) {
						c.Fail(key, r.Pos(), "a raw context error (ctx.Err(), or an I/O error provoked by the context ending) can be returned without passing a context→status translator: the caller would see a non-status error / code Unknown instead of Canceled / DeadlineExceeded")
					} else {
						c.Ok(key, r.Pos(), "no untranslated context error reaches this return")
					}
				}
			}
			// terminal-error fields: stores of tainted values
			for _, nt := range streamTypes(p, "ClientStream", "RecvMsg") {
				if pkgSuffixOf(nt) != pkgS {
					continue
				}
				for fld := range terminalErrFields(p, nt) {
					for _, fn := range fns {
						core.Instrs(fn, func(in ssa.Instruction) {
							st, ok := in.(*ssa.Store)
							if !ok {
								return
							}
							base, f, isF := core.FieldOf(st.Addr)
							if !isF || f != fld || core.NamedOf(base.Type()) != nt.Obj().Name() {
								return
							}
							key := fmt.Sprintf("%s.%s<-%s", typeKey(nt), fld, core.FuncName(fn))
							if t.At(st.Val, st) {
								c.Fail(key, st.Pos(), "a raw context error / ctx-provoked I/O error is stored as the stream's terminal error: a later RecvMsg returns it untranslated")
							} else {
								c.Ok(key, st.Pos(), "stored terminal error is translated or not context-caused")
							}
						})
					}
				}
			}
		}
		c.EndRule()
	}

	// ---------------------------------------------------------------- R3
	if c.Rule("R3", "the handler's context descends from the caller's (or the request's) context through context-deriving steps only; outgoing HTTP requests are bound to a context derived from the caller's", 6) {
		// handler contexts
		for _, pkgS := range []string{"inprocgrpc", "httpgrpc"} {
			for _, fn := range p.LibFuncs(pkgS) {
				for i, hs := range handlerInvocations(fn) {
					kind, _ := isHandlerInvocation(&hs.Call)
					key := fmt.Sprintf("%s:%s#%d:ctx", core.FuncName(fn), kind, i)
					var ctxVals []ssa.Value
					for _, a := range hs.Call.Args {
						if core.TypeStr(a.Type()) == "context.Context" {
							ctxVals = append(ctxVals, a)
						}
						// stream object: its ctx field
						if core.TypeStr(a.Type()) == grpcPkg+".ServerStream" {
							if cv := streamCtxValue(p, fn, a); cv != nil {
								ctxVals = append(ctxVals, cv)
							}
						}
					}
					if len(ctxVals) == 0 {
						c.Undecided(key, hs.Pos(), "cannot find the context handed to the handler")
						continue
					}
					for _, cv := range ctxVals {
						tr := ctxTrace(p, cv)
						bad := ""
						for r := range tr.Roots {
							if r == "request" || strings.HasPrefix(r, "param:") {
								continue
							}
							bad = r
						}
						if det := detachingLayer(tr); bad == "" && det != "" {
							c.Fail(key, hs.Pos(), "the handler's context passes through %s, which keeps the values of its parent but drops its deadline and cancellation: the caller's deadline and cancel do not reach the handler", det)
						} else if bad != "" {
							c.Fail(key, hs.Pos(), "handler context has root %q (roots: %v): it does not descend from the caller's context, so cancellation / deadline would not reach the handler", bad, tr.rootList())
						} else {
							c.Ok(key, hs.Pos(), "roots %v through %v", tr.rootList(), tr.layerList())
						}
					}
				}
			}
		}
		// what the handler obtains through the stream is that very context: Context() of every server stream type
		// returns the stored context field and nothing else
		for _, nt := range p.Implementers(p.ExtType(grpcPkg, "ServerStream")) {
			if declaredMethod(p, nt, "Context") == nil {
				continue
			}
			f, ok, pos := accessorReturnsField(p, nt, "Context")
			c.Check(ok && f == "ctx", core.NamedOf(nt)+":Context-accessor", pos, "Context() returns the stream's stored context on every path", "Context() of a server stream does not simply return the context stored at construction (the one shown above to descend from the caller's): the handler would run under another context — no cancellation, deadline or metadata")
		}
		// outgoing requests
		n := 0
		for _, fn := range p.LibFuncs("httpgrpc") {
			core.Instrs(fn, func(in ssa.Instruction) {
				call, ok := in.(*ssa.Call)
				if !ok {
					return
				}
				ci := core.InfoOf(&call.Call)
				if !(ci.Iface && ci.Name == "RoundTrip") {
					return
				}
				n++
				key := core.FuncName(fn) + ":request-ctx"
				req := call.Call.Args[0]
				var bound ssa.Value
				var boundIn *ssa.Function
				var findBound func(v ssa.Value, depth int)
				findBound = func(v ssa.Value, depth int) {
					if depth > 3 || bound != nil {
						return
					}
					for _, o := range core.Origins(v) {
						if wc, _, ok := core.CallResult(o); ok {
							wi := core.InfoOf(&wc.Call)
							if wi.Is("net/http.Request.WithContext") {
								bound, boundIn = wc.Call.Args[1], wc.Parent()
								return
							}
							if wi.Is("net/http.NewRequestWithContext") {
								bound, boundIn = wc.Call.Args[0], wc.Parent()
								return
							}
							continue
						}
						// a request made elsewhere: handed in as a parameter, or kept in a field
						if par, isPar := o.(*ssa.Parameter); isPar && !isEntryFunc(par.Parent()) {
							for i, pp := range par.Parent().Params {
								if pp != par {
									continue
								}
								for _, g := range p.LibFuncs("httpgrpc") {
									core.Instrs(g, func(x ssa.Instruction) {
										if cc := core.CallOf(x); cc != nil && cc.StaticCallee() == par.Parent() {
											if args := cc.Args; i < len(args) {
												findBound(args[i], depth+1)
											}
										}
									})
								}
							}
						}
						if ld, isLd := o.(*ssa.UnOp); isLd && ld.Op == token.MUL {
							if fa, isFA := ld.X.(*ssa.FieldAddr); isFA {
								fb, ff, _ := core.FieldOf(fa)
								for _, g := range p.LibFuncs("httpgrpc") {
									core.Instrs(g, func(x ssa.Instruction) {
										if st, ok := x.(*ssa.Store); ok {
											if b2, f2, isF := core.FieldOf(st.Addr); isF && f2 == ff && core.NamedOf(b2.Type()) == core.NamedOf(fb.Type()) {
												findBound(st.Val, depth+1)
											}
										}
									})
								}
							}
						}
					}
				}
				findBound(req, 0)
				if bound != nil {
					// a stream's exchange is bound to the stream's OWN context (the one its cancel function ends): the
					// context bound is the one kept in (or read from) the stream's context field
					for _, nt := range streamTypes(p, "ClientStream", "RecvMsg") {
						if pkgSuffixOf(nt) != "httpgrpc" {
							continue
						}
						tn := nt.Obj().Name()
						concerns := core.RecvName(fn) == tn
						core.Instrs(boundIn, func(x ssa.Instruction) {
							if al, ok := x.(*ssa.Alloc); ok && core.NamedOf(core.Deref(al.Type())) == tn {
								concerns = true
							}
						})
						if !concerns {
							continue
						}
						own := core.OriginIs(bound, func(o ssa.Value) bool {
							base, _, isF := core.FieldOf(o)
							return isF && core.NamedOf(base.Type()) == tn && core.TypeStr(o.Type()) == "context.Context"
						})
						if !own {
							core.Instrs(boundIn, func(x ssa.Instruction) {
								if st, ok := x.(*ssa.Store); ok {
									if base, _, isF := core.FieldOf(st.Addr); isF && core.NamedOf(base.Type()) == tn && core.TypeStr(st.Val.Type()) == "context.Context" && (st.Val == bound || sameOrigins(st.Val, bound)) {
										own = true
									}
								}
							})
						}
						c.Check(own, key+":the-streams-own-context", call.Pos(), "the streaming request is bound to the context kept in the stream (the one the stream's cancel function ends)", "the streaming request is bound to a context other than the one the stream keeps (e.g. the caller's, taken before the stream derived its cancellable one): the stream's own cancel — the finalizer's, the receive side's when it fails the call — no longer ends the HTTP exchange")
					}
				}
				if bound == nil {
					c.Fail(key, call.Pos(), "the request given to RoundTrip is not bound to a context with WithContext: cancelling the call would not abort the HTTP exchange")
					return
				}
				tr := ctxTrace(p, bound)
				bad := ""
				for r := range tr.Roots {
					if !strings.HasPrefix(r, "param:") {
						bad = r
					}
				}
				if det := detachingLayer(tr); bad == "" && det != "" {
					c.Fail(key, call.Pos(), "the request's context passes through %s, which drops the deadline and cancellation of its parent: cancelling the call does not abort the exchange, and no timeout is sent", det)
				} else if bad != "" {
					c.Fail(key, call.Pos(), "request context has root %q (roots %v): not derived from the caller's context", bad, tr.rootList())
				} else {
					c.Ok(key, call.Pos(), "request bound to a context with roots %v", tr.rootList())
				}
			})
		}
		if n < 2 {
			c.Fail("httpgrpc:roundtrip-sites", token.NoPos, "ANCHOR-MISSING: expected RoundTrip on the unary and the streaming path, found %d", n)
		}
		c.EndRule()
	}

	// ---------------------------------------------------------------- R6
	if c.Rule("R6", "a context end in the middle of a call cannot turn into success: every exit of the HTTP response reader established an error, a non-OK code or a decoded trailer (shared with C02/R1); a streaming handler's returned (context) error is put on the wire in exactly one trailer frame on every path except after a failed response write (shared with C11/R4)", 6) {
		c02HttpEOF(c)
		c11OneTrailer(c, httpHandlerClosures(p))
		// in-process: the sender abandons frames once the context is done, so a closed channel means "complete"
		// only under a context re-check made after the receive (shared with C02/R1)
		c02InprocRecheck(c)
		c.EndRule()
	}

	// ---------------------------------------------------------------- R5
	if c.Rule("R5", "no success after a known context error: in the client-side call/receive functions no nil (success) return is reachable from an edge on which ctx.Err() != nil was established", 3) {
		n := 0
		var clientFns []*ssa.Function
		for _, pkgS := range []string{"inprocgrpc", "httpgrpc"} {
			for _, ct := range channelTypes(p, pkgS) {
				if f := declaredMethod(p, ct, "Invoke"); f != nil {
					clientFns = append(clientFns, f)
				}
			}
			for _, nt := range streamTypes(p, "ClientStream", "RecvMsg") {
				if pkgSuffixOf(nt) == pkgS {
					clientFns = append(clientFns, methodFamily(p, nt, "RecvMsg")...)
				}
			}
			if pkgS == "inprocgrpc" {
				for _, fn := range p.LibFuncs(pkgS) {
					if fn.Parent() == nil && fn.Signature.Recv() == nil && receivesFromParam(fn) {
						clientFns = append(clientFns, fn)
					}
				}
			}
		}
		// the in-process client stream's "closed" state means the END was observed (the channel's io.EOF, an error
		// frame, or a terminal error parked in the peek slot) — never merely that a receive failed: a context error
		// must not put the stream into the state whose later receives report a clean end
		for _, nt := range streamTypes(p, "ClientStream", "RecvMsg") {
			if pkgSuffixOf(nt) != "inprocgrpc" {
				continue
			}
			tn := nt.Obj().Name()
			kinds := frameKinds(p)
			var fam []*ssa.Function
			seenF := map[*ssa.Function]bool{}
			for _, root := range []string{"RecvMsg", "Header"} {
				for _, f := range methodFamily(p, nt, root) {
					if !seenF[f] {
						seenF[f] = true
						fam = append(fam, f)
					}
				}
			}
			isEOF := func(v ssa.Value) bool { g, ok := core.GlobalLoad(v); return ok && g == "io.EOF" }
			eofGuard := func(f core.Fact) bool { return f.Op == token.EQL && (isEOF(f.X) || isEOF(f.Y)) }
			type stStore struct {
				fn *ssa.Function
				st *ssa.Store
				k  int64
			}
			var stores []stStore
			closedK, haveK := int64(0), false
			for _, f := range fam {
				core.Instrs(f, func(in ssa.Instruction) {
					st, ok := in.(*ssa.Store)
					if !ok {
						return
					}
					base, _, isF := core.FieldOf(st.Addr)
					k, isC := core.ConstInt(st.Val)
					if !isF || !isC || core.NamedOf(base.Type()) != tn || core.NamedOf(st.Val.Type()) == "" {
						return
					}
					stores = append(stores, stStore{f, st, k})
					if core.GuardedBy(st, eofGuard) {
						closedK, haveK = k, true
					}
				})
			}
			if !haveK {
				continue
			}
			for _, ss := range stores {
				if ss.k != closedK {
					continue
				}
				n++
				okEnd := core.GuardedBy(ss.st, eofGuard)
				if !okEnd {
					// inside the error-frame case
					okEnd = core.GuardedBy(ss.st, func(f core.Fact) bool {
						if f.Op != token.EQL {
							return false
						}
						call, _, isCall := core.CallResult(f.X)
						k, isC := core.ConstInt(f.Y)
						ek, haveE := kinds["err"]
						return isCall && isC && haveE && k == ek && core.InfoOf(&call.Call).Name == "kind"
					})
				}
				if !okEnd {
					// a terminal error is parked in the same block
					for _, in := range ss.st.Block().Instrs {
						if ps, isS := in.(*ssa.Store); isS && !core.IsNilConst(ps.Val) {
							if _, isFld := ps.Addr.(*ssa.FieldAddr); isFld && core.NamedOf(ps.Val.Type()) == "frame" {
								okEnd = true // a frame (pointer or value) stored into a field of the stream: the peek slot
							}
						}
					}
				}
				c.Check(okEnd, core.FuncName(ss.fn)+":state=closed:end-observed", ss.st.Pos(), "the closed state is entered where the end was observed (io.EOF of the channel, an error frame, or a parked terminal error)", "the closed state is entered on an edge where the receive merely failed (e.g. the context ended while waiting): a later receive that trusts the closed state reports a clean end (bare io.EOF) instead of Canceled / DeadlineExceeded")
			}
		}
		for _, fn := range clientFns {
			for _, ef := range core.EdgeFactsOf(fn) {
				f := ef.Fact
				if f.Op != token.NEQ || !core.IsNilConst(f.Y) {
					continue
				}
				isCtxErr := core.OriginIs(f.X, func(o ssa.Value) bool {
					call, _, ok := core.CallResult(o)
					return ok && call.Call.IsInvoke() && call.Call.Method.Name() == "Err" && core.TypeStr(call.Call.Value.Type()) == "context.Context"
				})
				if !isCtxErr {
					continue
				}
				n++
				key := fmt.Sprintf("%s:after-ctx-err#%d", core.FuncName(fn), n)
				v := core.Walk(core.Loc{B: ef.B.Succs[ef.Succ], Idx: 0}, nil, nil)
				bad := false
				for _, r := range core.ErrReturns(fn) {
					if !v[r] {
						continue
					}
					ev := r.Results[len(r.Results)-1]
					if !core.IsErrorType(ev.Type()) {
						continue
					}
					for _, l := range core.ErrLeaves(ev, r) {
						if l.Class == core.ErrNil && (l.At == ssa.Instruction(r) || v[l.At]) {
							bad = true
						}
					}
				}
				c.Check(!bad, key, ef.If.Pos(), "every return after 'ctx.Err() != nil' carries a non-nil error", "a nil (success) return is reachable after ctx.Err() != nil was established: the caller would get success with missing data instead of the cancellation status")
			}
		}
		c.EndRule()
	}

	// ---------------------------------------------------------------- R4
	if c.Rule("R4", "a handler's own context error gets the matching code: the handler's error passes a context translator before status.FromError (HTTP server) and before it is returned from a received error frame (in-process client)", 4) {
		// HTTP server
		for _, hc := range httpHandlerClosures(p) {
			hcalls := handlerInvocations(hc.Fn)
			for _, fe := range core.CallsIn(hc.Fn, func(_ *ssa.Call, ci core.CallInfo) bool {
				return ci.Is(statusPkg+".FromError") || ci.Is(statusPkg+".Convert") || ci.Is(statusPkg+".Code")
			}) {
				key := core.FuncName(hc.Fn) + ":status-of-handler-error"
				arg := fe.Call.Args[0]
				raw := core.OriginIs(arg, func(o ssa.Value) bool { return isErrResultOf(o, hcalls) })
				translated := core.AllOrigins(arg, func(o ssa.Value) bool {
					call, _, ok := core.CallResult(o)
					return ok && isTranslatorCall(&call.Call, trs)
				})
				switch {
				case translated:
					c.Ok(key, fe.Pos(), "status.FromError is applied to the translated handler error")
				case raw:
					c.Fail(key, fe.Pos(), "status.FromError is applied to the handler's raw error: a handler returning ctx.Err() is reported as Unknown instead of Canceled / DeadlineExceeded")
				default:
					c.Undecided(key, fe.Pos(), "cannot relate the argument of status.FromError to the handler's error")
				}
			}
			// the conversion done by a helper of the package that is handed the handler's error
			for _, h := range core.HelperCallsOf(hc.Fn) {
				for _, fe := range core.CallsIn(h.Callee, func(_ *ssa.Call, ci core.CallInfo) bool {
					return ci.Is(statusPkg+".FromError") || ci.Is(statusPkg+".Convert") || ci.Is(statusPkg+".Code")
				}) {
					arg := fe.Call.Args[0]
					if !derivesFromHandlerErrBound(arg, hcalls, h.Bind) {
						continue
					}
					key := core.FuncName(hc.Fn) + ":status-of-handler-error"
					raw := core.OriginIs(arg, func(o ssa.Value) bool { _, isPar := h.Bind[o]; return isPar })
					translated := core.AllOrigins(arg, func(o ssa.Value) bool {
						call, _, ok := core.CallResult(o)
						return ok && isTranslatorCall(&call.Call, trs)
					})
					switch {
					case translated:
						c.Ok(key, h.Call.Pos(), "status.FromError is applied (in %s) to the translated handler error", core.FuncName(h.Callee))
					case raw:
						c.Fail(key, fe.Pos(), "status.FromError is applied to the handler's raw error: a handler returning ctx.Err() is reported as Unknown instead of Canceled / DeadlineExceeded")
					default:
						c.Undecided(key, fe.Pos(), "cannot relate the argument of status.FromError to the handler's error")
					}
				}
			}
		}
		// in-process: a function that runs the handler itself and hands the handler's error back to its caller (a
		// fast path that skips the goroutine and the frames) translates it like the frame path does
		for _, fn := range p.LibFuncs("inprocgrpc") {
			hcs := handlerInvocations(fn)
			if len(hcs) == 0 || core.ErrResultIndex(fn.Signature) < 0 {
				continue
			}
			ei := core.ErrResultIndex(fn.Signature)
			for _, r := range core.Returns(fn) {
				if ei >= len(r.Results) {
					continue
				}
				for _, l := range core.ErrLeaves(r.Results[ei], r) {
					if isErrResultOf(l.V, hcs) {
						c.Fail(core.FuncName(fn)+":handler-error-returned-untranslated", r.Pos(), "the handler's error is returned to the caller as it is: a handler returning its own ctx.Err() is reported as Unknown instead of Canceled / DeadlineExceeded (the frame path passes it through the context translator)")
					}
				}
			}
		}
		// in-process server: where an error frame is written, a non-status error is made a status error by a
		// conversion that knows context errors (FromContextError, or a translator first) — a plain
		// status.Convert/FromError would turn the handler's own ctx.Err() into Unknown
		for _, nt := range streamTypes(p, "ServerStream", "SendMsg") {
			if pkgSuffixOf(nt) != "inprocgrpc" {
				continue
			}
			for _, fn := range typeFuncs(p, nt) {
				if fn == nil || fn.Blocks == nil {
					continue
				}
				for _, fs := range frameFieldSets(fn, "err") {
					st := struct {
						Val ssa.Value
						At  ssa.Instruction
					}{fs.Val, fs.At}
					if !core.IsErrorValue(st.Val) || core.IsNilConst(st.Val) {
						continue
					}
					for _, l := range core.ErrLeaves(st.Val, st.At) {
						ec, _, isCall := core.CallResult(l.V)
						if !isCall || !(core.InfoOf(&ec.Call).Is(istatusPkg+".Status.Err") || core.InfoOf(&ec.Call).Is(statusPkg+".Status.Err")) {
							continue
						}
						// the status whose Err() is sent: how was it made from the handler's error?
						for _, o := range core.Origins(ec.Call.Args[0]) {
							mk, _, ok := core.CallResult(o)
							if !ok {
								continue
							}
							ci := core.InfoOf(&mk.Call)
							if !(ci.Is(statusPkg+".Convert") || ci.Is(statusPkg+".FromError") || ci.Is(statusPkg+".FromContextError")) {
								continue
							}
							key := core.FuncName(fn) + ":error-frame:conversion-knows-context-errors"
							okConv := ci.Is(statusPkg+".FromContextError") || core.AllOrigins(mk.Call.Args[0], func(a ssa.Value) bool {
								tc, _, ok := core.CallResult(a)
								return ok && isTranslatorCall(&tc.Call, trs)
							})
							c.Check(okConv, key, mk.Pos(), "the handler's non-status error is converted with status.FromContextError (or after a context translator)", "the handler's non-status error is converted with "+ci.Name+" without a context translator: a handler returning its own ctx.Err() is reported as Unknown instead of Canceled / DeadlineExceeded")
						}
					}
				}
			}
		}
		// in-process client: returns of a received frame's err
		for _, fn := range p.LibFuncs("inprocgrpc") {
			isClientSide := false
			if core.RecvName(fn) != "" {
				rn := core.RecvName(fn)
				for _, nt := range streamTypes(p, "ClientStream", "RecvMsg") {
					if nt.Obj().Name() == rn {
						isClientSide = true
					}
				}
				for _, ct := range channelTypes(p, "inprocgrpc") {
					if ct.Obj().Name() == rn && fn.Name() == "Invoke" {
						isClientSide = true
					}
				}
			}
			if !isClientSide || fn.Parent() != nil {
				continue
			}
			for i, r := range core.ErrReturns(fn) {
				ev := r.Results[len(r.Results)-1]
				if !core.IsErrorType(ev.Type()) {
					continue
				}
				for _, o := range core.Origins(ev) {
					base, f, ok := core.FieldOf(o)
					if !ok || f != "err" || core.NamedOf(base.Type()) != "frame" {
						continue
					}
					key := fmt.Sprintf("%s:return#%d:frame-error", core.FuncName(fn), i)
					c.Fail(key, r.Pos(), "the error of a received frame (the handler's own error) is returned without passing a context translator: a handler returning ctx.Err() is seen as Unknown (the sibling path translates)")
				}
				// positive instances: translated frame errors
				for _, o := range core.Origins(ev) {
					call, _, ok := core.CallResult(o)
					if !ok || !isTranslatorCall(&call.Call, trs) {
						continue
					}
					if core.OriginIs(call.Call.Args[0], func(a ssa.Value) bool {
						base, f, ok := core.FieldOf(a)
						return ok && f == "err" && core.NamedOf(base.Type()) == "frame"
					}) {
						c.Ok(fmt.Sprintf("%s:return#%d:frame-error", core.FuncName(fn), i), r.Pos(), "received frame error is translated before it is returned")
					}
				}
			}
		}
		c.EndRule()
	}

	// ---------------------------------------------------------------- R9
	if c.Rule("R9", "the library ends a call on its own only when the caller has let go of the stream: a finalizer that calls the call's CancelFunc sits on an object that every stream operation keeps reachable while it runs — its methods are declared on that object (not promoted from an embedded value) and hold it until they return (a deferred call on the receiver or one of its fields, or runtime.KeepAlive after the delegated call)", 2) {
		cancelFinalizers(c)
		c.EndRule()
	}

	// ---------------------------------------------------------------- R7, R8 (HTTP deadline hand-over)
	// "the handler's context is cancelled as well" needs the deadline to reach the handler for EVERY value the
	// client can send, the smallest included: the client never sends a value the server takes for "no timeout"
	// (C09/R3: clamped to >= 1), and the server applies the deadline for every valid value (C09/R5).
	c.Borrow("C09", map[string]string{"R3": "R7", "R5": "R8"}, c09)
	// "ends with the right code": the code the return statement chose is the code returned (C02/R7: no goroutine of
	// the call writes its result variable); and over HTTP the server notices a client that went away only once the
	// request body has been read to its end, which for single-request methods the first receive does (C08/R3)
	// ---------------------------------------------------------------- R12
	if c.Rule("R12", "a caller that goes away cancels the handler: over HTTP/1.1 that works because net/http, once the request body has been consumed, watches the connection and cancels the request's context. The server therefore leaves net/http's handling of the connection alone: it neither switches the connection to full duplex (ResponseController.EnableFullDuplex removes the implicit consumption of the request body on the first reply write, and with it the watch) nor hijacks it", 1) {
		n := 0
		for _, fn := range p.LibFuncs("httpgrpc") {
			core.Instrs(fn, func(in ssa.Instruction) {
				cc := core.CallOf(in)
				if cc == nil {
					return
				}
				ci := core.InfoOf(cc)
				if ci.Name == "SetWriteDeadline" {
					n++
					c.Fail(core.FuncName(fn)+":connection-handling-left-to-net/http:"+ci.Name, in.Pos(), "the HTTP server puts a write deadline on the reply: the status of a call that ends BY its deadline (DeadlineExceeded in the trailer frame / the unary reply) is written after that moment and can no longer be written — the caller gets a cut reply (unexpected EOF / Unavailable) instead of DeadlineExceeded")
				}
				if ci.Name == "EnableFullDuplex" || ci.Name == "Hijack" || ci.Name == "SetReadDeadline" {
					n++
					c.Fail(core.FuncName(fn)+":connection-handling-left-to-net/http:"+ci.Name, in.Pos(), "the HTTP server calls %s: net/http then no longer consumes the rest of the request body when the reply is first written and does not start watching the connection for the client going away — a caller's cancel no longer reaches the handler's context", ci.Name)
				}
			})
		}
		if n == 0 {
			c.Ok("httpgrpc:connection-handling-left-to-net/http", token.NoPos, "no EnableFullDuplex / Hijack / SetReadDeadline / SetWriteDeadline in the HTTP transport")
		}
		c.EndRule()
	}
	c.Borrow("C02", map[string]string{"R7": "R10"}, c02)
	c.Borrow("C08", map[string]string{"R3": "R11"}, c08)

}

// streamCtxValue: the value stored into the ctx field of the server stream
// object passed as `a` (an interface holding a pointer to a local allocation).
func streamCtxValue(p *core.Prog, fn *ssa.Function, a ssa.Value) ssa.Value {
	allocs := map[ssa.Value]bool{}
	fns := map[*ssa.Function]bool{fn: true}
	// the stream may be built by a private constructor of the package: the object (and the store of its context)
	// then lives in that function
	for _, o := range core.XOrigins(a) {
		if al, ok := o.(*ssa.Alloc); ok {
			allocs[al] = true
			fns[al.Parent()] = true
		}
	}
	var out ssa.Value
	for f := range fns {
		streamCtxStores(f, allocs, &out)
	}
	return out
}

func streamCtxStores(fn *ssa.Function, allocs map[ssa.Value]bool, res *ssa.Value) {
	var out ssa.Value
	defer func() {
		if out != nil {
			*res = out
		}
	}()
	core.Instrs(fn, func(in ssa.Instruction) {
		st, ok := in.(*ssa.Store)
		if !ok {
			return
		}
		fa, ok := st.Addr.(*ssa.FieldAddr)
		if !ok {
			return
		}
		if _, f, _ := core.FieldOf(fa); f != "ctx" {
			return
		}
		if core.OriginIs(fa.X, func(o ssa.Value) bool { return allocs[o] }) {
			out = st.Val
		}
	})
}

// readyDoneOnAllPaths: the WaitGroup waited on in Header() is released
// (Done) by a closure that every path of the response reader calls.
func readyDoneOnAllPaths(p *core.Prog, header *ssa.Function) bool {
	pkg := ""
	if header.Pkg != nil {
		pkg = strings.TrimPrefix(header.Pkg.Pkg.Path(), core.ModulePath+"/")
	}
	for _, fn := range p.LibFuncs(pkg) {
		if fn.Parent() != nil || !mustCallRoundTrip(fn, 0) || fn.Signature.Recv() == nil {
			continue
		}
		// closures of fn that call WaitGroup.Done
		var doneClosures []*ssa.Function
		for _, a := range fn.AnonFuncs {
			if len(core.CallsIn(a, func(_ *ssa.Call, ci core.CallInfo) bool { return ci.Is("sync.WaitGroup.Done") })) > 0 {
				doneClosures = append(doneClosures, a)
			}
		}
		// ... or methods/functions of the package that fn calls and that call Done (what the literal becomes after a
		// "closure to method" clean-up)
		doneSteps := map[*ssa.Function]bool{}
		core.Instrs(fn, func(in ssa.Instruction) {
			if call, ok := in.(*ssa.Call); ok {
				if sc := call.Call.StaticCallee(); sc != nil && sc.Blocks != nil && sc != fn && strings.HasPrefix(core.InfoOf(&call.Call).Pkg, core.ModulePath) {
					if len(core.CallsIn(sc, func(_ *ssa.Call, ci core.CallInfo) bool { return ci.Is("sync.WaitGroup.Done") })) > 0 {
						doneSteps[sc] = true
					}
				}
			}
		})
		if len(doneClosures) == 0 && len(doneSteps) == 0 {
			continue
		}
		callsDone := func(in ssa.Instruction) bool {
			call, ok := in.(*ssa.Call)
			if !ok {
				return false
			}
			if sc := call.Call.StaticCallee(); sc != nil && doneSteps[sc] {
				return true
			}
			for _, o := range core.Origins(call.Call.Value) {
				if mc, ok := o.(*ssa.MakeClosure); ok {
					for _, d := range doneClosures {
						if mc.Fn == d {
							return true
						}
					}
				}
			}
			return false
		}
		ok := true
		for _, r := range core.Returns(fn) {
			if !core.MustPass(core.Entry(fn), r, callsDone) {
				ok = false
			}
		}
		if ok {
			return true
		}
	}
	return false
}

// cancelFinalizers: see C04/R9. A garbage collection that happens while the
// caller is blocked in its LAST use of the stream may run the finalizer of an
// object nothing refers to any more; if that finalizer cancels the call, the
// blocked operation returns Canceled although nobody cancelled.
func cancelFinalizers(c *core.Ctx) {
	p := c.P
	csIface := p.ExtType(grpcPkg, "ClientStream")
	n := 0
	for _, fn := range p.LibFuncs("") {
		core.Instrs(fn, func(in ssa.Instruction) {
			call, ok := in.(*ssa.Call)
			if !ok || !core.InfoOf(&call.Call).Is("runtime.SetFinalizer") || len(call.Call.Args) != 2 {
				return
			}
			// does the finalizer cancel?
			var body *ssa.Function
			for _, o := range core.Origins(call.Call.Args[1]) {
				o = core.Strip(o)
				if mi, isMI := o.(*ssa.MakeInterface); isMI {
					o = core.Strip(mi.X)
				}
				if mc, isMC := o.(*ssa.MakeClosure); isMC {
					body, _ = mc.Fn.(*ssa.Function)
				} else if f, isF := o.(*ssa.Function); isF {
					body = f
				}
			}
			if body == nil {
				if mi, isMI := core.Strip(call.Call.Args[1]).(*ssa.MakeInterface); isMI {
					if mc, isMC := core.Strip(mi.X).(*ssa.MakeClosure); isMC {
						body, _ = mc.Fn.(*ssa.Function)
					}
				}
			}
			cancels := false
			if body != nil {
				core.Instrs(body, func(bi ssa.Instruction) {
					cc := core.CallOf(bi)
					if cc != nil && !cc.IsInvoke() && cc.StaticCallee() == nil && core.TypeStr(cc.Value.Type()) == "context.CancelFunc" {
						cancels = true
					}
				})
			}
			if !cancels {
				return
			}
			n++
			// the object
			objT := core.Strip(call.Call.Args[0]).Type()
			nt, _ := core.Deref(objT).(*types.Named)
			key := core.FuncName(fn) + ":cancel-finalizer"
			if nt == nil {
				c.Undecided(key, call.Pos(), "cannot tell the type of the object the cancelling finalizer is set on")
				return
			}
			it, _ := csIface.Underlying().(*types.Interface)
			var why []string
			for i := 0; i < it.NumMethods(); i++ {
				name := it.Method(i).Name()
				m := declaredMethod(p, nt, name)
				if m == nil {
					why = append(why, name+" is promoted from an embedded value: nothing refers to the "+nt.Obj().Name()+" while the call is in progress")
					continue
				}
				if len(m.Params) == 0 || !holdsReceiver(m) {
					why = append(why, name+" does not hold its receiver until it returns")
				}
			}
			if len(why) == 0 {
				c.Ok(key+":"+nt.Obj().Name(), call.Pos(), "every ClientStream method is declared on %s and holds it until it returns", nt.Obj().Name())
			} else {
				c.Fail(key+":"+nt.Obj().Name(), call.Pos(), "a garbage collection during the caller's last (blocked) use of the stream runs this finalizer and cancels a call nobody cancelled: %s", strings.Join(why, "; "))
			}
		})
	}
	if n == 0 {
		c.OkTrivial("no-cancelling-finalizer", token.NoPos, "no finalizer calls a CancelFunc")
	}
}

// holdsReceiver: the receiver stays reachable for as long as the method can
// wait. A call keeps the receiver reachable on its own if it is handed the
// receiver or the address of one of its fields (s.mu.Lock(), the callee holds
// the pointer); a call that only gets values loaded OUT of the receiver (the
// embedded stream, a channel, a context) does not — the receiver then has to be
// referred to again later on every path to the return (a later field access, a
// runtime.KeepAlive), or by a deferred call (its operands live in the frame
// until the method returns).
func holdsReceiver(m *ssa.Function) bool {
	recv := m.Params[0]
	derives := func(v ssa.Value) bool {
		for i := 0; i < 6 && v != nil; i++ {
			v = core.ResolveFree(core.Strip(v))
			if v == ssa.Value(recv) {
				return true
			}
			switch x := v.(type) {
			case *ssa.FieldAddr:
				v = x.X
			case *ssa.UnOp:
				// *(&recv) spill cell
				if al, ok := core.Strip(x.X).(*ssa.Alloc); ok {
					for _, st := range core.StoresTo(al) {
						if core.Strip(st.Val) == ssa.Value(recv) {
							return true
						}
					}
				}
				return false
			default:
				return false
			}
		}
		return false
	}
	operandDerives := func(cc *ssa.CallCommon) bool {
		if cc.Value != nil && derives(cc.Value) {
			return true
		}
		for _, a := range cc.Args {
			if derives(a) {
				return true
			}
		}
		if mc, isMC := core.Strip(cc.Value).(*ssa.MakeClosure); isMC {
			for _, b := range mc.Bindings {
				if derives(b) {
					return true
				}
			}
		}
		return false
	}
	// a deferred call that refers to the receiver covers the whole method
	deferred := false
	core.Instrs(m, func(in ssa.Instruction) {
		if d, isD := in.(*ssa.Defer); isD && operandDerives(&d.Call) {
			deferred = true
		}
	})
	if deferred {
		return true
	}
	// an instruction that refers to the receiver
	uses := func(in ssa.Instruction) bool {
		if cc := core.CallOf(in); cc != nil {
			return operandDerives(cc)
		}
		var ops []*ssa.Value
		for _, op := range in.Operands(ops) {
			if op != nil && *op != nil && derives(*op) {
				return true
			}
		}
		return false
	}
	ok := true
	core.Instrs(m, func(in ssa.Instruction) {
		waits := false
		if cc := core.CallOf(in); cc != nil {
			if _, isCall := in.(*ssa.Call); isCall && !operandDerives(cc) {
				if _, isB := cc.Value.(*ssa.Builtin); !isB {
					waits = true
				}
			}
		}
		if _, isSel := in.(*ssa.Select); isSel {
			waits = true
		}
		if u, isU := in.(*ssa.UnOp); isU && u.Op == token.ARROW {
			waits = true
		}
		if _, isSend := in.(*ssa.Send); isSend {
			waits = true
		}
		if !waits {
			return
		}
		for _, r := range core.Returns(m) {
			if !core.MustPass(core.After(in), r, uses) {
				ok = false
			}
		}
	})
	return ok
}

// detachingLayer: a step on the derivation chain that keeps the parent's values
// but not its deadline and cancellation (context.WithoutCancel, or a wrapper
// type of the module that overrides Done or Deadline); "" if there is none.
func detachingLayer(tr *ctxTraceResult) string {
	for _, l := range tr.layerList() {
		if strings.Contains(l, "WithoutCancel") {
			return l
		}
		if strings.HasPrefix(l, "wrap:") && theProg != nil {
			name := strings.TrimPrefix(l, "wrap:")
			for _, pk := range []string{"inprocgrpc", "httpgrpc", "internal", ""} {
				nt := theProg.Named(pk, name)
				if nt == nil {
					continue
				}
				for _, t := range []types.Type{nt, types.NewPointer(nt)} {
					ms := types.NewMethodSet(t)
					for i := 0; i < ms.Len(); i++ {
						m := ms.At(i)
						// declared on the wrapper itself (not promoted from the embedded context)
						if (m.Obj().Name() == "Done" || m.Obj().Name() == "Deadline" || m.Obj().Name() == "Err") && len(m.Index()) == 1 {
							return l + " (overrides " + m.Obj().Name() + ")"
						}
					}
				}
			}
		}
	}
	return ""
}
