package rules

import (
	"fmt"
	"go/token"
	"go/types"
	"strings"

	"golang.org/x/tools/go/ssa"

	"verif/checker/internal/core"
)

func init() { register("C17", c17) }

// wrapperTypes: library types implementing grpc.ClientConnInterface that also
// declare an Unwrap method (role: client-interceptor wrapper).
func clientWrapperTypes(p *core.Prog) []*types.Named {
	it := p.ExtType(grpcPkg, "ClientConnInterface")
	var out []*types.Named
	for _, nt := range p.Implementers(it) {
		if declaredMethod(p, nt, "Unwrap") != nil && declaredMethod(p, nt, "Invoke") != nil {
			out = append(out, nt)
		}
	}
	return out
}

// boundTarget resolves a bound-method closure value to the method and receiver.
func boundTarget(p *core.Prog, v ssa.Value) (*ssa.Function, ssa.Value) {
	mc, ok := v.(*ssa.MakeClosure)
	if !ok {
		if ci, ok := v.(*ssa.ChangeType); ok {
			return boundTarget(p, ci.X)
		}
		return nil, nil
	}
	fn := mc.Fn.(*ssa.Function)
	if !strings.HasSuffix(fn.Name(), "$bound") || len(mc.Bindings) != 1 {
		return nil, nil
	}
	obj, _ := fn.Object().(*types.Func)
	if obj == nil {
		return nil, nil
	}
	return p.SSA.FuncValue(obj), mc.Bindings[0]
}

func c17(c *core.Ctx) {
	p := c.P
	c.Explain = "C17: the client-interceptor wrapper's Invoke/NewStream are compared as siblings (connection argument expression), every path is shown to dispatch exactly once with parameters forwarded positionally, and construction/unwrap are checked structurally."
	c.NotDec = []string{"behaviour of user interceptors"}
	wts := clientWrapperTypes(p)
	if len(wts) == 0 {
		c.Rule("R0", "wrapper type exists", 1)
		c.Missing("client-interceptor wrapper type (implements grpc.ClientConnInterface and declares Unwrap)")
		c.EndRule()
		return
	}
	for _, wt := range wts {
		c17Type(c, wt)
	}
}

type connExpr struct {
	shape string
	pos   token.Pos
}

// connArgShape normalises the *grpc.ClientConn argument expression.
func connArgShape(p *core.Prog, v ssa.Value, recv ssa.Value) string {
	return connArgShapeIn(p, v, recv, nil, 0)
}

// connArgShapeIn: bind maps the parameters of the helper in which v lives to
// the arguments of its call (nil in the entry point itself).
func connArgShapeIn(p *core.Prog, v ssa.Value, recv ssa.Value, bind map[ssa.Value]ssa.Value, depth int) string {
	// computed by a helper of the package: the shape of what the helper returns, its parameter standing for the argument
	if call, _, isCall := core.CallResult(v); isCall && depth < 2 && bind == nil {
		if h := call.Call.StaticCallee(); h != nil && h.Blocks != nil && h.Pkg != nil && strings.HasPrefix(h.Pkg.Pkg.Path(), core.ModulePath) && !isFullUnwrap(h) {
			b := map[ssa.Value]ssa.Value{}
			for i, pp := range h.Params {
				if i < len(call.Call.Args) {
					b[pp] = call.Call.Args[i]
				}
			}
			shape := ""
			for _, r := range core.Returns(h) {
				if len(r.Results) != 1 {
					return "other:" + v.String()
				}
				s := connArgShapeIn(p, r.Results[0], recv, b, depth+1)
				if shape != "" && s != shape {
					return "other:" + v.String()
				}
				shape = s
			}
			if shape != "" {
				return shape
			}
		}
	}
	operand := func(x ssa.Value, in *ssa.Function) (string, bool) {
		if a, ok := bind[x]; ok {
			x = a
			in = nil
		}
		if base, f, isF := core.FieldOf(x); isF {
			if in != nil && isRecv(base, in) {
				return "recv." + f, true
			}
			if in == nil && (base == recv || core.SameVal(base, recv) || sameOrigins(base, recv)) {
				return "recv." + f, true
			}
		}
		return "", false
	}
	ex, ok := v.(*ssa.Extract)
	if !ok || ex.Index != 0 {
		if c, isC := v.(*ssa.Const); isC && c.Value == nil {
			return "nil"
		}
		return "other:" + v.String()
	}
	ta, ok := ex.Tuple.(*ssa.TypeAssert)
	if !ok || !ta.CommaOk {
		return "other:" + v.String()
	}
	s := "assert[" + core.TypeStr(ta.AssertedType) + "]("
	x := ta.X
	if call, _, isCall := core.CallResult(x); isCall {
		ci := core.InfoOf(&call.Call)
		if ci.Static != nil && isFullUnwrap(ci.Static) && len(call.Call.Args) == 1 {
			s += "unwrapAll("
			x = call.Call.Args[0]
			defer func() {}()
			if d, ok := operand(x, call.Parent()); ok {
				return s + d + "))"
			}
			return s + "other))"
		}
		return s + "call:" + ci.Full() + ")"
	}
	if d, ok := operand(x, ta.Parent()); ok {
		return s + d + ")"
	}
	return s + "other)"
}

// isFullUnwrap: func(ClientConnInterface) ClientConnInterface whose every
// return is under the failed edge of an assertion to an interface having
// Unwrap, and whose loop variable is replaced by Unwrap() of the asserted value.
func isFullUnwrap(fn *ssa.Function) bool {
	if fn.Blocks == nil || len(fn.Params) != 1 || fn.Signature.Results().Len() != 1 {
		return false
	}
	if core.TypeStr(fn.Params[0].Type()) != grpcPkg+".ClientConnInterface" {
		return false
	}
	rets := core.Returns(fn)
	if len(rets) == 0 {
		return false
	}
	for _, r := range rets {
		v := r.Results[0]
		// must be guarded by !ok of TypeAssert(v) to an interface with Unwrap
		// okOf: b is the comma-ok result of asserting x to an interface that has Unwrap
		okOf := func(b, x ssa.Value) bool {
			ex, ok := b.(*ssa.Extract)
			if !ok || ex.Index != 1 {
				return false
			}
			ta, ok := ex.Tuple.(*ssa.TypeAssert)
			if !ok || !(ta.X == x || core.SameVal(ta.X, x)) {
				return false
			}
			it, ok := ta.AssertedType.Underlying().(*types.Interface)
			if !ok {
				return false
			}
			for i := 0; i < it.NumMethods(); i++ {
				if it.Method(i).Name() == "Unwrap" {
					return true
				}
			}
			return false
		}
		g := core.GuardedBy(r, func(f core.Fact) bool {
			if f.Op != token.ILLEGAL || !f.Neg {
				return false
			}
			if okOf(f.X, v) {
				return true
			}
			// "w, ok := ch.(W); for ok { ch = w.Unwrap(); w, ok = ch.(W) }": ok and ch are φ-nodes of one block,
			// and on every incoming edge ok is the assertion result for that edge's ch
			okPhi, isP1 := f.X.(*ssa.Phi)
			vPhi, isP2 := v.(*ssa.Phi)
			if !isP1 || !isP2 || okPhi.Block() != vPhi.Block() || len(okPhi.Edges) != len(vPhi.Edges) {
				return false
			}
			for i := range okPhi.Edges {
				if !okOf(okPhi.Edges[i], vPhi.Edges[i]) {
					return false
				}
			}
			return true
		})
		if !g {
			return false
		}
		// v must be the param or a phi of param and Unwrap() results
		okv := core.AllOrigins(v, func(o ssa.Value) bool {
			if o == fn.Params[0] {
				return true
			}
			if call, _, isC := core.CallResult(o); isC {
				return call.Call.IsInvoke() && call.Call.Method.Name() == "Unwrap"
			}
			return false
		})
		if !okv {
			return false
		}
	}
	return true
}

func c17Type(c *core.Ctx, wt *types.Named) {
	p := c.P
	tn := typeKey(wt)
	type entry struct {
		name    string
		fn      *ssa.Function
		intType string
	}
	entries := []entry{
		{"Invoke", declaredMethod(p, wt, "Invoke"), grpcPkg + ".UnaryClientInterceptor"},
		{"NewStream", declaredMethod(p, wt, "NewStream"), grpcPkg + ".StreamClientInterceptor"},
	}
	shapes := map[string]connExpr{}

	// ------------------------------------------------------------ R1
	r1 := c.Rule("R1", "Invoke and NewStream compute the *grpc.ClientConn given to the interceptor by the same expression: comma-ok assertion on the FULLY unwrapped channel", 3)
	for _, e := range entries {
		if e.fn == nil {
			if r1 {
				c.Missing(tn + "." + e.name)
			}
			continue
		}
		recv := e.fn.Params[0]
		for _, call := range interceptorCalls(e.fn, e.intType) {
			for _, a := range call.Call.Args {
				if core.TypeStr(a.Type()) == "*"+grpcPkg+".ClientConn" {
					sh := connArgShape(p, a, recv)
					shapes[e.name] = connExpr{sh, call.Pos()}
					if r1 {
						c.Check(strings.HasPrefix(sh, "assert[*"+grpcPkg+".ClientConn](unwrapAll(recv."), tn+"."+e.name+":cc-arg", call.Pos(),
							"cc = "+sh, "connection argument is "+sh+": not the comma-ok assertion on the fully unwrapped channel (with ≥2 wrapping layers over a *grpc.ClientConn the interceptor gets nil)")
					}
				}
			}
		}
	}
	if r1 {
		a, b := shapes["Invoke"], shapes["NewStream"]
		if a.shape == "" || b.shape == "" {
			c.Fail(tn+":sibling-cc", wt.Obj().Pos(), "could not find the interceptor call in both entry points (Invoke: %q, NewStream: %q)", a.shape, b.shape)
		} else {
			c.Check(a.shape == b.shape, tn+":sibling-cc", b.pos, "both entry points use "+a.shape,
				fmt.Sprintf("sibling disagreement: Invoke passes %s, NewStream passes %s", a.shape, b.shape))
		}
		c.EndRule()
	}

	// ------------------------------------------------------------ R2
	if c.Rule("R2", "per entry point and per edge of the 'interceptor == nil' test: exactly one dispatch (wrapped channel's same-named method / the interceptor), parameters forwarded positionally, results returned unchanged; invoker/streamer call the wrapped channel once with their own parameters", 8) {
		for _, e := range entries {
			if e.fn == nil {
				continue
			}
			c17Dispatch(c, tn, e.name, e.fn, e.intType)
		}
		c.EndRule()
	}

	// ------------------------------------------------------------ R3
	if c.Rule("R3", "constructor returns its channel when both interceptors are nil, otherwise a wrapper storing exactly that channel; Unwrap returns the stored channel; the full-unwrap loop is well-formed", 4) {
		unwrapM := declaredMethod(p, wt, "Unwrap")
		chField := ""
		if unwrapM != nil {
			rets := core.Returns(unwrapM)
			ok := len(rets) == 1
			if ok {
				base, f, isF := core.FieldOf(rets[0].Results[0])
				ok = isF && base == unwrapM.Params[0]
				chField = f
			}
			c.Check(ok, tn+".Unwrap", unwrapM.Pos(), "Unwrap returns the stored field "+chField, "Unwrap does not return exactly the stored channel field")
		}
		// constructors: functions returning grpc.ClientConnInterface that allocate wt
		n := 0
		for _, fn := range p.LibFuncs(pkgSuffixOf(wt)) {
			if fn.Parent() != nil || fn.Signature.Recv() != nil {
				continue
			}
			if core.InlineSite[fn] != nil {
				continue // a single-use private step (newWrapper(ch, …)): analysed as part of its caller
			}
			var alloc *ssa.Alloc
			core.Instrs(fn, func(in ssa.Instruction) {
				if a, ok := in.(*ssa.Alloc); ok && core.NamedOf(a.Type().Underlying().(*types.Pointer).Elem()) == wt.Obj().Name() {
					alloc = a
				}
			})
			if alloc == nil {
				// the wrapper may be built by a private constructor step whose result is returned
				for _, r := range core.Returns(fn) {
					for _, o := range core.XOrigins(r.Results[0]) {
						if a, ok := core.Strip(o).(*ssa.Alloc); ok && core.NamedOf(a.Type().Underlying().(*types.Pointer).Elem()) == wt.Obj().Name() && core.InlineSite[a.Parent()] != nil && core.InlineSite[a.Parent()].Parent() == fn {
							alloc = a
						}
					}
				}
			}
			if alloc == nil {
				continue
			}
			n++
			name := core.FuncName(fn)
			chParam := core.ParamsOfType(fn, grpcPkg+".ClientConnInterface")
			if len(chParam) != 1 {
				c.Undecided(name, fn.Pos(), "constructor without a single channel parameter")
				continue
			}
			// stored channel field = param
			stored := false
			for _, r := range core.Refs(alloc) {
				if fa, ok := r.(*ssa.FieldAddr); ok {
					if _, f, _ := core.FieldOf(fa); f == chField {
						for _, rr := range core.Refs(fa) {
							if s, ok := rr.(*ssa.Store); ok && (s.Val == chParam[0] || core.AllOrigins(core.ResolveFree(s.Val), func(o ssa.Value) bool { return o == chParam[0] })) {
								stored = true
							}
						}
					}
				}
			}
			c.Check(stored, name+":stores-ch", alloc.Pos(), "wrapper stores the constructor's channel parameter in "+chField, "wrapper does not store the constructor's channel parameter in the field Unwrap returns")
			// identity path
			ident := false
			onlyThen := true
			for _, r := range core.Returns(fn) {
				if core.Strip(r.Results[0]) == chParam[0] {
					nilFacts := 0
					for _, ef := range core.DominatingFacts(r) {
						if ef.Fact.Op == token.EQL && core.IsNilConst(ef.Fact.Y) {
							nilFacts++
						}
					}
					if nilFacts >= 2 {
						ident = true
					} else {
						onlyThen = false
					}
				}
			}
			c.Check(onlyThen, name+":identity-only-when-both-nil", fn.Pos(), "the channel is returned unchanged only under both interceptors == nil", "the channel is returned unchanged on a path where an interceptor was given (e.g. a 'already wrapped with the same interceptors' shortcut): that decoration layer is dropped, so calls are not routed through every layer once")
			c.Check(ident, name+":identity", fn.Pos(), "returns its channel unchanged on the both-interceptors-nil path", "no path returning the channel unchanged under both interceptors == nil")
			// all other returns return the alloc
			okRet := true
			for _, r := range core.Returns(fn) {
				v := core.Strip(r.Results[0])
				if v != chParam[0] && v != alloc {
					viaCtor := false
					for _, o := range core.XOrigins(r.Results[0]) {
						if core.Strip(o) == ssa.Value(alloc) {
							viaCtor = true
						}
					}
					if !viaCtor {
						okRet = false
					}
				}
			}
			c.Check(okRet, name+":returns", fn.Pos(), "every return yields the channel or the new wrapper", "a return yields something other than the channel or the new wrapper")
		}
		if n == 0 {
			c.Missing("constructor of " + tn)
		}
		// other entry points with the constructor's signature (deprecated aliases) forward to it positionally
		forwardingAliases(c, pkgSuffixOf(wt))
		// the full-unwrap function exists
		found := false
		for _, fn := range p.LibFuncs(pkgSuffixOf(wt)) {
			if fn.Parent() == nil && isFullUnwrap(fn) {
				found = true
				c.Ok(core.FuncName(fn)+":loop", fn.Pos(), "returns only on the failed assertion to the wrapper interface; loop variable replaced by Unwrap()")
			}
		}
		if !found {
			c.Fail(tn+":full-unwrap", wt.Obj().Pos(), "no well-formed full-unwrap function found")
		}
		c.EndRule()
	}
}

// isRecv: v is the receiver of the method fn belongs to (directly, through a
// spill cell, or captured by a function literal nested in that method).
func isRecv(v ssa.Value, fn *ssa.Function) bool {
	root := fn
	for root.Parent() != nil {
		root = root.Parent()
	}
	if len(root.Params) == 0 || root.Signature.Recv() == nil {
		return false
	}
	return core.AllOrigins(core.ResolveFree(v), func(o ssa.Value) bool {
		if fv, ok := o.(*ssa.FreeVar); ok {
			return isRecv(core.ResolveFree(fv), fn)
		}
		return o == ssa.Value(root.Params[0])
	})
}

func interceptorCalls(fn *ssa.Function, intType string) []*ssa.Call {
	return core.CallsIn(fn, func(call *ssa.Call, ci core.CallInfo) bool {
		return !call.Call.IsInvoke() && core.TypeStr(call.Call.Value.Type()) == intType
	})
}

// wrappedCalls: invoke-mode calls of method `name` on a value loaded from a
// field of recv.
func wrappedCalls(fn *ssa.Function, name string) []*ssa.Call {
	return core.CallsIn(fn, func(call *ssa.Call, ci core.CallInfo) bool {
		if !call.Call.IsInvoke() || call.Call.Method.Name() != name {
			return false
		}
		base, _, ok := core.FieldOf(call.Call.Value)
		return ok && isRecv(base, fn)
	})
}

func c17Dispatch(c *core.Ctx, tn, name string, fn *ssa.Function, intType string) {
	key := tn + "." + name
	isDispatch := func(in ssa.Instruction) bool {
		call, ok := in.(*ssa.Call)
		if !ok {
			return false
		}
		if !call.Call.IsInvoke() && core.TypeStr(call.Call.Value.Type()) == intType {
			return true
		}
		if call.Call.IsInvoke() && (call.Call.Method.Name() == "Invoke" || call.Call.Method.Name() == "NewStream") {
			return true
		}
		return false
	}
	mn, mx, ok := core.CountRange(core.Entry(fn), isDispatch, nil)
	c.Check(ok && mn == 1 && mx == 1, key+":exactly-once", fn.Pos(), "every path dispatches exactly once", fmt.Sprintf("dispatch count over paths is [%d,%d] (want exactly 1)", mn, mx))
	// the nil test on the interceptor field
	var iff *ssa.If
	core.Instrs(fn, func(in ssa.Instruction) {
		if i, ok := in.(*ssa.If); ok {
			f := core.CondFact(i.Cond, true)
			if (f.Op == token.EQL || f.Op == token.NEQ) && core.IsNilConst(f.Y) && core.TypeStr(f.X.Type()) == intType {
				iff = i
			}
		}
	})
	if iff == nil {
		c.Fail(key+":nil-test", fn.Pos(), "no nil test of the interceptor field found")
		return
	}
	f := core.CondFact(iff.Cond, true)
	nilSucc, nonNilSucc := 0, 1
	if f.Op == token.NEQ {
		nilSucc, nonNilSucc = 1, 0
	}
	params := fn.Params[1:] // without receiver
	isParam := func(a ssa.Value, p *ssa.Parameter) bool {
		return a == ssa.Value(p) || core.AllOrigins(a, func(o ssa.Value) bool { return o == ssa.Value(p) })
	}
	// nil edge: the wrapped channel's same-named method
	for _, wc := range wrappedCalls(fn, name) {
		dom := core.EdgeDominates(iff.Block(), nilSucc, wc)
		okArgs := len(wc.Call.Args) == len(params)
		if okArgs {
			for i, a := range wc.Call.Args {
				if !isParam(a, params[i]) {
					okArgs = false
				}
			}
		}
		c.Check(dom, key+":direct-on-nil-edge", wc.Pos(), "direct call lies on the interceptor == nil edge", "direct call to the wrapped channel is not confined to the interceptor == nil edge")
		c.Check(okArgs, key+":direct-args", wc.Pos(), "all parameters forwarded positionally (variadic slice passed through)", "parameters are not forwarded positionally unchanged to the wrapped channel")
		c.Check(returnsCall(fn, wc), key+":direct-result", wc.Pos(), "result returned unchanged", "result of the wrapped call is not returned unchanged")
	}
	if len(wrappedCalls(fn, name)) != 1 {
		c.Fail(key+":direct-call", fn.Pos(), "expected exactly one direct call of the wrapped channel's %s, found %d", name, len(wrappedCalls(fn, name)))
	}
	ics := interceptorCalls(fn, intType)
	if len(ics) != 1 {
		c.Fail(key+":interceptor-call", fn.Pos(), "expected exactly one interceptor call, found %d", len(ics))
	}
	for _, ic := range ics {
		c.Check(core.EdgeDominates(iff.Block(), nonNilSucc, ic), key+":interceptor-on-nonnil-edge", ic.Pos(), "interceptor call lies on the non-nil edge", "interceptor call not confined to the non-nil edge")
		// value called is the tested field
		c.Check(sameField(ic.Call.Value, f.X), key+":interceptor-is-tested-field", ic.Pos(), "the interceptor called is the field that was tested", "the interceptor called is not the field that was nil-tested")
		// args: params in order, skipping cc and the continuation
		var rest []ssa.Value
		var cont ssa.Value
		for _, a := range ic.Call.Args {
			ts := core.TypeStr(a.Type())
			if ts == "*"+grpcPkg+".ClientConn" {
				continue
			}
			if ts == grpcPkg+".UnaryInvoker" || ts == grpcPkg+".Streamer" {
				cont = a
				continue
			}
			rest = append(rest, a)
		}
		okArgs := len(rest) == len(params)
		if okArgs {
			for i, a := range rest {
				if !isParam(a, params[i]) {
					okArgs = false
				}
			}
		}
		c.Check(okArgs, key+":interceptor-args", ic.Pos(), "ctx, method, messages/desc and opts forwarded positionally", "interceptor is not given the entry point's parameters positionally unchanged")
		c.Check(returnsCall(fn, ic), key+":interceptor-result", ic.Pos(), "interceptor's results returned unchanged", "interceptor's results are not returned unchanged")
		// continuation
		target, recv := boundTarget(c.P, cont)
		skipRecv := 1
		if target == nil {
			// a function literal created in this entry point
			for _, o := range core.Origins(cont) {
				if mc, ok := o.(*ssa.MakeClosure); ok {
					target = mc.Fn.(*ssa.Function)
					skipRecv = 0
					recv = fn.Params[0]
				}
			}
		}
		if target == nil || !isRecv(recv, fn) {
			c.Fail(key+":continuation", ic.Pos(), "continuation handed to the interceptor is neither a method of this wrapper bound to the receiver nor a function literal of this entry point")
			continue
		}
		wcs := wrappedCalls(target, name)
		mn, mx, ok := core.CountRange(core.Entry(target), func(in ssa.Instruction) bool {
			call, isC := in.(*ssa.Call)
			return isC && (isDispatch(in) || core.InfoOf(&call.Call).Dyn)
		}, nil)
		okc := ok && mn == 1 && mx == 1 && len(wcs) == 1
		if okc {
			// own params without receiver and without the *ClientConn param
			var own []ssa.Value
			for _, pp := range target.Params[skipRecv:] {
				if core.TypeStr(pp.Type()) == "*"+grpcPkg+".ClientConn" {
					continue
				}
				own = append(own, pp)
			}
			if len(own) != len(wcs[0].Call.Args) {
				okc = false
			} else {
				for i := range own {
					if own[i] != wcs[0].Call.Args[i] {
						okc = false
					}
				}
			}
			okc = okc && returnsCall(target, wcs[0])
		}
		c.Check(okc, core.FuncName(target)+":continuation", target.Pos(), "continuation calls the wrapped channel's "+name+" exactly once with its own parameters and returns the result",
			"continuation does not call the wrapped channel's "+name+" exactly once with its own parameters, returning the result")
	}
}

func sameField(a, b ssa.Value) bool {
	ba, fa, oka := core.FieldOf(a)
	bb, fb, okb := core.FieldOf(b)
	return oka && okb && fa == fb && (ba == bb || core.SameVal(ba, bb))
}

// returnsCall: some return of fn returns exactly the results of call, and no
// return reachable after call returns anything else.
func returnsCall(fn *ssa.Function, call *ssa.Call) bool {
	found := false
	for _, r := range core.Returns(fn) {
		if !core.Reachable(core.After(call), r) {
			continue
		}
		n := fn.Signature.Results().Len()
		if n == 1 {
			if r.Results[0] != ssa.Value(call) && !core.AllOrigins(r.Results[0], func(o ssa.Value) bool { return o == ssa.Value(call) }) {
				return false
			}
		} else {
			for i, v := range r.Results {
				idx := i
				if !core.AllOrigins(v, func(o ssa.Value) bool {
					ex, ok := o.(*ssa.Extract)
					return ok && ex.Tuple == ssa.Value(call) && ex.Index == idx
				}) {
					return false
				}
			}
		}
		found = true
	}
	return found
}

// forwardingAliases: an exported function of the package whose signature is
// identical to another exported function's and that returns that function's
// result is an alias; it must hand over its own parameters, each in its own
// position, on every path.
func forwardingAliases(c *core.Ctx, pkgS string) {
	p := c.P
	for _, g := range p.LibFuncs(pkgS) {
		if g.Parent() != nil || g.Signature.Recv() != nil || g.Object() == nil || !g.Object().Exported() {
			continue
		}
		var calls []*ssa.Call
		core.Instrs(g, func(in ssa.Instruction) {
			call, ok := in.(*ssa.Call)
			if !ok {
				return
			}
			h := call.Call.StaticCallee()
			if h == nil || h == g || h.Parent() != nil || h.Signature.Recv() != nil || !core.PkgIs(h, pkgS) || h.Object() == nil || !h.Object().Exported() {
				return
			}
			if types.Identical(g.Signature, h.Signature) {
				calls = append(calls, call)
			}
		})
		if len(calls) == 0 {
			continue
		}
		key := core.FuncName(g) + ":alias-forwards"
		ok := len(calls) == 1
		if ok {
			call := calls[0]
			for i, a := range call.Call.Args {
				if core.ResolveFree(core.Strip(a)) != ssa.Value(g.Params[i]) {
					ok = false
				}
			}
			for _, r := range core.Returns(g) {
				if !core.MustPass(core.Entry(g), r, func(in ssa.Instruction) bool { return in == ssa.Instruction(call) }) {
					ok = false
				}
				for i, res := range r.Results {
					good := core.AllOrigins(res, func(o ssa.Value) bool {
						o = core.Strip(o)
						if o == ssa.Value(call) && len(r.Results) == 1 {
							return true
						}
						if ex, isEx := o.(*ssa.Extract); isEx && ex.Tuple == ssa.Value(call) && ex.Index == i {
							return true
						}
						return false
					})
					if !good {
						ok = false
					}
				}
			}
		}
		c.Check(ok, key, g.Pos(), "the alias calls its target once with its own parameters in their positions and returns the result unchanged", "an entry point with the constructor's signature does not simply forward to it (an argument replaced, dropped or reordered, a path that skips the call, or a changed result): callers of the alias get another wrapper than callers of the constructor")
	}
}
