package rules

import (
	"fmt"
	"go/token"
	"go/types"
	"os"
	"sort"
	"strings"

	"golang.org/x/tools/go/ssa"

	"verif/checker/internal/core"
)

func init() { register("C05", c05) }

// guardTableOf derives the guarded-by table from the declarations, by the
// convention the repo follows everywhere ("fields below a mutex are guarded by
// it"): in every library struct, the fields declared after a sync.Mutex /
// sync.RWMutex field, up to the next mutex field or the end of the struct, are
// guarded by that mutex. (For the five stream types this reproduces exactly
// what their comments state: "guarded by mu", "rMu protects done, rErr, and
// tr", "wmu serializes access to w and protects headersSent, writeFailed, and
// tr", …; a renamed field keeps its guard.)
func guardTableOf(p *core.Prog) map[string]map[string][]string {
	out := map[string]map[string][]string{}
	// struct types that only serve as an embedded / private grouping part of another struct of the module
	partOfOther := map[types.Type]bool{}
	for _, pkgS := range []string{"inprocgrpc", "httpgrpc", "internal"} {
		pk := p.Pkgs[core.ModulePath+"/"+pkgS]
		if pk == nil {
			continue
		}
		sc := pk.Types.Scope()
		for _, n := range sc.Names() {
			tn, ok := sc.Lookup(n).(*types.TypeName)
			if !ok {
				continue
			}
			st, ok := tn.Type().Underlying().(*types.Struct)
			if !ok {
				continue
			}
			for i := 0; i < st.NumFields(); i++ {
				f := st.Field(i)
				if _, isS := f.Type().Underlying().(*types.Struct); !isS {
					continue
				}
				nt, isN := f.Type().(*types.Named)
				if !isN || nt.Obj().Pkg() == nil || nt.Obj().Pkg() != tn.Pkg() {
					continue
				}
				if f.Embedded() || (!nt.Obj().Exported() && nt.NumMethods() == 0) {
					partOfOther[nt] = true
				}
			}
		}
	}
	for _, pkgS := range []string{"inprocgrpc", "httpgrpc", "internal"} {
		pk := p.Pkgs[core.ModulePath+"/"+pkgS]
		if pk == nil {
			continue
		}
		sc := pk.Types.Scope()
		for _, n := range sc.Names() {
			tn, ok := sc.Lookup(n).(*types.TypeName)
			if !ok || !p.IsLibFile(tn.Pos()) {
				continue
			}
			st, ok := tn.Type().Underlying().(*types.Struct)
			if !ok {
				continue
			}
			n := core.NamedOf(tn.Type()) // canonical (role) name where one is registered
			if partOfOther[tn.Type()] {
				continue // its fields are accounted to the struct that embeds / groups it
			}
			cur := ""
			for _, ff := range core.FlatFields(st) {
				ts := core.TypeStr(ff.Var.Type())
				if ts == "sync.Mutex" || ts == "sync.RWMutex" {
					cur = ff.Name
					if out[pkgS+"."+n] == nil {
						out[pkgS+"."+n] = map[string][]string{}
					}
					out[pkgS+"."+n][cur] = nil
					continue
				}
				if cur != "" {
					out[pkgS+"."+n][cur] = append(out[pkgS+"."+n][cur], ff.Name)
				}
			}
		}
	}
	return out
}

var guardTable map[string]map[string][]string

// guardException: structural, one pattern each, with its reason.
func guardException(p *core.Prog, fn *ssa.Function, fa *ssa.FieldAddr, write bool) string {
	// (a) the response reader (the method that is started as the stream's goroutine and whose
	// deferred tail publishes `done` under the lock and closes the message channel) writes the
	// trailer before publication: single writer; readers test `done` under the lock first.
	if fn.Parent() == nil && fn.Signature.Recv() != nil && mustCallRoundTrip(fn, 0) {
		publishes := false
		tails := append([]*ssa.Function{}, fn.AnonFuncs...)
		// the deferred tail may have become a method of the stream that the deferred literal calls
		for _, a := range fn.AnonFuncs {
			core.Instrs(a, func(in ssa.Instruction) {
				if cc := core.CallOf(in); cc != nil {
					if sc := cc.StaticCallee(); sc != nil && sc.Blocks != nil && core.RecvName(sc) != "" && core.RecvName(sc) == core.RecvName(fn) {
						tails = append(tails, sc)
					}
				}
			})
		}
		for _, a := range tails {
			closes, locks := false, false
			core.Instrs(a, func(in ssa.Instruction) {
				if cc := core.CallOf(in); cc != nil {
					if b, ok := cc.Value.(*ssa.Builtin); ok && b.Name() == "close" {
						closes = true
					}
					if _, acq, rel, _ := core.LockOp(cc); acq || rel {
						locks = true
					}
				}
			})
			if closes && locks {
				publishes = true
			}
		}
		if publishes {
			return "the response reader is the only writer before it publishes completion under the lock in its deferred tail; readers test the done flag under the lock first"
		}
	}
	// (b) an HTTP handler closure reads stream state after the handler returned: no stream
	// method can run any more on this request goroutine.
	if !write && fn.Parent() != nil && fn.Signature.Params().Len() == 2 && core.TypeStr(fn.Signature.Params().At(1).Type()) == "*net/http.Request" {
		hs := handlerInvocations(fn)
		if len(hs) > 0 {
			after := true
			for _, h := range hs {
				if core.Reachable(core.After(fa), h) {
					after = false
				}
			}
			if after {
				return "read by the HTTP handler closure after the gRPC handler returned: no stream method can run any more on this request goroutine"
			}
		}
	}
	return ""
}

// panicJustification: structural reasons for an explicit panic in library code.
func panicJustification(p *core.Prog, fn *ssa.Function) string {
	if reg := registryType(p); reg != nil && core.RecvName(fn) == reg.Obj().Name() && fn.Name() == "RegisterService" {
		return "C15 contract: refusing an ill-typed or duplicate registration panics (like grpc.Server)"
	}
	// a private helper whose only callers are such justified functions shares their justification (the
	// refusal moved into a helper)
	if fn.Parent() == nil && fn.Object() != nil && !fn.Object().Exported() {
		callers := map[*ssa.Function]bool{}
		for _, g := range p.LibFuncs("") {
			core.Instrs(g, func(in ssa.Instruction) {
				if cc := core.CallOf(in); cc != nil && cc.StaticCallee() == fn {
					callers[g] = true
				}
			})
		}
		if len(callers) > 0 {
			all, why := true, ""
			for g := range callers {
				if g == fn {
					all = false
					continue
				}
				j := panicJustification(p, g)
				if j == "" {
					all = false
				}
				why = j
			}
			if all {
				return why + " (in a helper called only from there)"
			}
		}
	}
	if fn.Signature.Recv() != nil && fn.Name() == "RecvMsg" {
		return "RecvMsg sanity check 'message channel closed but done == false': discharged by the invariant done=true must-precedes close under the lock in the only closer"
	}
	return ""
}

func c05(c *core.Ctx) {
	p := c.P
	c.Explain = "C05: the documented guarded-by table is enforced with a must-held lockset analysis (…Locked helpers get the intersection of their call sites; the conditional lock hand-off of the HTTP response reader is recognised); each close() of a channel is shown to execute at most once by one of three structural arguments; sends on closable channels happen under the closer's lock on a not-closed edge or before the close in the closing function; the lock-order graph is acyclic, the two mutexes of one stream are never held together and every Lock is released on every exit; explicit panics, goroutines and CancelFuncs are inventoried against justified tables."
	c.NotDec = []string{"freedom from deadlock over all interleavings (the classical causes are excluded, no schedule exploration)", "bounded time", "HTTP: 'sends return nil or io.EOF after the handler finished' (depends on the peer draining the pipe)"}
	var fns []*ssa.Function
	for _, s := range []string{"inprocgrpc", "httpgrpc", "internal", "."} {
		fns = append(fns, p.LibFuncs(s)...)
	}
	ls := core.NewLockSets(fns)
	guardTable = guardTableOf(p)

	// ---------------------------------------------------------------- R1
	if c.Rule("R1", "guarded-by discipline: every access to a guarded field outside the constructor has the documented lock in its must-held set (write lock for writes)", 40) {
		// anchors: every stream type found by role must have a mutex with guarded fields
		for _, iface := range []string{"ClientStream", "ServerStream"} {
			for _, nt := range streamTypes(p, iface, "RecvMsg") {
				if len(guardTable[typeKey(nt)]) == 0 {
					c.Missing("mutex-guarded field group in stream type " + typeKey(nt))
				}
			}
		}
		if len(guardTable) < 5 {
			c.Missing("guarded-by groups (expected the five stream / transport-stream types)")
		}
		for tk, locks := range guardTable {
			parts := strings.SplitN(tk, ".", 2)
			nt := p.Named(parts[0], parts[1])
			if nt == nil {
				c.Missing("type " + tk)
				continue
			}
			st, _ := nt.Underlying().(*types.Struct)
			have := map[string]bool{}
			if st != nil {
				for _, ff := range core.FlatFields(st) {
					have[ff.Name] = true
				}
			}
			for lk, fs := range locks {
				if !have[lk] {
					c.Missing("lock field " + tk + "." + lk)
				}
				for _, f := range fs {
					if !have[f] {
						c.Missing("guarded field " + tk + "." + f)
					}
				}
			}
			// a mutex field that is not in the table is a new, undocumented lock
			for i := 0; st != nil && i < st.NumFields(); i++ {
				ts := core.TypeStr(st.Field(i).Type())
				if (ts == "sync.Mutex" || ts == "sync.RWMutex") && locks[core.FieldName(st, i)] == nil && false {
					c.Fail(tk+"."+core.FieldName(st, i)+":untabled-lock", st.Field(i).Pos(), "mutex field not in the guarded-by table")
				}
			}
		}
		lockOf := map[string]string{} // "Type.field" -> "Type.lock"
		for tk, locks := range guardTable {
			tn := tk[strings.Index(tk, ".")+1:]
			for lk, fs := range locks {
				for _, f := range fs {
					lockOf[tn+"."+f] = tn + "." + lk
				}
			}
		}
		type acc struct {
			n, ok int
		}
		for _, fn := range fns {
			core.Instrs(fn, func(in ssa.Instruction) {
				fa, ok := in.(*ssa.FieldAddr)
				if !ok {
					return
				}
				st := derefStructT(fa.X.Type())
				if st == nil {
					return
				}
				// the field as the rules name it: of the outermost struct when reached through embedded / grouping structs
				pb, fname, okF := core.FieldOf(fa)
				if !okF {
					return
				}
				tn := core.NamedOf(pb.Type())
				lock, guarded := lockOf[tn+"."+fname]
				if !guarded {
					return
				}
				// constructor: base is a fresh local allocation of this function
				if core.AllOrigins(pb, func(o ssa.Value) bool { al, ok := o.(*ssa.Alloc); return ok && al.Parent() == fn }) && isConstructorLike(fn, fa) {
					return
				}
				// classify the access
				write := false
				for _, r := range core.Refs(fa) {
					switch x := r.(type) {
					case *ssa.Store:
						if x.Addr == ssa.Value(fa) {
							write = true
						}
					case *ssa.UnOp:
					case *ssa.FieldAddr, *ssa.IndexAddr:
						// sub-field address: a write if that is stored to
						for _, rr := range core.Refs(x.(ssa.Value)) {
							if s, ok := rr.(*ssa.Store); ok && s.Addr == x.(ssa.Value) {
								write = true
							}
						}
					default:
						write = true // address escapes (e.g. &cs.tr handed to a decoder)
					}
				}
				key := fmt.Sprintf("%s:%s.%s", core.FuncName(fn), tn, fname)
				if write {
					key += ":w"
				} else {
					key += ":r"
				}
				held := ls.HeldAt(fa)
				okHeld := held[lock] || (!write && held[lock+":R"])
				if okHeld {
					c.Ok(key, fa.Pos(), "%s held %s", lock, core.HeldList(held))
					return
				}
				if why := guardException(p, fn, fa, write); why != "" {
					c.Ok(key, fa.Pos(), "structural exception: %s", why)
					return
				}
				mode := "read"
				if write {
					mode = "written"
				}
				c.Fail(key, fa.Pos(), "field %s.%s is %s without %s held (held here: %s): data race / lost update with the other side of the stream", tn, fname, mode, lock, core.HeldList(held))
			})
		}
		c.EndRule()
	}

	// ---------------------------------------------------------------- R2 / R3
	closers := c05Closes(c, ls, fns)
	if c.Rule("R3", "no send on a closed channel: every send on a closable channel is in the closing function before the close, or under the closer's lock on a not-closed edge of its flag", 3) {
		c05Sends(c, ls, fns, closers)
		c.EndRule()
	}

	// ---------------------------------------------------------------- R4
	if c.Rule("R4", "lock order graph acyclic; the two mutexes of one stream are never held together; every Lock is released on every exit", 10) {
		var es [][2]string
		for e := range ls.Order {
			es = append(es, e)
		}
		sort.Slice(es, func(i, j int) bool { return es[i][0]+es[i][1] < es[j][0]+es[j][1] })
		for _, e := range es {
			ta, tb := e[0][:strings.Index(e[0]+".", ".")], e[1][:strings.Index(e[1]+".", ".")]
			if ta == tb {
				c.Fail("order:"+e[0]+"→"+e[1], ls.Order[e], "both mutexes of one %s are held together (the repo's rule: send and receive sides never share a critical section — deadlock risk when the peer blocks)", ta)
			}
			if _, rev := ls.Order[[2]string{e[1], e[0]}]; rev {
				c.Fail("order:"+e[0]+"↔"+e[1], ls.Order[e], "lock order cycle between %s and %s", e[0], e[1])
			}
		}
		if len(es) == 0 {
			c.OkTrivial("order:none", token.NoPos, "no lock is ever acquired while another is held (order graph has no edges)")
		} else {
			c.Ok("order:acyclic", token.NoPos, "%d order edge(s), no 2-cycle", len(es))
		}
		// the two directions of a stream do not wait for each other: a mutex that one direction holds while it
		// blocks on a channel (waiting for the peer) is never acquired by the other direction — the peer may be
		// waiting for exactly that other operation (echo handler, sender and receiver goroutines)
		c05Directions(c, ls)
		for _, fn := range fns {
			n := 0
			core.Instrs(fn, func(in ssa.Instruction) {
				call, ok := in.(*ssa.Call)
				if !ok {
					return
				}
				key, acq, _, _ := core.LockOp(&call.Call)
				if !acq || key == "" {
					return
				}
				n++
				k := fmt.Sprintf("%s:lock(%s)#%d:released", core.FuncName(fn), key, n)
				if ls.Released(call, key) {
					c.Ok(k, call.Pos(), "released on every exit (defer / explicit / deferred closure)")
				} else if handoffReleased(fn, call, key) {
					c.Ok(k, call.Pos(), "conditional hand-off: the flag store follows the Lock and the deferred closure unlocks unconditionally")
				} else {
					c.Fail(k, call.Pos(), "%s is locked but not released on some path to return: every later operation on this stream would block forever", key)
				}
			})
		}
		c.EndRule()
	}

	// ---------------------------------------------------------------- R5
	if c.Rule("R5", "no library panic: every explicit panic is tabled with its justification; the HTTP RecvMsg sanity panics are discharged by the closer's invariant", 3) {
		for _, fn := range fns {
			core.Instrs(fn, func(in ssa.Instruction) {
				pn, ok := in.(*ssa.Panic)
				if !ok || !pn.Pos().IsValid() {
					return // compiler-generated (select fallthrough)
				}
				name := core.FuncName(fn)
				key := name + ":panic"
				why := panicJustification(p, fn)
				if why == "" {
					c.Fail(key, pn.Pos(), "explicit panic in library code is not in the justified table: an interleaving or input reaching it crashes the caller")
					return
				}
				if strings.Contains(name, "RecvMsg") {
					// invariant: in every closer of rCh, done=true precedes the close under rMu
					okInv := false
					for _, cl := range closers {
						if cl.field == "rCh" && cl.doneBefore {
							okInv = true
						}
					}
					if !okInv {
						c.Fail(key, pn.Pos(), "the panic's invariant does not hold: some closer of rCh does not set done=true (under rMu) before close(rCh)")
						return
					}
					// and the panic is guarded by !done after a closed receive
					g := core.GuardedBy(pn, func(f core.Fact) bool { return f.Op == token.ILLEGAL && f.Neg })
					if !g {
						c.Fail(key, pn.Pos(), "panic is not confined to the '!done' edge")
						return
					}
				}
				c.Ok(key, pn.Pos(), "%s", why)
			})
		}
		// implicit panics of sync/atomic.Value: Store, Swap and CompareAndSwap panic when the value offered is nil or
		// of another concrete type than the one stored first. Every value the library offers to one atomic.Value
		// must therefore have one statically known concrete type (an `error` variable holds many)
		nAV := 0
		for _, fn := range fns {
			core.Instrs(fn, func(in ssa.Instruction) {
				cc := core.CallOf(in)
				if cc == nil {
					return
				}
				ci := core.InfoOf(cc)
				if !(ci.Pkg == "sync/atomic" && ci.Recv == "Value" && (ci.Name == "Store" || ci.Name == "Swap" || ci.Name == "CompareAndSwap")) {
					return
				}
				nAV++
				args := core.Args(cc)
				newV := args[len(args)-1]
				key := core.FuncName(fn) + ":atomic.Value." + ci.Name + ":one-concrete-type"
				kinds := map[string]bool{}
				dyn := false
				for _, o := range core.Origins(newV) {
					if mi, ok := o.(*ssa.MakeInterface); ok {
						if _, isIface := mi.X.Type().Underlying().(*types.Interface); isIface {
							dyn = true
						} else {
							kinds[core.TypeStr(mi.X.Type())] = true
						}
						continue
					}
					dyn = true
				}
				if dyn || len(kinds) != 1 {
					c.Fail(key, in.Pos(), "the value offered to the atomic.Value has no single static concrete type (%v%s): sync/atomic panics on a nil value and on a value whose concrete type differs from the first one stored — two failure paths that record different error types crash the caller", keysOf(kinds), map[bool]string{true: ", or a dynamic one", false: ""}[dyn])
				} else {
					c.Ok(key, in.Pos(), "always a %v", keysOf(kinds))
				}
			})
		}
		if nAV == 0 {
			c.OkTrivial("library:atomic.Value-writes", token.NoPos, "the library writes no sync/atomic.Value")
		}
		c.EndRule()
	}

	// ---------------------------------------------------------------- R6
	if c.Rule("R6", "goroutine and CancelFunc inventory: every go body blocks only in ctx-guarded selects or bounded I/O; every CancelFunc obtained in per-call code is deferred, stored where it is called, registered with a finalizer, or returned to a caller that defers it", 8) {
		c05Goroutines(c, fns)
		c05Cancels(c, fns)
		c05ReplyBodyClosed(c, fns)
		c.EndRule()
	}

	// ---------------------------------------------------------------- R14
	if c.Rule("R14", "HTTP server: the stream does not touch its ResponseWriter once the handler has returned (net/http recycles the writer when the HTTP handler function ends; a goroutine the stream handler left behind would write into freed or re-used state: a nil-pointer panic in the server process): the stream has a 'finished' flag that the HTTP handler sets, on every path and under the stream's write lock, after the stream handler has returned, and every use of the writer field in the stream's methods lies on an edge where that flag was found false", 3) {
		c05HTTPServerFence(c)
		c.EndRule()
	}

	// ---------------------------------------------------------------- R8
	if c.Rule("R8", "a WaitGroup a stream operation waits on is released exactly once: Add(1) once in the constructor, every caller of the constructor starts the releasing goroutine on all paths, and that goroutine calls Done exactly once on every path to its return", 1) {
		c05WaitGroups(c, p, fns)
		c.EndRule()
	}

	// ---------------------------------------------------------------- R7
	if c.Rule("R7", "completion unblocks the peer: the server-done CancelFunc is called before the final blocking frame writes; the HTTP request pipe reader is closed on every path of the completion defer; a receive side that declares the stream done cancels the context the reply reader's sends are guarded by", 3) {
		c05DoneBeforeFinalWrites(c, fns)
		// (c) a consumer that gives up on the message channel (declares the stream done from the receive side)
		// cancels the context, so that the producer blocked in its ctx-guarded send is released
		nGiveUp := 0
		for _, nt := range streamTypes(p, "ClientStream", "RecvMsg") {
			if pkgSuffixOf(nt) != "httpgrpc" {
				continue
			}
			tn := nt.Obj().Name()
			for _, f := range methodFamily(p, nt, "RecvMsg") {
				core.Instrs(f, func(in ssa.Instruction) {
					st, ok := in.(*ssa.Store)
					if !ok {
						return
					}
					base, fld, isF := core.FieldOf(st.Addr)
					if b, isC := core.ConstBool(st.Val); !isF || !isC || !b || core.NamedOf(base.Type()) != tn {
						return
					}
					nGiveUp++
					key := core.FuncName(f) + ":" + fld + "=true:cancels-producer"
					isCancel := func(x ssa.Instruction) bool {
						call, isCall := x.(*ssa.Call)
						if !isCall {
							return false
						}
						_, _, okF := core.FieldOf(call.Call.Value)
						return okF && core.TypeStr(call.Call.Value.Type()) == "context.CancelFunc"
					}
					ok2 := true
					for _, r := range core.Returns(f) {
						if core.Reachable(core.After(st), r) && !core.MustPass(core.After(st), r, isCancel) {
							ok2 = false
						}
					}
					c.Check(ok2, key, st.Pos(), "the receive side marks the stream done and cancels the call's context on every path: the reply reader blocked in its ctx-guarded send is released", "the receive side marks the stream done (it will not read the message channel again) without cancelling the call's context: the reply reader stays blocked in its send on the message channel (a goroutine and the HTTP connection leak)")
				})
			}
		}
		if nGiveUp == 0 {
			c.Fail("httpgrpc:receive-side-give-up", token.NoPos, "ANCHOR-MISSING: no receive-side store of done=true found in the HTTP client stream")
		}
		// (b) the closer of the HTTP message channel closes the request pipe reader on all paths
		m := 0
		for _, cl := range closers {
			if cl.typ != "clientStream" || cl.field == "" {
				continue
			}
			m++
			key := core.FuncName(cl.fn) + ":pipe-closed-on-completion"
			isPipeClose := func(x ssa.Instruction) bool {
				cc := core.CallOf(x)
				if cc == nil {
					return false
				}
				ci := core.InfoOf(cc)
				return ci.Is("io.PipeReader.CloseWithError") || ci.Is("io.PipeReader.Close")
			}
			ok := true
			for _, r := range core.Returns(cl.fn) {
				if !core.MustPass(core.Entry(cl.fn), r, isPipeClose) {
					ok = false
				}
			}
			c.Check(ok, key, cl.call.Pos(), "the request pipe reader is closed on every path of the completion function", "the completion function can finish without closing the request pipe reader: a SendMsg blocked on the request body never returns (and holds the write lock)")
		}
		if m == 0 {
			c.Fail("httpgrpc:completion", token.NoPos, "ANCHOR-MISSING: no closer of the HTTP client stream's message channel found")
		}
		c.EndRule()
	}

	// ---------------------------------------------------------------- R10
	if c.Rule("R10", "a client stream that declares the call failed on its own — an error it constructs in its receive path: too many responses, an undecodable message — cancels the call's context before it returns: nobody will receive from the stream again, so the other side's pending frame hand-over (the reply reader's send, the handler's SendMsg) has to be released, or a goroutine stays parked until the caller's context ends or a finalizer runs", 2) {
		n := 0
		for _, nt := range streamTypes(p, "ClientStream", "RecvMsg") {
			for _, f := range methodFamily(p, nt, "RecvMsg") {
				core.Instrs(f, func(in ssa.Instruction) {
					call, ok := in.(*ssa.Call)
					if !ok {
						return
					}
					code, isCtor := core.StatusCtorCode(call)
					viaHelper := false
					if !isCtor {
						// a check helper of the module that answers with an error it constructs (checkSize(n, max) error)
						if h := call.Call.StaticCallee(); h != nil && h.Blocks != nil && strings.HasPrefix(core.InfoOf(&call.Call).Pkg, core.ModulePath) && core.RecvName(h) != nt.Obj().Name() && mayMakeStatusError(h, 0) {
							isCtor, viaHelper, code = true, true, -1
						}
					}
					if !isCtor || code == 0 {
						return
					}
					n++
					isCancel := func(x ssa.Instruction) bool {
						cc := core.CallOf(x)
						if cc == nil || cc.IsInvoke() || cc.StaticCallee() != nil {
							return false
						}
						if _, isCall := x.(*ssa.Call); !isCall {
							return false
						}
						return core.TypeStr(cc.Value.Type()) == "context.CancelFunc"
					}
					// a path on which the stream's terminal error was found already recorded needs no cancel: the
					// reader has finished (or another branch cancelled) — the edge "errField != nil" is not followed
					alreadyOver := func(b *ssa.BasicBlock, si int) bool {
						iff, isIf := b.Instrs[len(b.Instrs)-1].(*ssa.If)
						if !isIf {
							return true
						}
						fc := core.CondFact(iff.Cond, si == 0)
						if fc.Op == token.NEQ && core.IsNilConst(fc.Y) && core.IsErrorType(fc.X.Type()) {
							if _, _, isF := core.FieldOf(fc.X); isF {
								return false
							}
						}
						return true
					}
					okAll := true
					reach := core.Walk(core.After(call), isCancel, alreadyOver)
					for _, r := range core.Returns(f) {
						if !reach[r] {
							continue
						}
						if viaHelper {
							// only the returns that hand back the helper's error
							hands := false
							for _, res := range r.Results {
								if core.IsErrorType(res.Type()) && core.OriginIs(res, func(o ssa.Value) bool { return core.Strip(o) == ssa.Value(call) }) {
									hands = true
								}
							}
							if !hands {
								continue
							}
						}
						okAll = false
					}
					c.Check(okAll, fmt.Sprintf("%s:own-failure#%d:cancels-the-call", core.FuncName(f), n), call.Pos(), "every path from the constructed error to a return passes the call's CancelFunc", "the receive path constructs a terminal error (code "+fmt.Sprint(code)+") and returns without cancelling the call: the peer's pending frame hand-over is never taken, so a library goroutine (the HTTP reply reader / the in-process handler goroutine) stays blocked after the call is over for the caller")
				})
			}
		}
		if n < 2 {
			c.Fail("client-streams:own-failures", token.NoPos, "ANCHOR-MISSING: expected the client streams' own terminal errors (>1 response on both transports), found %d", n)
		}
		c.EndRule()
	}

	// ---------------------------------------------------------------- R11
	if c.Rule("R11", "the in-process handler's RecvMsg waits for the one message it returns: on no path of it does a second blocking receive from the request channel follow the first — on a full-duplex channel the client need not send or half-close until it has seen a reply, so a handler that is made to wait for 'what comes after' its request never gets to reply", 1) {
		n := 0
		for _, nt := range streamTypes(p, "ServerStream", "RecvMsg") {
			if pkgSuffixOf(nt) != "inprocgrpc" {
				continue
			}
			fn := declaredMethod(p, nt, "RecvMsg")
			if fn == nil {
				continue
			}
			var takes func(f *ssa.Function, depth int) bool
			takes = func(f *ssa.Function, depth int) bool {
				if f == nil || f.Blocks == nil || depth > 2 {
					return false
				}
				if receivesFromParam(f) {
					return true
				}
				found := false
				core.Instrs(f, func(in ssa.Instruction) {
					switch x := in.(type) {
					case *ssa.Select:
						for _, st := range x.States {
							if st.Dir == types.RecvOnly && isFrameChan(st.Chan.Type()) {
								found = true
							}
						}
					case *ssa.UnOp:
						if x.Op == token.ARROW && isFrameChan(x.X.Type()) {
							found = true
						}
					case *ssa.Call:
						if h := x.Call.StaticCallee(); h != nil && h != f && core.PkgIs(h, "inprocgrpc") && takes(h, depth+1) {
							found = true
						}
					}
				})
				return found
			}
			isTake := func(in ssa.Instruction) bool {
				switch x := in.(type) {
				case *ssa.Select:
					for _, st := range x.States {
						if st.Dir == types.RecvOnly && isFrameChan(st.Chan.Type()) {
							return true
						}
					}
				case *ssa.UnOp:
					return x.Op == token.ARROW && isFrameChan(x.X.Type())
				case *ssa.Call:
					h := x.Call.StaticCallee()
					return h != nil && core.PkgIs(h, "inprocgrpc") && takes(h, 0)
				}
				return false
			}
			_, mx, ok := core.CountRange(core.Entry(fn), isTake, nil)
			n++
			key := core.FuncName(fn) + ":one-receive-per-call"
			switch {
			case !ok:
				c.Undecided(key, fn.Pos(), "no return reachable")
			case mx == 0:
				c.Fail(key, fn.Pos(), "ANCHOR-MISSING: the handler's RecvMsg takes nothing from the request channel")
			case mx > 1:
				c.Fail(key, fn.Pos(), "the handler's RecvMsg can wait for a second frame after it has one (a look-ahead for a surplus request, say): it returns only when the client sends again or half-closes, which a full-duplex client may do only after the reply this handler has yet to send")
			default:
				c.Ok(key, fn.Pos(), "exactly one frame is waited for per call")
			}
		}
		if n == 0 {
			c.Missing("in-process server stream RecvMsg")
		}
		c.EndRule()
	}

	// ---------------------------------------------------------------- R9 (shared)
	// a header accessor that stays in its receiving state takes (and blocks for) another frame on every call: on a
	// ping-pong stream the second Header() blocks for ever holding the receive lock (C20/R6)
	c.Borrow("C20", map[string]string{"R6": "R9"}, c20)
	// a cancel of the call's own context (the stream's cancel function: the finalizer's, the receive side's when it
	// fails the call itself) ends the HTTP exchange only if the request is bound to that very context (C04/R3)
	c.Borrow("C04", map[string]string{"R3": "R13"}, c04)
	// "receives drain what was delivered and then yield the final status" — and go on yielding it: a frame the receive
	// path keeps in its peek slot is cleared only when it was a message that has been copied out, never when it is the
	// error frame that later calls must see again (C01/R3)
	c.Borrow("C01", map[string]string{"R3": "R15"}, c01)
	// "receives drain what was delivered and then yield the final status": over HTTP nothing can be left undelivered
	// when the final status is published, because the reader hands messages over synchronously (C01/R14)
	c.Borrow("C01", map[string]string{"R14": "R16"}, c01)
	// a reply frame that is not flushed is a reply the client waits for until the handler returns — and a handler
	// that waits for the client's answer to it never returns (C01/R12)
	c.Borrow("C01", map[string]string{"R12": "R12"}, c01)

}

// isConstructorLike: the access initialises a composite literal (the base
// Alloc has not yet been stored anywhere / passed to a call before).
func isConstructorLike(fn *ssa.Function, fa *ssa.FieldAddr) bool {
	base := fa.X
	if pb, _, ok := core.FieldOf(fa); ok {
		base = pb // through embedded / grouping structs: the object being built
	}
	for _, o := range core.Origins(base) {
		al, ok := o.(*ssa.Alloc)
		if !ok {
			return false
		}
		// escaped before this access? (stored into another location, passed to go/call)
		escapedBefore := false
		for _, r := range core.Refs(al) {
			switch x := r.(type) {
			case *ssa.FieldAddr, *ssa.UnOp:
			case *ssa.Store:
				if x.Val == ssa.Value(al) && x.Addr != ssa.Value(al) {
					// stored into a cell/field: the object becomes reachable by others only if that
					// location is shared; a local spill cell is fine
					if _, isAlloc := x.Addr.(*ssa.Alloc); !isAlloc {
						if core.Reachable(core.After(x), fa) {
							escapedBefore = true
						}
					}
				}
			case *ssa.MakeInterface, *ssa.Call, *ssa.Go:
				if in, ok := r.(ssa.Instruction); ok && core.Reachable(core.After(in), fa) {
					if _, isMI := r.(*ssa.MakeInterface); !isMI {
						escapedBefore = true
					}
				}
			}
		}
		if escapedBefore {
			return false
		}
	}
	return true
}

// handoffReleased: the Lock is immediately followed by a store of true to a
// captured bool cell that a deferred closure tests before locking itself, and
// that closure unlocks unconditionally.
func handoffReleased(fn *ssa.Function, lock *ssa.Call, key string) bool {
	loc := core.LocOf(lock)
	if loc.Idx+1 >= len(loc.B.Instrs) {
		return false
	}
	st, ok := loc.B.Instrs[loc.Idx+1].(*ssa.Store)
	if !ok {
		return false
	}
	if b, isC := core.ConstBool(st.Val); !isC || !b {
		return false
	}
	cell, ok := st.Addr.(*ssa.Alloc)
	if !ok {
		return false
	}
	// no cycle through the lock
	if core.LoopOf(fn)[lock.Block()] >= 0 {
		// allowed only if every path from the lock leaves the loop (returns) without re-locking
		if core.Reachable(core.After(st), lock) {
			return false
		}
	}
	// deferred closure capturing the cell that unlocks key on all paths
	ok2 := false
	core.Instrs(fn, func(in ssa.Instruction) {
		df, isD := in.(*ssa.Defer)
		if !isD {
			return
		}
		mc, isMC := df.Call.Value.(*ssa.MakeClosure)
		if !isMC {
			return
		}
		captures := false
		for _, b := range mc.Bindings {
			if b == ssa.Value(cell) {
				captures = true
			}
		}
		if !captures {
			return
		}
		cl := mc.Fn.(*ssa.Function)
		unlock := false
		core.Instrs(cl, func(x ssa.Instruction) {
			if cc := core.CallOf(x); cc != nil {
				if k, _, rel, _ := core.LockOp(cc); rel && k == key {
					unlock = true
				}
			}
		})
		if unlock {
			ok2 = true
		}
	})
	return ok2
}

type closeSite struct {
	fn         *ssa.Function
	call       *ssa.Call
	field      string // "" for a local channel
	typ        string
	lock       string
	flagField  string
	flagVal    string // constant stored to the flag before the close
	doneBefore bool
}

// c05Closes implements R2 and returns the close sites.
func c05Closes(c *core.Ctx, ls *core.LockSets, fns []*ssa.Function) []closeSite {
	var out []closeSite
	active := c.Rule("R2", "each channel is closed at most once: (a) deferred/go closure of the function that made the channel, executed once; (b) under a lock, on the not-closed edge of a flag that is then set; (c) method with a single call site of kind (a) with respect to the object's construction", 5)
	for _, fn := range fns {
		core.Instrs(fn, func(in ssa.Instruction) {
			cc := core.CallOf(in)
			if cc == nil {
				return
			}
			b, ok := cc.Value.(*ssa.Builtin)
			if !ok || b.Name() != "close" {
				return
			}
			call, _ := in.(*ssa.Call)
			cs := closeSite{fn: fn, call: call}
			ch := cc.Args[0]
			key := core.FuncName(fn) + ":close(" + core.ValName(ch) + ")"
			// what is closed
			var made *ssa.MakeChan
			chOrigins := core.Origins(ch)
			for _, o := range chOrigins {
				// a parameter of a "virtual closure" stands for the argument of its only call
				if r := core.ResolveFree(o); r != o {
					chOrigins = append(chOrigins, core.Origins(r)...)
				}
			}
			for _, o := range chOrigins {
				if mk, ok := o.(*ssa.MakeChan); ok {
					made = mk
				}
				if base, f, ok := core.FieldOf(o); ok {
					cs.field = f
					cs.typ = core.NamedOf(base.Type())
				}
			}
			held := ls.HeldAt(in)
			for h := range held {
				if strings.HasPrefix(h, cs.typ+".") && !strings.HasSuffix(h, ":R") {
					cs.lock = h
				}
			}
			// flag stores preceding the close in the same block
			blk := in.Block()
			for _, x := range blk.Instrs {
				if x == in {
					break
				}
				if st, ok := x.(*ssa.Store); ok {
					if base, f, ok := core.FieldOf(st.Addr); ok && core.NamedOf(base.Type()) == cs.typ {
						if bv, isB := core.ConstBool(st.Val); isB && bv {
							cs.flagField, cs.flagVal = f, "true"
							if f == "done" {
								cs.doneBefore = cs.lock != ""
							}
						} else if k, isI := core.ConstInt(st.Val); isI {
							cs.flagField, cs.flagVal = f, fmt.Sprint(k)
						}
					}
				}
			}
			// path-based: done=true stored on every path to the close, under the lock
			if cs.field != "" {
				if core.MustPass(core.Entry(fn), in, func(x ssa.Instruction) bool {
					st, ok := x.(*ssa.Store)
					if !ok {
						return false
					}
					_, f, isF := core.FieldOf(st.Addr)
					bv, isB := core.ConstBool(st.Val)
					return isF && f == "done" && isB && bv
				}) {
					cs.doneBefore = cs.lock != ""
					if cs.flagField == "" {
						cs.flagField, cs.flagVal = "done", "true"
					}
				}
			}
			inLoop := core.LoopOf(fn)[blk] >= 0
			argA := false
			if made != nil && !inLoop {
				// (a): the closing function is the maker or a literal nested in it, created once, run once (defer/go/direct)
				root := fn
				for root != made.Parent() {
					if root.Parent() != nil {
						root = root.Parent()
					} else if site := core.InlineSite[root]; site != nil {
						root = site.Parent()
					} else {
						break
					}
				}
				if root == made.Parent() && closureRunsOnce(fn, made.Parent()) {
					argA = true
				}
			}
			argB := false
			if cs.field != "" && cs.lock != "" && !inLoop {
				// (b): dominated by !flag and followed by flag=true
				var flagF string
				g := core.GuardedBy(in, func(f core.Fact) bool {
					if f.Op != token.ILLEGAL || !f.Neg {
						return false
					}
					base, ff, ok := core.FieldOf(f.X)
					if ok && core.NamedOf(base.Type()) == cs.typ {
						flagF = ff
						return true
					}
					return false
				})
				if g {
					setAfter := false
					v := core.Walk(core.After(in), nil, nil)
					for x := range v {
						if st, ok := x.(*ssa.Store); ok {
							if _, ff, ok := core.FieldOf(st.Addr); ok && ff == flagF {
								if bv, isB := core.ConstBool(st.Val); isB && bv {
									setAfter = true
								}
							}
						}
					}
					if setAfter {
						argB = true
						cs.flagField, cs.flagVal = flagF, "true"
					}
				}
				// the same with a state enum for a flag: on the `state == open` (or `state != closed`) edge, and the
				// state is given another constant (resp. that constant) afterwards
				if !argB {
					var openK, closedK *int64
					flagF = ""
					g := core.GuardedBy(in, func(f core.Fact) bool {
						if f.Op != token.EQL && f.Op != token.NEQ {
							return false
						}
						x, y := f.X, f.Y
						if _, isC := core.ConstInt(x); isC {
							x, y = y, x
						}
						k, isC := core.ConstInt(y)
						base, ff, ok := core.FieldOf(x)
						if !isC || !ok || core.NamedOf(base.Type()) != cs.typ {
							return false
						}
						if _, isBool := x.Type().Underlying().(*types.Basic); !isBool || x.Type().Underlying().(*types.Basic).Info()&types.IsInteger == 0 {
							return false
						}
						flagF = ff
						kk := k
						if f.Op == token.EQL {
							openK = &kk
						} else {
							closedK = &kk
						}
						return true
					})
					if g && flagF != "" {
						v := core.Walk(core.After(in), nil, nil)
						for x := range v {
							if st, ok := x.(*ssa.Store); ok {
								if _, ff, ok := core.FieldOf(st.Addr); ok && ff == flagF {
									if k, isI := core.ConstInt(st.Val); isI && ((openK != nil && k != *openK) || (closedK != nil && k == *closedK)) {
										argB = true
										cs.flagField, cs.flagVal = flagF, fmt.Sprint(k)
									}
								}
							}
						}
					}
				}
			}
			argC := false
			if cs.field != "" && !inLoop {
				// (c): the enclosing method has exactly one call site in the library, which is a defer/go
				// (or inside a literal that runs once) in the function chain that constructs the object
				m := fn
				for m.Parent() != nil {
					if !closureRunsOnce(m, m.Parent()) {
						m = nil
						break
					}
					m = m.Parent()
				}
				if m != nil && core.RecvName(m) != "" {
					var sites []ssa.Instruction
					var siteFns []*ssa.Function
					for _, g := range fns {
						core.Instrs(g, func(x ssa.Instruction) {
							if c2 := core.CallOf(x); c2 != nil && core.InfoOf(c2).Static == m {
								sites = append(sites, x)
								siteFns = append(siteFns, g)
							}
						})
					}
					// the single site may sit in another method of the type that itself has a single site (the
					// closer as the deferred tail of finish): climb
					for hop := 0; hop < 3 && len(sites) == 1 && core.LoopOf(siteFns[0])[sites[0].Block()] < 0; hop++ {
						up := siteFns[0]
						if up.Parent() != nil || core.RecvName(up) != cs.typ {
							break
						}
						var s2 []ssa.Instruction
						var f2 []*ssa.Function
						for _, g := range fns {
							core.Instrs(g, func(x ssa.Instruction) {
								if c2 := core.CallOf(x); c2 != nil && core.InfoOf(c2).Static == up {
									s2 = append(s2, x)
									f2 = append(f2, g)
								}
							})
						}
						if len(s2) != 1 {
							break
						}
						sites, siteFns = s2, f2
					}
					if len(sites) == 1 && core.LoopOf(siteFns[0])[sites[0].Block()] < 0 {
						// the site's function chain constructs the receiver object
						root := siteFns[0]
						okRun := true
						for root.Parent() != nil {
							if !closureRunsOnce(root, root.Parent()) {
								okRun = false
							}
							root = root.Parent()
						}
						constructs := false
						core.InstrsDeep(root, func(_ *ssa.Function, x ssa.Instruction) {
							if al, ok := x.(*ssa.Alloc); ok && core.NamedOf(al.Type().Underlying().(*types.Pointer).Elem()) == cs.typ {
								constructs = true
							}
							if c3, ok := x.(*ssa.Call); ok && core.NamedOf(c3.Type()) == cs.typ && core.InfoOf(&c3.Call).Static != nil {
								constructs = true // constructor helper
							}
						})
						if okRun && constructs {
							argC = true
						}
					}
				}
			}
			out = append(out, cs)
			if !active {
				return
			}
			switch {
			case argA:
				c.Ok(key, in.Pos(), "(a) closed by a once-run closure of the function that made the channel")
			case argB:
				c.Ok(key, in.Pos(), "(b) under %s, on the !%s edge, flag set afterwards", cs.lock, cs.flagField)
			case argC:
				c.Ok(key, in.Pos(), "(c) enclosing method has a single call site, run once, in the function that constructs the object")
			default:
				c.Fail(key, in.Pos(), "cannot show that this channel is closed at most once (none of the three accepted arguments applies): a second close panics")
			}
		})
	}
	if active {
		c.EndRule()
	}
	return out
}

// closureRunsOnce: literal fn (nested in parent) is created outside any loop
// and invoked by defer / go / a direct call outside any loop.
func closureRunsOnce(fn, parent *ssa.Function) bool {
	if fn == parent {
		return true
	}
	if fn.Parent() == nil {
		// a "virtual closure": its only call (go / defer / call) outside any loop
		site := core.InlineSite[fn]
		if site == nil || core.LoopOf(site.Parent())[site.Block()] >= 0 {
			return false
		}
		return closureRunsOnce(site.Parent(), parent)
	}
	sites := core.ClosureSites(fn)
	if len(sites) != 1 {
		return false
	}
	par := fn.Parent()
	if core.LoopOf(par)[sites[0].Block()] >= 0 {
		return false
	}
	uses := 0
	okUse := true
	for _, r := range core.Refs(sites[0]) {
		switch x := r.(type) {
		case *ssa.Defer, *ssa.Go:
			uses++
		case *ssa.Call:
			if x.Call.Value == ssa.Value(sites[0]) && core.LoopOf(par)[x.Block()] < 0 {
				uses++
			} else {
				okUse = false
			}
		case *ssa.Store:
			okUse = false // stored in a variable: may be called any number of times
		default:
			okUse = false
		}
	}
	if !okUse || uses != 1 {
		return false
	}
	return closureRunsOnce(par, parent)
}

// frameWriters: package functions that send on their channel parameter.
func sendsOnParam(fn *ssa.Function) int {
	if fn == nil || fn.Blocks == nil {
		return -1
	}
	idx := -1
	core.Instrs(fn, func(in ssa.Instruction) {
		var ch ssa.Value
		switch x := in.(type) {
		case *ssa.Send:
			ch = x.Chan
		case *ssa.Select:
			for _, st := range x.States {
				if st.Dir == types.SendOnly {
					ch = st.Chan
				}
			}
		}
		if par, ok := ch.(*ssa.Parameter); ok {
			for i, pp := range fn.Params {
				if pp == par {
					idx = i
				}
			}
		}
	})
	return idx
}

type sendSite struct {
	fn    *ssa.Function
	instr ssa.Instruction
	ch    ssa.Value
}

func sendSites(fns []*ssa.Function) []sendSite {
	var out []sendSite
	for _, fn := range fns {
		core.Instrs(fn, func(in ssa.Instruction) {
			switch x := in.(type) {
			case *ssa.Send:
				out = append(out, sendSite{fn, in, x.Chan})
			case *ssa.Select:
				for _, st := range x.States {
					if st.Dir == types.SendOnly {
						out = append(out, sendSite{fn, in, st.Chan})
					}
				}
			case *ssa.Call:
				ci := core.InfoOf(&x.Call)
				if ci.Static != nil {
					if i := sendsOnParam(ci.Static); i >= 0 && i < len(x.Call.Args) {
						out = append(out, sendSite{fn, in, x.Call.Args[i]})
					}
				}
			}
		})
	}
	return out
}

// chanOrigins resolves a channel value to its origins, following the results
// of statically resolved helper calls (a getter that hands out the stream's
// channel field does not hide the field from the send-after-close rule).
func chanOrigins(v ssa.Value, depth int) []ssa.Value {
	var out []ssa.Value
	for _, o := range core.Origins(v) {
		idx := 0
		call, isCall := o.(*ssa.Call)
		if ex, ok := o.(*ssa.Extract); ok {
			if c2, ok2 := ex.Tuple.(*ssa.Call); ok2 {
				call, isCall, idx = c2, true, ex.Index
			}
		}
		if !isCall || depth >= 3 {
			out = append(out, o)
			continue
		}
		callee := core.InfoOf(&call.Call).Static
		if callee == nil || callee.Blocks == nil {
			out = append(out, o)
			continue
		}
		for _, r := range core.Returns(callee) {
			if idx < len(r.Results) {
				out = append(out, chanOrigins(r.Results[idx], depth+1)...)
			}
		}
	}
	return out
}

func c05Sends(c *core.Ctx, ls *core.LockSets, fns []*ssa.Function, closers []closeSite) {
	for _, s := range sendSites(fns) {
		var typ, field string
		unresolved := ""
		for _, o := range chanOrigins(s.ch, 0) {
			if base, f, ok := core.FieldOf(o); ok {
				typ, field = core.NamedOf(base.Type()), f
				continue
			}
			switch o.(type) {
			case *ssa.Parameter, *ssa.MakeChan, *ssa.Const, *ssa.FreeVar:
				// parameter: the caller's site is checked; local channel: closed by its maker after use
			default:
				unresolved = fmt.Sprintf("%T", o)
			}
		}
		if field == "" {
			if unresolved != "" {
				c.Undecided(fmt.Sprintf("%s:send(?)", core.FuncName(s.fn)), s.instr.Pos(), "cannot tell which channel this send uses (origin %s): it may be a closable stream channel", unresolved)
			}
			continue
		}
		var cl *closeSite
		for i := range closers {
			if closers[i].typ == typ && closers[i].field == field {
				cl = &closers[i]
			}
		}
		key := fmt.Sprintf("%s:send(%s.%s)", core.FuncName(s.fn), typ, field)
		if cl == nil {
			c.OkTrivial(key, s.instr.Pos(), "channel %s.%s is never closed", typ, field)
			continue
		}
		// in the closing function (chain), before the close
		if closerChain(cl.fn)[s.fn] {
			c.Ok(key, s.instr.Pos(), "send in the closing function; the close runs in its deferred tail")
			continue
		}
		if cl.lock == "" {
			// closer holds no lock: the sender must be the closer's own goroutine (same function) or ctx-coordinated
			if typ == "clientStream" {
				// rCh: sent by the response reader only (checked: s.fn is the closer's root above) — any other sender is a violation
			}
			c.Fail(key, s.instr.Pos(), "send on %s.%s outside the function that closes it, and the close is not under a lock: send-after-close panic possible", typ, field)
			continue
		}
		held := ls.HeldAt(s.instr)
		if !held[cl.lock] {
			c.Fail(key, s.instr.Pos(), "send on %s.%s without the closer's lock %s (held: %s): a concurrent close makes this send panic", typ, field, cl.lock, core.HeldList(held))
			continue
		}
		if notClosedGuard(ls, fns, s.fn, s.instr, typ, cl, 0) {
			c.Ok(key, s.instr.Pos(), "under %s and on a not-closed edge of %s.%s", cl.lock, typ, cl.flagField)
		} else {
			c.Fail(key, s.instr.Pos(), "send on %s.%s under %s but not dominated by a 'not closed' test of flag %s (closer stores %s before closing): after the close this send panics", typ, field, cl.lock, cl.flagField, cl.flagVal)
		}
	}
}

// notClosedGuard: instr is dominated by a fact on the closer's flag field
// implying "not closed", or fn is a helper all of whose call sites are.
func notClosedGuard(ls *core.LockSets, fns []*ssa.Function, fn *ssa.Function, instr ssa.Instruction, typ string, cl *closeSite, depth int) bool {
	if cl.flagField == "" {
		return false
	}
	g := core.GuardedBy(instr, func(f core.Fact) bool {
		// the flag load may sit on either side
		try := func(x, y ssa.Value, op token.Token) bool {
			base, ff, ok := core.FieldOf(x)
			if !ok || ff != cl.flagField || core.NamedOf(base.Type()) != typ {
				return false
			}
			if cl.flagVal == "true" {
				return false
			}
			k, isC := core.ConstInt(y)
			if !isC {
				return false
			}
			closed := cl.flagVal
			if op == token.NEQ && fmt.Sprint(k) == closed {
				return true
			}
			if op == token.EQL && fmt.Sprint(k) != closed {
				return true
			}
			return false
		}
		if f.Op == token.ILLEGAL {
			base, ff, ok := core.FieldOf(f.X)
			return ok && ff == cl.flagField && core.NamedOf(base.Type()) == typ && cl.flagVal == "true" && f.Neg
		}
		return try(f.X, f.Y, f.Op) || try(f.Y, f.X, f.Op)
	})
	if g {
		return true
	}
	if depth >= 2 {
		return false
	}
	// helper: all call sites guarded
	n := 0
	okAll := true
	for _, caller := range fns {
		core.Instrs(caller, func(x ssa.Instruction) {
			if cc := core.CallOf(x); cc != nil && core.InfoOf(cc).Static == fn {
				n++
				// the closing function's own chain is fine (its enclosing functions, and the function that runs it
				// as its deferred tail when the closer is a single-use method)
				if closerChain(cl.fn)[caller] {
					return
				}
				if !notClosedGuard(ls, fns, caller, x, typ, cl, depth+1) {
					okAll = false
				}
			}
		})
	}
	return n > 0 && okAll
}

func c05Goroutines(c *core.Ctx, fns []*ssa.Function) {
	n := 0
	for _, fn := range fns {
		core.Instrs(fn, func(in ssa.Instruction) {
			g, ok := in.(*ssa.Go)
			if !ok {
				return
			}
			n++
			key := fmt.Sprintf("%s:go#%d", core.FuncName(fn), n)
			var body *ssa.Function
			ci := core.InfoOf(&g.Call)
			if ci.Static != nil {
				body = ci.Static
			}
			for _, o := range core.Origins(g.Call.Value) {
				if mc, ok := o.(*ssa.MakeClosure); ok {
					body = mc.Fn.(*ssa.Function)
				}
			}
			if body == nil || body.Blocks == nil {
				c.Undecided(key, g.Pos(), "goroutine body cannot be resolved")
				return
			}
			bad := ""
			core.InstrsDeep(body, func(f *ssa.Function, x ssa.Instruction) {
				switch y := x.(type) {
				case *ssa.Send:
					bad = "bare channel send"
				case *ssa.UnOp:
					if y.Op == token.ARROW {
						bad = "bare channel receive"
					}
				case *ssa.Select:
					hasDone := false
					for _, st := range y.States {
						for _, o := range core.Origins(st.Chan) {
							if dc, ok := o.(*ssa.Call); ok && dc.Call.IsInvoke() && dc.Call.Method.Name() == "Done" {
								hasDone = true
							}
						}
					}
					if !hasDone && y.Blocking {
						bad = "blocking select without ctx.Done()"
					}
				case *ssa.Call:
					if core.InfoOf(&y.Call).Is("sync.WaitGroup.Wait") || core.InfoOf(&y.Call).Is("time.Sleep") {
						bad = "unbounded wait"
					}
				}
			})
			if bad != "" {
				c.Fail(key, g.Pos(), "goroutine body contains a %s: it can outlive the call", bad)
			} else {
				c.Ok(key, g.Pos(), "body %s blocks only in ctx-guarded selects, handler code or ctx-bound I/O", core.FuncName(body))
			}
		})
	}
}

func c05Cancels(c *core.Ctx, fns []*ssa.Function) {
	for _, fn := range fns {
		n := 0
		core.Instrs(fn, func(in ssa.Instruction) {
			call, ok := in.(*ssa.Call)
			if !ok {
				return
			}
			ci := core.InfoOf(&call.Call)
			if !(ci.Is("context.WithCancel") || ci.Is("context.WithTimeout") || ci.Is("context.WithDeadline")) {
				return
			}
			n++
			key := fmt.Sprintf("%s:%s#%d:cancel", core.FuncName(fn), ci.Name, n)
			var cancel ssa.Value
			for _, r := range core.Refs(call) {
				if ex, ok := r.(*ssa.Extract); ok && ex.Index == 1 {
					cancel = ex
				}
			}
			if cancel == nil || len(core.Refs(cancel)) == 0 {
				c.Fail(key, call.Pos(), "the CancelFunc is dropped: the derived context (and its timer/goroutine) leaks until the parent ends")
				return
			}
			how := cancelDisposition(fns, fn, cancel, 0)
			if how == "" {
				c.Fail(key, call.Pos(), "the CancelFunc is neither deferred, stored where it is called, registered with a finalizer nor returned to a deferring caller: the context leaks")
			} else {
				c.Ok(key, call.Pos(), "%s", how)
			}
		})
	}
}

// cancelDisposition describes how a CancelFunc value is eventually called.
func cancelDisposition(fns []*ssa.Function, fn *ssa.Function, v ssa.Value, depth int) string {
	if depth > 3 {
		return ""
	}
	var hows []string
	var visit func(v ssa.Value)
	seen := map[ssa.Value]bool{}
	visit = func(v ssa.Value) {
		if seen[v] {
			return
		}
		seen[v] = true
		for _, r := range core.Refs(v) {
			switch x := r.(type) {
			case *ssa.Defer:
				if x.Call.Value == v {
					hows = append(hows, "deferred")
				}
			case *ssa.ChangeType:
				visit(x)
			case *ssa.MakeInterface:
				visit(x)
			case *ssa.Phi:
				visit(x)
			case *ssa.Store:
				if x.Val != v {
					continue
				}
				switch a := x.Addr.(type) {
				case *ssa.Alloc:
					// cell: look at loads, also in closures
					for _, ld := range core.LoadsOf(a) {
						visit(ld)
						// a load inside a closure handed to SetFinalizer / deferred
						if cf := ld.Parent(); cf != fn {
							for _, s := range core.ClosureSites(cf) {
								for _, rr := range core.Refs(s) {
									switch y := rr.(type) {
									case *ssa.Defer:
										hows = append(hows, "called by a deferred closure")
									case *ssa.MakeInterface:
										for _, r3 := range core.Refs(y) {
											if c3, ok := r3.(*ssa.Call); ok && core.InfoOf(&c3.Call).Is("runtime.SetFinalizer") {
												hows = append(hows, "called by the finalizer of the returned stream")
											}
										}
									case *ssa.Call:
										if core.InfoOf(&y.Call).Is("runtime.SetFinalizer") {
											hows = append(hows, "called by the finalizer of the returned stream")
										}
									}
								}
							}
						}
					}
				case *ssa.FieldAddr:
					_, f, _ := core.FieldOf(a)
					tn := core.NamedOf(a.X.Type())
					// is that field called somewhere?
					called := false
					for _, g := range fns {
						core.Instrs(g, func(y ssa.Instruction) {
							if cc := core.CallOf(y); cc != nil {
								if base, ff, ok := core.FieldOf(cc.Value); ok && ff == f && core.NamedOf(base.Type()) == tn {
									called = true
								}
							}
						})
					}
					if called {
						hows = append(hows, "stored in "+tn+"."+f+", which is called")
					}
				}
			case *ssa.Call:
				if x.Call.Value == v {
					hows = append(hows, "called")
					continue
				}
				// passed as an argument to a repo function: follow the parameter
				ci := core.InfoOf(&x.Call)
				if ci.Static != nil && ci.Static.Blocks != nil {
					for i, a := range x.Call.Args {
						if a == v && i < len(ci.Static.Params) {
							if h := cancelDisposition(fns, ci.Static, ci.Static.Params[i], depth+1); h != "" {
								hows = append(hows, "passed to "+core.FuncName(ci.Static)+": "+h)
							}
						}
					}
				}
			case *ssa.Go:
				// handed to the goroutine that is started here: follow the parameter
				if callee := x.Call.StaticCallee(); callee != nil && callee.Blocks != nil {
					for i, a := range x.Call.Args {
						if a == v && i < len(callee.Params) {
							if h := cancelDisposition(fns, callee, callee.Params[i], depth+1); h != "" {
								hows = append(hows, "passed to the goroutine "+core.FuncName(callee)+": "+h)
							}
						}
					}
				}
			case *ssa.Return:
				// returned: every caller must dispose of it
				idx := -1
				for i, res := range x.Results {
					if res == v {
						idx = i
					}
				}
				okAll, n := true, 0
				for _, g := range fns {
					core.Instrs(g, func(y ssa.Instruction) {
						c2, ok := y.(*ssa.Call)
						if !ok || core.InfoOf(&c2.Call).Static != fn {
							return
						}
						n++
						disposed := false
						for _, rr := range core.Refs(c2) {
							if ex, ok := rr.(*ssa.Extract); ok && ex.Index == idx {
								if cancelDisposition(fns, g, ex, depth+1) != "" {
									disposed = true
								}
							}
						}
						if !disposed {
							okAll = false
						}
					})
				}
				if n > 0 && okAll {
					hows = append(hows, fmt.Sprintf("returned to %d caller(s) that defer it", n))
				}
			case *ssa.UnOp:
			}
		}
	}
	visit(v)
	if len(hows) == 0 {
		return ""
	}
	sort.Strings(hows)
	return strings.Join(uniq(hows), "; ")
}

func uniq(s []string) []string {
	var out []string
	for i, x := range s {
		if i == 0 || x != s[i-1] {
			out = append(out, x)
		}
	}
	return out
}

// c05WaitGroups implements R8.
func c05WaitGroups(c *core.Ctx, p *core.Prog, fns []*ssa.Function) {
	type site struct {
		fn   *ssa.Function
		call *ssa.Call
	}
	type wg struct{ waits, dones, adds []site }
	groups := map[string]*wg{}
	var order []string
	for _, fn := range fns {
		core.Instrs(fn, func(in ssa.Instruction) {
			call, ok := in.(*ssa.Call)
			if !ok {
				return
			}
			ci := core.InfoOf(&call.Call)
			kind := ""
			switch {
			case ci.Is("sync.WaitGroup.Wait"):
				kind = "wait"
			case ci.Is("sync.WaitGroup.Done"):
				kind = "done"
			case ci.Is("sync.WaitGroup.Add"):
				kind = "add"
			default:
				return
			}
			if len(call.Call.Args) == 0 {
				return
			}
			k := ""
			for _, o := range core.Origins(call.Call.Args[0]) {
				if base, f, ok := core.FieldOf(o); ok {
					k = core.NamedOf(base.Type()) + "." + f
				}
			}
			if k == "" {
				k = "local:" + core.FuncName(rootOf(fn)) + ":" + core.ValName(call.Call.Args[0])
			}
			g := groups[k]
			if g == nil {
				g = &wg{}
				groups[k] = g
				order = append(order, k)
			}
			s := site{fn, call}
			switch kind {
			case "wait":
				g.waits = append(g.waits, s)
			case "done":
				g.dones = append(g.dones, s)
			case "add":
				g.adds = append(g.adds, s)
			}
		})
	}
	sort.Strings(order)
	for _, k := range order {
		g := groups[k]
		if len(g.waits) == 0 {
			continue
		}
		key := k + ":released-exactly-once"
		pos := g.waits[0].call.Pos()
		if len(g.dones) == 0 {
			c.Fail(key, pos, "WaitGroup %s is waited on but no library code calls Done on it: the wait never returns", k)
			continue
		}
		// the releasing function: root of the functions that call Done
		var rel *ssa.Function
		doneFns := map[*ssa.Function]bool{}
		stepOf := map[*ssa.Function]*ssa.Function{} // a top-level function that calls Done, all of whose callers sit in one function
		multi := false
		for _, d := range g.dones {
			doneFns[d.fn] = true
			r := rootOf(d.fn)
			// what used to be a function literal of the releasing function may have become a method of the stream
			// ("closure to method"): if every call of it sits in one and the same function, that one releases
			if r == d.fn {
				var callerRoot *ssa.Function
				same := true
				for _, cf := range fns {
					core.Instrs(cf, func(in ssa.Instruction) {
						if cc := core.CallOf(in); cc != nil && cc.StaticCallee() == d.fn {
							cr := rootOf(cf)
							if callerRoot != nil && callerRoot != cr {
								same = false
							}
							callerRoot = cr
						}
					})
				}
				if callerRoot != nil && same && callerRoot != d.fn {
					stepOf[d.fn] = callerRoot
					r = callerRoot
				}
			}
			if rel != nil && rel != r {
				multi = true
			}
			rel = r
		}
		if multi {
			c.Undecided(key, pos, "Done on %s is called from several top-level functions: cannot pair them with one Add", k)
			continue
		}
		isDone := func(in ssa.Instruction) bool {
			call, ok := in.(*ssa.Call)
			if !ok {
				return false
			}
			for _, d := range g.dones {
				if d.call == call {
					return true
				}
			}
			for _, o := range core.Origins(call.Call.Value) {
				if mc, ok := o.(*ssa.MakeClosure); ok {
					if f, _ := mc.Fn.(*ssa.Function); f != nil && doneFns[f] {
						return true
					}
				}
			}
			if sc := call.Call.StaticCallee(); sc != nil && stepOf[sc] != nil {
				return true
			}
			return false
		}
		bad := ""
		for f := range doneFns {
			if f == rel {
				continue
			}
			if stepOf[f] == rel {
				mn, mx, ok := core.CountRange(core.Entry(f), isDone, nil)
				if !ok || mn != 1 || mx != 1 {
					bad = fmt.Sprintf("%s calls Done between %d and %d times, want exactly once", core.FuncName(f), mn, mx)
				}
				continue
			}
			if f.Parent() != rel {
				bad = fmt.Sprintf("Done is called in %s, which is not a direct closure of %s", core.FuncName(f), core.FuncName(rel))
				continue
			}
			// deferred use of the closure would also be fine, but is not what the repo does: require plain calls
			for _, mc := range core.ClosureSites(f) {
				for _, r := range core.Refs(mc) {
					switch r.(type) {
					case *ssa.Defer, *ssa.Go:
						bad = fmt.Sprintf("closure %s that calls Done is deferred or started as a goroutine: its execution count is not decided here", core.FuncName(f))
					}
				}
			}
			mn, mx, ok := core.CountRange(core.Entry(f), isDone, nil)
			if !ok || mn != 1 || mx != 1 {
				bad = fmt.Sprintf("closure %s calls Done between %d and %d times, want exactly once", core.FuncName(f), mn, mx)
			}
		}
		mn, mx, ok := core.CountRange(core.Entry(rel), isDone, nil)
		if bad == "" && (!ok || mn != 1 || mx != 1) {
			mxs := fmt.Sprint(mx)
			if mx >= core.Inf {
				mxs = "unbounded"
			}
			bad = fmt.Sprintf("%s releases the WaitGroup between %d and %s times on its paths, want exactly once: with 0 the waiting operation (Header) never returns, even after the call has completed; with 2 the counter goes negative and panics", core.FuncName(rel), mn, mxs)
		}
		// Add: constant 1, outside loops, and each caller of the adding function starts rel as a goroutine on all paths
		if bad == "" && len(g.adds) != 1 {
			bad = fmt.Sprintf("%d Add sites for %s, want exactly one", len(g.adds), k)
		}
		if bad == "" {
			a := g.adds[0]
			n, isC := core.ConstInt(a.call.Call.Args[len(a.call.Call.Args)-1])
			if !isC || n != 1 {
				bad = "Add with a delta other than the constant 1"
			} else if core.LoopOf(a.fn)[a.call.Block()] >= 0 {
				bad = "Add inside a loop"
			}
			startsRel := func(in ssa.Instruction) bool {
				g, ok := in.(*ssa.Go)
				return ok && core.InfoOf(&g.Call).Static == rel
			}
			callers := 0
			selfStarts := false
			core.Instrs(a.fn, func(in ssa.Instruction) {
				if startsRel(in) {
					selfStarts = true
				}
			})
			if bad == "" && selfStarts {
				// Add and go in the same function: after the Add every path to a return starts the releasing goroutine
				callers = 1
				for _, r := range core.Returns(a.fn) {
					if core.Reachable(core.After(a.call), r) && !core.MustPass(core.After(a.call), r, startsRel) {
						bad = fmt.Sprintf("%s can return after Add(1) without starting %s: nothing would ever release %s", core.FuncName(a.fn), core.FuncName(rel), k)
					}
				}
			} else if bad == "" {
				if mn, mx, ok := core.CountRange(core.Entry(a.fn), func(in ssa.Instruction) bool { return in == ssa.Instruction(a.call) }, nil); !ok || mn != 1 || mx != 1 {
					bad = fmt.Sprintf("%s does not execute Add exactly once on every path", core.FuncName(a.fn))
				}
			}
			for _, caller := range p.LibFuncs("") {
				if selfStarts {
					break
				}
				core.Instrs(caller, func(in ssa.Instruction) {
					cc := core.CallOf(in)
					if cc == nil || core.InfoOf(cc).Static != a.fn {
						return
					}
					if _, isGo := in.(*ssa.Go); isGo {
						return
					}
					callers++
					for _, r := range core.Returns(caller) {
						if core.Reachable(core.After(in), r) && !core.MustPass(core.After(in), r, startsRel) {
							bad = fmt.Sprintf("%s obtains a stream from %s but can return without starting %s: nothing would ever release %s", core.FuncName(caller), core.FuncName(a.fn), core.FuncName(rel), k)
						}
					}
				})
			}
			if bad == "" && callers == 0 && a.fn != rel {
				bad = fmt.Sprintf("no call site of %s found", core.FuncName(a.fn))
			}
		}
		if bad != "" {
			c.Fail(key, pos, "%s", bad)
		} else {
			c.Ok(key, pos, "Add(1) once in %s; every caller starts %s; Done exactly once on each of its paths (%d Done site(s))", core.FuncName(g.adds[0].fn), core.FuncName(rel), len(g.dones))
		}
	}
}

func rootOf(fn *ssa.Function) *ssa.Function {
	for fn.Parent() != nil {
		fn = fn.Parent()
	}
	return fn
}

// c05DoneBeforeFinalWrites: functions that write frames and signal completion
// through a CancelFunc field of their receiver signal first (C05/R7a; also the
// release clause of C20: a sender blocked by backpressure is released when the
// peer finishes).
func c05DoneBeforeFinalWrites(c *core.Ctx, fns []*ssa.Function) {
	n := 0
	// the signal itself is real for every kind of method: what the in-process server stream keeps as its done signal
	// is, on every path, the CancelFunc of a context made with context.WithCancel, and the context the client stream
	// watches while it sends is that call's context — not a no-op / nil for the kinds of method "that send only once"
	// (a raw NewStream client may send as often as it likes on any of them)
	nSig := 0
	for _, fn := range fns {
		if !core.PkgIs(fn, "inprocgrpc") {
			continue
		}
		core.Instrs(fn, func(in ssa.Instruction) {
			st, ok := in.(*ssa.Store)
			if !ok {
				return
			}
			base, fld, isF := core.FieldOf(st.Addr)
			if !isF || core.TypeStr(st.Val.Type()) != "context.CancelFunc" || !strings.Contains(core.NamedOf(base.Type()), "ServerStream") {
				return
			}
			nSig++
			var wc *ssa.Call
			var isReal func(o ssa.Value, depth int) bool
			isReal = func(o ssa.Value, depth int) bool {
				for k := 0; k < 4; k++ {
					if r := core.ResolveFree(o); r != o {
						o = r
						continue
					}
					break
				}
				if os := core.Origins(o); len(os) == 1 && os[0] != o && depth < 3 {
					return isReal(os[0], depth+1)
				}
				cr, idx, isC := core.CallResult(o)
				if isC && idx == 1 && core.InfoOf(&cr.Call).Is("context.WithCancel") {
					wc = cr
					return true
				}
				// a constructor's parameter: what its callers hand it
				if par, isPar := o.(*ssa.Parameter); isPar && depth < 2 {
					pf := par.Parent()
					pi := -1
					for i, pp := range pf.Params {
						if pp == par {
							pi = i
						}
					}
					nSites, okAll := 0, true
					for _, g := range fns {
						core.Instrs(g, func(x ssa.Instruction) {
							cc := core.CallOf(x)
							if cc == nil || cc.StaticCallee() != pf || pi < 0 || pi >= len(cc.Args) {
								return
							}
							nSites++
							if !core.AllOrigins(cc.Args[pi], func(a ssa.Value) bool { return isReal(a, depth+1) }) {
								okAll = false
							}
						})
					}
					return nSites > 0 && okAll
				}
				return false
			}
			real := core.AllOrigins(st.Val, func(o ssa.Value) bool { return isReal(o, 0) })
			key := core.FuncName(fn) + ":" + fld + ":done-signal-is-a-real-cancel"
			c.Check(real, key, st.Pos(), "the server stream's done signal is the CancelFunc of a context.WithCancel on every path", "the server stream's done signal can be something other than the CancelFunc of a WithCancel context (a no-op for some kinds of method): when the handler of such a method finishes, a client still sending is not released")
			if !real || wc == nil {
				return
			}
			// the client stream watches that context
			watched := false
			root := fn
			for k := 0; k < 6; k++ {
				if root.Parent() != nil {
					root = root.Parent()
				} else if site := core.InlineSite[root]; site != nil {
					root = site.Parent()
				} else {
					break
				}
			}
			core.InstrsDeep(root, func(_ *ssa.Function, x ssa.Instruction) {
				s2, ok := x.(*ssa.Store)
				if !ok || core.TypeStr(s2.Val.Type()) != "context.Context" {
					return
				}
				b2, _, isF2 := core.FieldOf(s2.Addr)
				if !isF2 || !strings.Contains(core.NamedOf(b2.Type()), "ClientStream") {
					return
				}
				if core.AllOrigins(s2.Val, func(o ssa.Value) bool {
					cr, idx, isC := core.CallResult(core.ResolveFree(o))
					return isC && idx == 0 && cr == wc
				}) {
					watched = true
				}
			})
			c.Check(watched, key+":watched-by-the-client-stream", st.Pos(), "a context field of the client stream holds that very context on every path", "no context field of the client stream holds (on every path) the context that the server stream's done signal cancels: a blocked client send does not see the handler finish")
		})
	}
	if nSig == 0 {
		c.Fail("inprocgrpc:server-done-signal", token.NoPos, "ANCHOR-MISSING: no CancelFunc stored into the in-process server stream")
	}
	for _, fn := range fns {
		if core.RecvName(fn) == "" || fn.Parent() != nil {
			continue
		}
		var cancelCalls []ssa.Instruction
		core.Instrs(fn, func(in ssa.Instruction) {
			if cc := core.CallOf(in); cc != nil {
				if _, _, ok := core.FieldOf(cc.Value); ok && core.TypeStr(cc.Value.Type()) == "context.CancelFunc" {
					if _, isCall := in.(*ssa.Call); isCall {
						cancelCalls = append(cancelCalls, in)
					} else {
						cancelCalls = append(cancelCalls, nil) // deferred (or go): runs after the writes below it — too late
					}
				}
			}
		})
		core.InstrsDeep(fn, func(f *ssa.Function, in ssa.Instruction) {
			if f == fn {
				return
			}
			if cc := core.CallOf(in); cc != nil {
				if _, _, ok := core.FieldOf(cc.Value); ok && core.TypeStr(cc.Value.Type()) == "context.CancelFunc" {
					cancelCalls = append(cancelCalls, nil) // called from a nested literal (e.g. the deferred tail): too late
				}
			}
		})
		sends := sendSites([]*ssa.Function{fn})
		// frame writes made through a forwarding method (sendFrameLocked(f)) count as well
		core.Instrs(fn, func(in ssa.Instruction) {
			if call, ok := in.(*ssa.Call); ok {
				if cal := call.Call.StaticCallee(); cal != nil && sendsOnParam(cal) < 0 && isInprocFrameWriter(cal) {
					sends = append(sends, sendSite{fn, in, nil})
				}
			}
		})
		// … and the writes made by a single-use step function the finisher calls (sendFinalFramesLocked)
		core.Instrs(fn, func(in ssa.Instruction) {
			if call, ok := in.(*ssa.Call); ok {
				if cal := call.Call.StaticCallee(); cal != nil && cal.Blocks != nil && core.InlineSite[cal] == in && len(sendSites([]*ssa.Function{cal})) > 0 {
					sends = append(sends, sendSite{fn, in, nil})
				}
			}
		})
		if len(cancelCalls) == 0 || len(sends) == 0 {
			continue
		}
		n++
		key := core.FuncName(fn) + ":done-signal-before-final-writes"
		ok := true
		for _, s := range sends {
			if !core.MustPass(core.Entry(fn), s.instr, func(x ssa.Instruction) bool {
				for _, cc := range cancelCalls {
					if cc != nil && cc == x {
						return true
					}
				}
				return false
			}) {
				ok = false
			}
		}
		c.Check(ok, key, fn.Pos(), "the completion CancelFunc is called before every blocking frame write of this function", "a final frame write can block before the completion signal is given: a client blocked in SendMsg (full request buffer) and a server blocked writing its final frames deadlock")
		// … and the signal does not itself wait for the mutex those writes are made under: another goroutine
		// parked in a frame write holds it for as long as the peer does not receive
		held := map[string]bool{}
		var acquires []ssa.Instruction
		core.Instrs(fn, func(in ssa.Instruction) {
			cc := core.CallOf(in)
			if cc == nil {
				return
			}
			if _, isCall := in.(*ssa.Call); !isCall {
				return
			}
			k, acq, _, _ := core.LockOp(cc)
			if k == "" || !acq {
				return
			}
			acquires = append(acquires, in)
			v := core.Walk(core.After(in), func(x ssa.Instruction) bool {
				if xc := core.CallOf(x); xc != nil {
					if _, isCall := x.(*ssa.Call); isCall {
						if k2, _, rel, _ := core.LockOp(xc); rel && k2 == k {
							return true
						}
					}
				}
				return false
			}, nil)
			for _, sd := range sends {
				if v[sd.instr] {
					held[k] = true
				}
			}
		})
		waits := ""
		for _, a := range acquires {
			k, _, _, _ := core.LockOp(core.CallOf(a))
			if !held[k] {
				continue
			}
			for _, cc := range cancelCalls {
				if cc != nil && core.Reachable(core.After(a), cc) {
					waits = k
				}
			}
		}
		c.Check(waits == "", core.FuncName(fn)+":done-signal-takes-no-write-lock", fn.Pos(), "the completion CancelFunc is called before this function acquires the mutex its frame writes are made under", "the completion signal is given only after acquiring "+waits+", the mutex held across blocking frame writes: while another goroutine is parked in a frame write under it, the peer's blocked sender is not released when this side finishes")
	}
	if n == 0 {
		c.Fail("inprocgrpc:finish", token.NoPos, "ANCHOR-MISSING: no function found that both signals completion through a CancelFunc field and writes final frames")
	}
}

// blocksOnChannel: fn (a module function) contains a blocking channel operation
// (blocking select, send, receive), directly or through module callees (depth 3).
func blocksOnChannel(fn *ssa.Function, depth int) bool {
	if fn == nil || fn.Blocks == nil || depth > 3 {
		return false
	}
	found := false
	core.Instrs(fn, func(in ssa.Instruction) {
		if found {
			return
		}
		switch x := in.(type) {
		case *ssa.Select:
			if x.Blocking {
				found = true
			}
		case *ssa.Send:
			found = true
		case *ssa.UnOp:
			if x.Op == token.ARROW {
				found = true
			}
		case *ssa.Call:
			ci := core.InfoOf(&x.Call)
			if ci.Static != nil && strings.HasPrefix(ci.Pkg, core.ModulePath) && ci.Static != fn && blocksOnChannel(ci.Static, depth+1) {
				found = true
			}
		}
	})
	return found
}

func c05Directions(c *core.Ctx, ls *core.LockSets) {
	p := c.P
	type side struct {
		name  string
		roots []string
	}
	n := 0
	for _, iface := range []string{"ClientStream", "ServerStream"} {
		for _, nt := range streamTypes(p, iface, "SendMsg") {
			tn := nt.Obj().Name()
			sides := []side{{"send", []string{"SendMsg", "CloseSend"}}, {"receive", []string{"RecvMsg", "Header"}}}
			held := map[string]map[string]token.Pos{}     // side → lock → a blocking point holding it
			acquired := map[string]map[string]token.Pos{} // side → lock → acquisition
			for _, sd := range sides {
				held[sd.name], acquired[sd.name] = map[string]token.Pos{}, map[string]token.Pos{}
				seen := map[*ssa.Function]bool{}
				for _, r := range sd.roots {
					for _, f := range methodFamily(p, nt, r) {
						if seen[f] {
							continue
						}
						seen[f] = true
						core.Instrs(f, func(in ssa.Instruction) {
							blocking := false
							switch x := in.(type) {
							case *ssa.Select:
								blocking = x.Blocking
							case *ssa.Send:
								blocking = true
							case *ssa.UnOp:
								blocking = x.Op == token.ARROW
							case *ssa.Call:
								if key, acq, _, _ := core.LockOp(&x.Call); acq && strings.HasPrefix(key, tn+".") {
									acquired[sd.name][key] = x.Pos()
								}
								ci := core.InfoOf(&x.Call)
								if ci.Static != nil && ci.Static.Signature.Recv() == nil && strings.HasPrefix(ci.Pkg, core.ModulePath) {
									blocking = blocksOnChannel(ci.Static, 0)
								}
							}
							if blocking {
								for k := range ls.HeldAt(in) {
									k = strings.TrimSuffix(k, ":R")
									if strings.HasPrefix(k, tn+".") {
										if _, ok := held[sd.name][k]; !ok {
											held[sd.name][k] = in.Pos()
										}
									}
								}
							}
						})
					}
				}
			}
			for _, pr := range [][2]string{{"send", "receive"}, {"receive", "send"}} {
				a, b := pr[0], pr[1]
				if len(acquired[a]) == 0 && len(held[b]) == 0 {
					continue
				}
				n++
				key := typeKey(nt) + ":" + a + "-does-not-wait-for-" + b
				bad := ""
				var pos token.Pos
				for k, at := range acquired[a] {
					if _, ok := held[b][k]; ok {
						bad, pos = k, at
					}
				}
				if bad != "" {
					c.Fail(key, pos, "the %s side acquires %s, which the %s side holds while it blocks on a channel waiting for the peer: a %s operation waits behind a pending %s operation, and the peer may be waiting for exactly that %s (echo handler; sender and receiver goroutines): deadlock", a, bad, b, a, b, a)
				} else {
					c.Ok(key, nt.Obj().Pos(), "locks acquired by the %s side %v are disjoint from those the %s side holds while blocked %v", a, keysOfPos(acquired[a]), b, keysOfPos(held[b]))
				}
			}
		}
	}
	if n < 2 {
		c.Fail("streams:direction-separation", token.NoPos, "ANCHOR-MISSING: expected >= 2 stream directions with locks to compare, found %d", n)
	}
}

func keysOfPos(m map[string]token.Pos) []string {
	var out []string
	for k := range m {
		out = append(out, k)
	}
	sort.Strings(out)
	return out
}

// closesBody: the function (or literal) calls Close on something that is a
// Body field of an *http.Response (directly, or through a package helper that
// closes its io.ReadCloser parameter).
func closesBody(fn *ssa.Function, depth int) bool {
	if fn == nil || fn.Blocks == nil || depth > 2 {
		return false
	}
	found := false
	core.Instrs(fn, func(in ssa.Instruction) {
		cc := core.CallOf(in)
		if cc == nil || found {
			return
		}
		if cc.IsInvoke() && cc.Method.Name() == "Close" {
			t := core.TypeStr(cc.Value.Type())
			if t == "io.ReadCloser" || strings.HasSuffix(t, "ReadCloser") {
				found = true
			}
		}
		if sc := cc.StaticCallee(); sc != nil && sc != fn && sc.Pkg != nil && strings.HasPrefix(sc.Pkg.Pkg.Path(), core.ModulePath) && closesBody(sc, depth+1) {
			found = true
		}
	})
	return found
}

// c05ReplyBodyClosed: after a successful RoundTrip the reply body is closed on
// every path: the close (or the defer / goroutine that performs it) is passed
// on every path from the nil-error edge of RoundTrip to a return. An unclosed
// body keeps the transport's read/write goroutines and the connection alive
// ("after a call has completed no goroutine of the library remains").
func c05ReplyBodyClosed(c *core.Ctx, fns []*ssa.Function) {
	n := 0
	for _, fn := range fns {
		for _, rt := range core.CallsIn(fn, func(_ *ssa.Call, ci core.CallInfo) bool { return ci.Iface && ci.Name == "RoundTrip" }) {
			n++
			key := core.FuncName(fn) + ":reply-body-closed-on-every-path"
			isClose := func(in ssa.Instruction) bool {
				cc := core.CallOf(in)
				if cc == nil {
					return false
				}
				if cc.IsInvoke() && cc.Method.Name() == "Close" && strings.HasSuffix(core.TypeStr(cc.Value.Type()), "ReadCloser") {
					return true
				}
				if sc := cc.StaticCallee(); sc != nil && closesBody(sc, 0) {
					return true
				}
				for _, o := range core.Origins(cc.Value) {
					if mc, ok := o.(*ssa.MakeClosure); ok && closesBody(mc.Fn.(*ssa.Function), 0) {
						return true
					}
				}
				return false
			}
			// paths on which RoundTrip succeeded: do not take the err != nil edge
			errNonNil := func(f core.Fact) bool {
				if f.Op != token.NEQ || !core.IsNilConst(f.Y) {
					return false
				}
				return core.OriginIs(f.X, func(o ssa.Value) bool { cr, idx, ok := core.CallResult(o); return ok && cr == rt && idx == 1 })
			}
			reach := core.Walk(core.After(rt), isClose, func(b *ssa.BasicBlock, si int) bool {
				iff, ok := b.Instrs[len(b.Instrs)-1].(*ssa.If)
				if !ok {
					return true
				}
				return !errNonNil(core.CondFact(iff.Cond, si == 0))
			})
			bad := false
			var where token.Pos
			for _, r := range core.Returns(fn) {
				if reach[r] {
					bad, where = true, r.Pos()
				}
			}
			if !where.IsValid() {
				where = rt.Pos()
			}
			// ... or the close was arranged BEFORE the round trip: a function literal deferred on every path to it
			// closes (itself, or in a literal it defers) the body of the reply held in a variable of the function,
			// under no other condition than "there is a reply", and the round trip's result is what that variable holds
			if bad {
				closesIn := func(lit *ssa.Function) bool {
					ok := false
					core.InstrsDeep(lit, func(_ *ssa.Function, x ssa.Instruction) {
						cc := core.CallOf(x)
						if cc != nil && cc.IsInvoke() && cc.Method.Name() == "Close" && strings.HasSuffix(core.TypeStr(cc.Value.Type()), "ReadCloser") {
							ok = true
						}
					})
					return ok
				}
				var cell *ssa.Alloc
				core.Instrs(fn, func(x ssa.Instruction) {
					if st, isSt := x.(*ssa.Store); isSt {
						if al, isAl := st.Addr.(*ssa.Alloc); isAl {
							if cr, idx, isC := core.CallResult(st.Val); isC && cr == rt && idx == 0 {
								cell = al
							}
						}
					}
				})
				if cell != nil {
					for _, d := range fn.Blocks {
						for _, x := range d.Instrs {
							df, isD := x.(*ssa.Defer)
							if !isD {
								continue
							}
							mc, isMC := df.Call.Value.(*ssa.MakeClosure)
							if !isMC || !closesIn(mc.Fn.(*ssa.Function)) {
								continue
							}
							captures := false
							for _, b := range mc.Bindings {
								if b == ssa.Value(cell) {
									captures = true
								}
							}
							if captures && core.MustPass(core.Entry(fn), rt, func(y ssa.Instruction) bool { return y == ssa.Instruction(df) }) {
								bad = false
							}
						}
					}
				}
			}
			c.Check(!bad, key, where, "after a successful RoundTrip every path to a return passes the close of the reply body (a defer or the reader goroutine registered right after the error test)", "after a successful RoundTrip a return is reachable before the reply body's close has been arranged (an early return above the defer): the body is never closed, so the transport's connection and its read/write goroutines stay behind after the call has completed")
		}
	}
	if n < 2 {
		c.Fail("httpgrpc:roundtrips", token.NoPos, "ANCHOR-MISSING: expected the unary and the streaming RoundTrip, found %d", n)
	}
	// The server drains the request body to its END before the HTTP handler returns: a partial drain (CopyN, a
	// LimitReader) makes net/http drop the connection of a client that is still sending; the transport then stops
	// reading the client's request pipe and the client's SendMsg blocks in the pipe write for ever, although the
	// handler has returned
	nDrain := 0
	for _, fn := range fns {
		if fn.Parent() != nil || !core.PkgIs(fn, "httpgrpc") || len(fn.Params) != 1 || core.TypeStr(fn.Params[0].Type()) != "io.ReadCloser" {
			continue
		}
		nDrain++
		key := core.FuncName(fn) + ":drains-to-the-end"
		whole := false
		partial := ""
		core.Instrs(fn, func(in ssa.Instruction) {
			cc := core.CallOf(in)
			if cc == nil {
				return
			}
			ci := core.InfoOf(cc)
			fromParam := func(v ssa.Value) bool {
				return core.OriginIs(v, func(o ssa.Value) bool { return core.Strip(o) == ssa.Value(fn.Params[0]) })
			}
			switch {
			case (ci.Is("io.Copy") && len(cc.Args) == 2 && fromParam(cc.Args[1])) || ((ci.Is("io.ReadAll") || ci.Is("io/ioutil.ReadAll")) && fromParam(cc.Args[0])):
				whole = true
			case ci.Is("io.CopyN") || ci.Is("io.LimitReader") || ci.Is("io.ReadFull") || ci.Is("io.ReadAtLeast"):
				partial = ci.Full()
			}
		})
		c.Check(whole && partial == "", key, fn.Pos(), "the request body is copied to its end (io.Copy / ReadAll of the body itself)", "the server's drain of the request body is bounded ("+partial+") or does not read the body itself to its end: the connection of a client that is still sending is dropped, its request pipe is no longer read, and its SendMsg blocks for ever after the handler has returned")
	}
	if nDrain == 0 {
		c.Fail("httpgrpc:request-drain", token.NoPos, "ANCHOR-MISSING: no func(io.ReadCloser) that drains and closes the request body")
	}
	// The reply reader of a STREAM drains what is left of the reply only after it has completed the stream: marked
	// it done, closed the request pipe and released the stream's lock. The reply ends when the server's HTTP handler
	// returns, which waits for the end of the request body; that end comes from the pipe being closed — or from the
	// application, whose SendMsg needs the lock. Draining first closes a cycle: reply end <- server's request drain
	// <- request body <- SendMsg <- lock <- reply end.
	for _, fn := range fns {
		var pipeClose ssa.Instruction
		var pipeCloseFn *ssa.Function
		core.InstrsDeep(fn, func(f *ssa.Function, x ssa.Instruction) {
			if cc := core.CallOf(x); cc != nil {
				if ci := core.InfoOf(cc); ci.Name == "CloseWithError" && ci.Recv == "PipeReader" {
					pipeClose, pipeCloseFn = x, f
				}
			}
		})
		if pipeClose == nil || fn.Parent() != nil {
			continue
		}
		// the deferred literals of fn, in registration order along the entry path; and where the drain sits
		type dlit struct {
			d   *ssa.Defer
			lit *ssa.Function
		}
		var order []dlit
		for _, b := range fn.Blocks {
			for _, x := range b.Instrs {
				if df, ok := x.(*ssa.Defer); ok {
					if mc, isMC := df.Call.Value.(*ssa.MakeClosure); isMC {
						order = append(order, dlit{df, mc.Fn.(*ssa.Function)})
					}
				}
			}
		}
		drains := func(lit *ssa.Function) (ssa.Instruction, *ssa.Function) {
			var at ssa.Instruction
			var in *ssa.Function
			core.InstrsDeep(lit, func(f *ssa.Function, x ssa.Instruction) {
				if cc := core.CallOf(x); cc != nil {
					ci := core.InfoOf(cc)
					if (ci.Is("io.ReadAll") || ci.Is("io/ioutil.ReadAll") || ci.Is("io.Copy")) && at == nil {
						at, in = x, f
					}
				}
			})
			return at, in
		}
		// the completion literal: the deferred literal of fn that closes the pipe, itself, in a literal nested in it,
		// or in a single-use method it calls (the completion written as cs.finish(...))
		for _, o := range order {
			found := false
			core.InstrsDeep(o.lit, func(f *ssa.Function, x ssa.Instruction) {
				if x == pipeClose {
					found = true
				}
				if call, ok := x.(*ssa.Call); ok {
					if h := call.Call.StaticCallee(); h != nil && h == pipeCloseFn {
						found = true
					}
				}
			})
			if found {
				pipeCloseFn = o.lit
			}
		}
		key := core.FuncName(fn) + ":reply-drained-after-completion"
		decided := false
		for _, dl := range order {
			at, in := drains(dl.lit)
			if at == nil {
				continue
			}
			decided = true
			switch {
			case dl.lit == pipeCloseFn && in != dl.lit:
				// the drain is a literal deferred by the completion literal itself: it runs when that literal ends.
				// It must have been deferred BEFORE the unlock was (deferred calls run last-in-first-out)
				var dDrain, dUnlock *ssa.Defer
				core.Instrs(dl.lit, func(x ssa.Instruction) {
					df, ok := x.(*ssa.Defer)
					if !ok {
						return
					}
					if mc, isMC := df.Call.Value.(*ssa.MakeClosure); isMC && mc.Fn.(*ssa.Function) == in {
						dDrain = df
					}
					if _, _, rel, _ := core.LockOp(&df.Call); rel {
						dUnlock = df
					}
				})
				okOrder := dDrain != nil && (dUnlock == nil || core.MustPass(core.Entry(dl.lit), dUnlock, func(y ssa.Instruction) bool { return y == ssa.Instruction(dDrain) }) || !core.Reachable(core.After(dUnlock), dDrain))
				c.Check(okOrder, key, at.Pos(), "the drain is deferred by the completion step ahead of the unlock: it runs after the stream is done, the pipe closed and the lock released", "the completion step drains the reply while it still holds the stream's lock (the drain is deferred after the unlock, or runs in line): SendMsg cannot learn that the call is over and the request body never ends")
			case dl.lit == pipeCloseFn:
				// in line in the completion literal: only after the pipe close, and not under the lock
				after := core.Reachable(core.After(pipeClose), at)
				c.Check(after && false, key, at.Pos(), "", "the completion step drains the reply in line, while it holds the stream's lock")
			default:
				// a deferred literal of its own: it must run AFTER the completion literal, i.e. be registered BEFORE it
				var compl *ssa.Defer
				for _, o := range order {
					if o.lit == pipeCloseFn {
						compl = o.d
					}
				}
				runsAfter := compl != nil && core.MustPass(core.Entry(fn), compl, func(y ssa.Instruction) bool { return y == ssa.Instruction(dl.d) })
				c.Check(runsAfter, key, at.Pos(), "the draining defer is registered before the completion defer, so it runs after it", "the deferred drain of the reply body runs BEFORE the completion step (it was deferred later): on the path that read the trailer under the stream's lock it waits for the end of the reply with the lock held and the request pipe open, while the server waits for the end of the request and the application's SendMsg for the lock — the sender stays blocked until its context ends although the handler has returned")
			}
		}
		if !decided {
			c.OkTrivial(key, fn.Pos(), "no drain of the reply body in a deferred literal")
		}
	}
}

// closerChain: the closing function, the functions it is nested in, and — when
// it is a single-use function (the deferred tail written as a method) — the
// function that calls it and those that one is nested in. Only the closer
// itself and the outermost function of the chain count as "the closing
// function" (a sibling literal in between does not).
func closerChain(fn *ssa.Function) map[*ssa.Function]bool {
	chain := map[*ssa.Function]bool{fn: true}
	root := fn
	if root.Parent() == nil {
		if site := core.InlineSite[root]; site != nil {
			root = site.Parent()
		}
	}
	for root.Parent() != nil {
		root = root.Parent()
	}
	chain[root] = true
	return chain
}

// mayMakeStatusError: some return of the module function fn is a status error
// it constructs itself.
func mayMakeStatusError(fn *ssa.Function, depth int) bool {
	if fn == nil || fn.Blocks == nil || depth > 2 || fn.Signature.Results().Len() != 1 || !core.IsErrorType(fn.Signature.Results().At(0).Type()) {
		return false
	}
	// a function that is handed an error translates or wraps it; it does not pass a verdict of its own
	for _, pp := range fn.Params {
		if core.IsErrorType(pp.Type()) || core.TypeStr(pp.Type()) == "context.Context" {
			return false
		}
	}
	for _, r := range core.Returns(fn) {
		for _, l := range core.ErrLeaves(r.Results[0], r) {
			if call, ok := core.Strip(l.V).(*ssa.Call); ok {
				if code, isCtor := core.StatusCtorCode(call); isCtor && code != 0 {
					return true
				}
				if mayMakeStatusError(call.Call.StaticCallee(), depth+1) {
					return true
				}
			}
		}
	}
	return false
}

// c05HTTPServerFence: R14.
func c05HTTPServerFence(c *core.Ctx) {
	p := c.P
	n := 0
	for _, nt := range streamTypes(p, "ServerStream", "SendMsg") {
		if pkgSuffixOf(nt) != "httpgrpc" {
			continue
		}
		st, ok := nt.Underlying().(*types.Struct)
		if !ok {
			continue
		}
		tn := nt.Obj().Name()
		wField := ""
		var bools []string
		// the fields of the stream, those of private structs it holds by value included (a group of write-side fields
		// moved into a part of their own)
		var collect func(st *types.Struct, depth int)
		collect = func(st *types.Struct, depth int) {
			for i := 0; i < st.NumFields(); i++ {
				f := st.Field(i)
				switch core.TypeStr(f.Type()) {
				case "net/http.ResponseWriter":
					wField = f.Name()
				case "bool":
					bools = append(bools, f.Name())
				}
				if sub, isSt := f.Type().Underlying().(*types.Struct); isSt && depth < 2 && strings.HasPrefix(core.QualNamedOf(f.Type()), core.ModulePath) {
					collect(sub, depth+1)
				}
			}
		}
		collect(st, 0)
		if wField == "" {
			continue
		}
		// is v (a field address / load) a field of the stream object, directly or through such a part?
		ofStream := func(base ssa.Value) bool {
			for k := 0; k < 3; k++ {
				if core.NamedOf(base.Type()) == tn {
					return true
				}
				b2, _, ok := core.FieldOf(base)
				if !ok {
					return false
				}
				base = b2
			}
			return false
		}
		n++
		// the fence: a bool field stored true in a streaming HTTP handler literal on every path from each stream
		// handler invocation to the literal's returns, with a lock of the stream held
		fence := ""
		var fencePos token.Pos
		ls := core.NewLockSets(p.LibFuncs("httpgrpc"))
		for _, hc := range httpHandlerClosures(p) {
			if !hc.Stream {
				continue
			}
			hcalls := handlerInvocations(hc.Fn)
			if len(hcalls) == 0 {
				continue
			}
			for _, bf := range bools {
				var stores []ssa.Instruction
				core.Instrs(hc.Fn, func(in ssa.Instruction) {
					if s, ok := in.(*ssa.Store); ok {
						if base, f, isF := core.FieldOf(s.Addr); isF && (f == bf || strings.HasSuffix(f, "."+bf)) && ofStream(base) {
							if b, isC := core.ConstBool(s.Val); isC && b {
								stores = append(stores, in)
							}
						}
					}
				})
				// ... or through a method of the stream that the literal calls (str.markFinished())
				core.Instrs(hc.Fn, func(in ssa.Instruction) {
					call, ok := in.(*ssa.Call)
					if !ok {
						return
					}
					h := call.Call.StaticCallee()
					if h == nil || h.Blocks == nil || core.RecvName(h) != tn {
						return
					}
					sets := false
					core.Instrs(h, func(x ssa.Instruction) {
						if s, ok := x.(*ssa.Store); ok {
							if _, f, isF := core.FieldOf(s.Addr); isF && (f == bf || strings.HasSuffix(f, "."+bf)) {
								if b, isC := core.ConstBool(s.Val); isC && b {
									sets = true
								}
							}
						}
					})
					if sets {
						stores = append(stores, in)
					}
				})
				if os.Getenv("GRPCHANLINT_DEBUG_FENCE") != "" {
					fmt.Fprintf(os.Stderr, "fence candidate %s in %s: %d stores\n", bf, core.FuncName(hc.Fn), len(stores))
				}
				if len(stores) == 0 {
					continue
				}
				isSet := func(x ssa.Instruction) bool {
					for _, s := range stores {
						if s == x {
							return true
						}
					}
					return false
				}
				all := true
				for _, hcI := range hcalls {
					reach := core.Walk(core.After(hcI), isSet, nil)
					for _, r := range core.Returns(hc.Fn) {
						if reach[r] {
							all = false
						}
					}
				}
				if !all {
					continue
				}
				locked := true
				for _, s := range stores {
					if _, isStore := s.(*ssa.Store); isStore && len(ls.HeldAt(s)) == 0 {
						locked = false
					}
				}
				if locked {
					fence, fencePos = bf, stores[0].Pos()
				}
			}
		}
		key := "httpgrpc." + tn + ":finished-fence"
		if fence == "" {
			pos := token.NoPos
			if m := declaredMethod(p, nt, "SendMsg"); m != nil {
				pos = m.Pos()
			}
			c.Fail(key, pos, "the HTTP server stream has no flag that the HTTP handler sets (on every path, under the stream's lock) once the stream handler has returned: a send or a header write made later — by a goroutine the handler left behind — uses a ResponseWriter that net/http has already recycled (nil-pointer panic, or a write into another request's buffer) instead of reporting io.EOF")
			continue
		}
		c.Ok(key, fencePos, "%s is set under the stream's lock on every path after the stream handler returned", fence)
		// every use of the writer field is fenced
		isFenceFalse := func(f core.Fact) bool {
			if f.Op != token.ILLEGAL || !f.Neg {
				return false
			}
			_, fld, isF := core.FieldOf(f.X)
			return isF && (fld == fence || strings.HasSuffix(fld, "."+fence))
		}
		for _, fn := range typeFuncs(p, nt) {
			core.InstrsDeep(fn, func(f *ssa.Function, in ssa.Instruction) {
				cc := core.CallOf(in)
				if cc == nil {
					return
				}
				uses := false
				ops := append([]ssa.Value{}, cc.Args...)
				if cc.IsInvoke() {
					ops = append(ops, cc.Value)
				}
				for _, a := range ops {
					if core.OriginIs(a, func(o ssa.Value) bool {
						base, fld, isF := core.FieldOf(o)
						return isF && (fld == wField || strings.HasSuffix(fld, "."+wField)) && ofStream(base)
					}) {
						uses = true
					}
				}
				if !uses {
					return
				}
				k := core.FuncName(fn) + ":writer-used-only-before-finish"
				c.Check(core.GuardedBy(in, isFenceFalse), k, in.Pos(), "the writer is used on an edge where "+fence+" was found false", "this use of the stream's ResponseWriter is not guarded by the 'finished' flag ("+fence+"): after the handler has returned it touches a writer that net/http has recycled")
			})
		}
	}
	if n == 0 {
		c.Missing("HTTP server stream type with an http.ResponseWriter field")
	}
}
