package rules

import (
	"go/constant"
	"go/token"
	"go/types"
	"strings"

	"golang.org/x/tools/go/ssa"

	"verif/checker/internal/core"
)

const (
	grpcPkg     = "google.golang.org/grpc"
	codesPkg    = "google.golang.org/grpc/codes"
	statusPkg   = "google.golang.org/grpc/status"
	metadataPkg = "google.golang.org/grpc/metadata"
	peerPkg     = "google.golang.org/grpc/peer"
	istatusPkg  = "google.golang.org/grpc/internal/status"
)

// sigStr renders fn's signature without the receiver, module-relative.
func sigStr(fn *ssa.Function) string {
	sig := fn.Signature
	s := types.NewSignatureType(nil, nil, nil, sig.Params(), sig.Results(), sig.Variadic())
	return core.TypeStr(s)
}

// funcsBySig returns the top-level library functions (no methods, no
// literals) of the package whose signature string equals sig.
func funcsBySig(p *core.Prog, pkgSuffix, sig string) []*ssa.Function {
	var out []*ssa.Function
	for _, fn := range p.LibFuncs(pkgSuffix) {
		if fn.Parent() != nil || fn.Signature.Recv() != nil {
			continue
		}
		if sigStr(fn) == sig {
			out = append(out, fn)
		}
	}
	return out
}

// handlerClosure is an HTTP handler function literal returned by a function
// of httpgrpc.
type handlerClosure struct {
	Fn     *ssa.Function // the func(w, r) literal
	Parent *ssa.Function
	Stream bool // parent takes *grpc.StreamDesc (else *grpc.MethodDesc)
}

const httpHandlerSig = "func(w net/http.ResponseWriter, r *net/http.Request)"

// httpHandlerClosures finds every function literal of type
// func(http.ResponseWriter, *http.Request) in httpgrpc whose parent takes a
// method or stream descriptor.
func httpHandlerClosures(p *core.Prog) []handlerClosure {
	var out []handlerClosure
	for _, fn := range p.LibFuncs("httpgrpc") {
		if core.ParentOf(fn) == nil {
			continue
		}
		ps := fn.Signature.Params()
		if ps.Len() != 2 || fn.Signature.Results().Len() != 0 {
			continue
		}
		if core.TypeStr(ps.At(0).Type()) != "net/http.ResponseWriter" || core.TypeStr(ps.At(1).Type()) != "*net/http.Request" {
			continue
		}
		par := core.ParentOf(fn)
		hc := handlerClosure{Fn: fn, Parent: par}
		found := false
		for _, pp := range par.Params {
			switch core.TypeStr(pp.Type()) {
			case "*google.golang.org/grpc.StreamDesc":
				hc.Stream = true
				found = true
			case "*google.golang.org/grpc.MethodDesc":
				found = true
			}
		}
		if found {
			out = append(out, hc)
		}
	}
	return out
}

// typeFuncs returns the functions that make up type nt's behaviour: its
// declared methods and the package functions that take it as their first
// parameter (methods written as functions, core.RecvName).
func typeFuncs(p *core.Prog, nt *types.Named) []*ssa.Function {
	var out []*ssa.Function
	seen := map[*ssa.Function]bool{}
	for i := 0; i < nt.NumMethods(); i++ {
		if fn := p.SSA.FuncValue(nt.Method(i)); fn != nil && fn.Blocks != nil {
			out = append(out, fn)
			seen[fn] = true
		}
	}
	for _, fn := range p.LibFuncs(pkgSuffixOf(nt)) {
		if !seen[fn] && fn.Parent() == nil && core.RecvName(fn) == core.NamedOf(nt) {
			out = append(out, fn)
		}
	}
	return out
}

// declaredMethod returns the method name declared directly on nt (not
// promoted), or nil.
func declaredMethod(p *core.Prog, nt *types.Named, name string) *ssa.Function {
	if m := declaredMethodOn(p, nt, name); m != nil {
		return m
	}
	// a method declared on a part of nt (core.PartOf) is nt's own
	for part, owner := range core.PartOf {
		if owner == nt.Obj() {
			if pn, ok := part.Type().(*types.Named); ok {
				if m := declaredMethod(p, pn, name); m != nil {
					return m
				}
			}
		}
	}
	return nil
}

func declaredMethodOn(p *core.Prog, nt *types.Named, name string) *ssa.Function {
	for i := 0; i < nt.NumMethods(); i++ {
		m := nt.Method(i)
		if a, ok := core.FuncAlias[m]; ok {
			if a == name {
				return p.SSA.FuncValue(m)
			}
			continue
		}
		if m.Name() == name {
			return p.SSA.FuncValue(m)
		}
	}
	return nil
}

// streamTypes returns library types implementing the given grpc interface
// that declare method `must` themselves.
func streamTypes(p *core.Prog, iface, must string) []*types.Named {
	it := p.ExtType(grpcPkg, iface)
	if it == nil {
		return nil
	}
	var out []*types.Named
	for _, nt := range p.Implementers(it) {
		if declaredMethod(p, nt, must) != nil && !isForwardingWrapper(p, nt, it) {
			out = append(out, nt)
		}
	}
	return out
}

// isForwardingWrapper: every method of iface that nt declares does nothing but
// call the same-named method of one embedded/only field of its receiver with
// its own parameters and return the result (runtime.KeepAlive of the receiver
// aside). Such a type has no stream state of its own: it is seen through.
func isForwardingWrapper(p *core.Prog, nt *types.Named, iface types.Type) bool {
	it, ok := iface.Underlying().(*types.Interface)
	if !ok {
		return false
	}
	st, ok := nt.Underlying().(*types.Struct)
	if !ok || st.NumFields() != 1 {
		return false
	}
	n := 0
	for i := 0; i < it.NumMethods(); i++ {
		name := it.Method(i).Name()
		m := declaredMethod(p, nt, name)
		if m == nil {
			continue // promoted: forwards by construction
		}
		n++
		if len(m.Params) == 0 {
			return false
		}
		var calls []ssa.Instruction
		other := false
		core.Instrs(m, func(in ssa.Instruction) {
			switch in.(type) {
			case *ssa.Store, *ssa.Send, *ssa.Select, *ssa.Go, *ssa.MapUpdate:
				// a spill of the receiver or of a result is harmless; anything else is behaviour of its own
				if s, isS := in.(*ssa.Store); isS {
					if _, isAl := s.Addr.(*ssa.Alloc); isAl {
						return
					}
				}
				other = true
				return
			}
			cc := core.CallOf(in)
			if cc == nil {
				return
			}
			if core.InfoOf(cc).Is("runtime.KeepAlive") {
				return
			}
			calls = append(calls, in)
		})
		if other || len(calls) != 1 {
			return false
		}
		cc := core.CallOf(calls[0])
		ci := core.InfoOf(cc)
		if ci.Name != name {
			return false
		}
		recv := cc.Value
		args := cc.Args
		if !cc.IsInvoke() {
			if len(cc.Args) == 0 {
				return false
			}
			recv, args = cc.Args[0], cc.Args[1:]
		}
		base, _, isF := core.FieldOf(core.Strip(recv))
		if !isF || core.ResolveFree(core.Strip(base)) != ssa.Value(m.Params[0]) {
			// the receiver may have been spilled for the deferred KeepAlive
			if !isF || !core.OriginIs(base, func(o ssa.Value) bool { return core.ResolveFree(core.Strip(o)) == ssa.Value(m.Params[0]) }) {
				return false
			}
		}
		if len(args) != len(m.Params)-1 {
			return false
		}
		for j, a := range args {
			if core.ResolveFree(core.Strip(a)) != ssa.Value(m.Params[j+1]) && !core.OriginIs(a, func(o ssa.Value) bool { return core.ResolveFree(core.Strip(o)) == ssa.Value(m.Params[j+1]) }) {
				return false
			}
		}
	}
	return n > 0
}

// isStreamTypeName: name names a library type implementing grpc.ClientStream or grpc.ServerStream.
func isStreamTypeName(p *core.Prog, name string) bool {
	if name == "" {
		return false
	}
	for _, iface := range []string{"ClientStream", "ServerStream"} {
		for _, nt := range streamTypes(p, iface, "RecvMsg") {
			if nt.Obj().Name() == name {
				return true
			}
		}
	}
	return false
}

func pkgSuffixOf(nt *types.Named) string {
	path := nt.Obj().Pkg().Path()
	if path == core.ModulePath {
		return "."
	}
	return strings.TrimPrefix(path, core.ModulePath+"/")
}

// isHandlerInvocation reports whether call c invokes a gRPC handler: a call
// through the Handler field of a grpc.MethodDesc/StreamDesc, or a call of a
// value of a server interceptor type.
func isHandlerInvocation(c *ssa.CallCommon) (kind string, ok bool) {
	if c.IsInvoke() {
		return "", false
	}
	v := c.Value
	if _, isFn := v.(*ssa.Function); isFn {
		return "", false
	}
	if _, isB := v.(*ssa.Builtin); isB {
		return "", false
	}
	if _, isMC := v.(*ssa.MakeClosure); isMC {
		return "", false
	}
	// through field Handler?
	for _, o := range core.Origins(v) {
		if base, f, ok := core.FieldOf(o); ok && f == "Handler" {
			q := core.QualNamedOf(base.Type())
			if q == grpcPkg+".MethodDesc" {
				return "unary-handler", true
			}
			if q == grpcPkg+".StreamDesc" {
				return "stream-handler", true
			}
		}
	}
	switch core.TypeStr(v.Type()) {
	case "google.golang.org/grpc.UnaryServerInterceptor":
		return "unary-interceptor", true
	case "google.golang.org/grpc.StreamServerInterceptor":
		return "stream-interceptor", true
	}
	return "", false
}

// handlerInvocations lists handler invocation sites in fn (not nested).
func handlerInvocations(fn *ssa.Function) []*ssa.Call {
	return core.CallsIn(fn, func(c *ssa.Call, _ core.CallInfo) bool {
		_, ok := isHandlerInvocation(&c.Call)
		return ok
	})
}

// typeKey is the symbolic name of a library type ("inprocgrpc.Channel").
func typeKey(nt *types.Named) string {
	s := pkgSuffixOf(nt)
	if s == "." {
		s = "grpchan"
	}
	return s + "." + nt.Obj().Name()
}

func constantInt64(v constant.Value) (int64, bool) {
	if v.Kind() != constant.Int {
		return 0, false
	}
	return constant.Int64Val(v)
}

// SetupRoles finds the private identifiers the rules refer to by name (see
// core.FieldAlias) by their role in the loaded program and registers the
// canonical names. Idempotent; called once after loading. An identifier whose
// role cannot be found keeps its real name (the rules then report
// ANCHOR-MISSING where they need it).
// theProg is the program under analysis (set by SetupRoles); used by helpers
// that need the callers of a function.
var theProg *core.Prog

// callSitesOf lists the static calls of fn in library code.
func callSitesOf(fn *ssa.Function) []*ssa.Call {
	var out []*ssa.Call
	if theProg == nil || fn == nil {
		return nil
	}
	for _, g := range theProg.LibFuncs("") {
		core.Instrs(g, func(in ssa.Instruction) {
			if call, ok := in.(*ssa.Call); ok && call.Call.StaticCallee() == fn {
				out = append(out, call)
			}
		})
	}
	return out
}

// isReceivedFrame: v is a frame that was just received: a result of a function
// that receives from its channel parameter, a select's received value, or a
// frame parameter to which every call site of the function hands such a frame
// (the received frame handed to a step function).
func isReceivedFrame(v ssa.Value, depth int) bool {
	return core.OriginIs(v, func(o ssa.Value) bool {
		if cr := core.ResultPart(o); cr != nil {
			if st := core.InfoOf(&cr.Call).Static; st != nil && receivesFromParam(st) {
				return true
			}
		}
		if ex, ok := o.(*ssa.Extract); ok {
			if _, isSel := ex.Tuple.(*ssa.Select); isSel {
				return true
			}
		}
		if u, ok := o.(*ssa.UnOp); ok && u.Op == token.ARROW {
			return true
		}
		if par, ok := o.(*ssa.Parameter); ok && depth < 3 && core.NamedOf(par.Type()) == "frame" {
			sites := callSitesOf(par.Parent())
			if len(sites) == 0 {
				return false
			}
			idx := -1
			for i, pp := range par.Parent().Params {
				if pp == par {
					idx = i
				}
			}
			for _, cs := range sites {
				if idx < 0 || idx >= len(cs.Call.Args) || !isReceivedFrame(cs.Call.Args[idx], depth+1) {
					return false
				}
			}
			return true
		}
		return false
	})
}

func SetupRoles(p *core.Prog) {
	theProg = p
	core.SetupParts(p)
	core.FieldAlias = map[*types.Var]string{}
	core.TypeAlias = map[*types.TypeName]string{}
	core.FuncAlias = map[*types.Func]string{}
	mdT := metadataPkg + ".MD"
	fieldsOfType := func(st *types.Struct, pred func(t types.Type) bool) []*types.Var {
		var out []*types.Var
		for i := 0; i < st.NumFields(); i++ {
			if pred(st.Field(i).Type()) {
				out = append(out, st.Field(i))
			}
		}
		return out
	}
	// ---- frame: the struct type that is the element of the in-process frame channels
	var frameT *types.Named
	for _, fn := range p.LibFuncs("inprocgrpc") {
		core.Instrs(fn, func(in ssa.Instruction) {
			mk, ok := in.(*ssa.MakeChan)
			if !ok {
				return
			}
			el := mk.Type().Underlying().(*types.Chan).Elem()
			nt, ok := el.(*types.Named)
			if !ok {
				return
			}
			st, ok := nt.Underlying().(*types.Struct)
			if !ok {
				return
			}
			if len(fieldsOfType(st, isAnyType)) == 1 && len(fieldsOfType(st, core.IsErrorType)) == 1 {
				frameT = nt
			}
		})
	}
	if frameT != nil {
		core.TypeAlias[frameT.Obj()] = "frame"
		st := frameT.Underlying().(*types.Struct)
		core.FieldAlias[fieldsOfType(st, isAnyType)[0]] = "data"
		core.FieldAlias[fieldsOfType(st, core.IsErrorType)[0]] = "err"
		mds := fieldsOfType(st, func(t types.Type) bool { return core.TypeStr(t) == mdT })
		if len(mds) == 2 {
			// which is which: the field whose value is handed to CallOptions.SetHeaders / SetTrailers
			role := map[*types.Var]string{}
			for _, fn := range p.LibFuncs("inprocgrpc") {
				core.Instrs(fn, func(in ssa.Instruction) {
					cc := core.CallOf(in)
					if cc == nil || len(cc.Args) < 2 {
						return
					}
					ci := core.InfoOf(cc)
					if ci.Recv != "CallOptions" || (ci.Name != "SetHeaders" && ci.Name != "SetTrailers") {
						return
					}
					for _, o := range core.Origins(cc.Args[1]) {
						visitFrameField(o, frameT, func(v *types.Var) {
							if ci.Name == "SetHeaders" {
								role[v] = "headers"
							} else {
								role[v] = "trailers"
							}
						})
					}
				})
			}
			if role[mds[0]] == "" && role[mds[1]] == "" {
				role[mds[0]], role[mds[1]] = "headers", "trailers" // declaration order
			} else if role[mds[0]] == "" {
				role[mds[0]] = other(role[mds[1]])
			} else if role[mds[1]] == "" {
				role[mds[1]] = other(role[mds[0]])
			}
			if role[mds[0]] != role[mds[1]] {
				core.FieldAlias[mds[0]] = role[mds[0]]
				core.FieldAlias[mds[1]] = role[mds[1]]
			}
		}
		// kind(): the method without parameters returning a named integer type
		for i := 0; i < frameT.NumMethods(); i++ {
			m := frameT.Method(i)
			sig := m.Type().(*types.Signature)
			if sig.Params().Len() == 0 && sig.Results().Len() == 1 {
				if b, ok := sig.Results().At(0).Type().Underlying().(*types.Basic); ok && b.Info()&types.IsInteger != 0 {
					core.FuncAlias[m] = "kind"
				}
			}
		}
		// the peek slot: the *frame field of the in-process client stream
		for _, nt := range streamTypes(p, "ClientStream", "RecvMsg") {
			if pkgSuffixOf(nt) != "inprocgrpc" {
				continue
			}
			if st, ok := nt.Underlying().(*types.Struct); ok {
				ps := fieldsOfType(st, func(t types.Type) bool {
					pt, ok := t.(*types.Pointer)
					return ok && pt.Elem() == types.Type(frameT)
				})
				if len(ps) == 1 {
					core.FieldAlias[ps[0]] = "last"
				}
			}
		}
	}
	setupGeneratorRoles(p)
	// ---- the in-process channel's cloner field
	for _, ct := range channelTypes(p, "inprocgrpc") {
		if st, ok := ct.Underlying().(*types.Struct); ok {
			cs := fieldsOfType(st, func(t types.Type) bool { return core.NamedOf(t) == "Cloner" })
			if len(cs) == 1 {
				core.FieldAlias[cs[0]] = "cloner"
			}
		}
	}
	// ---- the HTTP client stream: type, trailer, message channel, completion flag, terminal error, context
	for _, nt := range streamTypes(p, "ClientStream", "RecvMsg") {
		if pkgSuffixOf(nt) != "httpgrpc" {
			continue
		}
		st, ok := nt.Underlying().(*types.Struct)
		if !ok {
			continue
		}
		core.TypeAlias[nt.Obj()] = "clientStream"
		one := func(pred func(t types.Type) bool, name string) {
			if fs := fieldsOfType(st, pred); len(fs) == 1 {
				core.FieldAlias[fs[0]] = name
			}
		}
		one(func(t types.Type) bool { return core.NamedOf(t) == "HttpTrailer" }, "tr")
		one(func(t types.Type) bool {
			ch, ok := t.Underlying().(*types.Chan)
			return ok && core.TypeStr(ch.Elem()) == "[]byte"
		}, "rCh")
		one(func(t types.Type) bool { return core.TypeStr(t) == "context.Context" }, "ctx")
		// done / rErr: the bool and the error declared in the group of the RWMutex (fields after it up to the next mutex)
		inGroup := false
		for i := 0; i < st.NumFields(); i++ {
			ts := core.TypeStr(st.Field(i).Type())
			if ts == "sync.RWMutex" {
				inGroup = true
				continue
			}
			if ts == "sync.Mutex" {
				inGroup = false
				continue
			}
			if !inGroup {
				continue
			}
			if ts == "bool" {
				core.FieldAlias[st.Field(i)] = "done"
			}
			if core.IsErrorType(st.Field(i).Type()) {
				core.FieldAlias[st.Field(i)] = "rErr"
			}
		}
	}
}

// setupGeneratorRoles: the template data struct of the stub generator (the
// struct with an int field and a gopoet.TypeName field built in the generator
// function). Its field names are private and bound to the templates only; the
// rules use the canonical names ServiceName, MethodName, ServiceDesc,
// StreamClient, StreamIndex, RequestType. Aliases are registered only if the
// struct does not already use exactly those names.
func setupGeneratorRoles(p *core.Prog) {
	canon := []string{"ServiceName", "MethodName", "ServiceDesc", "StreamClient", "StreamIndex", "RequestType"}
	for _, fn := range p.LibFuncs(genPkg) {
		core.Instrs(fn, func(in ssa.Instruction) {
			al, ok := in.(*ssa.Alloc)
			if !ok {
				return
			}
			st, ok := al.Type().Underlying().(*types.Pointer).Elem().Underlying().(*types.Struct)
			if !ok || st.NumFields() != len(canon) {
				return
			}
			var ints, tns []*types.Var
			have := map[string]bool{}
			for i := 0; i < st.NumFields(); i++ {
				f := st.Field(i)
				have[f.Name()] = true
				if b, ok := f.Type().Underlying().(*types.Basic); ok && b.Kind() == types.Int {
					ints = append(ints, f)
				}
				if core.NamedOf(f.Type()) == "TypeName" {
					tns = append(tns, f)
				}
			}
			if len(ints) != 1 || len(tns) != 1 {
				return
			}
			all := true
			for _, cn := range canon {
				if !have[cn] {
					all = false
				}
			}
			if all {
				return
			}
			// string fields by what feeds them
			role := map[*types.Var]string{ints[0]: "StreamIndex", tns[0]: "RequestType"}
			for _, r := range core.Refs(al) {
				fa, ok := r.(*ssa.FieldAddr)
				if !ok {
					continue
				}
				fv := st.Field(fa.Field)
				if role[fv] != "" {
					continue
				}
				for _, rr := range core.Refs(fa) {
					stI, ok := rr.(*ssa.Store)
					if !ok {
						continue
					}
					switch d := describeFeed(stI.Val); {
					case d == "GetFullyQualifiedName":
						role[fv] = "ServiceName"
					case d == "GetName":
						role[fv] = "MethodName"
					case strings.Contains(d, "GoTypeForStreamClientImpl"):
						role[fv] = "StreamClient"
					}
				}
			}
			// the remaining string field is the descriptor variable's name
			var rest []*types.Var
			used := map[string]bool{}
			for i := 0; i < st.NumFields(); i++ {
				if r := role[st.Field(i)]; r != "" {
					if used[r] {
						return // ambiguous: keep real names
					}
					used[r] = true
				} else {
					rest = append(rest, st.Field(i))
				}
			}
			if len(rest) == 1 && !used["ServiceDesc"] {
				role[rest[0]] = "ServiceDesc"
			} else if len(rest) != 0 {
				return
			}
			for v, r := range role {
				core.FieldAlias[v] = r
			}
		})
	}
}

func other(r string) string {
	if r == "headers" {
		return "trailers"
	}
	return "headers"
}

// visitFrameField: v is (a load of) a field of the frame type.
func visitFrameField(v ssa.Value, frameT *types.Named, f func(*types.Var)) {
	var x ssa.Value
	var idx int
	switch y := v.(type) {
	case *ssa.UnOp:
		fa, ok := y.X.(*ssa.FieldAddr)
		if !ok {
			return
		}
		x, idx = fa.X, fa.Field
	case *ssa.Field:
		x, idx = y.X, y.Field
	case *ssa.FieldAddr:
		x, idx = y.X, y.Field
	default:
		return
	}
	t := x.Type()
	if pt, ok := t.Underlying().(*types.Pointer); ok {
		t = pt.Elem()
	}
	if t != types.Type(frameT) {
		return
	}
	f(frameT.Underlying().(*types.Struct).Field(idx))
}

// mustCaller builds a predicate "instruction in is, or certainly leads to, a
// call accepted by direct": in itself is such a call, or in calls a library
// function of the module every path of which (entry to each return) passes one
// (followed to depth 3). This is how rules see through extracted helpers.
func mustCaller(direct func(*ssa.CallCommon) bool) func(ssa.Instruction) bool {
	memo := map[*ssa.Function]int{} // 1 yes, 2 no, 3 in progress
	var instrOK func(in ssa.Instruction, depth int) bool
	var fnOK func(fn *ssa.Function, depth int) bool
	fnOK = func(fn *ssa.Function, depth int) bool {
		switch memo[fn] {
		case 1:
			return true
		case 2, 3:
			return false
		}
		if depth > 3 || fn.Blocks == nil {
			return false
		}
		memo[fn] = 3
		ok := len(core.Returns(fn)) > 0
		for _, r := range core.Returns(fn) {
			if !core.MustPass(core.Entry(fn), r, func(x ssa.Instruction) bool { return instrOK(x, depth+1) }) {
				ok = false
			}
		}
		if ok {
			memo[fn] = 1
		} else {
			memo[fn] = 2
		}
		return ok
	}
	instrOK = func(in ssa.Instruction, depth int) bool {
		call, isCall := in.(*ssa.Call)
		if !isCall {
			return false
		}
		if direct(&call.Call) {
			return true
		}
		callee := call.Call.StaticCallee()
		if callee == nil || callee.Pkg == nil || !strings.HasPrefix(callee.Pkg.Pkg.Path(), core.ModulePath) {
			return false
		}
		return fnOK(callee, depth)
	}
	return func(in ssa.Instruction) bool { return instrOK(in, 0) }
}

// isHTTPFrameWriter: a function of httpgrpc that takes an io.Writer first,
// marshals a message and writes it (the delimited-message writer).
// ioParamIdx: the index of the parameter through which fn gets its stream: the
// first parameter of the given io type within the first two positions (a
// method of a carrier type — framing{codec}.write(w, …) — has its receiver in
// front); -1 if there is none.
func ioParamIdx(fn *ssa.Function, ts string) int {
	if fn == nil {
		return -1
	}
	for i := 0; i < 2 && i < len(fn.Params); i++ {
		if core.TypeStr(fn.Params[i].Type()) == ts {
			return i
		}
	}
	return -1
}

func isHTTPFrameWriter(fn *ssa.Function) bool {
	wi := ioParamIdx(fn, "io.Writer")
	if fn == nil || fn.Blocks == nil || !core.PkgIs(fn, "httpgrpc") || wi < 0 || len(fn.Params) < wi+3 {
		return false
	}
	// the encoding and the write may sit in step helpers of the package (marshalWithSize, writeAndFlush)
	marshal, write := false, false
	var scan func(f *ssa.Function, depth int)
	seen := map[*ssa.Function]bool{}
	scan = func(f *ssa.Function, depth int) {
		if f == nil || f.Blocks == nil || seen[f] || depth > 2 {
			return
		}
		seen[f] = true
		core.Instrs(f, func(in ssa.Instruction) {
			if call, ok := in.(*ssa.Call); ok {
				ci := core.InfoOf(&call.Call)
				if ci.Iface && ci.Name == "Marshal" {
					marshal = true
				}
				if ci.Iface && ci.Name == "Write" {
					write = true
				}
				if ci.Static != nil && core.PkgIs(ci.Static, "httpgrpc") && ci.Static.Signature.Recv() == nil && depth < 2 {
					// only helpers that are not frame writers in their own right
					if wj := ioParamIdx(ci.Static, "io.Writer"); !(wj >= 0 && len(ci.Static.Params) >= wj+3) {
						scan(ci.Static, depth+1)
					}
				}
			}
		})
	}
	scan(fn, 0)
	return marshal && write
}

// httpFrameWriteCall: call writes one delimited message to an HTTP body: it is
// a call of the frame writer, or of a wrapper of the package that forwards its
// writer to it (followed to depth 2). end is 1 for the final (trailer) frame,
// 0 for a data frame, -1 if it is not a constant at this call.
func httpFrameWriteCall(call *ssa.Call) (ok bool, end int) {
	return httpFrameWriteCallDepth(call, 0)
}

func httpFrameWriteCallDepth(call *ssa.Call, depth int) (bool, int) {
	callee := call.Call.StaticCallee()
	wi := ioParamIdx(callee, "io.Writer")
	if callee == nil || callee.Blocks == nil || !core.PkgIs(callee, "httpgrpc") || wi < 0 || len(call.Call.Args) < wi+3 {
		return false, -1
	}
	if isHTTPFrameWriter(callee) {
		end := -1
		if i, isBool, k, ok := frameWriterEndParam(callee); ok && i < len(call.Call.Args) {
			if isBool {
				if v, isC := core.ConstBool(call.Call.Args[i]); isC {
					end = 0
					if v {
						end = 1
					}
				}
			} else if v, isC := core.ConstInt(call.Call.Args[i]); isC {
				end = 0
				if v == k {
					end = 1
				}
			}
		}
		return true, end
	}
	if depth >= 2 {
		return false, -1
	}
	// a wrapper: exactly one frame-write call inside, on the wrapper's own writer
	var inner []*ssa.Call
	core.Instrs(callee, func(in ssa.Instruction) {
		if c2, ok := in.(*ssa.Call); ok {
			if isW, _ := httpFrameWriteCallDepth(c2, depth+1); isW && c2.Call.Args[ioParamIdx(c2.Call.StaticCallee(), "io.Writer")] == ssa.Value(callee.Params[wi]) {
				inner = append(inner, c2)
			}
		}
	})
	if len(inner) != 1 {
		return false, -1
	}
	_, end := httpFrameWriteCallDepth(inner[0], depth+1)
	return true, end
}

// frameSet is a place where a frame's field gets its value.
type frameSet struct {
	Val ssa.Value
	At  ssa.Instruction
}

// isFrameCtor: a module function whose single result is a frame that every
// return builds as a composite literal from its parameters (dataFrame(m), …).
func isFrameCtor(fn *ssa.Function) bool {
	if fn == nil || fn.Blocks == nil || fn.Signature.Recv() != nil || fn.Signature.Results().Len() != 1 || core.NamedOf(fn.Signature.Results().At(0).Type()) != "frame" {
		return false
	}
	for _, r := range core.Returns(fn) {
		ld, ok := r.Results[0].(*ssa.UnOp)
		if !ok || ld.Op != token.MUL {
			return false
		}
		if _, isA := ld.X.(*ssa.Alloc); !isA {
			return false
		}
	}
	return true
}

// frameFieldSets: the places in fn where the given field of a frame gets a
// value: a store into the field of a frame (composite literal or assignment),
// or a call of a frame constructor whose result has that field set from an
// argument. Inside a constructor itself nothing is reported: its call sites are.
func frameFieldSets(fn *ssa.Function, field string) []frameSet {
	var out []frameSet
	if isFrameCtor(fn) {
		return nil
	}
	core.Instrs(fn, func(in ssa.Instruction) {
		switch x := in.(type) {
		case *ssa.Store:
			if base, f, isF := core.FieldOf(x.Addr); isF && f == field && core.NamedOf(base.Type()) == "frame" {
				out = append(out, frameSet{x.Val, x})
			}
		case *ssa.Call:
			if cal := x.Call.StaticCallee(); cal != nil && isFrameCtor(cal) {
				if fv := frameFieldValue(x, field); fv != nil {
					out = append(out, frameSet{fv, x})
				}
			}
		}
	})
	return out
}

// isInprocFrameWriter: fn hands a frame to the peer: it sends on its channel
// parameter, or it forwards its frame-typed parameter to such a function (a
// method like sendFrameLocked(f) wrapping the package's frame writer).
func isInprocFrameWriter(fn *ssa.Function) bool { return inprocFrameWriterDepth(fn, 0) }

func inprocFrameWriterDepth(fn *ssa.Function, depth int) bool {
	if fn == nil || fn.Blocks == nil || depth > 2 {
		return false
	}
	if sendsOnParam(fn) >= 0 {
		return true
	}
	var fpar *ssa.Parameter
	for _, pp := range fn.Params {
		if core.NamedOf(pp.Type()) == "frame" {
			fpar = pp
		}
	}
	if fpar == nil {
		return false
	}
	found := false
	core.Instrs(fn, func(in ssa.Instruction) {
		call, ok := in.(*ssa.Call)
		if !ok || found {
			return
		}
		cal := call.Call.StaticCallee()
		if cal == nil || cal == fn || !inprocFrameWriterDepth(cal, depth+1) {
			return
		}
		for _, a := range call.Call.Args {
			if core.OriginIs(a, func(o ssa.Value) bool { return o == ssa.Value(fpar) }) {
				found = true
			}
		}
	})
	return found
}

// inprocDataWriteOfParam: fn (a module function) writes a data frame whose
// message is (a Cloner.Clone of) its parameter j, and every possibly-successful
// return of fn passes that write (a helper like writeDataMessage(…, cloner, m)).
func inprocDataWriteOfParam(fn *ssa.Function, j int, depth int) bool {
	if fn == nil || fn.Blocks == nil || depth > 2 || j < 0 || j >= len(fn.Params) {
		return false
	}
	par := fn.Params[j]
	isW := func(in ssa.Instruction) bool {
		call, ok := in.(*ssa.Call)
		if !ok {
			return false
		}
		cal := call.Call.StaticCallee()
		if cal == nil {
			return false
		}
		if isInprocFrameWriter(cal) {
			for _, a := range call.Call.Args {
				if core.NamedOf(a.Type()) != "frame" {
					continue
				}
				dv := frameFieldValue(a, "data")
				if dv != nil && core.OriginIs(dv, func(o ssa.Value) bool {
					if o == ssa.Value(par) {
						return true
					}
					cr, _, ok := core.CallResult(o)
					return ok && isClonerCall(&cr.Call, "Clone") && core.OriginIs(cr.Call.Args[0], func(x ssa.Value) bool { return x == ssa.Value(par) })
				}) {
					return true
				}
			}
		}
		for ai, a := range call.Call.Args {
			if core.OriginIs(a, func(o ssa.Value) bool { return o == ssa.Value(par) }) && cal != fn && inprocDataWriteOfParam(cal, ai, depth+1) {
				return true
			}
		}
		return false
	}
	n := 0
	core.Instrs(fn, func(in ssa.Instruction) {
		if isW(in) {
			n++
		}
	})
	if n == 0 {
		return false
	}
	ei := core.ErrResultIndex(fn.Signature)
	for _, r := range core.Returns(fn) {
		if ei >= 0 && ei < len(r.Results) && core.ClassifyErr(r.Results[ei], r) == core.ErrNonNil {
			continue
		}
		if !core.MustPass(core.Entry(fn), r, isW) {
			return false
		}
	}
	return true
}

// expandLeaves: a leaf that is the result of a single-use step helper of the
// module (what a "split function" clean-up leaves) is replaced by the leaves of
// that helper's returns; facts inside the helper speak about its parameters,
// which core.ResolveFree maps to the arguments of the only call.
func expandLeaves(ls []core.ErrLeaf, depth int) []core.ErrLeaf {
	var out []core.ErrLeaf
	for _, l := range ls {
		call, idx, ok := core.CallResult(l.V)
		var h *ssa.Function
		if ok {
			h = call.Call.StaticCallee()
		}
		if h == nil || h.Blocks == nil || depth > 2 || core.InlineSite[h] != ssa.Instruction(call) {
			out = append(out, l)
			continue
		}
		var sub []core.ErrLeaf
		for _, r := range core.Returns(h) {
			if idx < len(r.Results) {
				sub = append(sub, core.ErrLeaves(r.Results[idx], r)...)
			}
		}
		out = append(out, expandLeaves(sub, depth+1)...)
	}
	return out
}

// flagSetOnlyAfter: v (seen through single-use helper parameters) is a bool φ of
// fn whose true edges all come from paths that passed an instruction accepted
// by pass; its other edges are false or loop-carried copies of itself.
func flagSetOnlyAfter(v ssa.Value, fn *ssa.Function, pass func(ssa.Instruction) bool) bool {
	phi, ok := core.ResolveFree(v).(*ssa.Phi)
	if !ok || phi.Parent() != fn || core.TypeStr(phi.Type()) != "bool" {
		return false
	}
	seen := map[*ssa.Phi]bool{}
	var okPhi func(p *ssa.Phi) bool
	okPhi = func(p *ssa.Phi) bool {
		if seen[p] {
			return true
		}
		seen[p] = true
		for i, e := range p.Edges {
			if b, isB := core.ConstBool(e); isB {
				if !b {
					continue
				}
				pred := p.Block().Preds[i]
				if !core.MustPass(core.Entry(fn), pred.Instrs[len(pred.Instrs)-1], pass) {
					return false
				}
				continue
			}
			if p2, isPhi := e.(*ssa.Phi); isPhi && okPhi(p2) {
				continue
			}
			return false
		}
		return true
	}
	return okPhi(phi)
}

// frameWriterEndParam: the parameter of an HTTP frame writer that says "this is
// the final (trailer) frame": a bool, or a parameter of a private integer kind
// type that the writer only compares with one constant (the final kind k).
func frameWriterEndParam(fn *ssa.Function) (idx int, isBool bool, k int64, ok bool) {
	for i, pp := range fn.Params {
		if b, isB := pp.Type().Underlying().(*types.Basic); isB && b.Kind() == types.Bool {
			return i, true, 0, true
		}
	}
	for i, pp := range fn.Params {
		b, isB := pp.Type().Underlying().(*types.Basic)
		if !isB || b.Info()&types.IsInteger == 0 {
			continue
		}
		if _, named := pp.Type().(*types.Named); !named {
			continue
		}
		var ks []int64
		only := true
		for _, r := range core.Refs(pp) {
			switch x := r.(type) {
			case *ssa.BinOp:
				y := x.Y
				if x.Y == ssa.Value(pp) {
					y = x.X
				}
				c, isC := core.ConstInt(y)
				if x.Op != token.EQL || !isC {
					only = false
				} else {
					ks = append(ks, c)
				}
			case *ssa.DebugRef:
			default:
				only = false
			}
		}
		if only && len(ks) == 1 {
			return i, false, ks[0], true
		}
	}
	return -1, false, 0, false
}

// readsRequestBody: in (a call in the HTTP handler literal whose request
// parameter is rPar) reads the request body: a reader of package io / ioutil
// applied to r.Body, or a module function handed r.Body (or r) that does so.
func readsRequestBody(in ssa.Instruction, rPar *ssa.Parameter, depth int) bool {
	call, ok := in.(*ssa.Call)
	if !ok {
		return false
	}
	isBody := func(v ssa.Value) (body, req bool) {
		core.OriginIs(v, func(o ssa.Value) bool {
			o = core.Strip(o)
			if core.ResolveFree(o) == ssa.Value(rPar) || o == ssa.Value(rPar) {
				req = true
			}
			if base, fld, isF := core.FieldOf(o); isF && fld == "Body" && core.OriginIs(base, func(b ssa.Value) bool {
				b = core.Strip(b)
				return b == ssa.Value(rPar) || core.ResolveFree(b) == ssa.Value(rPar)
			}) {
				body = true
			}
			return false
		})
		return
	}
	ci := core.InfoOf(&call.Call)
	for i, a := range call.Call.Args {
		b, r := isBody(a)
		if !b && !r {
			continue
		}
		if b && (ci.Is("io.ReadAll") || ci.Is("io/ioutil.ReadAll") || ci.Is("io.ReadFull") || ci.Is("io.ReadAtLeast") || ci.Is("io.Copy") || ci.Is("io.CopyN")) {
			return true
		}
		if ci.Static != nil && ci.Static.Blocks != nil && strings.HasPrefix(ci.Pkg, core.ModulePath) && depth < 2 && i < len(ci.Static.Params) {
			par := ci.Static.Params[i]
			found := false
			core.Instrs(ci.Static, func(x ssa.Instruction) {
				c2, ok := x.(*ssa.Call)
				if !ok || found {
					return
				}
				c2i := core.InfoOf(&c2.Call)
				for _, a2 := range c2.Call.Args {
					direct := core.OriginIs(a2, func(o ssa.Value) bool { return core.Strip(o) == ssa.Value(par) })
					viaBody := false
					if r {
						bb, _ := func() (bool, bool) {
							var body bool
							core.OriginIs(a2, func(o ssa.Value) bool {
								if base, fld, isF := core.FieldOf(core.Strip(o)); isF && fld == "Body" && core.OriginIs(base, func(b2 ssa.Value) bool { return core.Strip(b2) == ssa.Value(par) }) {
									body = true
								}
								return false
							})
							return body, false
						}()
						viaBody = bb
					}
					if (b && direct || viaBody) && (c2i.Is("io.ReadAll") || c2i.Is("io/ioutil.ReadAll") || c2i.Is("io.ReadFull") || c2i.Is("io.ReadAtLeast") || c2i.Is("io.Copy") || c2i.Is("io.CopyN")) {
						found = true
					}
				}
			})
			if found {
				return true
			}
		}
	}
	if call.Call.IsInvoke() && ci.Name == "Read" {
		if b, _ := isBody(call.Call.Value); b {
			return true
		}
	}
	return false
}
