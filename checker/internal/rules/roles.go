package rules

import (
	"go/constant"
	"go/types"
	"strings"

	"golang.org/x/tools/go/ssa"

	"verif/checker/internal/core"
)

const (
	grpcPkg     = "google.golang.org/grpc"
	codesPkg    = "google.golang.org/grpc/codes"
	statusPkg   = "google.golang.org/grpc/status"
	metadataPkg = "google.golang.org/grpc/metadata"
	peerPkg     = "google.golang.org/grpc/peer"
	istatusPkg  = "google.golang.org/grpc/internal/status"
)

// sigStr renders fn's signature without the receiver, module-relative.
func sigStr(fn *ssa.Function) string {
	sig := fn.Signature
	s := types.NewSignatureType(nil, nil, nil, sig.Params(), sig.Results(), sig.Variadic())
	return core.TypeStr(s)
}

// funcsBySig returns the top-level library functions (no methods, no
// literals) of the package whose signature string equals sig.
func funcsBySig(p *core.Prog, pkgSuffix, sig string) []*ssa.Function {
	var out []*ssa.Function
	for _, fn := range p.LibFuncs(pkgSuffix) {
		if fn.Parent() != nil || fn.Signature.Recv() != nil {
			continue
		}
		if sigStr(fn) == sig {
			out = append(out, fn)
		}
	}
	return out
}

// handlerClosure is an HTTP handler function literal returned by a function
// of httpgrpc.
type handlerClosure struct {
	Fn     *ssa.Function // the func(w, r) literal
	Parent *ssa.Function
	Stream bool // parent takes *grpc.StreamDesc (else *grpc.MethodDesc)
}

const httpHandlerSig = "func(w net/http.ResponseWriter, r *net/http.Request)"

// httpHandlerClosures finds every function literal of type
// func(http.ResponseWriter, *http.Request) in httpgrpc whose parent takes a
// method or stream descriptor.
func httpHandlerClosures(p *core.Prog) []handlerClosure {
	var out []handlerClosure
	for _, fn := range p.LibFuncs("httpgrpc") {
		if fn.Parent() == nil {
			continue
		}
		ps := fn.Signature.Params()
		if ps.Len() != 2 || fn.Signature.Results().Len() != 0 {
			continue
		}
		if core.TypeStr(ps.At(0).Type()) != "net/http.ResponseWriter" || core.TypeStr(ps.At(1).Type()) != "*net/http.Request" {
			continue
		}
		par := fn.Parent()
		hc := handlerClosure{Fn: fn, Parent: par}
		found := false
		for _, pp := range par.Params {
			switch core.TypeStr(pp.Type()) {
			case "*google.golang.org/grpc.StreamDesc":
				hc.Stream = true
				found = true
			case "*google.golang.org/grpc.MethodDesc":
				found = true
			}
		}
		if found {
			out = append(out, hc)
		}
	}
	return out
}

// declaredMethod returns the method name declared directly on nt (not
// promoted), or nil.
func declaredMethod(p *core.Prog, nt *types.Named, name string) *ssa.Function {
	for i := 0; i < nt.NumMethods(); i++ {
		m := nt.Method(i)
		if m.Name() == name {
			return p.SSA.FuncValue(m)
		}
	}
	return nil
}

// streamTypes returns library types implementing the given grpc interface
// that declare method `must` themselves.
func streamTypes(p *core.Prog, iface, must string) []*types.Named {
	it := p.ExtType(grpcPkg, iface)
	if it == nil {
		return nil
	}
	var out []*types.Named
	for _, nt := range p.Implementers(it) {
		if declaredMethod(p, nt, must) != nil {
			out = append(out, nt)
		}
	}
	return out
}

func pkgSuffixOf(nt *types.Named) string {
	path := nt.Obj().Pkg().Path()
	if path == core.ModulePath {
		return "."
	}
	return strings.TrimPrefix(path, core.ModulePath+"/")
}

// isHandlerInvocation reports whether call c invokes a gRPC handler: a call
// through the Handler field of a grpc.MethodDesc/StreamDesc, or a call of a
// value of a server interceptor type.
func isHandlerInvocation(c *ssa.CallCommon) (kind string, ok bool) {
	if c.IsInvoke() {
		return "", false
	}
	v := c.Value
	if _, isFn := v.(*ssa.Function); isFn {
		return "", false
	}
	if _, isB := v.(*ssa.Builtin); isB {
		return "", false
	}
	if _, isMC := v.(*ssa.MakeClosure); isMC {
		return "", false
	}
	// through field Handler?
	for _, o := range core.Origins(v) {
		if base, f, ok := core.FieldOf(o); ok && f == "Handler" {
			q := core.QualNamedOf(base.Type())
			if q == grpcPkg+".MethodDesc" {
				return "unary-handler", true
			}
			if q == grpcPkg+".StreamDesc" {
				return "stream-handler", true
			}
		}
	}
	switch core.TypeStr(v.Type()) {
	case "google.golang.org/grpc.UnaryServerInterceptor":
		return "unary-interceptor", true
	case "google.golang.org/grpc.StreamServerInterceptor":
		return "stream-interceptor", true
	}
	return "", false
}

// handlerInvocations lists handler invocation sites in fn (not nested).
func handlerInvocations(fn *ssa.Function) []*ssa.Call {
	return core.CallsIn(fn, func(c *ssa.Call, _ core.CallInfo) bool {
		_, ok := isHandlerInvocation(&c.Call)
		return ok
	})
}

// typeKey is the symbolic name of a library type ("inprocgrpc.Channel").
func typeKey(nt *types.Named) string {
	s := pkgSuffixOf(nt)
	if s == "." {
		s = "grpchan"
	}
	return s + "." + nt.Obj().Name()
}

func constantInt64(v constant.Value) (int64, bool) {
	if v.Kind() != constant.Int {
		return 0, false
	}
	return constant.Int64Val(v)
}
