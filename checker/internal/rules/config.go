package rules

import (
	"go/token"
	"go/types"
	"sort"
	"strings"

	"golang.org/x/tools/go/ssa"

	"verif/checker/internal/core"
)

// Configuration plumbing.
//
// Several properties quantify over *configurations* (interceptors, cloner, base
// path, error renderer).  The dispatch rules show that the call sites use "the
// configured value", i.e. a field of the transport object.  What they cannot
// see is whether the value a user configures ever reaches that field.  The
// rules below close that gap structurally:
//
//   setter     every store of a parameter into a configuration field happens on
//              every path of the function that makes it, stores the exported
//              entry point's own parameter unchanged, and goes to the object
//              the entry point hands back (the receiver it returns, or the
//              object the returned option closure is later applied to);
//   reachable  a configuration field that the package reads has at least one
//              such setter (otherwise the option is dead);
//   default    a default value is stored before any option is applied, never
//              after (a later default would overwrite the user's choice);
//   apply      an option's apply step calls the option exactly once with the
//              object (or the address of the option struct inside the object)
//              it was given;
//   fan-out    a function that takes options applies every element of the
//              slice, unconditionally, to the object it then uses or returns.

type cfgField struct {
	st    *types.Named
	idx   int
	name  string
	ftype types.Type
}

func (f cfgField) key() string { return core.NamedOf(f.st) + "." + f.name }

// cfgFields lists the fields of library struct types of package pkgS selected by want.
func cfgFields(p *core.Prog, pkgS string, want func(st *types.Named, f *types.Var) bool) []cfgField {
	path := core.ModulePath
	if pkgS != "." && pkgS != "" {
		path += "/" + pkgS
	}
	pk := p.Pkgs[path]
	if pk == nil {
		return nil
	}
	var out []cfgField
	sc := pk.Types.Scope()
	for _, n := range sc.Names() {
		tn, ok := sc.Lookup(n).(*types.TypeName)
		if !ok || tn.IsAlias() || !p.IsLibFile(tn.Pos()) {
			continue
		}
		nt, ok := tn.Type().(*types.Named)
		if !ok {
			continue
		}
		st, ok := nt.Underlying().(*types.Struct)
		if !ok {
			continue
		}
		for i := 0; i < st.NumFields(); i++ {
			if want(nt, st.Field(i)) {
				out = append(out, cfgField{nt, i, st.Field(i).Name(), st.Field(i).Type()})
			}
		}
	}
	sort.Slice(out, func(i, j int) bool { return out[i].key() < out[j].key() })
	return out
}

// valueParam: v is, on every path, the value of one parameter (read directly,
// or through the cell a function literal captured it in); nil otherwise.
func valueParam(v ssa.Value) *ssa.Parameter {
	v = core.ResolveFree(core.Strip(v))
	if par, ok := v.(*ssa.Parameter); ok {
		return par
	}
	var par *ssa.Parameter
	for _, o := range core.Origins(v) {
		pp, ok := core.ResolveFree(core.Strip(o)).(*ssa.Parameter)
		if !ok || (par != nil && pp != par) {
			return nil
		}
		par = pp
	}
	return par
}

// paramInExpr: v is an expression over a parameter (an operand of a binary
// operation or an argument of a call, directly or nested) without being the
// parameter itself.
func paramInExpr(v ssa.Value, depth int) *ssa.Parameter {
	if depth > 4 {
		return nil
	}
	v = core.Strip(v)
	switch x := v.(type) {
	case *ssa.BinOp:
		for _, o := range []ssa.Value{x.X, x.Y} {
			if p := valueParam(o); p != nil {
				return p
			}
			if p := paramInExpr(o, depth+1); p != nil {
				return p
			}
		}
	case *ssa.Call:
		for _, o := range x.Call.Args {
			if p := valueParam(o); p != nil {
				return p
			}
			if p := paramInExpr(o, depth+1); p != nil {
				return p
			}
		}
	case *ssa.Convert:
		if p := valueParam(x.X); p != nil {
			return p
		}
		return paramInExpr(x.X, depth+1)
	}
	return nil
}

func outermost(fn *ssa.Function) *ssa.Function {
	for fn.Parent() != nil {
		fn = fn.Parent()
	}
	return fn
}

func isFieldAddrOf(v ssa.Value, f cfgField) (*ssa.FieldAddr, bool) {
	fa, ok := v.(*ssa.FieldAddr)
	if !ok || fa.Field != f.idx {
		return nil, false
	}
	nt, _ := core.Deref(fa.X.Type()).(*types.Named)
	if nt == nil || nt.Obj() != f.st.Obj() {
		return nil, false
	}
	return fa, true
}

// closureReturned: every return of fn yields a closure of lit (possibly re-typed / boxed).
func closureReturned(fn, lit *ssa.Function) bool {
	rets := core.Returns(fn)
	if len(rets) == 0 {
		return false
	}
	for _, r := range rets {
		if len(r.Results) != 1 {
			return false
		}
		ok := core.AllOrigins(r.Results[0], func(o ssa.Value) bool {
			o = core.Strip(o)
			if mi, isMI := o.(*ssa.MakeInterface); isMI {
				o = core.Strip(mi.X)
			}
			if ct, isCT := o.(*ssa.ChangeType); isCT {
				o = core.Strip(ct.X)
			}
			if mc, isMC := o.(*ssa.MakeClosure); isMC {
				return mc.Fn == lit
			}
			return o == ssa.Value(lit)
		})
		if !ok {
			return false
		}
	}
	return true
}

// configPlumbing evaluates the setter / reachable / default obligations for the
// selected fields; it returns the number of fields looked at.
func configPlumbing(c *core.Ctx, pkgS string, want func(st *types.Named, f *types.Var) bool) int {
	p := c.P
	fields := cfgFields(p, pkgS, want)
	libs := p.LibFuncs(pkgS)
	for _, f := range fields {
		type st struct {
			s  *ssa.Store
			fa *ssa.FieldAddr
			fn *ssa.Function
		}
		var setters, defaults, transformed []st
		reads := 0
		for _, fn := range libs {
			core.Instrs(fn, func(in ssa.Instruction) {
				switch x := in.(type) {
				case *ssa.Store:
					if fa, ok := isFieldAddrOf(x.Addr, f); ok {
						if valueParam(x.Val) != nil {
							setters = append(setters, st{x, fa, fn})
						} else if par := paramInExpr(x.Val, 0); par != nil {
							transformed = append(transformed, st{x, fa, fn})
						} else {
							defaults = append(defaults, st{x, fa, fn})
						}
					}
				case *ssa.UnOp:
					if x.Op == token.MUL {
						if _, ok := isFieldAddrOf(x.X, f); ok {
							reads++
						}
					}
				case *ssa.Field:
					nt, _ := x.X.Type().(*types.Named)
					if nt != nil && nt.Obj() == f.st.Obj() && x.Field == f.idx {
						reads++
					}
				}
			})
		}
		for _, t := range transformed {
			c.Fail(core.FuncName(outermost(t.fn))+":"+f.name+":setter", t.s.Pos(), "%s: what is stored is computed from the parameter (concatenation, conversion through a call), not the caller's value itself: the configured value is altered on its way in", f.key())
		}
		nonConstDefaults := 0
		for _, d := range defaults {
			if _, isC := core.Strip(d.s.Val).(*ssa.Const); !isC {
				nonConstDefaults++
			}
		}
		if (reads > 0 && !f.st.Obj().Exported() || reads > 0 && !token.IsExported(f.name)) && (len(setters) > 0 || nonConstDefaults == 0) {
			if len(setters) == 0 {
				c.Fail(f.key()+":reachable", f.st.Obj().Pos(), "the package reads %s but nothing ever stores a caller-supplied value into it: the option that configures it is dead, the configured value never takes effect", f.key())
			} else {
				c.Ok(f.key()+":reachable", f.st.Obj().Pos(), "%d setter store(s) of a parameter, %d read(s)", len(setters), reads)
			}
		}
		for _, s := range setters {
			S := s.fn
			F := outermost(S)
			key := core.FuncName(F) + ":" + f.name + ":setter"
			par := valueParam(s.s.Val)
			var why []string
			if par.Parent() != F {
				why = append(why, "the stored value is not a parameter of the exported entry point")
			}
			if !types.Identical(par.Type().Underlying(), f.ftype.Underlying()) {
				why = append(why, "the parameter's type differs from the field's (a conversion changes what is configured)")
			}
			for _, r := range core.Returns(S) {
				if !core.MustPass(core.Entry(S), r, func(in ssa.Instruction) bool { return in == ssa.Instruction(s.s) }) {
					why = append(why, "a path through "+core.FuncName(S)+" returns without storing the value (the option is silently ignored on that path)")
					break
				}
			}
			base := core.ResolveFree(core.Strip(s.fa.X))
			bp, _ := base.(*ssa.Parameter)
			_, freshObj := base.(*ssa.Alloc)
			if freshObj {
				// a copy of an existing object is not a fresh one
				for _, st2 := range core.StoresTo(base.(*ssa.Alloc)) {
					if _, isLd := core.Strip(st2.Val).(*ssa.UnOp); isLd {
						freshObj = false
					}
				}
			}
			switch {
			case bp == nil && freshObj && S == F:
				// constructor form: a fresh object built from the function's own parameters (what becomes of it is
				// the dispatch rules' business)
			case bp == nil:
				why = append(why, "the value is stored into an object that is neither the receiver nor the object the option is applied to (e.g. a copy)")
			case S == F:
				// method form: the receiver, and the entry point hands the receiver back (or nothing)
				if F.Signature.Recv() == nil || len(F.Params) == 0 || bp != F.Params[0] {
					why = append(why, "the value is not stored into the receiver")
				}
				for _, r := range core.Returns(F) {
					for _, res := range r.Results {
						nt, _ := core.Deref(res.Type()).(*types.Named)
						if nt == nil || nt.Obj() != f.st.Obj() {
							continue
						}
						if !core.AllOrigins(res, func(o ssa.Value) bool { return core.ResolveFree(core.Strip(o)) == ssa.Value(bp) }) {
							why = append(why, "the entry point does not return the object it configured")
						}
					}
				}
			default:
				// option form: S is a literal of F, the object is S's own parameter, F returns the literal
				if bp.Parent() != S {
					why = append(why, "the value is stored into an object captured from outside the option closure")
				}
				if S.Parent() != F || !closureReturned(F, S) {
					why = append(why, "the exported entry point does not return the closure that performs the store on every path")
				}
			}
			if len(why) == 0 {
				c.Ok(key, s.s.Pos(), "the entry point's own parameter is stored unchanged into %s of the configured object on every path", f.key())
			} else {
				c.Fail(key, s.s.Pos(), "%s: %s", f.key(), strings.Join(why, "; "))
			}
		}
		// a default must not follow the application of options
		for _, d := range defaults {
			applies := optionApplications(d.fn)
			for _, a := range applies {
				if core.Reachable(core.After(a), d.s) && !onlyIfUnset(d.s, d.fa, f) {
					c.Fail(core.FuncName(d.fn)+":"+f.name+":default-before-options", d.s.Pos(), "a default value is stored into %s after options were applied: the caller's configuration is overwritten", f.key())
				} else {
					c.Ok(core.FuncName(d.fn)+":"+f.name+":default-before-options", d.s.Pos(), "the default is stored before any option is applied")
				}
			}
		}
	}
	return len(fields)
}

// onlyIfUnset: the store is made only on the edge where the same field of the
// same object was found nil ("if x.f == nil { x.f = default }").
func onlyIfUnset(st *ssa.Store, fa *ssa.FieldAddr, f cfgField) bool {
	return core.GuardedBy(st, func(fc core.Fact) bool {
		if fc.Op != token.EQL || !core.IsNilConst(fc.Y) {
			return false
		}
		ld, ok := core.Strip(fc.X).(*ssa.UnOp)
		if !ok || ld.Op != token.MUL {
			return false
		}
		fa2, ok := isFieldAddrOf(ld.X, f)
		return ok && (fa2.X == fa.X || core.SameVal(fa2.X, fa.X) || core.ResolveFree(core.Strip(fa2.X)) == core.ResolveFree(core.Strip(fa.X)))
	})
}

// isOptionType: a named func type of package pkg, or a named interface of the
// package, whose (only) parameter / whose method "apply" takes a pointer to a
// struct of the package.
func isOptionType(t types.Type) bool {
	nt, ok := t.(*types.Named)
	if !ok || nt.Obj().Pkg() == nil || !strings.HasPrefix(nt.Obj().Pkg().Path(), core.ModulePath) {
		return false
	}
	switch u := nt.Underlying().(type) {
	case *types.Signature:
		return u.Params().Len() == 1 && u.Results().Len() == 0 && isPtrToPkgStruct(u.Params().At(0).Type())
	case *types.Interface:
		if u.NumMethods() != 1 {
			return false
		}
		sig := u.Method(0).Type().(*types.Signature)
		return sig.Params().Len() == 1 && sig.Results().Len() == 0 && isPtrToPkgStruct(sig.Params().At(0).Type())
	}
	return false
}

func isPtrToPkgStruct(t types.Type) bool {
	pt, ok := t.(*types.Pointer)
	if !ok {
		return false
	}
	nt, ok := pt.Elem().(*types.Named)
	if !ok || nt.Obj().Pkg() == nil || !strings.HasPrefix(nt.Obj().Pkg().Path(), core.ModulePath) {
		return false
	}
	_, isSt := nt.Underlying().(*types.Struct)
	return isSt
}

// optionApplications lists the calls in fn that apply an option value (a call
// of a value of option func type, or an invocation of an option interface's method).
func optionApplications(fn *ssa.Function) []ssa.Instruction {
	var out []ssa.Instruction
	core.Instrs(fn, func(in ssa.Instruction) {
		cc := core.CallOf(in)
		if cc == nil {
			return
		}
		if cc.IsInvoke() {
			if isOptionType(cc.Value.Type()) {
				out = append(out, in)
			}
			return
		}
		if cc.StaticCallee() == nil && isOptionType(cc.Value.Type()) {
			out = append(out, in)
		}
	})
	return out
}

// resolvesTo: a denotes obj (directly, through a captured cell, or as the only
// value a local ever holds).
func resolvesTo(a, obj ssa.Value) bool {
	if core.ResolveFree(core.Strip(a)) == obj {
		return true
	}
	os := core.Origins(a)
	if len(os) == 0 {
		return false
	}
	for _, o := range os {
		if core.ResolveFree(core.Strip(o)) != obj {
			return false
		}
	}
	return true
}

// denotes: a stands for the configured object obj where a function hands it
// on: obj itself; the address of a local that holds nothing but obj (a value
// result kept in a variable); or a copy of *obj taken after the options were
// applied (after: the application is not reachable from the copy).
func denotes(a, obj ssa.Value, applied ssa.Instruction) bool {
	if resolvesTo(a, obj) {
		return true
	}
	if al, ok := core.ResolveFree(core.Strip(a)).(*ssa.Alloc); ok && ssa.Value(al) != obj {
		sts := core.StoresTo(al)
		if len(sts) > 0 {
			all := true
			for _, st := range sts {
				if !denotes(st.Val, obj, applied) {
					all = false
				}
			}
			if all {
				return true
			}
		}
	}
	if ld, ok := core.Strip(a).(*ssa.UnOp); ok && ld.Op == token.MUL && resolvesTo(ld.X, obj) {
		return applied == nil || ld.Parent() != applied.Parent() || !core.Reachable(core.After(ld), applied)
	}
	return false
}

func sameObjType(a, b types.Type) bool {
	return types.Identical(core.Deref(a), core.Deref(b))
}

// optionFanOut: every function of the package that takes a list of options
// applies each element, unconditionally, to the object it then uses or
// returns — or hands the whole list to a package function that does, and uses
// the object that function returns.
func optionFanOut(c *core.Ctx, pkgS string) int {
	p := c.P
	n := 0
	for _, fn := range p.LibFuncs(pkgS) {
		if fn.Parent() != nil {
			continue
		}
		for _, last := range fn.Params {
			sl, ok := last.Type().(*types.Slice)
			if !ok || !isOptionType(sl.Elem()) {
				continue
			}
			n++
			optionFanOutOf(c, pkgS, fn, last)
		}
	}
	return n
}

func optionFanOutOf(c *core.Ctx, pkgS string, fn *ssa.Function, last *ssa.Parameter) {
	key := core.FuncName(fn) + ":options-applied"
	var mine []ssa.Instruction
	for _, a := range optionApplications(fn) {
		cc := core.CallOf(a)
		ld, isLd := core.Strip(cc.Value).(*ssa.UnOp)
		if !isLd {
			continue
		}
		ia, isIA := ld.X.(*ssa.IndexAddr)
		if !isIA || core.ResolveFree(core.Strip(ia.X)) != ssa.Value(last) {
			continue
		}
		mine = append(mine, a)
	}
	var why []string
	var obj ssa.Value
	var pos token.Pos = fn.Pos()
	var skip ssa.Instruction
	switch {
	case len(mine) == 1:
		app := mine[0]
		skip, pos = app, app.Pos()
		cc := core.CallOf(app)
		ld := core.Strip(cc.Value).(*ssa.UnOp)
		ia := ld.X.(*ssa.IndexAddr)
		// executed for every element: from the element load every path back to the loop header passes the application
		hdr := loopHeaderOf(ia)
		if hdr == nil {
			why = append(why, "the application is not inside a loop over the option slice")
		} else {
			if !core.MustPass(core.After(ld), hdr.Instrs[0], func(in ssa.Instruction) bool { return in == app }) {
				why = append(why, "some path of the loop body skips the application: an option can be ignored")
			}
			if !fullRange(hdr, ia, last) {
				why = append(why, "the loop does not run over the whole option slice (first index 0, bound len of the parameter itself)")
			}
		}
		if len(cc.Args) != 1 {
			why = append(why, "the option is not applied to exactly one object")
		} else if al, isAl := core.ResolveFree(core.Strip(cc.Args[0])).(*ssa.Alloc); isAl {
			obj = al
		} else {
			why = append(why, "the options are not applied to a local object of the function")
		}
	case len(mine) == 0:
		// the whole list handed to a package function that takes a list of options
		var delegs []*ssa.Call
		core.Instrs(fn, func(in ssa.Instruction) {
			call, ok := in.(*ssa.Call)
			if !ok {
				return
			}
			callee := call.Call.StaticCallee()
			if callee == nil || !core.PkgIs(callee, pkgS) || callee == fn {
				return
			}
			for i, a := range call.Call.Args {
				if core.ResolveFree(core.Strip(a)) == ssa.Value(last) && i < len(callee.Params) && types.Identical(callee.Params[i].Type(), last.Type()) {
					delegs = append(delegs, call)
				}
			}
		})
		if len(delegs) != 1 {
			c.Fail(key, fn.Pos(), "expected exactly one place that applies the elements of %s (or hands the list, as it is, to one package function that does), found %d: some options would be ignored or applied twice", last.Name(), len(delegs))
			return
		}
		d := delegs[0]
		skip, pos = d, d.Pos()
		for _, r := range core.Returns(fn) {
			if !core.MustPass(core.Entry(fn), r, func(in ssa.Instruction) bool { return in == ssa.Instruction(d) }) {
				why = append(why, "a path returns without the options having been applied")
				break
			}
		}
		if isPtrToPkgStruct(d.Type()) || isPtrToPkgStruct(types.NewPointer(d.Type())) {
			obj = d
		} else {
			why = append(why, "the function the list is handed to does not return the configured object")
		}
	default:
		c.Fail(key, fn.Pos(), "expected exactly one place that applies the elements of %s, found %d (elements of a re-sliced or filtered option list do not count): some options would be ignored or applied twice", last.Name(), len(mine))
		return
	}
	if obj != nil {
		// the object: fn returns it or hands it to every package function that takes such an object
		used := 0
		for _, r := range core.Returns(fn) {
			for _, res := range r.Results {
				if sameObjType(res.Type(), obj.Type()) && isPtrToPkgStruct(types.NewPointer(core.Deref(res.Type()))) {
					if denotes(res, obj, skip) {
						used++
					} else {
						why = append(why, "the function returns another object than the one the options were applied to")
					}
				}
			}
		}
		core.InstrsDeep(fn, func(_ *ssa.Function, in ssa.Instruction) {
			k := core.CallOf(in)
			if k == nil || in == skip {
				return
			}
			callee := k.StaticCallee()
			if callee == nil || !core.PkgIs(callee, pkgS) {
				return
			}
			for _, a := range k.Args {
				if sameObjType(a.Type(), obj.Type()) && isPtrToPkgStruct(types.NewPointer(core.Deref(a.Type()))) {
					if denotes(a, obj, skip) {
						used++
					} else {
						why = append(why, "a package function is handed another option object than the one the options were applied to (or a copy taken before they were applied)")
					}
				}
			}
		})
		if used == 0 {
			why = append(why, "the configured object is neither returned nor handed on")
		}
	}
	if len(why) == 0 {
		c.Ok(key, pos, "each element of %s is applied once, over the whole list, to the object the function uses", last.Name())
	} else {
		c.Fail(key, pos, "%s", strings.Join(why, "; "))
	}
}

// loopHeaderOf finds the header of the innermost loop containing the index
// address: the block holding the φ the index derives from.
func loopHeaderOf(ia *ssa.IndexAddr) *ssa.BasicBlock {
	seen := map[ssa.Value]bool{}
	var find func(v ssa.Value) *ssa.BasicBlock
	find = func(v ssa.Value) *ssa.BasicBlock {
		if seen[v] {
			return nil
		}
		seen[v] = true
		switch x := v.(type) {
		case *ssa.Phi:
			return x.Block()
		case *ssa.BinOp:
			if b := find(x.X); b != nil {
				return b
			}
			return find(x.Y)
		case *ssa.Convert:
			return find(x.X)
		}
		return nil
	}
	return find(ia.Index)
}

// fullRange: the loop index starts at 0 (φ of -1 incremented before use, or φ
// of 0) and is compared with len of the parameter itself.
func fullRange(hdr *ssa.BasicBlock, ia *ssa.IndexAddr, par *ssa.Parameter) bool {
	var phi *ssa.Phi
	for _, in := range hdr.Instrs {
		if ph, ok := in.(*ssa.Phi); ok {
			phi = ph
			break
		}
	}
	if phi == nil {
		return false
	}
	start, okc := int64(0), false
	for _, e := range phi.Edges {
		if v, ok := core.ConstInt(e); ok {
			start, okc = v, true
		}
	}
	if !okc {
		return false
	}
	idx := ia.Index
	switch {
	case idx == ssa.Value(phi) && start == 0:
	case start == -1:
		bo, ok := idx.(*ssa.BinOp)
		if !ok || bo.Op != token.ADD || bo.X != ssa.Value(phi) {
			return false
		}
		if one, ok := core.ConstInt(bo.Y); !ok || one != 1 {
			return false
		}
	default:
		return false
	}
	// the bound
	okBound := false
	for _, b := range hdr.Parent().Blocks {
		for _, in := range b.Instrs {
			bo, ok := in.(*ssa.BinOp)
			if !ok || bo.Op != token.LSS || bo.X != idx {
				continue
			}
			if call, ok := bo.Y.(*ssa.Call); ok {
				if bi, ok := call.Call.Value.(*ssa.Builtin); ok && bi.Name() == "len" && len(call.Call.Args) == 1 && core.ResolveFree(core.Strip(call.Call.Args[0])) == ssa.Value(par) {
					okBound = true
				}
			}
		}
	}
	return okBound
}

// optionApplySteps: every declared method of a package type that satisfies an
// option interface calls the option exactly once with the object it was given
// (or with the address of the option struct embedded in that object).
func optionApplySteps(c *core.Ctx, pkgS string) int {
	p := c.P
	n := 0
	for _, fn := range p.LibFuncs(pkgS) {
		if fn.Parent() != nil || fn.Signature.Recv() == nil || len(fn.Params) != 2 || fn.Signature.Results().Len() != 0 {
			continue
		}
		recvT := fn.Params[0].Type()
		rn, _ := recvT.(*types.Named)
		if rn == nil {
			continue
		}
		sig, isSig := rn.Underlying().(*types.Signature)
		if !isSig || sig.Params().Len() != 1 || sig.Results().Len() != 0 || !isPtrToPkgStruct(sig.Params().At(0).Type()) || !isPtrToPkgStruct(fn.Params[1].Type()) {
			continue
		}
		n++
		key := core.FuncName(fn) + ":apply-step"
		isCall := func(in ssa.Instruction) bool {
			cc := core.CallOf(in)
			return cc != nil && !cc.IsInvoke() && cc.StaticCallee() == nil && core.ResolveFree(core.Strip(cc.Value)) == ssa.Value(fn.Params[0])
		}
		min, max, ok := core.CountRange(core.Entry(fn), isCall, nil)
		var why []string
		if !ok || min != 1 || max != 1 {
			why = append(why, "the option function is not called exactly once on every path")
		}
		core.Instrs(fn, func(in ssa.Instruction) {
			if !isCall(in) {
				return
			}
			cc := core.CallOf(in)
			a := core.ResolveFree(core.Strip(cc.Args[0]))
			if a == ssa.Value(fn.Params[1]) {
				return
			}
			if fa, isFA := a.(*ssa.FieldAddr); isFA && core.ResolveFree(core.Strip(fa.X)) == ssa.Value(fn.Params[1]) {
				return
			}
			why = append(why, "the option is applied to something else than the object handed in (a copy: the configuration is lost)")
		})
		if len(why) == 0 {
			c.Ok(key, fn.Pos(), "the option is called once with the object (or its embedded option struct) it was given")
		} else {
			c.Fail(key, fn.Pos(), "%s", strings.Join(why, "; "))
		}
	}
	return n
}

// accessorReturnsField: the declared method `name` of nt returns, on every
// path, the receiver's field chosen by pick (nil pick: any single field); it
// reports the field's name.
func accessorReturnsField(p *core.Prog, nt *types.Named, name string) (field string, ok bool, pos token.Pos) {
	m := declaredMethod(p, nt, name)
	if m == nil || len(m.Params) == 0 {
		return "", false, token.NoPos
	}
	pos = m.Pos()
	rets := core.Returns(m)
	if len(rets) == 0 {
		return "", false, pos
	}
	for _, r := range rets {
		if len(r.Results) != 1 {
			return "", false, pos
		}
		good := core.AllOrigins(r.Results[0], func(o ssa.Value) bool {
			base, f, isF := core.FieldOf(core.Strip(o))
			if !isF || core.ResolveFree(core.Strip(base)) != ssa.Value(m.Params[0]) {
				return false
			}
			if field == "" {
				field = f
			}
			return field == f
		})
		if !good {
			return field, false, pos
		}
	}
	return field, field != "", pos
}

// serveDelegates: ServeHTTP of the server type hands its own (w, r) to the
// ServeHTTP of the mux field — the field the registrar's HandleFunc calls go to
// — exactly once on every path, and nothing else touches the response writer.
func serveDelegates(c *core.Ctx, nt *types.Named) {
	p := c.P
	m := declaredMethod(p, nt, "ServeHTTP")
	key := core.NamedOf(nt) + ".ServeHTTP:delegates"
	if m == nil || len(m.Params) != 3 {
		c.Fail(key, nt.Obj().Pos(), "ANCHOR-MISSING: no ServeHTTP(w, r) declared on the server type")
		return
	}
	// the field the registrar registers on
	regField := ""
	if reg := declaredMethod(p, nt, "RegisterService"); reg != nil {
		core.InstrsDeep(reg, func(f *ssa.Function, in ssa.Instruction) {
			cc := core.CallOf(in)
			if cc == nil {
				return
			}
			ci := core.InfoOf(cc)
			if ci.Name != "HandleFunc" && ci.Name != "Handle" {
				return
			}
			recv := cc.Value
			if !cc.IsInvoke() && len(cc.Args) > 0 {
				recv = cc.Args[0]
			}
			if _, f, ok := core.FieldOf(core.Strip(recv)); ok {
				regField = f
			}
		})
	}
	isDeleg := func(in ssa.Instruction) bool {
		cc := core.CallOf(in)
		if cc == nil || core.InfoOf(cc).Name != "ServeHTTP" {
			return false
		}
		return true
	}
	min, max, ok := core.CountRange(core.Entry(m), isDeleg, nil)
	var why []string
	if !ok || min != 1 || max != 1 {
		why = append(why, "not exactly one delegation on every path")
	}
	core.Instrs(m, func(in ssa.Instruction) {
		if !isDeleg(in) {
			return
		}
		cc := core.CallOf(in)
		args := cc.Args
		recv := cc.Value
		if !cc.IsInvoke() {
			recv, args = cc.Args[0], cc.Args[1:]
		}
		base, f, isF := core.FieldOf(core.Strip(recv))
		if !isF || core.ResolveFree(core.Strip(base)) != ssa.Value(m.Params[0]) || (regField != "" && f != regField) {
			why = append(why, "the request is not handed to the mux field the registrar registers handlers on")
		}
		if len(args) != 2 || core.ResolveFree(core.Strip(args[0])) != ssa.Value(m.Params[1]) || core.ResolveFree(core.Strip(args[1])) != ssa.Value(m.Params[2]) {
			why = append(why, "the response writer and the request are not handed on as they came")
		}
	})
	for _, par := range m.Params[1:] {
		for _, r := range core.Refs(par) {
			if isDeleg(r) {
				continue
			}
			if _, isDbg := r.(*ssa.DebugRef); isDbg {
				continue
			}
			why = append(why, "ServeHTTP itself uses "+par.Name()+" besides handing it on (it may answer or alter a request before the gatekeeping of the registered handlers sees it)")
		}
	}
	if len(why) == 0 {
		c.Ok(key, m.Pos(), "one unconditional mux.ServeHTTP(w, r) with the method's own parameters")
	} else {
		c.Fail(key, m.Pos(), "%s", strings.Join(why, "; "))
	}
}
