package rules

import (
	"fmt"
	"go/token"
	"go/types"
	"strings"

	"golang.org/x/tools/go/ssa"

	"verif/checker/internal/core"
)

func init() { register("C18", c18) }

// reflectDerives: v derives from root through reflect.ValueOf / Indirect /
// Elem / Interface and SSA copies.
func reflectDerives(v ssa.Value, root ssa.Value) bool {
	seen := map[ssa.Value]bool{}
	var rec func(v ssa.Value) bool
	rec = func(v ssa.Value) bool {
		if v == root {
			return true
		}
		if v == nil || seen[v] {
			return false
		}
		seen[v] = true
		for _, o := range core.Origins(v) {
			if o == root {
				return true
			}
			if call, _, ok := core.CallResult(o); ok {
				ci := core.InfoOf(&call.Call)
				if ci.Pkg == "reflect" {
					for _, a := range core.Args(&call.Call) {
						if rec(a) {
							return true
						}
					}
				}
			}
		}
		return false
	}
	return rec(v)
}

func c18(c *core.Ctx) {
	p := c.P
	c.Explain = "C18: equality and deepness of copies are value statements about proto.Clone, dynamic.TryMerge and arbitrary codecs and are not decided. Decided structurally: the default copy resets before a type-checking merge whose error is returned; refusals (non-proto values, mismatched reflect types, unsettable destinations) are non-nil errors; every adapter bottoms out in a deep-copy primitive applied to the source (never assigns the source itself); no adapter writes through its source."
	c.NotDec = []string{"equality of the copy with the source", "absence of shared memory inside the copy (depends on proto.Clone / the codec)", "generated↔dynamic interoperability", "refusal of a destination of a different message type by the codec-based adapter"}

	var copyMsg, cloneMsg *ssa.Function
	for _, fn := range p.LibFuncs("internal") {
		if fn.Parent() != nil || fn.Signature.Recv() != nil {
			continue
		}
		sig := sigStr(fn)
		switch {
		case len(fn.Params) == 2 && strings.HasSuffix(sig, ") error") && len(core.CallsIn(fn, func(_ *ssa.Call, ci core.CallInfo) bool { return strings.Contains(ci.Name, "Merge") })) > 0:
			copyMsg = fn
		case len(fn.Params) == 1 && fn.Signature.Results().Len() == 2 && len(core.CallsIn(fn, func(_ *ssa.Call, ci core.CallInfo) bool { return ci.Name == "Clone" })) > 0:
			cloneMsg = fn
		}
	}

	// ---------------------------------------------------------------- R1
	if c.Rule("R1", "replace, not merge: Reset() of the destination must-precedes the merge, the merge is the error-returning (type-checking) one and its error is returned", 2) {
		if copyMsg == nil {
			c.Missing("default message copy (internal func(out, in interface{}) error with a merge)")
		} else {
			key := core.FuncName(copyMsg)
			for _, mg := range core.CallsIn(copyMsg, func(_ *ssa.Call, ci core.CallInfo) bool { return strings.Contains(ci.Name, "Merge") }) {
				dst := mg.Call.Args[0]
				okReset := core.MustPass(core.Entry(copyMsg), mg, func(in ssa.Instruction) bool {
					call, isC := in.(*ssa.Call)
					return isC && call.Call.IsInvoke() && call.Call.Method.Name() == "Reset" && (call.Call.Value == dst || sameOrigins(call.Call.Value, dst))
				})
				c.Check(okReset, key+":reset-before-merge", mg.Pos(), "Reset() of the destination precedes the merge on every path", "the destination is merged into without Reset(): previous content survives")
				hasErr := core.IsErrorType(mg.Type())
				c.Check(hasErr && returnsCall(copyMsg, mg), key+":merge-error-returned", mg.Pos(), "the merge is the error-returning variant and its error is the function's result", "the merge cannot report a type mismatch, or its error is dropped (a destination of a different message type would be accepted silently)")
				// destination = out parameter, source = in parameter
				okOps := core.OriginIs(dst, func(o ssa.Value) bool { return o == ssa.Value(copyMsg.Params[0]) }) &&
					core.OriginIs(mg.Call.Args[1], func(o ssa.Value) bool { return o == ssa.Value(copyMsg.Params[1]) })
				c.Check(okOps, key+":merge-operands", mg.Pos(), "merge(out, in)", "the merge does not copy from the 'in' parameter into the 'out' parameter")
			}
		}
		// the primitives refuse only what the property names (a value that is not a protobuf message, a destination of
		// another type — the merge's own verdict): no error they return is the answer of a checking function of the
		// module that was handed the message (a "contains itself" guard that refuses messages sharing a sub-message)
		for _, prim := range []*ssa.Function{copyMsg, cloneMsg} {
			if prim == nil {
				continue
			}
			ei := core.ErrResultIndex(prim.Signature)
			bad := ""
			var where token.Pos
			for _, r := range core.Returns(prim) {
				if ei < 0 || ei >= len(r.Results) {
					continue
				}
				for _, l := range core.ErrLeaves(r.Results[ei], r) {
					call, ok := core.Strip(l.V).(*ssa.Call)
					if !ok {
						continue
					}
					ci := core.InfoOf(&call.Call)
					if ci.Static == nil || !strings.HasPrefix(ci.Pkg, core.ModulePath) || strings.Contains(ci.Name, "Merge") {
						continue
					}
					// a function that only words the refusal (every return of it is an error it constructs) decides
					// nothing: the decision was the caller's type assertion
					if errorMaker(ci.Static, 0) {
						continue
					}
					for _, a := range call.Call.Args {
						for _, pp := range prim.Params {
							if core.OriginIs(a, func(x ssa.Value) bool {
								x = core.Strip(x)
								if x == ssa.Value(pp) {
									return true
								}
								if ex, isEx := x.(*ssa.Extract); isEx {
									if ta, isTA := ex.Tuple.(*ssa.TypeAssert); isTA && core.Strip(ta.X) == ssa.Value(pp) {
										return true
									}
								}
								if ta, isTA := x.(*ssa.TypeAssert); isTA && core.Strip(ta.X) == ssa.Value(pp) {
									return true
								}
								return false
							}) {
								bad, where = ci.Name, r.Pos()
							}
						}
					}
				}
			}
			c.Check(bad == "", core.FuncName(prim)+":refuses-only-what-the-merge-refuses", where, "no error of the primitive is the verdict of a checking function of the module on the message", "the primitive returns the error of "+bad+", a function of the module that examines the message: messages the protobuf runtime copies (e.g. one sub-message referenced twice) are refused")
		}
		// any other place of the cloner code that merges into a destination resets it first, too
		for _, fn := range append(p.LibFuncs("internal"), p.LibFuncs("inprocgrpc")...) {
			if fn == copyMsg {
				continue
			}
			for _, mg := range core.CallsIn(fn, func(_ *ssa.Call, ci core.CallInfo) bool { return strings.Contains(ci.Name, "Merge") }) {
				args := core.Args(&mg.Call)
				if len(args) < 2 {
					continue
				}
				dst := args[0]
				okReset := core.MustPass(core.Entry(fn), mg, func(in ssa.Instruction) bool {
					call, isC := in.(*ssa.Call)
					if !isC {
						return false
					}
					if call.Call.IsInvoke() {
						return call.Call.Method.Name() == "Reset" && (call.Call.Value == dst || sameOrigins(call.Call.Value, dst))
					}
					ci := core.InfoOf(&call.Call)
					if ci.Name == "Reset" || ci.Name == "ClearMessage" {
						for _, a := range core.Args(&call.Call) {
							if a == dst || sameOrigins(a, dst) {
								return true
							}
						}
					}
					return false
				})
				c.Check(okReset, core.FuncName(fn)+":reset-before-merge", mg.Pos(), "the destination is reset before it is merged into", "a copy merges into its destination without resetting it first: whatever the destination held and the source does not set (scalars, map entries, repeated values) survives the copy")
			}
		}
		c.EndRule()
	}

	// ---------------------------------------------------------------- R2
	if c.Rule("R2", "refusals are errors: a value that is not a protobuf message, mismatched types and unsettable destinations lead to non-nil errors, never to a shallow copy", 5) {
		for _, fn := range append(p.LibFuncs("internal"), p.LibFuncs("inprocgrpc")...) {
			// comma-ok assertions to proto.Message whose result is used as a gate
			core.Instrs(fn, func(in ssa.Instruction) {
				ta, ok := in.(*ssa.TypeAssert)
				if !ok || !ta.CommaOk || !strings.HasSuffix(core.TypeStr(ta.AssertedType), "proto.Message") {
					return
				}
				if !core.PkgIs(fn, "internal") {
					return // ProtoCloner only uses the assertions to choose a strategy (R3)
				}
				key := fmt.Sprintf("%s:not-proto(%s)", core.FuncName(fn), core.ValName(ta.X))
				var okV ssa.Value
				for _, r := range core.Refs(ta) {
					if ex, isEx := r.(*ssa.Extract); isEx && ex.Index == 1 {
						okV = ex
					}
				}
				if okV == nil {
					c.Fail(key, ta.Pos(), "the comma-ok result is ignored")
					return
				}
				bad := true
				for _, ef := range core.EdgeFactsOf(fn) {
					if ef.Fact.Op == token.ILLEGAL && ef.Fact.Neg && ef.Fact.X == okV {
						bad = false
						v := core.Walk(core.Loc{B: ef.B.Succs[ef.Succ], Idx: 0}, nil, nil)
						for _, r := range core.ErrReturns(fn) {
							if v[r] && core.ClassifyErr(r.Results[len(r.Results)-1], r) != core.ErrNonNil {
								bad = true
							}
						}
					}
				}
				c.Check(!bad, key, ta.Pos(), "the failed assertion returns a non-nil error", "a value that is not a proto.Message does not lead to a non-nil error")
			})
			// strategy choice of the default cloner: a pair of protobuf messages always takes the type-checking
			// message copy; the codec round trip (which checks nothing) is reachable only when one of them is not one
			if core.PkgIs(fn, "inprocgrpc") && fn.Parent() == nil && fn.Name() == "Copy" && len(fn.Params) >= 2 {
				var oks []ssa.Value
				core.Instrs(fn, func(in ssa.Instruction) {
					ta, ok := in.(*ssa.TypeAssert)
					if !ok || !ta.CommaOk || !strings.HasSuffix(core.TypeStr(ta.AssertedType), "proto.Message") {
						return
					}
					if _, isPar := core.Strip(ta.X).(*ssa.Parameter); !isPar {
						return
					}
					for _, r := range core.Refs(ta) {
						if ex, isEx := r.(*ssa.Extract); isEx && ex.Index == 1 {
							oks = append(oks, ex)
						}
					}
				})
				if len(oks) >= 2 {
					isOK := func(v ssa.Value) bool {
						for _, o := range oks {
							if o == v {
								return true
							}
						}
						return false
					}
					// routes: calls that take both message parameters
					var routes []*ssa.Call
					core.Instrs(fn, func(in ssa.Instruction) {
						call, ok := in.(*ssa.Call)
						if !ok {
							return
						}
						np := 0
						for _, a := range call.Call.Args {
							if par, isPar := core.Strip(a).(*ssa.Parameter); isPar && core.TypeStr(par.Type()) == "interface{}" {
								np++
							}
						}
						if np >= 2 {
							routes = append(routes, call)
						}
					})
					bothTrue := core.Walk(core.Entry(fn), nil, func(b *ssa.BasicBlock, si int) bool {
						iff, ok := b.Instrs[len(b.Instrs)-1].(*ssa.If)
						if !ok {
							return true
						}
						f := core.CondFact(iff.Cond, si == 0)
						return !(f.Op == token.ILLEGAL && f.Neg && isOK(f.X))
					})
					nReach := 0
					var second *ssa.Call
					for _, r := range routes {
						if bothTrue[r] {
							nReach++
							if nReach == 2 {
								second = r
							}
						}
					}
					key := core.FuncName(fn) + ":message-pair-takes-the-checked-copy"
					switch {
					case len(routes) < 2:
						c.Undecided(key, fn.Pos(), "expected a message copy and a codec route in the default cloner's Copy, found %d route(s)", len(routes))
					case nReach == 1:
						c.Ok(key, fn.Pos(), "with both values protobuf messages exactly one copy route is reachable (the type-checking message copy); the codec route needs a failed assertion")
					default:
						pos := fn.Pos()
						if second != nil {
							pos = second.Pos()
						}
						c.Fail(key, pos, "with both values protobuf messages %d copy routes are reachable: some pairs of messages (e.g. dynamic ones) by-pass the type-checking copy and go through the codec round trip, which copies between mismatched types without an error", nReach)
					}
				}
			}
			// reflective Set
			for _, set := range core.CallsIn(fn, func(_ *ssa.Call, ci core.CallInfo) bool { return ci.Is("reflect.Value.Set") }) {
				if zc, _, ok := core.CallResult(set.Call.Args[1]); ok && core.InfoOf(&zc.Call).Is("reflect.Zero") {
					continue // clearing a value with the zero of its own type is not a copy
				}
				key := core.FuncName(fn) + ":reflect-set"
				dest := set.Call.Args[0]
				srcV := set.Call.Args[1]
				gType := core.GuardedBy(set, func(f core.Fact) bool {
					if f.Op != token.EQL {
						return false
					}
					cx, _, okx := core.CallResult(f.X)
					cy, _, oky := core.CallResult(f.Y)
					if !(okx && oky && core.InfoOf(&cx.Call).Is("reflect.Value.Type") && core.InfoOf(&cy.Call).Is("reflect.Value.Type")) {
						return false
					}
					// ... of the very two values of the assignment: the destination and the value assigned (the test
					// of some other value's type — e.g. of the input before it is cloned — says nothing about this one)
					isDest := func(v ssa.Value) bool { return v == dest || sameOrigins(v, dest) }
					isSrc := func(v ssa.Value) bool { return v == srcV || sameOrigins(v, srcV) }
					a, b := cx.Call.Args[0], cy.Call.Args[0]
					return (isDest(a) && isSrc(b)) || (isDest(b) && isSrc(a))
				})
				gSet := core.GuardedBy(set, func(f core.Fact) bool {
					if f.Op != token.ILLEGAL || f.Neg {
						return false
					}
					call, isC := f.X.(*ssa.Call)
					return isC && core.InfoOf(&call.Call).Is("reflect.Value.CanSet") && sameOrigins(call.Call.Args[0], dest)
				})
				c.Check(gType, key+":types-equal", set.Pos(), "dest.Set(src) only on the 'types equal' edge", "reflective assignment without the type-equality test: a mismatched destination panics or is overwritten with a foreign type")
				c.Check(gSet, key+":can-set", set.Pos(), "dest.Set(src) only on the CanSet() edge", "reflective assignment without CanSet(): an unsettable destination panics instead of returning an error")
				// failing edges return non-nil
				okFail := 0
				for _, r := range core.ErrReturns(fn) {
					if core.ClassifyErr(r.Results[len(r.Results)-1], r) == core.ErrNonNil && !core.Reachable(core.After(set), r) {
						okFail++
					}
				}
				c.Check(okFail >= 2, key+":refusals-return-errors", set.Pos(), fmt.Sprintf("%d refusing exits return non-nil errors", okFail), "the refusing exits do not return non-nil errors")
			}
		}
		c.EndRule()
	}

	// ---------------------------------------------------------------- R3
	if c.Rule("R3", "every adapter bottoms out in a deep-copy primitive applied to the source: proto clone/copy or a codec round-trip with the very bytes marshalled; Clone-from-copy allocates a fresh value of the source's element type; Copy-from-clone assigns the clone's value, never the source's", 7) {
		if cloneMsg != nil {
			key := core.FuncName(cloneMsg)
			ok := false
			for _, r := range core.Returns(cloneMsg) {
				if core.ClassifyErr(r.Results[1], r) == core.ErrNonNil {
					continue
				}
				// every success return yields a clone of the argument, never the argument itself
				if core.AllOrigins(r.Results[0], func(o ssa.Value) bool {
					call, _, isC := core.CallResult(o)
					return isC && core.InfoOf(&call.Call).Name == "Clone" && core.OriginIs(call.Call.Args[0], func(a ssa.Value) bool { return a == ssa.Value(cloneMsg.Params[0]) })
				}) {
					ok = true
				} else {
					ok = false
					break
				}
			}
			c.Check(ok, key+":deep-clone", cloneMsg.Pos(), "every success return yields proto.Clone of the argument", "the default clone can return something other than proto.Clone(source) (e.g. the source itself for some messages): caller and handler would share the object")
		} else {
			c.Missing("default message clone in internal")
		}
		for _, fn := range p.LibFuncs("inprocgrpc") {
			if !isClonerCode(fn) {
				continue
			}
			key := core.FuncName(fn)
			// ProtoCloner methods: delegate to the internal primitives with parameters positional
			for _, call := range core.CallsIn(fn, func(_ *ssa.Call, ci core.CallInfo) bool { return ci.Static == copyMsg || ci.Static == cloneMsg }) {
				okArgs := true
				params := fn.Params
				if fn.Signature.Recv() != nil {
					params = params[1:]
				}
				for i, a := range call.Call.Args {
					if i >= len(params) || a != ssa.Value(params[i]) {
						okArgs = false
					}
				}
				c.Check(okArgs && returnsCall(fn, call), key+":delegates-to-primitive", call.Pos(), "delegates to the protobuf primitive with its own arguments and returns its result", "the protobuf path does not pass its own arguments positionally to the primitive / alters its result")
				// taken on the "is proto" edge(s)
				nProto := 0
				for _, ef := range core.DominatingFacts(call) {
					if ex, ok := ef.Fact.X.(*ssa.Extract); ok && ef.Fact.Op == token.ILLEGAL && !ef.Fact.Neg {
						if _, isTA := ex.Tuple.(*ssa.TypeAssert); isTA {
							nProto++
						}
					}
				}
				want := len(call.Call.Args)
				c.Check(nProto >= want, key+":proto-edge", call.Pos(), fmt.Sprintf("primitive used only when all %d operands are protobuf messages", want), "the protobuf primitive is used although not all operands were shown to be protobuf messages")
				// ... and when they all are, the primitive alone decides: no other return lies on that edge (a gate in
				// front of the primitive — "same descriptor?" — refuses pairs the primitive copies, such as a generated
				// message and a dynamic one of the same type)
				other := token.NoPos
				for _, r := range core.Returns(fn) {
					k := 0
					for _, ef := range core.DominatingFacts(r) {
						if ex, ok := ef.Fact.X.(*ssa.Extract); ok && ef.Fact.Op == token.ILLEGAL && !ef.Fact.Neg {
							if _, isTA := ex.Tuple.(*ssa.TypeAssert); isTA {
								k++
							}
						}
					}
					if k < want || want == 0 {
						continue
					}
					for _, v := range r.Results {
						// an answer computed from the operands by something other than the primitive (a checking
						// function handed the messages); a constant refusal under a test of one operand (nil
						// destination) is not a verdict on the pair
						for _, o := range core.Origins(v) {
							cr, _, ok := core.CallResult(o)
							if !ok || cr == call {
								continue
							}
							for _, a := range core.Args(&cr.Call) {
								for _, pp := range params {
									if core.OriginIs(a, func(x ssa.Value) bool {
										x = core.Strip(x)
										if x == ssa.Value(pp) {
											return true
										}
										if ex, isEx := x.(*ssa.Extract); isEx {
											if ta, isTA := ex.Tuple.(*ssa.TypeAssert); isTA && ta.X == ssa.Value(pp) {
												return true
											}
										}
										return false
									}) {
										other = r.Pos()
									}
								}
							}
						}
					}
				}
				c.Check(other == token.NoPos, key+":primitive-alone-decides", call.Pos(), "on the all-protobuf edge every return is the primitive's result", "on the edge where all operands are protobuf messages the adapter can return something other than the primitive's result (a gate of its own in front of the primitive): pairs the primitive copies — a generated and a dynamic message of one type — are refused")
			}
			// the default cloner's own methods reach the protobuf primitive directly: its verdict on a pair of
			// messages (a type mismatch is an error) must not pass through something that may overrule it
			if core.RecvName(fn) == "ProtoCloner" && fn.Parent() == nil && (fn.Name() == "Copy" || fn.Name() == "Clone") {
				nPrim := len(core.CallsIn(fn, func(_ *ssa.Call, ci core.CallInfo) bool { return ci.Static == copyMsg || ci.Static == cloneMsg }))
				c.Check(nPrim > 0, key+":calls-the-primitive", fn.Pos(), "the method calls the protobuf primitive itself", "the default cloner's "+fn.Name()+" does not call the protobuf primitive itself: whatever stands between them (a chain of fallbacks that treats every error as 'cannot handle') can turn the primitive's refusal of a destination of another message type into a successful copy by other means")
			}
			// codec round trip
			var marshal, unmarshal *ssa.Call
			core.Instrs(fn, func(in ssa.Instruction) {
				if call, ok := in.(*ssa.Call); ok && call.Call.IsInvoke() {
					switch call.Call.Method.Name() {
					case "Marshal":
						marshal = call
					case "Unmarshal":
						unmarshal = call
					}
				}
			})
			outPar, inPar, copyTail := copyTailParams(fn)
			if marshal != nil && unmarshal != nil && copyTail {
				okRT := marshal.Call.Args[0] == ssa.Value(inPar) &&
					core.OriginIs(unmarshal.Call.Args[0], func(o ssa.Value) bool { cr, idx, ok := core.CallResult(o); return ok && cr == marshal && idx == 0 }) &&
					unmarshal.Call.Args[1] == ssa.Value(outPar)
				c.Check(okRT, key+":codec-round-trip", marshal.Pos(), "Unmarshal(Marshal(in), out) with the very bytes marshalled", "the codec adapter does not unmarshal the bytes it marshalled from the source into the destination")
				// success only after the decode ran (it is what replaces the destination's content)
				okDec := true
				for _, r := range core.Returns(fn) {
					if core.ClassifyErr(r.Results[0], r) == core.ErrNonNil {
						continue
					}
					if !core.MustPass(core.Entry(fn), r, func(in ssa.Instruction) bool { return in == ssa.Instruction(unmarshal) }) {
						okDec = false
					}
				}
				c.Check(okDec, key+":always-unmarshals", unmarshal.Pos(), "success is reported only after Unmarshal into the destination", "the codec adapter can report success without unmarshalling (e.g. a shortcut for empty encodings): the destination keeps its previous content")
				// both errors returned
				errsReturned := 0
				for _, r := range core.Returns(fn) {
					for _, l := range core.ErrLeaves(r.Results[0], r) {
						cr, idx, ok := core.CallResult(l.V)
						if !ok {
							continue
						}
						// the Marshal error on its != nil edge; the Unmarshal error on its != nil edge or returned as it is
						if (cr == marshal && idx == 1 && l.Class == core.ErrNonNil) || cr == unmarshal {
							errsReturned++
						}
					}
				}
				c.Check(errsReturned >= 2, key+":codec-errors-returned", marshal.Pos(), "Marshal and Unmarshal errors are both returned", "an encoding/decoding error is dropped: an uncopyable message would be reported as copied")
				// the destination is the codec's business alone: whatever else is handed the destination
				// (a reflective clear, a merge) knows less about the message than the codec does - a dynamic
				// message cleared by reflection loses its descriptor and cannot be unmarshalled into
				var strangers []string
				var useOf func(v ssa.Value, depth int)
				useOf = func(v ssa.Value, depth int) {
					if depth > 4 || v.Referrers() == nil {
						return
					}
					for _, in := range *v.Referrers() {
						switch x := in.(type) {
						case *ssa.DebugRef:
						case *ssa.MakeInterface:
							useOf(x, depth+1)
						case *ssa.ChangeInterface:
							useOf(x, depth+1)
						case *ssa.ChangeType:
							useOf(x, depth+1)
						case *ssa.TypeAssert:
							useOf(x, depth+1)
						case *ssa.Extract:
							useOf(x, depth+1)
						case *ssa.If, *ssa.BinOp:
						case *ssa.Call:
							if x == unmarshal {
								continue
							}
							if x.Call.IsInvoke() && x.Call.Value == v {
								continue // the message's own method (Reset, ProtoReflect): it knows itself
							}
							strangers = append(strangers, core.InfoOf(&x.Call).Full())
						default:
							strangers = append(strangers, fmt.Sprintf("%T", in))
						}
					}
				}
				useOf(outPar, 0)
				c.Check(len(strangers) == 0, key+":destination-only-to-the-codec", unmarshal.Pos(), "the destination is handed to the codec's Unmarshal and to nothing else", "the codec adapter hands its destination to "+strings.Join(strangers, ", ")+" besides the codec: whatever that does to the destination (a reflective clear strips a dynamic message of its descriptor) the codec then has to decode into")
			}
			// Clone-from-copy: reflect.New(TypeOf(in).Elem())
			for _, nw := range core.CallsIn(fn, func(_ *ssa.Call, ci core.CallInfo) bool { return ci.Is("reflect.New") }) {
				srcPar, cloneTail := cloneTailParam(fn)
				if !cloneTail {
					continue // the single-response probe's scratch value etc.
				}
				okNew := core.OriginIs(nw.Call.Args[0], func(o ssa.Value) bool {
					el, _, ok := core.CallResult(o)
					if !ok || !el.Call.IsInvoke() || el.Call.Method.Name() != "Elem" {
						return false
					}
					return core.OriginIs(el.Call.Value, func(o2 ssa.Value) bool {
						cr, _, ok := core.CallResult(o2)
						return ok && core.InfoOf(&cr.Call).Is("reflect.TypeOf") && core.Strip(cr.Call.Args[0]) == ssa.Value(srcPar)
					})
				})
				c.Check(okNew, key+":fresh-destination", nw.Pos(), "the clone is a fresh reflect.New(TypeOf(in).Elem())", "the clone is not a fresh value of the source's element type")
				// the user's copy is applied (clone, in) and the clone returned
				var userCall *ssa.Call
				for _, dc := range core.CallsIn(fn, func(call *ssa.Call, ci core.CallInfo) bool { return ci.Dyn && len(call.Call.Args) == 2 }) {
					userCall = dc
				}
				okUse := userCall != nil && userCall.Call.Args[1] == ssa.Value(srcPar) && reflectDerives(userCall.Call.Args[0], nw)
				okRet := false
				for _, r := range core.Returns(fn) {
					if reflectDerives(r.Results[0], nw) {
						okRet = true
					}
					if r.Results[0] == ssa.Value(srcPar) {
						okUse = false
					}
				}
				c.Check(okUse && okRet, key+":copy-into-fresh", nw.Pos(), "copy(fresh, in) then return the fresh value", "Clone built from a copy function does not copy the source into the fresh value and return it (or returns the source itself)")
			}
			// Copy-from-clone: dest.Set(src) with src derived from the clone function's result
			for _, set := range core.CallsIn(fn, func(_ *ssa.Call, ci core.CallInfo) bool { return ci.Is("reflect.Value.Set") }) {
				if !copyTail {
					continue
				}
				var userClone *ssa.Call
				for _, dc := range core.CallsIn(fn, func(call *ssa.Call, ci core.CallInfo) bool { return ci.Dyn && len(call.Call.Args) == 1 }) {
					userClone = dc
				}
				src := set.Call.Args[1]
				fromClone := userClone != nil && reflectDerivesFromCallResult(src, userClone)
				fromIn := reflectDerives(src, inPar)
				c.Check(fromClone && !fromIn, key+":assigns-the-clone", set.Pos(), "the value assigned to the destination derives from the clone function's result, not from the source parameter", "the destination is assigned the source's own value (a shallow copy sharing all nested memory) instead of the clone's")
				okDest := reflectDerives(set.Call.Args[0], outPar)
				c.Check(okDest, key+":assigns-into-out", set.Pos(), "the assignment goes into the 'out' parameter", "the reflective assignment does not go into the destination parameter")
				c.Check(userClone != nil && userClone.Call.Args[0] == ssa.Value(inPar), key+":clones-the-source", set.Pos(), "the clone function is applied to the source parameter", "the clone function is not applied to the source")
			}
		}
		c.EndRule()
	}

	// ---------------------------------------------------------------- R5
	if c.Rule("R5", "no copy succeeds without copying the whole message: in every func(out, in) error of the adapters and of the default message copy, each possibly-nil return is preceded on all paths by one write of the whole destination from the source (delegated copy, type-checking merge, Unmarshal of the source's bytes, reflect Set of the destination value itself) — no shortcut for 'empty' sources (which would also skip the type check) and no field-by-field copy (which skips unexported state such as unknown fields); obligations shared with C06/R5", 5) {
		for _, pk := range []string{"inprocgrpc", "internal"} {
			for _, fn := range p.LibFuncs(pk) {
				c06CopyWrites(c, fn)
			}
		}
		for _, fn := range p.LibFuncs("inprocgrpc") {
			c06CloneFresh(c, fn)
		}
		for _, fn := range p.LibFuncs("internal") {
			c06CloneFresh(c, fn)
		}
		c.EndRule()
	}

	// ---------------------------------------------------------------- R4
	if c.Rule("R4", "the source is only read: no adapter stores through its 'in' parameter or reflect-sets a value derived from it", 4) {
		for _, fn := range append(p.LibFuncs("inprocgrpc"), p.LibFuncs("internal")...) {
			if !isClonerCode(fn) && fn != copyMsg && fn != cloneMsg {
				continue
			}
			// the source parameter: by position — the last parameter of a func(out, in) error / func(in) (interface{}, error)
			var inPar *ssa.Parameter
			if copyShape(fn.Signature) || cloneShape(fn.Signature) {
				inPar = fn.Params[len(fn.Params)-1]
			}
			if inPar == nil {
				continue
			}
			key := core.FuncName(fn) + ":source-read-only"
			bad := ""
			core.Instrs(fn, func(in ssa.Instruction) {
				switch x := in.(type) {
				case *ssa.Store:
					if core.OriginIs(storeRoot(x.Addr), func(o ssa.Value) bool { return o == ssa.Value(inPar) }) {
						bad = "stores through the source parameter"
					}
				}
				if cc := core.CallOf(in); cc != nil {
					ci := core.InfoOf(cc)
					if ci.Pkg == "reflect" && strings.HasPrefix(ci.Name, "Set") && reflectDerives(cc.Args[0], inPar) {
						bad = "reflect-sets a value derived from the source parameter"
					}
					if cc.IsInvoke() && cc.Method.Name() == "Reset" && core.OriginIs(cc.Value, func(o ssa.Value) bool { return o == ssa.Value(inPar) }) {
						bad = "resets the source message"
					}
				}
			})
			c.Check(bad == "", key, fn.Pos(), "no store, reflect.Set or Reset through the source", "the adapter "+bad+": copying would modify the sender's message")
		}
		c.EndRule()
	}
}

func reflectDerivesFromCallResult(v ssa.Value, call *ssa.Call) bool {
	seen := map[ssa.Value]bool{}
	var rec func(v ssa.Value) bool
	rec = func(v ssa.Value) bool {
		if v == nil || seen[v] {
			return false
		}
		seen[v] = true
		for _, o := range core.Origins(v) {
			if cr, idx, ok := core.CallResult(o); ok {
				if cr == call && idx == 0 {
					return true
				}
				if core.InfoOf(&cr.Call).Pkg == "reflect" {
					for _, a := range core.Args(&cr.Call) {
						if rec(a) {
							return true
						}
					}
				}
			}
		}
		return false
	}
	return rec(v)
}

func cloneShape(sig *types.Signature) bool {
	return sig != nil && sig.Params().Len() == 1 && sig.Results().Len() == 2 && isAnyType(sig.Params().At(0).Type()) &&
		isAnyType(sig.Results().At(0).Type()) && core.IsErrorType(sig.Results().At(1).Type())
}

// isClonerCode: the function (or the function a literal is nested in) is part
// of the message-copy strategies of the in-process package: it has the copy or
// the clone shape, or it builds a Cloner.
func isClonerCode(fn *ssa.Function) bool {
	for f := fn; f != nil; f = f.Parent() {
		sig := f.Signature
		if copyShape(sig) || cloneShape(sig) {
			return true
		}
		if sig.Results().Len() == 1 && core.NamedOf(sig.Results().At(0).Type()) == "Cloner" {
			return true
		}
		// plain helper functions whose parameters end in the (out, in) / (in) pair of empty interfaces
		n := sig.Params().Len()
		if f.Parent() == nil && sig.Recv() == nil && n >= 2 && isAnyType(sig.Params().At(n-1).Type()) && sig.Results().Len() >= 1 &&
			core.IsErrorType(sig.Results().At(sig.Results().Len()-1).Type()) {
			for i := 0; i < n-1; i++ {
				if _, isFn := sig.Params().At(i).Type().Underlying().(*types.Signature); isFn {
					return true
				}
				if core.NamedOf(sig.Params().At(i).Type()) == "Codec" {
					return true
				}
			}
		}
	}
	return false
}

// copyTailParams: the function's last two parameters are the (out, in) pair of
// a copy (both empty interfaces) and it returns an error.
func copyTailParams(fn *ssa.Function) (out, in *ssa.Parameter, ok bool) {
	n := len(fn.Params)
	sig := fn.Signature
	if n < 2 || sig.Results().Len() != 1 || !core.IsErrorType(sig.Results().At(0).Type()) {
		return nil, nil, false
	}
	if !isAnyType(fn.Params[n-1].Type()) || !isAnyType(fn.Params[n-2].Type()) {
		return nil, nil, false
	}
	return fn.Params[n-2], fn.Params[n-1], true
}

// cloneTailParam: the last parameter is the source of a clone: func(..., in) (interface{}, error).
func cloneTailParam(fn *ssa.Function) (*ssa.Parameter, bool) {
	n := len(fn.Params)
	sig := fn.Signature
	if n < 1 || sig.Results().Len() != 2 || !isAnyType(sig.Results().At(0).Type()) || !core.IsErrorType(sig.Results().At(1).Type()) {
		return nil, false
	}
	if !isAnyType(fn.Params[n-1].Type()) {
		return nil, false
	}
	if n >= 2 && isAnyType(fn.Params[n-2].Type()) {
		return nil, false
	}
	return fn.Params[n-1], true
}
