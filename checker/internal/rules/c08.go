package rules

import (
	"fmt"
	"go/token"
	"go/types"
	"strings"

	"golang.org/x/tools/go/ssa"

	"verif/checker/internal/core"
)

func init() { register("C08", c08) }

// recvFamily: methods of nt reachable from its RecvMsg through static calls.
func methodFamily(p *core.Prog, nt *types.Named, root string) []*ssa.Function {
	start := declaredMethod(p, nt, root)
	if start == nil {
		return nil
	}
	seen := map[*ssa.Function]bool{start: true}
	out := []*ssa.Function{start}
	for i := 0; i < len(out); i++ {
		core.Instrs(out[i], func(in ssa.Instruction) {
			// a function literal that runs as part of the method: handed to a helper of the type that calls it
			// (s.withLock(func() { … })), called or deferred on the spot — not one started as a goroutine
			if mc, isMC := in.(*ssa.MakeClosure); isMC {
				lit := mc.Fn.(*ssa.Function)
				sync := len(core.Refs(mc)) > 0
				for _, r := range core.Refs(mc) {
					switch x := r.(type) {
					case *ssa.Call:
						h := x.Call.StaticCallee()
						isArg := false
						for _, a := range x.Call.Args {
							if a == ssa.Value(mc) {
								isArg = true
							}
						}
						if !(x.Call.Value == ssa.Value(mc) || (isArg && h != nil && core.RecvName(h) == nt.Obj().Name())) {
							sync = false
						}
					case *ssa.Defer:
						if x.Call.Value != ssa.Value(mc) {
							sync = false
						}
					case *ssa.DebugRef:
					default:
						sync = false
					}
				}
				if sync && !seen[lit] {
					seen[lit] = true
					out = append(out, lit)
				}
				return
			}
			cc := core.CallOf(in)
			if cc == nil {
				return
			}
			ci := core.InfoOf(cc)
			if ci.Static != nil && core.RecvName(ci.Static) == nt.Obj().Name() && !seen[ci.Static] {
				seen[ci.Static] = true
				out = append(out, ci.Static)
			}
		})
	}
	return out
}

// chanFieldOf: v is (a load of) a channel-typed field of a struct named tn.
func chanFieldOf(v ssa.Value, tn string) (string, bool) {
	for _, o := range core.Origins(v) {
		base, f, ok := core.FieldOf(o)
		if ok && core.NamedOf(base.Type()) == tn {
			if _, isChan := o.Type().Underlying().(*types.Chan); isChan {
				return f, true
			}
		}
	}
	return "", false
}

// receivesFromParam: package function that receives from its channel parameter.
func receivesFromParam(fn *ssa.Function) bool {
	if fn == nil || fn.Blocks == nil {
		return false
	}
	found := false
	core.Instrs(fn, func(in ssa.Instruction) {
		switch x := in.(type) {
		case *ssa.Select:
			for _, st := range x.States {
				if st.Dir == types.RecvOnly {
					if _, ok := st.Chan.(*ssa.Parameter); ok {
						if _, isStruct := st.Chan.Type().Underlying().(*types.Chan).Elem().Underlying().(*types.Struct); isStruct || true {
							if core.TypeStr(st.Chan.Type().Underlying().(*types.Chan).Elem()) != "struct{}" {
								found = true
							}
						}
					}
				}
			}
		case *ssa.UnOp:
			if x.Op == token.ARROW {
				if _, ok := x.X.(*ssa.Parameter); ok {
					found = true
				}
			}
		}
	})
	return found
}

// msgRecv describes a receive from a message channel field of type tn.
type msgRecv struct {
	instr   ssa.Instruction
	field   string
	call    *ssa.Call   // non-nil when through a helper (readMessage)
	sel     *ssa.Select // non-nil for a direct select
	selIdx  int
	discard bool // received value unused
}

func msgReceives(fn *ssa.Function, tn string) []msgRecv {
	var out []msgRecv
	core.Instrs(fn, func(in ssa.Instruction) {
		switch x := in.(type) {
		case *ssa.Select:
			for i, st := range x.States {
				if st.Dir != types.RecvOnly {
					continue
				}
				if core.TypeStr(st.Chan.Type().Underlying().(*types.Chan).Elem()) == "struct{}" {
					continue
				}
				if f, ok := chanFieldOf(st.Chan, tn); ok {
					out = append(out, msgRecv{instr: x, field: f, sel: x, selIdx: i})
				}
			}
		case *ssa.UnOp:
			if x.Op == token.ARROW {
				if f, ok := chanFieldOf(x.X, tn); ok {
					out = append(out, msgRecv{instr: x, field: f})
				}
			}
		case *ssa.Call:
			ci := core.InfoOf(&x.Call)
			if ci.Static != nil && ci.Static.Signature.Recv() == nil && receivesFromParam(ci.Static) {
				for _, a := range x.Call.Args {
					if f, ok := chanFieldOf(a, tn); ok {
						out = append(out, msgRecv{instr: x, field: f, call: x})
					}
				}
			}
		}
	})
	return out
}

// flagInfo: the single-response flag field of a client stream type and its polarity.
type flagInfo struct {
	field      string
	fromField  string // ServerStreams / ClientStreams
	streamWhen bool   // field value true means "streaming" (multi)
}

// findFlagField: bool field of nt stored (in any library function) from the
// given StreamDesc field, directly or through a constructor parameter.
func findFlagField(p *core.Prog, nt *types.Named, descField string) (string, token.Pos) {
	tn := nt.Obj().Name()
	for _, fn := range p.LibFuncs(pkgSuffixOf(nt)) {
		var found string
		var pos token.Pos
		core.Instrs(fn, func(in ssa.Instruction) {
			st, ok := in.(*ssa.Store)
			if !ok {
				return
			}
			base, f, isF := core.FieldOf(st.Addr)
			if !isF || core.NamedOf(base.Type()) != tn || core.TypeStr(st.Val.Type()) != "bool" {
				return
			}
			if fromDescField(p, st.Val, descField, fn, 0) {
				found, pos = f, st.Pos()
			}
		})
		if found != "" {
			return found, pos
		}
	}
	return "", token.NoPos
}

func fromDescField(p *core.Prog, v ssa.Value, descField string, fn *ssa.Function, depth int) bool {
	for _, o := range core.Origins(v) {
		if base, f, ok := core.FieldOf(o); ok && f == descField && core.QualNamedOf(base.Type()) == grpcPkg+".StreamDesc" {
			return true
		}
		if par, ok := o.(*ssa.Parameter); ok && depth < 2 {
			// constructor parameter: every call site passes the desc field
			idx := -1
			for i, pp := range fn.Params {
				if pp == par {
					idx = i
				}
			}
			n, okAll := 0, true
			for _, caller := range p.LibFuncs("") {
				for _, call := range core.CallsIn(caller, func(_ *ssa.Call, ci core.CallInfo) bool { return ci.Static == fn }) {
					n++
					if idx >= len(call.Call.Args) || !fromDescField(p, call.Call.Args[idx], descField, caller, depth+1) {
						okAll = false
					}
				}
			}
			if n > 0 && okAll {
				return true
			}
		}
	}
	return false
}

func c08(c *core.Ctx) {
	p := c.P
	c.Explain = "C08: for each client stream type the single-response flag is traced to desc.ServerStreams; on every path where the first message was decoded into the caller's destination and the flag says 'single', a second (discarding) receive must be passed before a possibly-nil return, and after that probe a nil return is allowed only under 'probe error == io.EOF'. The unary in-process receive loop and the HTTP server's second-request probe are checked likewise."
	c.NotDec = []string{"timing of the extra message relative to the receive (the probe is blocking)", "parity of the codes with the reference transport"}

	cts := streamTypes(p, "ClientStream", "RecvMsg")
	// ---------------------------------------------------------------- R1
	if c.Rule("R1", "single-response probe exists on every receive path of every client stream type, with three-way discrimination (another message ⇒ error; io.EOF ⇒ success; any other error ⇒ that error)", 6) {
		n := 0
		for _, nt := range cts {
			if len(nt.Underlying().(*types.Struct).String()) == 0 {
				continue
			}
			fam := methodFamily(p, nt, "RecvMsg")
			if len(fam) == 0 {
				continue
			}
			// wrapper types that merely embed a ClientStream have no receives
			hasRecv := false
			for _, f := range fam {
				if len(msgReceives(f, nt.Obj().Name())) > 0 {
					hasRecv = true
				}
			}
			if !hasRecv {
				continue
			}
			n++
			c08ClientType(c, nt, fam)
		}
		if n < 2 {
			c.Missing("client stream types with a RecvMsg that receives from a message channel (in-process and HTTP)")
		}
		// a receive that finds the stream already closed does not report success: a return on the "state == closed"
		// edge is a non-nil error — and where it is an error kept in a field, every place that enters the closed state
		// stores a non-nil error into that field in the same step
		for _, nt := range cts {
			if pkgSuffixOf(nt) != "inprocgrpc" {
				continue
			}
			tn := nt.Obj().Name()
			var fam []*ssa.Function
			seenF := map[*ssa.Function]bool{}
			for _, root := range []string{"RecvMsg", "Header"} {
				for _, f := range methodFamily(p, nt, root) {
					if !seenF[f] {
						seenF[f] = true
						fam = append(fam, f)
					}
				}
			}
			isEOF := func(v ssa.Value) bool { g, ok := core.GlobalLoad(v); return ok && g == "io.EOF" }
			// the closed constant: the one stored on an io.EOF edge
			closedK, haveK := int64(0), false
			stateFld := ""
			type stStore struct {
				fn *ssa.Function
				st *ssa.Store
			}
			var closers []stStore
			for _, f := range fam {
				core.Instrs(f, func(in ssa.Instruction) {
					st, ok := in.(*ssa.Store)
					if !ok {
						return
					}
					base, fld, isF := core.FieldOf(st.Addr)
					k, isC := core.ConstInt(st.Val)
					if !isF || !isC || core.NamedOf(base.Type()) != tn || core.NamedOf(st.Val.Type()) == "" {
						return
					}
					if core.GuardedBy(st, func(fc core.Fact) bool { return fc.Op == token.EQL && (isEOF(fc.X) || isEOF(fc.Y)) }) {
						closedK, haveK, stateFld = k, true, fld
					}
				})
			}
			if !haveK {
				continue
			}
			for _, f := range fam {
				core.Instrs(f, func(in ssa.Instruction) {
					if st, ok := in.(*ssa.Store); ok {
						if base, fld, isF := core.FieldOf(st.Addr); isF && fld == stateFld && core.NamedOf(base.Type()) == tn {
							if k, isC := core.ConstInt(st.Val); isC && k == closedK {
								closers = append(closers, stStore{f, st})
							}
						}
					}
				})
			}
			for _, f := range fam {
				for _, r := range core.ErrReturns(f) {
					onClosed := core.GuardedBy(r, func(fc core.Fact) bool {
						if fc.Op != token.EQL {
							return false
						}
						base, fld, isF := core.FieldOf(fc.X)
						k, isC := core.ConstInt(fc.Y)
						return isF && isC && fld == stateFld && k == closedK && core.NamedOf(base.Type()) == tn
					})
					if !onClosed {
						continue
					}
					ev := r.Results[len(r.Results)-1]
					key := core.FuncName(f) + ":return-on-closed-state:non-nil"
					if core.ClassifyErr(ev, r) == core.ErrNonNil {
						c.Ok(key, r.Pos(), "a receive on the closed state returns a non-nil error")
						continue
					}
					// an error kept in a field: set non-nil wherever the closed state is entered?
					_, efld, isF := core.FieldOf(ev)
					bad := ""
					if !isF {
						bad = "the value returned on the closed state may be nil"
					} else {
						for _, cl := range closers {
							paired := false
							for _, in := range cl.st.Block().Instrs {
								if s2, isS := in.(*ssa.Store); isS {
									if b2, f2, ok2 := core.FieldOf(s2.Addr); ok2 && f2 == efld && core.NamedOf(b2.Type()) == tn && core.ClassifyErr(s2.Val, s2) == core.ErrNonNil {
										paired = true
									}
								}
							}
							// the closed state entered inside a helper that takes the error: the helper stores its parameter
							if !paired {
								bad = core.FuncName(cl.fn) + " enters the closed state without storing a non-nil error into " + efld
							}
						}
					}
					c.Check(bad == "", key, r.Pos(), "the error kept for the closed state is set non-nil wherever that state is entered", "a receive that finds the stream closed returns the error kept in a field, but "+bad+": the receive reports success (an empty message) although no response was delivered")
				}
			}
		}
		// the probe sees every response: the HTTP reply reader hands over every frame, empty ones included
		if httpReaderHandsOverEveryFrame(c) == 0 {
			c.Fail("httpgrpc:reply-reader-loop", token.NoPos, "ANCHOR-MISSING: no loop in httpgrpc that reads size prefaces and hands message bytes to a channel")
		}
		c.EndRule()
	}

	// ---------------------------------------------------------------- R2
	if c.Rule("R2", "unary in-process: a second data frame is an error, a nil handler result becomes an error frame, a closed channel without response is a non-nil status error (never bare io.EOF / nil)", 4) {
		for _, ct := range channelTypes(p, "inprocgrpc") {
			fn := declaredMethod(p, ct, "Invoke")
			if fn == nil {
				c.Missing(typeKey(ct) + ".Invoke")
				continue
			}
			c08UnaryInproc(c, typeKey(ct)+".Invoke", fn)
		}
		c.EndRule()
	}

	// ---------------------------------------------------------------- R3
	if c.Rule("R3", "HTTP server: on single-request methods a second preface read follows the first decoded request and only io.EOF leaves the success path; later calls return io.EOF before reading", 3) {
		n := 0
		for _, nt := range streamTypes(p, "ServerStream", "RecvMsg") {
			if pkgSuffixOf(nt) != "httpgrpc" {
				continue
			}
			n++
			c08ServerProbe(c, nt)
		}
		if n == 0 {
			c.Missing("httpgrpc server stream type")
		}
		c.EndRule()
	}

	// ---------------------------------------------------------------- R4, R5 (shared)
	// over HTTP "no response" of a unary method (a nil result fails to encode) must reach the caller as an error:
	// the failure path carries the status header / a failing HTTP status (C14/R3), and the error renderer runs only
	// with a non-OK status that was put on the wire first (C14/R5)
	c.Borrow("C14", map[string]string{"R3": "R4", "R5": "R5"}, c14)

	// ---------------------------------------------------------------- R9
	if c.Rule("R9", "unary over HTTP: the handler's response is encoded and written only where it was found present — the nil-response predicate (typed nil included) answered false for it; a handler that returns neither a response nor an error is answered with an error, whatever the codec would make of a nil message", 1) {
		n := 0
		for _, hc := range httpHandlerClosures(p) {
			if hc.Stream {
				continue
			}
			for _, hs := range handlerInvocations(hc.Fn) {
				if k, _ := isHandlerInvocation(&hs.Call); k != "unary-handler" {
					continue
				}
				isResp := func(v ssa.Value) bool {
					return core.OriginIs(v, func(o ssa.Value) bool {
						cr, idx, ok := core.CallResult(o)
						return ok && cr == hs && idx == 0
					})
				}
				for _, mc := range core.CallsIn(hc.Fn, func(call *ssa.Call, ci core.CallInfo) bool {
					if !ci.Iface || ci.Name != "Marshal" {
						return false
					}
					for _, a := range core.Args(&call.Call) {
						if isResp(a) {
							return true
						}
					}
					return false
				}) {
					n++
					key := core.FuncName(hc.Fn) + ":response-encoded-only-if-present"
					var preds []*ssa.Function
					notNil := func(f core.Fact) bool {
						if f.Op != token.ILLEGAL || !f.Neg {
							return false
						}
						ic, ok := f.X.(*ssa.Call)
						if !ok || len(ic.Call.Args) != 1 || !isResp(ic.Call.Args[0]) {
							return false
						}
						if pf := ic.Call.StaticCallee(); pf != nil && pf.Blocks != nil {
							dup := false
							for _, q := range preds {
								if q == pf {
									dup = true
								}
							}
							if !dup {
								preds = append(preds, pf)
							}
						}
						return true
					}
					ok := core.GuardedBy(mc, notNil)
					if !ok {
						// "if err == nil && isNil(resp) { err = <error> }; if err != nil { …; return }": the encode is
						// dominated by err == nil, and err can be nil there only along φ-edges on which the predicate
						// answered false
						for _, ef := range core.DominatingFacts(mc) {
							f := ef.Fact
							if f.Op != token.EQL || !core.IsNilConst(f.Y) || !core.IsErrorType(f.X.Type()) {
								continue
							}
							all, some := true, false
							for _, l := range core.ErrLeaves(f.X, ef.If) {
								if l.Class == core.ErrNonNil {
									continue
								}
								lv := l.V
								if core.LeafGuarded(l, func(g core.Fact) bool {
									return g.Op == token.NEQ && core.IsNilConst(g.Y) && (g.X == lv || core.SameVal(g.X, lv))
								}) {
									continue // on this edge the value is known non-nil: it cannot be the nil that was tested
								}
								some = true
								if !core.LeafGuarded(l, notNil) {
									all = false
								}
							}
							if all && some {
								ok = true
							}
						}
					}
					c.Check(ok, key, mc.Pos(), "the response is encoded only where the nil-response predicate answered false", "the unary HTTP handler encodes and writes the handler's response without having checked that there is one: a handler returning a typed nil pointer (and no error) is answered with whatever the codec makes of a nil message — the JSON codec renders an empty message, i.e. success carrying a fabricated response")
					for _, pf := range preds {
						why := nilPredicateSound(pf)
						c.Check(why == "", core.FuncName(pf)+":nil-predicate", pf.Pos(), "true for the nil interface and for a nil pointer inside the interface", "the predicate that decides 'the handler returned no response' "+why)
					}
				}
			}
		}
		if n == 0 {
			c.Fail("httpgrpc:unary-response-encode", token.NoPos, "ANCHOR-MISSING: no encoding of the unary handler's response found in the HTTP handler")
		}
		c.EndRule()
	}

	// ---------------------------------------------------------------- R10
	if c.Rule("R10", "the client's second-response probe can see every response: the handler's SendMsg (both transports) turns a message away (returns without the frame write) only because of the context, of the message itself, of a callee's error, or of the stream's lifecycle state (a field that other methods of the stream write too) — not because of a count it keeps of its own sends or of the kind of method: a surplus message that never leaves the server is invisible to the probe, and a handler that ignores the send's error then succeeds with the first message", 2) {
		n := 0
		for _, nt := range streamTypes(p, "ServerStream", "SendMsg") {
			if pkgSuffixOf(nt) != "inprocgrpc" && pkgSuffixOf(nt) != "httpgrpc" {
				continue
			}
			fn := declaredMethod(p, nt, "SendMsg")
			if fn == nil {
				continue
			}
			tn := nt.Obj().Name()
			fam := map[*ssa.Function]bool{}
			for _, f := range methodFamily(p, nt, "SendMsg") {
				fam[f] = true
			}
			isWrite := func(in ssa.Instruction) bool {
				call, ok := in.(*ssa.Call)
				if !ok {
					return false
				}
				h := call.Call.StaticCallee()
				if h == nil {
					return false
				}
				if isW, _ := httpFrameWriteCall(call); isW {
					return true
				}
				return isInprocFrameWriter(h)
			}
			// fields of the stream written by methods of the type outside the send family: lifecycle state
			lifecycle := map[string]bool{}
			for _, f := range p.LibFuncs(pkgSuffixOf(nt)) {
				root := f
				for root.Parent() != nil {
					root = root.Parent()
				}
				if core.RecvName(root) != tn || root.Name() == "SendMsg" {
					continue
				}
				core.Instrs(f, func(in ssa.Instruction) {
					if st, ok := in.(*ssa.Store); ok {
						if base, fld, isF := core.FieldOf(st.Addr); isF && core.NamedOf(base.Type()) == tn {
							lifecycle[fld] = true
						}
					}
				})
			}
			// ... and a flag that the send path sets only after a frame write has FAILED is state of the same kind
			// (the stream is broken; what could not be written is not "one message too many")
			for _, f := range methodFamily(p, nt, "SendMsg") {
				core.Instrs(f, func(in ssa.Instruction) {
					st, ok := in.(*ssa.Store)
					if !ok {
						return
					}
					base, fld, isF := core.FieldOf(st.Addr)
					if !isF || core.NamedOf(base.Type()) != tn || lifecycle[fld] {
						return
					}
					if core.GuardedBy(st, func(fc core.Fact) bool {
						if fc.Op != token.NEQ || fc.Y == nil || !core.IsNilConst(fc.Y) {
							return false
						}
						return core.OriginIs(fc.X, func(o ssa.Value) bool {
							cr, _, isC := core.CallResult(o)
							return isC && isWrite(cr)
						})
					}) {
						lifecycle[fld+"\x00failed"] = true
					} else {
						lifecycle[fld+"\x00other"] = true
					}
				})
			}
			for k := range lifecycle {
				if strings.HasSuffix(k, "\x00failed") {
					f := strings.TrimSuffix(k, "\x00failed")
					if !lifecycle[f+"\x00other"] {
						lifecycle[f] = true
					}
				}
			}
			for k := range lifecycle {
				if strings.Contains(k, "\x00") {
					delete(lifecycle, k)
				}
			}
			n++
			key := core.FuncName(fn) + ":turns-away-only-for-state"
			bad := ""
			var where token.Pos
			for _, b := range fn.Blocks {
				iff, isIf := b.Instrs[len(b.Instrs)-1].(*ssa.If)
				if !isIf {
					continue
				}
				for si := 0; si < 2; si++ {
					f := core.CondFact(iff.Cond, si == 0)
					var flds []string
					for _, v := range []ssa.Value{f.X, f.Y} {
						if v == nil {
							continue
						}
						for _, o := range core.Origins(v) {
							if base, fld, isF := core.FieldOf(o); isF && core.NamedOf(base.Type()) == tn {
								flds = append(flds, fld)
							}
						}
					}
					if len(flds) == 0 {
						continue
					}
					own := ""
					for _, fld := range flds {
						if !lifecycle[fld] {
							own = fld
						}
					}
					if own == "" {
						continue
					}
					// does this edge lead to a return that reports an error without the frame write?
					reach := core.Walk(core.Loc{B: b.Succs[si], Idx: 0}, isWrite, nil)
					for _, r := range core.ErrReturns(fn) {
						if reach[r] && core.EdgeDominates(b, si, r) && core.ClassifyErr(r.Results[len(r.Results)-1], r) != core.ErrNil {
							bad, where = own, r.Pos()
						}
					}
				}
			}
			if bad != "" {
				c.Fail(key, where, "the handler's SendMsg turns a message away on a condition over its field %s, which no other method of the stream writes (a send counter, a per-method flag): the message never reaches the client, whose single-response probe therefore sees a well-behaved handler", bad)
			} else {
				c.Ok(key, fn.Pos(), "every early error return of the handler's SendMsg is decided by context, message, callee error or lifecycle state %v", keysOf(lifecycle))
			}
		}
		if n == 0 {
			c.Missing("in-process server stream SendMsg")
		}
		c.EndRule()
	}

	// ---------------------------------------------------------------- R6, R7 (shared)
	// the second-request probe lives in the streaming handler's receive path only: a method that takes a single
	// request is reached with the stream framing only through that handler (C11/R3: each kind of handler accepts its
	// own content types); and the client's second-response probe sees every response only if every send that
	// reports success has put exactly one frame on the wire (C01/R2)
	c.Borrow("C11", map[string]string{"R3": "R6", "R1": "R8"}, c11)
	c.Borrow("C01", map[string]string{"R2": "R7"}, c01)
	// a surplus response is seen by the probe only if it is not lost on the way: a frame the server abandoned because
	// the context ended must not look like a clean end of the stream to a client that receives later (C02/R1)
	c.Borrow("C02", map[string]string{"R1": "R11"}, c02)

}

// singlePolarity: for bool value v in fn, returns (isFlagExpr, singleWhenTrue).
func singlePolarity(p *core.Prog, v ssa.Value, fn *ssa.Function, tn, flagField string, fam []*ssa.Function, depth int) (bool, bool) {
	if u, ok := v.(*ssa.UnOp); ok && u.Op == token.NOT {
		is, pol := singlePolarity(p, u.X, fn, tn, flagField, fam, depth)
		return is, !pol
	}
	if base, f, ok := core.FieldOf(v); ok && f == flagField && core.NamedOf(base.Type()) == tn {
		return true, false // field true = streaming ⇒ single when false
	}
	if par, ok := v.(*ssa.Parameter); ok && depth < 2 && core.TypeStr(par.Type()) == "bool" {
		idx := -1
		for i, pp := range fn.Params {
			if pp == par {
				idx = i
			}
		}
		for _, caller := range fam {
			for _, call := range core.CallsIn(caller, func(_ *ssa.Call, ci core.CallInfo) bool { return ci.Static == fn }) {
				if idx < len(call.Call.Args) {
					if _, isC := core.ConstBool(call.Call.Args[idx]); isC {
						continue
					}
					if is, pol := singlePolarity(p, call.Call.Args[idx], caller, tn, flagField, fam, depth+1); is {
						return true, pol
					}
				}
			}
		}
	}
	return false, false
}

func c08ClientType(c *core.Ctx, nt *types.Named, fam []*ssa.Function) {
	p := c.P
	tn := nt.Obj().Name()
	tk := typeKey(nt)
	flag, fpos := findFlagField(p, nt, "ServerStreams")
	if flag == "" {
		c.Fail(tk+":flag", nt.Obj().Pos(), "no bool field initialised from desc.ServerStreams: the stream cannot know whether the method is single-response")
		return
	}
	c.Ok(tk+":flag", fpos, "single-response flag is field %q, initialised from the ServerStreams field of NewStream's *grpc.StreamDesc", flag)
	// ... of the CALLER's descriptor (the one the generated stub passes: it says what the caller's code expects to
	// receive), not of a descriptor looked up on the serving side
	{
		okCaller, n := true, 0
		for _, fn := range p.LibFuncs(pkgSuffixOf(nt)) {
			core.Instrs(fn, func(in ssa.Instruction) {
				st, ok := in.(*ssa.Store)
				if !ok {
					return
				}
				base, f, isF := core.FieldOf(st.Addr)
				if !isF || f != flag || core.NamedOf(base.Type()) != tn {
					return
				}
				for _, o := range core.Origins(st.Val) {
					db, df, isD := core.FieldOf(o)
					if !isD || df != "ServerStreams" {
						continue
					}
					n++
					if !core.AllOrigins(db, func(b ssa.Value) bool { _, isPar := core.ResolveFree(b).(*ssa.Parameter); return isPar }) {
						okCaller = false
					}
				}
			})
		}
		if n > 0 {
			c.Check(okCaller, tk+":flag-from-caller-descriptor", fpos, "the descriptor read is the entry point's own *grpc.StreamDesc parameter", "the single-response flag is read from a descriptor that is not the caller's (e.g. the one registered on the serving side): when the two disagree (generic/proxy registrations) the caller's single-response stub gets no exactly-one-response check")
		}
	}
	if wrong, _ := findFlagField(p, nt, "ClientStreams"); wrong == flag {
		c.Fail(tk+":flag-source", fpos, "flag field %q is (also) fed from desc.ClientStreams", flag)
	}
	inFam := map[*ssa.Function]bool{}
	for _, f := range fam {
		inFam[f] = true
	}
	// transitively-receiving family members
	recvs := map[*ssa.Function]bool{}
	for changed := true; changed; {
		changed = false
		for _, f := range fam {
			if recvs[f] {
				continue
			}
			if len(msgReceives(f, tn)) > 0 {
				recvs[f] = true
				changed = true
				continue
			}
			core.Instrs(f, func(in ssa.Instruction) {
				if cc := core.CallOf(in); cc != nil {
					if ci := core.InfoOf(cc); ci.Static != nil && recvs[ci.Static] && !recvs[f] {
						recvs[f] = true
						changed = true
					}
				}
			})
		}
	}
	// probes: discarding receives
	type probe struct {
		fn    *ssa.Function
		instr ssa.Instruction
		errV  ssa.Value // error produced by the probe (nil for a direct select)
		okV   ssa.Value // comma-ok of a direct select receive
	}
	var probes []probe
	for _, f := range fam {
		mpar := msgParam(f)
		core.Instrs(f, func(in ssa.Instruction) {
			call, ok := in.(*ssa.Call)
			if !ok {
				return
			}
			ci := core.InfoOf(&call.Call)
			if ci.Static == nil || !inFam[ci.Static] || !recvs[ci.Static] {
				return
			}
			// destination argument not derived from f's own message parameter ⇒ scratch ⇒ probe
			for _, a := range call.Call.Args[1:] {
				if core.TypeStr(a.Type()) != "interface{}" && core.TypeStr(a.Type()) != "any" {
					continue
				}
				if mpar != nil && core.OriginIs(a, func(o ssa.Value) bool { return o == ssa.Value(mpar) }) {
					return
				}
				probes = append(probes, probe{fn: f, instr: call, errV: call})
			}
		})
		for _, r := range msgReceives(f, tn) {
			if r.sel == nil {
				continue
			}
			// value extract index: 2 + position among recv states
			used := false
			var okV ssa.Value
			for _, ref := range core.Refs(r.sel) {
				ex, ok := ref.(*ssa.Extract)
				if !ok {
					continue
				}
				if ex.Index == 1 {
					okV = ex
				}
				if ex.Index >= 2 && core.TypeStr(ex.Type()) != "struct{}" && len(core.Refs(ex)) > 0 {
					used = true
				}
			}
			if !used {
				probes = append(probes, probe{fn: f, instr: r.sel, okV: okV})
			}
		}
	}
	if len(probes) == 0 {
		c.Fail(tk+":probe", nt.Obj().Pos(), "no discarding second receive found: a single-response method that sends two responses would hand the caller an arbitrary one with success")
		return
	}
	// (a) the probe lies on every single-response success path after the decode into the caller's message
	isProbeish := func(in ssa.Instruction) bool {
		for _, pr := range probes {
			if pr.instr == in {
				return true
			}
		}
		if call, ok := in.(*ssa.Call); ok {
			// a call to a family member that contains a probe and is handed our message
			ci := core.InfoOf(&call.Call)
			if ci.Static != nil && inFam[ci.Static] {
				for _, pr := range probes {
					if pr.fn == ci.Static {
						return true
					}
				}
			}
		}
		return false
	}
	// succeedsWithoutProbe: starting after instruction d of f (the decode, or a call that decodes), whose
	// error result is d itself, a success return of f is reachable on a single-response path without a probe
	var succeedsWithoutProbe func(f *ssa.Function, d *ssa.Call, depth int) bool
	succeedsWithoutProbe = func(f *ssa.Function, d *ssa.Call, depth int) bool {
		edgeOK := func(b *ssa.BasicBlock, si int) bool {
			iff, ok := b.Instrs[len(b.Instrs)-1].(*ssa.If)
			if !ok {
				return true
			}
			fct := core.CondFact(iff.Cond, si == 0)
			// decode failed ⇒ not a success path
			if fct.Op == token.NEQ && core.IsNilConst(fct.Y) && fct.X == ssa.Value(d) {
				return false
			}
			// flag says streaming ⇒ no probe needed
			if fct.Op == token.ILLEGAL {
				if is, singleWhenTrue := singlePolarity(p, fct.X, f, tn, flag, fam, 0); is {
					valTrue := !fct.Neg
					if valTrue != singleWhenTrue {
						return false
					}
				}
			}
			return true
		}
		visited := core.Walk(core.After(d), isProbeish, edgeOK)
		bad := false
		for _, r := range core.ErrReturns(f) {
			if !visited[r] {
				continue
			}
			for _, l := range core.ErrLeaves(r.Results[len(r.Results)-1], r) {
				if l.Class != core.ErrNonNil && !(l.V == ssa.Value(d)) {
					bad = true
				}
				if l.V == ssa.Value(d) {
					// returning the decode error itself on the success edge is nil: that is a success return
					bad = bad || reachesWithNilDecode(d, r, isProbeish, edgeOK)
				}
			}
		}
		if !bad || depth >= 2 {
			return bad
		}
		// the decision "single response ⇒ probe" may be taken by the callers of f instead (the flag was
		// replaced by two entry points): every call of f in the family that hands on the caller's own message
		// must then be followed by the probe, unless that call sits on the streaming edge of the flag
		nSites, allOK := 0, true
		for _, g := range fam {
			gm := msgParam(g)
			if gm == nil || g == f {
				continue
			}
			for _, cs := range core.CallsIn(g, func(_ *ssa.Call, ci core.CallInfo) bool { return ci.Static == f }) {
				own := false
				for _, a := range cs.Call.Args {
					if core.OriginIs(a, func(o ssa.Value) bool { return o == ssa.Value(gm) }) {
						own = true
					}
				}
				if !own {
					continue // a probe call with a scratch destination
				}
				nSites++
				streaming := core.GuardedBy(cs, func(fct core.Fact) bool {
					if fct.Op != token.ILLEGAL {
						return false
					}
					is, singleWhenTrue := singlePolarity(p, fct.X, g, tn, flag, fam, 0)
					return is && (!fct.Neg) != singleWhenTrue
				})
				if streaming {
					continue
				}
				if succeedsWithoutProbe(g, cs, depth+1) {
					allOK = false
				}
			}
		}
		return !(nSites > 0 && allOK)
	}
	for _, f := range fam {
		mpar := msgParam(f)
		if mpar == nil {
			continue
		}
		for _, d := range decodeCalls(f, mpar) {
			key := fmt.Sprintf("%s:%s:probe-after-decode", tk, f.Name())
			bad := succeedsWithoutProbe(f, d, 0)
			c.Check(!bad, key, d.Pos(), "every single-response success path after the decode passes the second-receive probe", "a single-response receive can succeed after decoding the first message without probing for a second one")
		}
	}
	// (b) discrimination after each probe
	for i, pr := range probes {
		key := fmt.Sprintf("%s:%s:probe#%d", tk, pr.fn.Name(), i)
		isEOF := func(v ssa.Value) bool { g, ok := core.GlobalLoad(v); return ok && g == "io.EOF" }
		edgeOK := func(b *ssa.BasicBlock, si int) bool {
			iff, ok := b.Instrs[len(b.Instrs)-1].(*ssa.If)
			if !ok {
				return true
			}
			fct := core.CondFact(iff.Cond, si == 0)
			if fct.Op == token.EQL && (isEOF(fct.Y) || isEOF(fct.X)) {
				return false // the only sanctioned way to success
			}
			return true
		}
		visited := core.Walk(core.After(pr.instr), nil, edgeOK)
		nilRet := false
		var where token.Pos
		for _, r := range core.ErrReturns(pr.fn) {
			if !visited[r] {
				continue
			}
			for _, l := range core.ErrLeaves(r.Results[len(r.Results)-1], r) {
				if l.Class == core.ErrNil {
					// a nil leaf decided before the probe is not a success of the probe path
					if !core.Reachable(core.After(pr.instr), l.At) && l.At != r {
						continue
					}
					nilRet = true
					where = r.Pos()
				}
			}
		}
		if !where.IsValid() {
			where = pr.instr.Pos()
		}
		c.Check(!nilRet, key+":only-eof-is-success", where, "after the probe, nil is returned only on the 'probe error == io.EOF' edge (a failure after the single response takes precedence)",
			"after the second-receive probe a nil (success) return is reachable without the probe's error having compared equal to io.EOF: a handler that responds and then fails is reported as success")
		// another message ⇒ non-nil
		var moreEdge func(core.Fact) bool
		if pr.errV != nil {
			moreEdge = func(fc core.Fact) bool { return fc.Op == token.EQL && core.IsNilConst(fc.Y) && fc.X == pr.errV }
		} else {
			moreEdge = func(fc core.Fact) bool { return fc.Op == token.ILLEGAL && !fc.Neg && fc.X == pr.okV }
		}
		found, okMore := false, true
		for _, r := range core.ErrReturns(pr.fn) {
			if core.GuardedBy(r, moreEdge) && core.Reachable(core.After(pr.instr), r) {
				found = true
				for _, l := range core.ErrLeaves(r.Results[len(r.Results)-1], r) {
					if l.Class == core.ErrNil {
						okMore = false
					}
					// `if s.err == nil { s.err = <error> }; return s.err`: the field read at the return is known
					// non-nil only if every path from the probe stores a non-nil error into it or tested it non-nil
					if core.AllOrigins(l.V, func(o ssa.Value) bool { return o != l.V && core.ClassifyErr(o, r) == core.ErrNonNil }) {
						continue // e.g. the error of the frame just parked, built a few lines above
					}
					if base, fld, isF := core.FieldOf(l.V); isF && l.Class != core.ErrNonNil {
						sameField := func(v ssa.Value) bool {
							b2, f2, ok := core.FieldOf(v)
							return ok && f2 == fld && core.NamedOf(b2.Type()) == core.NamedOf(base.Type())
						}
						reach := core.Walk(core.After(pr.instr), func(in ssa.Instruction) bool {
							st, ok := in.(*ssa.Store)
							return ok && sameField(st.Addr) && core.ClassifyErr(st.Val, st) == core.ErrNonNil
						}, func(b *ssa.BasicBlock, si int) bool {
							iff, ok := b.Instrs[len(b.Instrs)-1].(*ssa.If)
							if !ok {
								return true
							}
							fct := core.CondFact(iff.Cond, si == 0)
							return !(fct.Op == token.NEQ && core.IsNilConst(fct.Y) && sameField(fct.X))
						})
						if reach[r] {
							okMore = false
						}
					}
				}
			}
		}
		c.Check(found && okMore, key+":second-message-is-error", pr.instr.Pos(), "a second message makes the receive return an error", "receiving a second message does not lead to an error return")
	}
}

// reachesWithNilDecode: placeholder for the phi-merged `return err` idiom: the
// return is reached on the decode-success edge without a probe.
func reachesWithNilDecode(d *ssa.Call, r *ssa.Return, cut func(ssa.Instruction) bool, edgeOK func(*ssa.BasicBlock, int) bool) bool {
	// restrict to the success edge of the decode
	eo := func(b *ssa.BasicBlock, si int) bool {
		if !edgeOK(b, si) {
			return false
		}
		iff, ok := b.Instrs[len(b.Instrs)-1].(*ssa.If)
		if !ok {
			return true
		}
		fct := core.CondFact(iff.Cond, si == 0)
		if fct.X == ssa.Value(d) && core.IsNilConst(fct.Y) && fct.Op == token.NEQ {
			return false
		}
		return true
	}
	return core.Walk(core.After(d), cut, eo)[r]
}

// msgParam: the interface{} message parameter of a receive method.
func msgParam(fn *ssa.Function) *ssa.Parameter {
	if len(fn.Params) < 2 {
		return nil
	}
	for _, pp := range fn.Params[1:] {
		ts := core.TypeStr(pp.Type())
		if ts == "interface{}" || ts == "any" {
			return pp
		}
	}
	return nil
}

// decodeCalls: Copy/Unmarshal calls whose destination derives from mpar.
func decodeCalls(fn *ssa.Function, mpar *ssa.Parameter) []*ssa.Call {
	return core.CallsIn(fn, func(call *ssa.Call, ci core.CallInfo) bool {
		if ci.Name != "Copy" && ci.Name != "Unmarshal" {
			return false
		}
		args := call.Call.Args
		var dst ssa.Value
		if ci.Name == "Copy" {
			dst = args[0]
		} else {
			dst = args[len(args)-1]
		}
		return core.OriginIs(dst, func(o ssa.Value) bool { return o == ssa.Value(mpar) })
	})
}

func c08UnaryInproc(c *core.Ctx, key string, fn *ssa.Function) {
	// the receive loop may have been split off into a single-use step function that the entry point ends with
	outer := fn
	core.Instrs(fn, func(in ssa.Instruction) {
		call, ok := in.(*ssa.Call)
		if !ok {
			return
		}
		if h := call.Call.StaticCallee(); h != nil && h.Blocks != nil && core.InlineSite[h] == in && h.Signature.Recv() == nil {
			hasSel := false
			core.Instrs(h, func(x ssa.Instruction) {
				if _, isSel := x.(*ssa.Select); isSel {
					hasSel = true
				}
			})
			if hasSel && len(core.CallsIn(h, func(_ *ssa.Call, ci core.CallInfo) bool { return ci.Name == "Copy" })) > 0 {
				fn = h
			}
		}
	})
	defer func() { _ = outer }()
	// the response copy
	var respPar *ssa.Parameter
	for _, pp := range fn.Params {
		if pp.Name() == "resp" {
			respPar = pp
		}
	}
	if respPar == nil {
		ifs := 0
		for _, pp := range fn.Params {
			if ts := core.TypeStr(pp.Type()); ts == "interface{}" || ts == "any" {
				ifs++
				if ifs == 2 {
					respPar = pp
				}
			}
		}
	}
	var copies []*ssa.Call
	if respPar != nil {
		copies = core.CallsIn(fn, func(call *ssa.Call, ci core.CallInfo) bool {
			return ci.Name == "Copy" && core.OriginIs(call.Call.Args[0], func(o ssa.Value) bool { return o == ssa.Value(respPar) })
		})
	}
	if len(copies) != 1 {
		c.Fail(key+":response-copy", fn.Pos(), "expected exactly one copy of the response frame into resp, found %d", len(copies))
		return
	}
	d := copies[0]
	// guarded by a "no response yet" flag (bool phi) being false, which is set true on the way
	var flagPhi *ssa.Phi
	g := core.GuardedBy(d, func(f core.Fact) bool {
		if f.Op != token.ILLEGAL || !f.Neg {
			return false
		}
		if phi, ok := f.X.(*ssa.Phi); ok && core.TypeStr(phi.Type()) == "bool" {
			flagPhi = phi
			return true
		}
		return false
	})
	c.Check(g, key+":second-response-test", d.Pos(), "the copy is dominated by the 'no response yet' edge of the response flag", "the response copy is not guarded by a 'no response received yet' test: a second response would silently overwrite the first")
	if flagPhi != nil {
		// the back edge from the copy's path carries true
		setTrue := false
		for i, e := range flagPhi.Edges {
			pred := flagPhi.Block().Preds[i]
			if b, ok := core.ConstBool(e); ok && b && core.Reachable(core.After(d), pred.Instrs[len(pred.Instrs)-1]) {
				setTrue = true
			}
		}
		c.Check(setTrue, key+":flag-set", d.Pos(), "the flag is true on every loop iteration after the copy", "the response flag is not set after the first response was copied")
		// true edge returns non-nil
		okErr := false
		for _, r := range core.Returns(fn) {
			if core.GuardedBy(r, func(f core.Fact) bool { return f.Op == token.ILLEGAL && !f.Neg && f.X == ssa.Value(flagPhi) }) {
				// among those, the one in the data-frame arm: non-nil status
				if core.ClassifyErr(r.Results[0], r) == core.ErrNonNil {
					okErr = true
				}
			}
		}
		c.Check(okErr, key+":second-response-is-error", d.Pos(), "a second data frame returns a non-nil status", "no non-nil return on the 'already got a response' edge")
	}
	// closed channel arm: find the select receive and its !ok edge
	var okV ssa.Value
	core.Instrs(fn, func(in ssa.Instruction) {
		if sel, ok := in.(*ssa.Select); ok {
			for _, ref := range core.Refs(sel) {
				if ex, ok := ref.(*ssa.Extract); ok && ex.Index == 1 {
					okV = ex
				}
			}
		}
	})
	if okV == nil {
		c.Fail(key+":closed-arm", fn.Pos(), "no comma-ok receive from the response channel found")
		return
	}
	bad := ""
	n := 0
	for _, r := range core.Returns(fn) {
		if !core.GuardedBy(r, func(f core.Fact) bool { return f.Op == token.ILLEGAL && f.Neg && f.X == okV }) {
			continue
		}
		n++
		for _, l := range expandLeaves(core.ErrLeaves(r.Results[0], r), 0) {
			if g, ok := core.GlobalLoad(l.V); ok && g == "io.EOF" {
				bad = "returns the bare io.EOF (not a status error)"
			}
			if l.Class == core.ErrNil {
				// allowed only when a response was received
				isFlag := func(f core.Fact) bool {
					return f.Op == token.ILLEGAL && !f.Neg && (f.X == ssa.Value(flagPhi) || core.ResolveFree(f.X) == ssa.Value(flagPhi))
				}
				if flagPhi == nil || !(core.GuardedBy(r, isFlag) || core.LeafGuarded(l, isFlag)) {
					bad = "returns nil although no response was received"
				}
			}
		}
	}
	c.Check(n > 0 && bad == "", key+":closed-without-response", fn.Pos(), "channel closed: nil only if a response was received, otherwise a non-nil status error",
		"channel-closed arm "+bad)
	// nil handler result ⇒ error frame (server goroutine)
	okNil := false
	nilPreds := map[*ssa.Function]bool{}
	core.InstrsDeep(outer, func(f *ssa.Function, in ssa.Instruction) {
		call, ok := in.(*ssa.Call)
		if !ok || f == outer {
			return
		}
		// a frame write whose data field holds the handler's result
		for _, a := range call.Call.Args {
			if core.NamedOf(a.Type()) != "frame" {
				continue
			}
			if dv := frameFieldValue(a, "data"); dv != nil {
				if core.GuardedBy(call, func(fc core.Fact) bool {
					if fc.Op != token.ILLEGAL || !fc.Neg {
						return false
					}
					ic, ok := fc.X.(*ssa.Call)
					if ok && len(ic.Call.Args) == 1 && sameOrigins(ic.Call.Args[0], dv) {
						if pf := ic.Call.StaticCallee(); pf != nil && pf.Blocks != nil {
							nilPreds[pf] = true
						}
						return true
					}
					return false
				}) {
					okNil = true
				}
			}
		}
	})
	c.Check(okNil, key+":nil-response-check", fn.Pos(), "the data frame is written only on the !isNil(result) edge", "the handler's result is sent as a data frame without a nil check (a nil response with nil error would end the call without response or error)")
	// ... and the predicate recognises both forms of 'no response': the untyped nil and the typed nil pointer
	// (what a generated handler returning (*T)(nil) puts into the interface)
	for pf := range nilPreds {
		why := nilPredicateSound(pf)
		c.Check(why == "", core.FuncName(pf)+":nil-predicate", pf.Pos(), "true for the nil interface and for a nil pointer inside the interface (reflect Kind Ptr and IsNil)", "the predicate that decides 'the handler returned no response' "+why+": a handler returning a typed nil pointer (or plain nil) with a nil error would be taken to have responded")
	}
}

// nilPredicateSound: fn(m interface{}) bool returns true when m == nil, and
// the result of reflect.ValueOf(m).IsNil() on the edge where the value's Kind
// is reflect.Ptr. It returns "" or what is missing.
func nilPredicateSound(fn *ssa.Function) string {
	if len(fn.Params) != 1 {
		return "does not take exactly the value to test"
	}
	par := fn.Params[0]
	trueOnNil := false
	for _, r := range core.Returns(fn) {
		if len(r.Results) != 1 {
			return "does not return one bool"
		}
		if b, ok := core.ConstBool(r.Results[0]); ok && b {
			if core.GuardedBy(r, func(f core.Fact) bool {
				return f.Op == token.EQL && core.IsNilConst(f.Y) && (core.Strip(f.X) == ssa.Value(par) || core.ResolveFree(core.Strip(f.X)) == ssa.Value(par))
			}) {
				trueOnNil = true
			}
		}
	}
	if !trueOnNil {
		return "does not answer true on the edge where the value compares equal to nil"
	}
	isValueOfPar := func(v ssa.Value) bool {
		return core.OriginIs(v, func(o ssa.Value) bool {
			call, ok := core.Strip(o).(*ssa.Call)
			return ok && core.InfoOf(&call.Call).Is("reflect.ValueOf") && len(call.Call.Args) == 1 && core.OriginIs(call.Call.Args[0], func(a ssa.Value) bool {
				return core.Strip(a) == ssa.Value(par) || core.ResolveFree(core.Strip(a)) == ssa.Value(par)
			})
		})
	}
	var isNilCall *ssa.Call
	core.Instrs(fn, func(in ssa.Instruction) {
		call, ok := in.(*ssa.Call)
		if !ok || !core.InfoOf(&call.Call).Is("reflect.Value.IsNil") || len(call.Call.Args) != 1 || !isValueOfPar(call.Call.Args[0]) {
			return
		}
		if core.GuardedBy(call, func(f core.Fact) bool {
			if f.Op != token.EQL {
				return false
			}
			k, ok := core.ConstInt(f.Y)
			if !ok || k != 22 { // reflect.Ptr
				return false
			}
			kc, ok := core.Strip(f.X).(*ssa.Call)
			return ok && core.InfoOf(&kc.Call).Is("reflect.Value.Kind") && len(kc.Call.Args) == 1 && isValueOfPar(kc.Call.Args[0])
		}) {
			isNilCall = call
		}
	})
	if isNilCall == nil {
		return "does not ask reflect for IsNil on the edge where the value's Kind is Ptr"
	}
	for _, r := range core.Returns(fn) {
		if core.OriginIs(r.Results[0], func(o ssa.Value) bool { return core.Strip(o) == ssa.Value(isNilCall) }) {
			return ""
		}
	}
	return "does not return what IsNil answers for a pointer"
}

// frameFieldValue: v is a load of a local frame composite literal; returns
// the value stored to the named field.
func frameFieldValue(v ssa.Value, field string) ssa.Value {
	// a frame made by a constructor function of the module (dataFrame(m), errorFrame(err), …): the field value
	// is what every return of the constructor puts there; a parameter stands for the call's argument
	if call, ok := v.(*ssa.Call); ok {
		fn := call.Call.StaticCallee()
		if fn != nil && fn.Blocks != nil && fn.Pkg != nil && strings.HasPrefix(fn.Pkg.Pkg.Path(), core.ModulePath) && fn.Signature.Results().Len() == 1 {
			var res ssa.Value
			for _, r := range core.Returns(fn) {
				fv := frameFieldValue(r.Results[0], field)
				if fv == nil {
					return nil
				}
				if res != nil && res != fv {
					return nil
				}
				res = fv
			}
			if par, isPar := res.(*ssa.Parameter); isPar {
				for i, pp := range fn.Params {
					if pp == par && i < len(call.Call.Args) {
						return call.Call.Args[i]
					}
				}
			}
			return res
		}
		return nil
	}
	u, ok := v.(*ssa.UnOp)
	if !ok || u.Op != token.MUL {
		return nil
	}
	al, ok := u.X.(*ssa.Alloc)
	if !ok {
		return nil
	}
	for _, r := range core.Refs(al) {
		fa, ok := r.(*ssa.FieldAddr)
		if !ok {
			continue
		}
		if _, f, _ := core.FieldOf(fa); f != field {
			continue
		}
		for _, rr := range core.Refs(fa) {
			if st, ok := rr.(*ssa.Store); ok {
				return st.Val
			}
		}
	}
	return nil
}

func c08ServerProbe(c *core.Ctx, nt *types.Named) {
	p := c.P
	tk := typeKey(nt)
	tn := nt.Obj().Name()
	fn := declaredMethod(p, nt, "RecvMsg")
	flag, fpos := findFlagField(p, nt, "ClientStreams")
	if flag == "" {
		c.Fail(tk+":flag", nt.Obj().Pos(), "no bool field initialised from desc.ClientStreams")
		return
	}
	c.Ok(tk+":flag", fpos, "single-request flag is field %q, initialised from desc.ClientStreams", flag)
	readers := prefaceReaders(p)
	var reads []*ssa.Call
	for _, call := range core.CallsIn(fn, func(_ *ssa.Call, ci core.CallInfo) bool {
		for _, r := range readers {
			if ci.Static == r {
				return true
			}
		}
		return false
	}) {
		reads = append(reads, call)
	}
	if len(reads) < 2 {
		c.Fail(tk+".RecvMsg:second-read", fn.Pos(), "expected a first and a probing second size-preface read, found %d", len(reads))
		return
	}
	// order by reachability
	first, second := reads[0], reads[1]
	if core.Reachable(core.After(second), first) && !core.Reachable(core.After(first), second) {
		first, second = second, first
	}
	// second read guarded by !flag
	g := core.GuardedBy(second, func(f core.Fact) bool {
		if f.Op != token.ILLEGAL || !f.Neg {
			return false
		}
		base, ff, ok := core.FieldOf(f.X)
		return ok && ff == flag && core.NamedOf(base.Type()) == tn
	})
	c.Check(g, tk+".RecvMsg:probe-on-single", second.Pos(), "second preface read on the single-request edge", "the second-request probe is not tied to the single-request flag")
	// the probe looks where the messages come from: every read of the request in RecvMsg uses one and the same
	// reader (a second, buffered view of the body would hide what it has already pulled in from the other)
	paths := map[string]bool{}
	core.Instrs(fn, func(in ssa.Instruction) {
		call, ok := in.(*ssa.Call)
		if !ok || len(call.Call.Args) == 0 {
			return
		}
		ci := core.InfoOf(&call.Call)
		if ci.Static == nil || call.Call.IsInvoke() {
			return
		}
		ri := ioParamIdx(ci.Static, "io.Reader")
		if ri < 0 || ri >= len(call.Call.Args) {
			return
		}
		paths[accessPath(call.Call.Args[ri])] = true
	})
	c.Check(len(paths) == 1, tk+".RecvMsg:one-reader", second.Pos(), fmt.Sprintf("every read of the request in RecvMsg uses the same reader %v", keysOf(paths)),
		fmt.Sprintf("the request is read through different readers %v: what a buffered reader has already pulled in is invisible to the other, so the second-request probe (or a later message) looks at the wrong place", keysOf(paths)))
	// after the probe: nil only under err == io.EOF
	isEOF := func(v ssa.Value) bool { g, ok := core.GlobalLoad(v); return ok && g == "io.EOF" }
	visited := core.Walk(core.After(second), nil, func(b *ssa.BasicBlock, si int) bool {
		iff, ok := b.Instrs[len(b.Instrs)-1].(*ssa.If)
		if !ok {
			return true
		}
		fct := core.CondFact(iff.Cond, si == 0)
		return !(fct.Op == token.EQL && (isEOF(fct.X) || isEOF(fct.Y)))
	})
	bad := false
	for _, r := range core.Returns(fn) {
		if visited[r] && core.ClassifyErr(r.Results[0], r) != core.ErrNonNil {
			bad = true
		}
	}
	c.Check(!bad, tk+".RecvMsg:second-request-is-error", second.Pos(), "after the probe only 'err == io.EOF' leads to success; anything else returns a non-nil error", "a second request message (or a read error) after the first does not lead to an error")
	// ... and no success leaves RecvMsg between the first read and the probe on a single-request method: a
	// return that may be nil, reachable from the first preface read without executing the probe and without
	// taking an edge on which the flag says "streaming", accepts a request without looking for a second one
	isFlag := func(v ssa.Value) bool {
		base, ff, ok := core.FieldOf(v)
		return ok && ff == flag && core.NamedOf(base.Type()) == tn
	}
	early := core.Walk(core.After(first), func(in ssa.Instruction) bool { return in == ssa.Instruction(second) }, func(b *ssa.BasicBlock, si int) bool {
		iff, ok := b.Instrs[len(b.Instrs)-1].(*ssa.If)
		if !ok {
			return true
		}
		fct := core.CondFact(iff.Cond, si == 0)
		return !(fct.Op == token.ILLEGAL && !fct.Neg && isFlag(fct.X))
	})
	var skip *ssa.Return
	for _, r := range core.Returns(fn) {
		if early[r] && core.ClassifyErr(r.Results[0], r) != core.ErrNonNil && skip == nil {
			skip = r
		}
	}
	pos := second.Pos()
	if skip != nil {
		pos = skip.Pos()
	}
	c.Check(skip == nil, tk+".RecvMsg:no-success-before-probe", pos, "on a single-request method every exit that may report success lies behind the second-request probe", "on a single-request method this exit can report success without the second-request probe having run (e.g. a fast path for an empty message): a second request message goes unnoticed")
	// later calls return io.EOF before reading
	okLater := false
	for _, r := range core.Returns(fn) {
		isEOFRet := false
		for _, l := range core.ErrLeaves(r.Results[0], r) {
			if g, ok := core.GlobalLoad(l.V); ok && g == "io.EOF" {
				isEOFRet = true
			}
		}
		if isEOFRet {
			guardCnt := core.GuardedBy(r, func(f core.Fact) bool {
				if f.Op != token.GTR {
					return false
				}
				_, ff, ok := core.FieldOf(f.X)
				k, isC := core.ConstInt(f.Y)
				return ok && ff != "" && isC && k == 0
			})
			if guardCnt && !core.Reachable(core.After(first), r) {
				okLater = true
			}
		}
	}
	c.Check(okLater, tk+".RecvMsg:later-calls-eof", fn.Pos(), "a later call on a single-request method returns io.EOF before reading", "no 'already received ⇒ io.EOF' exit before the first read")
}

// singleResponseProbes runs the C08/R1 obligations (three-way discrimination
// after the single-response probe) for every client stream type. It is also a
// necessary condition of C02 (the final status is not replaced by success) and
// of C07 (a reply cut before the end of the trailer is a failed call): the probe
// is where a terminal transport error of a single-response call surfaces.
func singleResponseProbes(c *core.Ctx, pkgs ...string) int {
	p := c.P
	n := 0
	for _, nt := range streamTypes(p, "ClientStream", "RecvMsg") {
		if len(pkgs) > 0 {
			in := false
			for _, pk := range pkgs {
				if pkgSuffixOf(nt) == pk {
					in = true
				}
			}
			if !in {
				continue
			}
		}
		fam := methodFamily(p, nt, "RecvMsg")
		if len(fam) == 0 {
			continue
		}
		hasRecv := false
		for _, f := range fam {
			if len(msgReceives(f, nt.Obj().Name())) > 0 {
				hasRecv = true
			}
		}
		if !hasRecv {
			continue
		}
		n++
		c08ClientType(c, nt, fam)
	}
	if len(pkgs) == 0 || func() bool {
		for _, pk := range pkgs {
			if pk == "httpgrpc" {
				return true
			}
		}
		return false
	}() {
		if httpReaderHandsOverEveryFrame(c) == 0 {
			c.Fail("httpgrpc:reply-reader-loop", token.NoPos, "ANCHOR-MISSING: no loop in httpgrpc that reads size prefaces and hands message bytes to a channel")
		}
	}
	return n
}

// accessPath renders where a value is loaded from as a field path rooted at a
// parameter ("s.r.Body"); other roots are rendered by their SSA name.
func accessPath(v ssa.Value) string {
	for depth := 0; depth < 8; depth++ {
		switch x := v.(type) {
		case *ssa.MakeInterface:
			v = x.X
			continue
		case *ssa.ChangeInterface:
			v = x.X
			continue
		case *ssa.ChangeType:
			v = x.X
			continue
		case *ssa.UnOp:
			if x.Op == token.MUL {
				if fa, ok := x.X.(*ssa.FieldAddr); ok {
					st := fa.X.Type().Underlying().(*types.Pointer).Elem().Underlying().(*types.Struct)
					return accessPath(fa.X) + "." + core.FieldName(st, fa.Field)
				}
				if os := core.Origins(x); len(os) == 1 && os[0] != ssa.Value(x) {
					v = os[0]
					continue
				}
			}
		case *ssa.Field:
			st := x.X.Type().Underlying().(*types.Struct)
			return accessPath(x.X) + "." + core.FieldName(st, x.Field)
		case *ssa.FieldAddr:
			// the address of a value field that groups others (s.in.r): part of the path
			if pt, ok := x.X.Type().Underlying().(*types.Pointer); ok {
				if st, ok := pt.Elem().Underlying().(*types.Struct); ok {
					return accessPath(x.X) + "." + core.FieldName(st, x.Field)
				}
			}
		case *ssa.Parameter:
			return x.Name()
		}
		break
	}
	return core.ValName(v)
}

// httpReaderHandsOverEveryFrame: in the HTTP reply reader (a loop that reads a
// size preface and sends the message bytes on the stream's message channel),
// no path leads from one preface read to the next without the send — an empty
// message is a message. Returns the number of reader loops examined. (A
// necessary condition of C08: the second-response check sees every response;
// of C01: nothing is dropped; of C07: the decoder yields exactly the frames.)
func httpReaderHandsOverEveryFrame(c *core.Ctx) int {
	p := c.P
	readers := prefaceReaders(p)
	n := 0
	for _, fn := range p.LibFuncs("httpgrpc") {
		var sends []ssa.Instruction
		core.Instrs(fn, func(in ssa.Instruction) {
			switch x := in.(type) {
			case *ssa.Send:
				if core.TypeStr(x.X.Type()) == "[]byte" {
					sends = append(sends, x)
				}
			case *ssa.Select:
				for _, st := range x.States {
					if st.Send != nil && core.TypeStr(st.Send.Type()) == "[]byte" {
						sends = append(sends, x)
					}
				}
			}
		})
		if len(sends) == 0 {
			continue
		}
		for _, pr := range core.CallsIn(fn, func(_ *ssa.Call, ci core.CallInfo) bool {
			for _, r := range readers {
				if ci.Static == r {
					return true
				}
			}
			return false
		}) {
			if !core.Reachable(core.After(pr), pr) {
				continue // not in a loop
			}
			n++
			isSend := func(in ssa.Instruction) bool {
				for _, sd := range sends {
					if in == sd {
						return true
					}
				}
				return false
			}
			again := core.Walk(core.After(pr), isSend, nil)[pr]
			c.Check(!again, core.FuncName(fn)+":reader-loop:every-frame-handed-over", pr.Pos(), "every path from one size-preface read to the next passes the hand-over to the message channel", "the reply reader can go from one size preface to the next without handing the message over (e.g. a shortcut for zero-length frames): an empty message is dropped, so a second (empty) response of a single-response method goes unnoticed and message counts disagree")
		}
	}
	return n
}
