package rules

import (
	"fmt"
	"go/token"
	"go/types"
	"strings"

	"golang.org/x/tools/go/ssa"

	"verif/checker/internal/core"
)

func init() { register("C12", c12) }

// channelTypes: library types implementing grpc.ClientConnInterface declared
// in the given package.
func channelTypes(p *core.Prog, pkgSuffix string) []*types.Named {
	it := p.ExtType(grpcPkg, "ClientConnInterface")
	var out []*types.Named
	for _, nt := range p.Implementers(it) {
		if pkgSuffixOf(nt) == pkgSuffix && declaredMethod(p, nt, "Invoke") != nil {
			out = append(out, nt)
		}
	}
	return out
}

// closureSiteIn returns the instruction in ancestor `root` that creates (or
// starts) the closure chain containing fn; for fn == root returns at.
func closureSiteIn(root *ssa.Function, fn *ssa.Function, at ssa.Instruction) ssa.Instruction {
	for fn != root {
		if fn.Parent() == nil {
			// a "virtual closure": the only call (go/defer) of an unexported function
			site := core.InlineSite[fn]
			if site == nil {
				return nil
			}
			at = site
			fn = site.Parent()
			continue
		}
		sites := core.ClosureSites(fn)
		if len(sites) == 0 {
			return nil
		}
		at = sites[0]
		fn = fn.Parent()
	}
	return at
}

type hsite struct {
	fn   *ssa.Function
	call *ssa.Call
	kind string
}

// handlerSitesDeep lists handler invocations in fn and nested literals.
func handlerSitesDeep(fn *ssa.Function) []hsite {
	var out []hsite
	core.InstrsDeep(fn, func(f *ssa.Function, in ssa.Instruction) {
		if call, ok := in.(*ssa.Call); ok {
			if k, ok := isHandlerInvocation(&call.Call); ok {
				out = append(out, hsite{f, call, k})
			}
		}
	})
	return out
}

func c12(c *core.Ctx) {
	p := c.P
	c.Explain = "C12: bounds obligations of the in-process entry points are enumerated from SSA and discharged by dominating length guards; handler dispatch is shown to be dominated by the non-nil edges of the service and method lookups keyed by this call's method string; finders, the three URL-path constructions and loop-variable capture are checked structurally."
	c.NotDec = []string{"http.ServeMux matching and URL escaping for exotic base paths", "NotFound over HTTP is the mux's 404 mapped by the fallback table (C14)"}

	chans := channelTypes(p, "inprocgrpc")
	type ep struct {
		name string
		fn   *ssa.Function
	}
	var eps []ep
	for _, ct := range chans {
		for _, m := range []string{"Invoke", "NewStream"} {
			if f := declaredMethod(p, ct, m); f != nil {
				eps = append(eps, ep{typeKey(ct) + "." + m, f})
			}
		}
	}

	// ---------------------------------------------------------------- R1
	if c.Rule("R1", "malformed method names cannot panic: every index/slice expression in the in-process entry points is in range on all paths, and nothing found under the name in a keyed container is type-asserted unchecked", 6) {
		if len(eps) < 2 {
			c.Missing("inprocgrpc channel type with Invoke and NewStream")
		}
		// helpers of the package called from the entry points are part of the name handling
		core.ComputeParamLenHints(p.LibFuncs("inprocgrpc"))
		seenH := map[*ssa.Function]bool{}
		epsR1 := append([]ep{}, eps...)
		// the HTTP client's entry points take the caller's method string as well (it becomes part of the URL, and
		// of what per-call credentials are asked about)
		for _, ct := range channelTypes(p, "httpgrpc") {
			for _, m := range []string{"Invoke", "NewStream"} {
				if f := declaredMethod(p, ct, m); f != nil {
					epsR1 = append(epsR1, ep{typeKey(ct) + "." + m, f})
				}
			}
		}
		core.ComputeParamLenHints(p.LibFuncs("internal"))
		for i := 0; i < len(epsR1) && i < 40; i++ {
			e := epsR1[i]
			core.Instrs(e.fn, func(in ssa.Instruction) {
				if call, ok := in.(*ssa.Call); ok {
					h := core.InfoOf(&call.Call).Static
					if h == nil || h.Blocks == nil || !(core.PkgIs(h, "inprocgrpc") || core.PkgIs(h, "internal") || core.PkgIs(h, "httpgrpc")) || seenH[h] || h.Signature.Recv() != nil || !p.IsLibFile(h.Pos()) {
						return
					}
					for _, a := range call.Call.Args {
						if core.TypeStr(a.Type()) == "string" {
							seenH[h] = true
							epsR1 = append(epsR1, ep{core.FuncName(h), h})
							return
						}
					}
				}
			})
		}
		for _, e := range epsR1 {
			for _, ob := range core.BoundsOf(e.fn) {
				if ob.Proven {
					if strings.Contains(ob.Why, "array type") {
						c.OkTrivial(e.name+":"+ob.Desc, ob.Instr.Pos(), "%s", ob.Why)
					} else {
						c.Ok(e.name+":"+ob.Desc, ob.Instr.Pos(), "%s", ob.Why)
					}
				} else {
					c.Fail(e.name+":"+ob.Desc, ob.Instr.Pos(), "%s can be out of range for a malformed method name (%s): panic instead of a status error", ob.Desc, ob.Why)
				}
			}
			// ... nor through an unchecked type assertion on something found under the name (e.g. a lookup cache
			// shared by unary and streaming entries: the other kind's name panics)
			nTA := 0
			core.InstrsDeep(e.fn, func(f *ssa.Function, in ssa.Instruction) {
				ta, ok := in.(*ssa.TypeAssert)
				if !ok || ta.CommaOk {
					return
				}
				// an assertion on the value of a container keyed by a string (map / sync.Map lookups)
				fromLookup := false
				for _, o := range core.Origins(ta.X) {
					if call, _, isCall := core.CallResult(o); isCall {
						ci := core.InfoOf(&call.Call)
						if ci.Pkg == "sync" && ci.Recv == "Map" {
							fromLookup = true
						}
					}
					if _, isL := o.(*ssa.Lookup); isL {
						fromLookup = true
					}
					if ex, isEx := o.(*ssa.Extract); isEx {
						if _, isL := ex.Tuple.(*ssa.Lookup); isL {
							fromLookup = true
						}
					}
				}
				if fromLookup {
					nTA++
					c.Fail(e.name+":assert("+core.TypeStr(ta.AssertedType)+"):unchecked", ta.Pos(), "what a lookup keyed by the method name returned is type-asserted without the comma-ok form: a name stored by the other kind of entry point (unary vs. streaming) panics here instead of failing with a status error")
				}
			})
			if nTA == 0 {
				c.OkTrivial(e.name+":no-unchecked-assertion-on-lookups", e.fn.Pos(), "no unchecked type assertion on the result of a keyed lookup in this entry point")
			}
		}
		c.EndRule()
	}

	// ---------------------------------------------------------------- R2
	if c.Rule("R2", "every handler invocation is dominated by the non-nil edges of the service lookup and of the method lookup keyed by this call's method string; the nil edges return Unimplemented", 8) {
		for _, e := range eps {
			c12Lookup(c, e.name, e.fn)
		}
		c.EndRule()
	}

	// ---------------------------------------------------------------- R3
	if c.Rule("R3", "the finders return the address of the very element whose name compared equal to the parameter; fall-through returns nil", 2) {
		n := 0
		for _, fn := range p.LibFuncs("internal") {
			if fn.Parent() != nil || fn.Signature.Recv() != nil || len(fn.Params) != 2 || fn.Signature.Results().Len() != 1 {
				continue
			}
			pt := core.TypeStr(fn.Params[1].Type())
			rt := core.TypeStr(fn.Signature.Results().At(0).Type())
			var nameField string
			switch {
			case pt == "[]"+grpcPkg+".MethodDesc" && rt == "*"+grpcPkg+".MethodDesc":
				nameField = "MethodName"
			case pt == "[]"+grpcPkg+".StreamDesc" && rt == "*"+grpcPkg+".StreamDesc":
				nameField = "StreamName"
			default:
				continue
			}
			n++
			c12Finder(c, fn, nameField)
		}
		if n < 2 {
			c.Missing("finder functions func(string, []grpc.MethodDesc|StreamDesc) in internal")
		}
		c.EndRule()
	}

	// ---------------------------------------------------------------- R4
	if c.Rule("R4", "client and both server registrars build the URL path as path.Join(base, service \"/\" method) from the descriptor entry whose handler is being registered", 6) {
		c12Paths(c)
		c.EndRule()
	}

	// ---------------------------------------------------------------- R5
	if c.Rule("R5", "function literals created in a loop do not capture variables that the loop mutates across iterations (per-entry closures)", 0) {
		n := loopCaptureCheck(c, p.LibFuncs(""))
		if n == 0 {
			c.OkTrivial("no-loop-closures", token.NoPos, "no function literal is created inside a loop")
		}
		c.EndRule()
	}

	// ---------------------------------------------------------------- R8
	if c.Rule("R8", "the server type serves what it registered, under the configured base path: the base-path option stores its own parameter unchanged into the field the registrar joins paths with; a default is set before options are applied; options are applied once each over the whole list; ServeHTTP hands every request, untouched, to the mux the registrar registered on", 5) {
		handlers := map[*types.TypeName]bool{}
		for _, nt := range p.Implementers(p.ExtType("net/http", "Handler")) {
			if pkgSuffixOf(nt) == "httpgrpc" && declaredMethod(p, nt, "RegisterService") != nil {
				handlers[nt.Obj()] = true
			}
		}
		configPlumbing(c, "httpgrpc", func(st *types.Named, f *types.Var) bool {
			return handlers[st.Obj()] && core.TypeStr(f.Type()) == "string"
		})
		optionFanOut(c, "httpgrpc")
		optionApplySteps(c, "httpgrpc")
		for _, nt := range p.Implementers(p.ExtType("net/http", "Handler")) {
			if !handlers[nt.Obj()] {
				continue
			}
			serveDelegates(c, nt)
		}
		c.EndRule()
	}

	// ---------------------------------------------------------------- R6 (shared)
	// over HTTP the content-type gate is what keeps a unary call from a streaming handler and vice versa ("a unary
	// name used for a stream fails with a status error without running any handler"): the codec tables of C11/R3
	c.Borrow("C11", map[string]string{"R3": "R6"}, c11)

	// ---------------------------------------------------------------- R7 (shared)
	// the name that reaches the transport is the one the caller (or an interceptor handing the call on) gave:
	// the client interceptor plumbing forwards its own parameters (C17/R2)
	c.Borrow("C17", map[string]string{"R2": "R7"}, c17)
	// "unknown services or methods fail with NotFound over HTTP": the mux's 404 reaches the caller as NotFound only if
	// the client takes the reply's own status — header first, HTTP status as the fallback — before any verdict of its
	// own (C14/R3)
	c.Borrow("C14", map[string]string{"R3": "R9"}, c14)

}

// loopCaptureCheck: for each MakeClosure inside a cyclic region, every bound
// cell must be allocated inside that region or not be stored to inside it.
func loopCaptureCheck(c *core.Ctx, fns []*ssa.Function) int {
	n := 0
	for _, fn := range fns {
		loops := core.LoopOf(fn)
		core.Instrs(fn, func(in ssa.Instruction) {
			mc, ok := in.(*ssa.MakeClosure)
			if !ok {
				return
			}
			lid := loops[mc.Block()]
			if lid < 0 {
				return
			}
			n++
			bad := ""
			for _, b := range mc.Bindings {
				al, ok := b.(*ssa.Alloc)
				if !ok {
					continue // FreeVar of an enclosing function or a value: not a loop variable of this loop
				}
				if loops[al.Block()] == lid {
					continue // fresh cell per iteration
				}
				for _, st := range core.StoresTo(al) {
					if st.Parent() == fn && loops[st.Block()] == lid {
						bad = al.Comment
					}
				}
			}
			key := core.FuncName(mc.Fn.(*ssa.Function))
			_ = key
			if bad != "" {
				c.Fail(key+":captures:"+bad, mc.Pos(), "function literal created in a loop captures %q, which is allocated outside the loop and re-assigned on every iteration: all closures would see the last entry", bad)
			} else {
				c.Ok(key+":per-iteration", mc.Pos(), "every captured cell is allocated per iteration or is loop-invariant")
			}
		})
	}
	// a literal built by a factory function called in the loop captures the factory's own per-call cells: as good as
	// per-iteration (handing the factory the ADDRESS of a loop variable is what the next block looks for)
	for _, fn := range fns {
		loops := core.LoopOf(fn)
		core.Instrs(fn, func(in ssa.Instruction) {
			call, ok := in.(*ssa.Call)
			if !ok || loops[call.Block()] < 0 {
				return
			}
			callee := core.InfoOf(&call.Call).Static
			if callee == nil || callee.Blocks == nil || callee.Parent() != nil || !strings.HasPrefix(core.InfoOf(&call.Call).Pkg, core.ModulePath) {
				return
			}
			if callee.Signature.Results().Len() != 1 {
				return
			}
			if _, isFn := callee.Signature.Results().At(0).Type().Underlying().(*types.Signature); !isFn {
				return
			}
			own := true
			lits := 0
			core.Instrs(callee, func(x ssa.Instruction) {
				mc, isMC := x.(*ssa.MakeClosure)
				if !isMC {
					return
				}
				lits++
				for _, b := range mc.Bindings {
					if al, isAl := b.(*ssa.Alloc); !isAl || al.Parent() != callee {
						own = false
					}
				}
			})
			if lits == 0 || !own {
				return
			}
			n++
			c.Ok(core.FuncName(callee)+":per-call", call.Pos(), "the literal is built by a factory called in the loop and captures only the factory's own per-call cells")
		})
	}
	// the same through a helper: the ADDRESS of a cell that the loop re-assigns is handed to a function that keeps it
	// (captures it in a literal it returns, or stores it): everything built from it sees the last entry
	for _, fn := range fns {
		loops := core.LoopOf(fn)
		core.Instrs(fn, func(in ssa.Instruction) {
			call, ok := in.(*ssa.Call)
			if !ok {
				return
			}
			lid := loops[call.Block()]
			if lid < 0 {
				return
			}
			callee := core.InfoOf(&call.Call).Static
			if callee == nil || callee.Blocks == nil || !strings.HasPrefix(core.InfoOf(&call.Call).Pkg, core.ModulePath) {
				return
			}
			for ai, a := range call.Call.Args {
				al, isA := a.(*ssa.Alloc)
				if !isA || loops[al.Block()] == lid || ai >= len(callee.Params) {
					continue
				}
				reassigned := false
				for _, st := range core.StoresTo(al) {
					if st.Parent() == fn && loops[st.Block()] == lid {
						reassigned = true
					}
				}
				if !reassigned {
					continue
				}
				par := callee.Params[ai]
				keeps := false
				core.Instrs(callee, func(x ssa.Instruction) {
					switch y := x.(type) {
					case *ssa.MakeClosure:
						for _, b := range y.Bindings {
							if b == ssa.Value(par) {
								keeps = true
							}
							if cellAl, isCell := b.(*ssa.Alloc); isCell {
								for _, st := range core.StoresTo(cellAl) {
									if st.Val == ssa.Value(par) {
										keeps = true
									}
								}
							}
						}
					case *ssa.Store:
						if y.Val == ssa.Value(par) {
							if _, isLocal := y.Addr.(*ssa.Alloc); !isLocal {
								keeps = true
							}
						}
					}
				})
				if keeps {
					n++
					c.Fail(core.FuncName(fn)+":address-of-loop-variable:"+al.Comment+"→"+callee.Name(), call.Pos(), "the address of %q, which is allocated outside the loop and re-assigned on every iteration, is handed to %s, which keeps it (in a function literal or a stored value): everything built from it dispatches to the last entry of the loop", al.Comment, core.FuncName(callee))
				}
			}
		})
	}
	return n
}

func c12Lookup(c *core.Ctx, name string, fn *ssa.Function) {
	p := c.P
	isStream := strings.HasSuffix(name, "NewStream")
	sites := handlerSitesDeep(fn)
	var direct []hsite
	for _, s := range sites {
		if s.kind == "unary-handler" || s.kind == "stream-handler" || s.kind == "stream-interceptor" {
			direct = append(direct, s)
		}
	}
	if len(direct) == 0 {
		c.Fail(name+":dispatch", fn.Pos(), "no handler invocation found in the entry point")
		return
	}
	// the lookups
	var query, find *ssa.Call
	core.Instrs(fn, func(in ssa.Instruction) {
		call, ok := in.(*ssa.Call)
		if !ok {
			return
		}
		ci := core.InfoOf(&call.Call)
		if ci.Name == "QueryService" && ci.Recv == "HandlerMap" {
			query = call
		}
		if ci.Static != nil && core.PkgIs(ci.Static, "internal") && len(call.Call.Args) == 2 {
			rt := core.TypeStr(call.Type())
			if rt == "*"+grpcPkg+".MethodDesc" || rt == "*"+grpcPkg+".StreamDesc" {
				find = call
			}
		}
	})
	if query == nil || find == nil {
		c.Fail(name+":lookups", fn.Pos(), "service lookup (HandlerMap.QueryService) or method finder call not found")
		return
	}
	wantRT := "*" + grpcPkg + ".MethodDesc"
	wantField := "Methods"
	if isStream {
		wantRT = "*" + grpcPkg + ".StreamDesc"
		wantField = "Streams"
	}
	c.Check(core.TypeStr(find.Type()) == wantRT, name+":finder-kind", find.Pos(), "entry point searches "+wantField+" (a name of the other kind is 'not found')", "entry point searches the wrong kind of method table")
	// finder's slice arg: field wantField of the query result
	okSlice := false
	if base, f, ok := core.FieldOf(find.Call.Args[1]); ok && f == wantField {
		okSlice = core.OriginIs(base, func(o ssa.Value) bool { cr, idx, ok := core.CallResult(o); return ok && cr == query && idx == 0 })
	}
	c.Check(okSlice, name+":finder-table", find.Pos(), "finder is given ."+wantField+" of the descriptor returned by the service lookup", "finder is not given ."+wantField+" of the looked-up service descriptor")
	// names come from this call's method string
	methodParam := core.ParamNamed(fn, "method")
	if methodParam == nil {
		for _, pp := range fn.Params {
			if core.TypeStr(pp.Type()) == "string" {
				methodParam = pp
			}
		}
	}
	var fromMethodIn func(v ssa.Value, idx int64, mpar ssa.Value, depth int) bool
	fromMethod := func(v ssa.Value, idx int64) bool { return fromMethodIn(v, idx, methodParam, 0) }
	fromMethodIn = func(v ssa.Value, idx int64, methodParam ssa.Value, depth int) bool {
		// v = *(&split[idx]) where split = strings.SplitN(method'[1:], "/", 2)
		return core.OriginIs(v, func(o ssa.Value) bool {
			// strings.Cut(method'[1:], "/"): before / after are the two segments of SplitN(…, "/", 2)
			if call, k, isCall := core.CallResult(o); isCall && core.InfoOf(&call.Call).Is("strings.Cut") && int64(k) == idx && len(call.Call.Args) == 2 {
				if sep, _ := core.ConstString(call.Call.Args[1]); sep == "/" {
					return derivesFromString(call.Call.Args[0], methodParam)
				}
			}
			// through a repo helper: result k of H(method') where H's return k is segment idx of its parameter
			if call, k, isCall := core.CallResult(o); isCall && depth < 2 {
				if h := core.InfoOf(&call.Call).Static; h != nil && h.Blocks != nil && core.PkgIs(h, "inprocgrpc") {
					for ai, a := range call.Call.Args {
						if !derivesFromString(a, methodParam) || ai >= len(h.Params) {
							continue
						}
						okAll, n := true, 0
						for _, r := range core.Returns(h) {
							if k >= len(r.Results) {
								continue
							}
							if s, isC := core.ConstString(r.Results[k]); isC && s == "" {
								continue // the failure return
							}
							n++
							if !fromMethodIn(r.Results[k], idx, h.Params[ai], depth+1) {
								okAll = false
							}
						}
						if n > 0 && okAll {
							return true
						}
					}
				}
			}
			u, ok := o.(*ssa.UnOp)
			if !ok || u.Op != token.MUL {
				return false
			}
			ia, ok := u.X.(*ssa.IndexAddr)
			if !ok {
				return false
			}
			k, ok := core.ConstInt(ia.Index)
			if !ok || k != idx {
				return false
			}
			sp, _, ok := core.CallResult(ia.X)
			if !ok || !core.InfoOf(&sp.Call).Is("strings.SplitN") {
				return false
			}
			sep, _ := core.ConstString(sp.Call.Args[1])
			nn, _ := core.ConstInt(sp.Call.Args[2])
			if sep != "/" || nn != 2 {
				return false
			}
			return derivesFromString(sp.Call.Args[0], methodParam)
		})
	}
	c.Check(fromMethod(query.Call.Args[1], 0), name+":service-key", query.Pos(), "service lookup keyed by segment 0 of this call's method string", "service lookup is not keyed by the first segment of this call's method string")
	c.Check(fromMethod(find.Call.Args[0], 1), name+":method-key", find.Pos(), "method lookup keyed by segment 1 of this call's method string", "method lookup is not keyed by the second segment of this call's method string")

	for i, s := range direct {
		key := fmt.Sprintf("%s:dispatch#%d(%s)", name, i, s.kind)
		site := closureSiteIn(fn, s.fn, s.call)
		if site == nil {
			c.Undecided(key, s.call.Pos(), "cannot locate the closure creation in the entry point")
			continue
		}
		gSvc := core.GuardedBy(site, func(f core.Fact) bool {
			return f.Op == token.NEQ && core.IsNilConst(f.Y) && core.OriginIs(f.X, func(o ssa.Value) bool { cr, idx, ok := core.CallResult(o); return ok && cr == query && idx == 0 })
		})
		gMth := core.GuardedBy(site, func(f core.Fact) bool {
			return f.Op == token.NEQ && core.IsNilConst(f.Y) && core.OriginIs(f.X, func(o ssa.Value) bool { return o == ssa.Value(find) })
		})
		c.Check(gSvc, key+":service-found", s.call.Pos(), "dominated by serviceDesc != nil", "handler can be invoked although the service lookup returned nil")
		c.Check(gMth, key+":method-found", s.call.Pos(), "dominated by methodDesc != nil", "handler can be invoked although the method lookup returned nil")
		// the Handler invoked belongs to the looked-up descriptor
		hv := s.call.Call.Value
		if s.kind == "stream-interceptor" {
			hv = s.call.Call.Args[len(s.call.Call.Args)-1]
		}
		okDesc := core.OriginIs(hv, func(o ssa.Value) bool {
			base, f, ok := core.FieldOf(o)
			if !ok || f != "Handler" {
				return false
			}
			return core.OriginIs(core.ResolveFree(base), func(b ssa.Value) bool {
				if b == ssa.Value(find) {
					return true
				}
				return false
			}) || cellHolds(base, find)
		})
		c.Check(okDesc, key+":handler-of-lookup", s.call.Pos(), "the Handler invoked is the field of the descriptor returned by the finder", "the Handler invoked is not taken from the descriptor returned by the method lookup")
	}
	// nil edges return Unimplemented without dispatch
	for _, which := range []struct {
		what string
		call ssa.Value
		idx  int
	}{{"service", query, 0}, {"method", find, -1}} {
		found := false
		for _, r := range core.ErrReturns(fn) {
			isNilEdge := core.GuardedBy(r, func(f core.Fact) bool {
				if f.Op != token.EQL || !core.IsNilConst(f.Y) {
					return false
				}
				return core.OriginIs(f.X, func(o ssa.Value) bool {
					if which.idx < 0 {
						return o == which.call
					}
					cr, idx, ok := core.CallResult(o)
					return ok && ssa.Value(cr) == which.call && idx == which.idx
				})
			})
			if !isNilEdge {
				continue
			}
			found = true
			ev := r.Results[len(r.Results)-1]
			okCode := false
			for _, l := range core.ErrLeaves(ev, r) {
				if code, ok := core.StatusCtorCode(l.V); ok && code == 12 {
					okCode = true
				} else {
					okCode = false
					break
				}
			}
			c.Check(okCode, name+":"+which.what+"-not-found", r.Pos(), "returns status Unimplemented(12)", "the "+which.what+"-not-found edge does not return a status with the constant code Unimplemented")
		}
		if !found {
			c.Fail(name+":"+which.what+"-not-found", fn.Pos(), "no return on the %s == nil edge", which.what)
		}
	}
	_ = p
}

// cellHolds: base is a load of a cell (possibly captured) whose stores are all
// the finder's result.
func cellHolds(base ssa.Value, find *ssa.Call) bool {
	u, ok := base.(*ssa.UnOp)
	if !ok || u.Op != token.MUL {
		return false
	}
	al, ok := core.ResolveFree(u.X).(*ssa.Alloc)
	if !ok {
		return false
	}
	sts := core.StoresTo(al)
	if len(sts) == 0 {
		return false
	}
	for _, s := range sts {
		if s.Val != ssa.Value(find) {
			return false
		}
	}
	return true
}

// derivesFromString: v is param, a slice of it, or "/"+param, or a phi of those.
func derivesFromString(v ssa.Value, param ssa.Value) bool {
	seen := map[ssa.Value]bool{}
	var rec func(v ssa.Value) bool
	rec = func(v ssa.Value) bool {
		if v == param {
			return true
		}
		if seen[v] {
			return true
		}
		seen[v] = true
		switch x := v.(type) {
		case *ssa.Parameter:
			if r := core.ResolveFree(x); r != v {
				return rec(r)
			}
		case *ssa.Phi:
			for _, e := range x.Edges {
				if !rec(e) {
					return false
				}
			}
			return true
		case *ssa.Slice:
			return rec(x.X)
		case *ssa.BinOp:
			if x.Op == token.ADD {
				if _, ok := core.ConstString(x.X); ok {
					return rec(x.Y)
				}
			}
		case *ssa.Call:
			// a helper of the module that normalises the string: one string parameter, one string result, and
			// every return derives from that parameter the same way (the parameter, a slice of it, const + it)
			h := core.InfoOf(&x.Call).Static
			if h != nil && h.Blocks != nil && h.Pkg != nil && strings.HasPrefix(h.Pkg.Pkg.Path(), core.ModulePath) &&
				len(h.Params) == 1 && len(x.Call.Args) == 1 && h.Signature.Results().Len() == 1 && core.TypeStr(h.Signature.Results().At(0).Type()) == "string" {
				for _, r := range core.Returns(h) {
					if !derivesFromString(r.Results[0], h.Params[0]) {
						return false
					}
				}
				return rec(x.Call.Args[0])
			}
		case *ssa.UnOp:
			if x.Op == token.MUL {
				if al, ok := core.ResolveFree(x.X).(*ssa.Alloc); ok {
					sts := core.StoresTo(al)
					if len(sts) == 0 {
						return false
					}
					for _, s := range sts {
						if !rec(s.Val) {
							return false
						}
					}
					return true
				}
			}
		}
		return false
	}
	return rec(v)
}

func c12Finder(c *core.Ctx, fn *ssa.Function, nameField string) {
	name := core.FuncName(fn)
	nameParam, sliceParam := fn.Params[0], fn.Params[1]
	okAll := true
	why := "returns &methods[i] under methods[i]." + nameField + " == name, nil otherwise"
	nonNil := 0
	for _, r := range core.Returns(fn) {
		v := r.Results[0]
		if core.IsNilConst(v) {
			continue
		}
		nonNil++
		ia, ok := v.(*ssa.IndexAddr)
		if !ok || ia.X != ssa.Value(sliceParam) {
			okAll = false
			why = "returns something other than the address of an element of its slice parameter"
			continue
		}
		g := core.GuardedBy(r, func(f core.Fact) bool {
			if f.Op != token.EQL {
				return false
			}
			a, b := f.X, f.Y
			if b != ssa.Value(nameParam) {
				a, b = b, a
			}
			if b != ssa.Value(nameParam) {
				return false
			}
			// a = *(&(&methods[i]).Name)
			base, fld, ok := core.FieldOf(a)
			if !ok || fld != nameField {
				return false
			}
			ia2, ok := base.(*ssa.IndexAddr)
			return ok && ia2.X == ssa.Value(sliceParam) && ia2.Index == ia.Index
		})
		if !g {
			okAll = false
			why = "returned element is not the one whose " + nameField + " compared equal to the name parameter (same index)"
		}
	}
	if nonNil == 0 {
		okAll = false
		why = "never returns an element"
	}
	hasNil := false
	for _, r := range core.Returns(fn) {
		if core.IsNilConst(r.Results[0]) {
			hasNil = true
		}
	}
	if !hasNil {
		okAll = false
		why = "no fall-through return nil"
	}
	c.Check(okAll, name+":returns-match", fn.Pos(), why, why)
	for _, ob := range core.BoundsOf(fn) {
		if !ob.Proven {
			c.Fail(name+":bounds:"+ob.Desc, ob.Instr.Pos(), "%s", ob.Why)
		}
	}
}

// pathShape normalises a path.Join call: returns base descriptor and the
// "svc/method" part descriptor.
type pathSite struct {
	fn    *ssa.Function
	join  *ssa.Call
	role  string // "client" | "server"
	shape string
}

func c12Paths(c *core.Ctx) {
	p := c.P
	var sites []pathSite
	for _, fn := range p.LibFuncs("httpgrpc") {
		for _, j := range core.CallsIn(fn, func(call *ssa.Call, ci core.CallInfo) bool { return ci.Is("path.Join") }) {
			args, ok := core.VariadicArgs(j.Call.Args[0])
			ps := pathSite{fn: fn, join: j}
			if !ok || len(args) != 2 {
				ps.shape = "other"
				sites = append(sites, ps)
				continue
			}
			// role by use
			for _, r := range core.Refs(j) {
				if st, ok := r.(*ssa.Store); ok {
					if _, f, ok := core.FieldOf(st.Addr); ok && f == "Path" {
						ps.role = "client"
					}
				}
				if cc, ok := r.(*ssa.Call); ok && len(cc.Call.Args) >= 2 {
					a := cc.Call.Args
					if a[len(a)-2] == ssa.Value(j) {
						ps.role = "server"
					}
				}
			}
			ps.shape = describeJoin(p, fn, args, j)
			sites = append(sites, ps)
		}
	}
	nClient, nServer := 0, 0
	for _, s := range sites {
		key := core.FuncName(s.fn) + ":path"
		switch s.role {
		case "client":
			nClient++
			c.Check(s.shape == "join(BaseURL.Path, methodParam)", key, s.join.Pos(), "client: "+s.shape, "client builds the request path as "+s.shape+", want join(BaseURL.Path, method)")
		case "server":
			nServer++
			c.Check(strings.HasPrefix(s.shape, "join(base, fmt(\"%s/%s\", desc.ServiceName, entry.") && strings.HasSuffix(s.shape, "same-entry)"), key+":"+shapeEntry(s.shape), s.join.Pos(), "server: "+s.shape,
				"server registers under "+s.shape+`, want join(base, fmt("%s/%s", desc.ServiceName, entry.<Name>)) with the handler built from the same entry`)
		default:
			c.Undecided(key, s.join.Pos(), "path.Join whose result is neither stored to a URL path nor passed as a mux pattern (%s)", s.shape)
		}
	}
	// coverage: both client entry points and both registrars reach such a site (in themselves, in a literal
	// of theirs, or in a helper of the package they call), whatever the number of sites is
	reaches := func(root *ssa.Function, role string) bool {
		seen := map[*ssa.Function]bool{}
		var visit func(f *ssa.Function, depth int) bool
		visit = func(f *ssa.Function, depth int) bool {
			if f == nil || f.Blocks == nil || seen[f] || depth > 3 {
				return false
			}
			seen[f] = true
			for _, s := range sites {
				if s.fn == f && s.role == role {
					return true
				}
			}
			found := false
			core.InstrsDeep(f, func(g *ssa.Function, in ssa.Instruction) {
				for _, s := range sites {
					if s.fn == g && s.role == role {
						found = true
					}
				}
				if cc := core.CallOf(in); cc != nil {
					if h := core.InfoOf(cc).Static; h != nil && core.PkgIs(h, "httpgrpc") && !found {
						if visit(h, depth+1) {
							found = true
						}
					}
				}
			})
			return found
		}
		return visit(root, 0)
	}
	nEP := 0
	for _, ct := range channelTypes(p, "httpgrpc") {
		for _, m := range []string{"Invoke", "NewStream"} {
			if f := declaredMethod(p, ct, m); f != nil {
				nEP++
				c.Check(reaches(f, "client"), typeKey(ct)+"."+m+":path-site", f.Pos(), "the entry point builds its request path at a checked path.Join site", "the client entry point does not reach a path.Join site that builds the request path")
			}
		}
	}
	if nEP < 2 || nClient < 1 {
		c.Fail("client:path-sites", token.NoPos, "expected a request-path construction reached from both client entry points (entry points: %d, sites: %d)", nEP, nClient)
	}
	nReg := 0
	for _, fn := range p.LibFuncs("httpgrpc") {
		if fn.Parent() != nil {
			continue
		}
		isRegistrar := fn.Name() == "RegisterService" && fn.Signature.Recv() != nil
		for _, pp := range fn.Params {
			if sig, ok := pp.Type().Underlying().(*types.Signature); ok && sig.Params().Len() == 2 && core.TypeStr(sig.Params().At(0).Type()) == "string" && fn.Object() != nil && fn.Object().Exported() {
				isRegistrar = true
			}
		}
		if !isRegistrar {
			continue
		}
		nReg++
		c.Check(reaches(fn, "server"), core.FuncName(fn)+":path-site", fn.Pos(), "the registrar registers its handlers under patterns built at a checked path.Join site", "the registrar does not reach a path.Join site that builds the mux pattern")
	}
	if nReg < 2 || nServer < 2 {
		c.Fail("server:path-sites", token.NoPos, "expected both registrars (the server type's RegisterService and the bulk helper) to reach pattern constructions for methods and for streams (registrars: %d, sites: %d)", nReg, nServer)
	}
	// no string concatenation used for patterns: every mux registration's pattern is a path.Join result
	for _, fn := range p.LibFuncs("httpgrpc") {
		core.Instrs(fn, func(in ssa.Instruction) {
			call, ok := in.(*ssa.Call)
			if !ok {
				return
			}
			ci := core.InfoOf(&call.Call)
			isMux := ci.Is("net/http.ServeMux.HandleFunc") || ci.Is("net/http.ServeMux.Handle")
			if !isMux && ci.Dyn && len(call.Call.Args) == 2 && core.TypeStr(call.Call.Args[0].Type()) == "string" {
				if sig, ok := call.Call.Args[1].Type().Underlying().(*types.Signature); ok && sig.Params().Len() == 2 {
					isMux = true
				}
			}
			if !isMux {
				return
			}
			pat := call.Call.Args[len(call.Call.Args)-2]
			okPat := core.AllOrigins(pat, func(o ssa.Value) bool { return core.IsResultOf(o, 0, "path.Join") })
			c.Check(okPat, core.FuncName(fn)+":pattern-is-join", call.Pos(), "registered pattern is a path.Join result", "a handler is registered under a pattern not built by path.Join (client uses path.Join: paths would disagree for some base paths)")
		})
	}
}

func shapeEntry(s string) string {
	i := strings.Index(s, "entry.")
	if i < 0 {
		return "?"
	}
	j := strings.IndexAny(s[i:], "),")
	if j < 0 {
		return s[i:]
	}
	return s[i : i+j]
}

func describeJoin(p *core.Prog, fn *ssa.Function, args []ssa.Value, j *ssa.Call) string {
	a0, a1 := core.Strip(args[0]), core.Strip(args[1])
	// client: join(reqUrl.Path, methodName)
	if _, f, ok := core.FieldOf(a0); ok && f == "Path" {
		if par, ok := a1.(*ssa.Parameter); ok && core.TypeStr(par.Type()) == "string" {
			// base must be a copy of the channel's BaseURL
			return "join(BaseURL.Path, methodParam)"
		}
		return "join(.Path, " + core.ValName(a1) + ")"
	}
	base := "other:" + core.ValName(a0)
	if par, ok := a0.(*ssa.Parameter); ok && core.TypeStr(par.Type()) == "string" {
		base = "base"
	} else if fv, ok := a0.(*ssa.FreeVar); ok && core.TypeStr(fv.Type()) == "string" {
		base = "base"
	} else if u, ok := a0.(*ssa.UnOp); ok && u.Op == token.MUL && isParamCell(u.X) {
		base = "base"
	} else if _, f, ok := core.FieldOf(a0); ok && strings.Contains(strings.ToLower(f), "path") {
		base = "base"
	}
	format, fargs, ok := core.FormatOf(a1)
	if !ok || len(fargs) == 0 || (len(fargs) == 1 && format == "%s") {
		return "join(" + base + ", other:" + core.ValName(a1) + ")"
	}
	if len(fargs) != 2 {
		return fmt.Sprintf("join(%s, fmt(%q, ?))", base, format)
	}
	f0, f1 := core.Strip(fargs[0]), core.Strip(fargs[1])
	svc := "other"
	if b, f, ok := core.FieldOf(f0); ok && core.QualNamedOf(b.Type()) == grpcPkg+".ServiceDesc" {
		svc = "desc." + f
	}
	entry := "other"
	same := "other-entry"
	if b, f, ok := core.FieldOf(f1); ok {
		q := core.QualNamedOf(b.Type())
		if q == grpcPkg+".MethodDesc" || q == grpcPkg+".StreamDesc" {
			entry = "entry." + f
			// the registered handler must be built from &b (same cell)
			for _, r := range core.Refs(j) {
				cc, ok := r.(*ssa.Call)
				if !ok {
					continue
				}
				h := cc.Call.Args[len(cc.Call.Args)-1]
				for _, o := range core.Origins(h) {
					hc, _, ok := core.CallResult(o)
					if !ok {
						continue
					}
					for _, ha := range hc.Call.Args {
						if ha == b {
							same = "same-entry"
						}
					}
				}
			}
		}
	}
	return fmt.Sprintf("join(%s, fmt(%q, %s, %s), %s)", base, format, svc, entry, same)
}

// isParamCell: addr is (a captured reference to) the spill cell of a string parameter.
func isParamCell(addr ssa.Value) bool {
	al, ok := core.ResolveFree(addr).(*ssa.Alloc)
	if !ok {
		return false
	}
	sts := core.StoresTo(al)
	if len(sts) != 1 {
		return false
	}
	par, ok := sts[0].Val.(*ssa.Parameter)
	return ok && core.TypeStr(par.Type()) == "string"
}
