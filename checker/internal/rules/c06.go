package rules

import (
	"fmt"
	"go/token"
	"go/types"
	"strings"

	"golang.org/x/tools/go/ssa"

	"verif/checker/internal/core"
)

func init() { register("C06", c06); register("C20", c20) }

// clonerIface returns the inprocgrpc Cloner interface type.
func clonerIface(p *core.Prog) *types.Named { return p.Named("inprocgrpc", "Cloner") }

func isClonerCall(cc *ssa.CallCommon, name string) bool {
	return cc.IsInvoke() && cc.Method.Name() == name && core.NamedOf(cc.Value.Type()) == "Cloner"
}

// inprocMsgEntryPoints: (function, message parameters) of the in-process
// transport whose arguments are caller-owned messages.
type msgEntry struct {
	fn     *ssa.Function
	params []*ssa.Parameter
}

func inprocMsgEntries(p *core.Prog) []msgEntry {
	var out []msgEntry
	add := func(fn *ssa.Function) {
		if fn == nil || len(fn.Params) < 2 {
			return
		}
		var ps []*ssa.Parameter
		for _, pp := range fn.Params[1:] {
			if ts := core.TypeStr(pp.Type()); ts == "interface{}" || ts == "any" {
				ps = append(ps, pp)
			}
		}
		if len(ps) > 0 {
			out = append(out, msgEntry{fn, ps})
		}
	}
	for _, ct := range channelTypes(p, "inprocgrpc") {
		add(declaredMethod(p, ct, "Invoke"))
	}
	for _, iface := range []string{"ClientStream", "ServerStream"} {
		for _, nt := range streamTypes(p, iface, "RecvMsg") {
			if pkgSuffixOf(nt) != "inprocgrpc" {
				continue
			}
			add(declaredMethod(p, nt, "SendMsg"))
			for _, f := range methodFamily(p, nt, "RecvMsg") {
				add(f)
			}
		}
	}
	return out
}

func c06(c *core.Ctx) {
	p := c.P
	c.Explain = "C06: the message parameters of the in-process entry points are shown (escape check over SSA uses, spill cells and closure captures) to be used only by the cloner, nil tests and reflection in the entry point's own goroutine; every value stored in a frame's data field is a Clone result or the handler's returned response; a received frame's data is used only for nil tests, diagnostics and as the source of Cloner.Copy; the default copy resets before merging; the default cloner is installed before anything captures it."
	c.NotDec = []string{"that a user-supplied Cloner really deep-copies", "deep disjointness of arbitrary object graphs (a value fact; C18 covers the adapters' structure)"}

	// ---------------------------------------------------------------- R1
	if c.Rule("R1", "caller-owned messages stay on the caller's goroutine: used only as argument of Cloner.Clone/Copy, nil tests and reflect, never captured by a function literal, stored, sent or returned", 6) {
		for _, e := range inprocMsgEntries(p) {
			for _, par := range e.params {
				key := core.FuncName(e.fn) + ":" + par.Name()
				bad := msgEscape(p, e.fn, par)
				if bad != "" {
					c.Fail(key, e.fn.Pos(), "caller-owned message %q %s: after the call returned (e.g. on cancellation) the library may still read or publish the caller's object", par.Name(), bad)
				} else {
					c.Ok(key, e.fn.Pos(), "used only by Cloner.Clone/Copy, nil tests, reflect and family methods, synchronously")
				}
			}
		}
		c.EndRule()
	}

	// ---------------------------------------------------------------- R2
	if c.Rule("R2", "what crosses is a copy: frame.data is only ever a Clone result or the handler's returned response; a received frame.data is only nil-tested, printed, or used as the source of Cloner.Copy", 6) {
		for _, fn := range p.LibFuncs("inprocgrpc") {
			// what is put into frame.data (composite literals, assignments, frame constructors)
			for _, fs := range frameFieldSets(fn, "data") {
				{
					{
						st := struct {
							Val ssa.Value
							pos token.Pos
						}{fs.Val, fs.At.Pos()}
						key := core.FuncName(fn) + ":frame.data<-"
						okv := core.AllOrigins(st.Val, func(o ssa.Value) bool {
							call, idx, ok := core.CallResult(o)
							if !ok || idx != 0 {
								return false
							}
							if isClonerCall(&call.Call, "Clone") {
								return true
							}
							if k, ok := isHandlerInvocation(&call.Call); ok && k == "unary-handler" {
								return true
							}
							return false
						})
						c.Check(okv, key, st.pos, "value is a Cloner.Clone result or the unary handler's returned response", "a message is put into a frame without being cloned: both goroutines would share the object")
					}
				}
			}
			core.Instrs(fn, func(in ssa.Instruction) {
				// loads of frame.data
				var loaded ssa.Value
				switch x := in.(type) {
				case *ssa.UnOp:
					if x.Op == token.MUL {
						if base, f, ok := core.FieldOf(x); ok && f == "data" && core.NamedOf(base.Type()) == "frame" {
							loaded = x
						}
					}
				case *ssa.Field:
					if st, ok := x.X.Type().Underlying().(*types.Struct); ok && core.FieldName(st, x.Field) == "data" && core.NamedOf(x.X.Type()) == "frame" {
						loaded = x
					}
				}
				if loaded == nil {
					return
				}
				if core.RecvName(fn) == "frame" {
					return // the frame's own kind()/String() methods
				}
				key := core.FuncName(fn) + ":use(frame.data)"
				bad := ""
				for _, r := range core.Refs(loaded) {
					switch y := r.(type) {
					case *ssa.BinOp:
						if (y.Op == token.EQL || y.Op == token.NEQ) && (core.IsNilConst(y.X) || core.IsNilConst(y.Y)) {
							continue
						}
						bad = "compared with a non-nil value"
					case *ssa.Call:
						if isClonerCall(&y.Call, "Copy") && len(y.Call.Args) == 2 && y.Call.Args[1] == loaded && y.Call.Args[0] != loaded {
							continue
						}
						bad = "passed to " + core.InfoOf(&y.Call).Full()
					case *ssa.DebugRef:
					default:
						bad = fmt.Sprintf("used by %T (returned, stored or assigned)", r)
					}
				}
				if bad != "" {
					c.Fail(key, in.Pos(), "a received frame's message is %s instead of being copied into the receiver's own object: the peer's object would be shared", bad)
				} else {
					c.Ok(key, in.Pos(), "received message only nil-tested / used as the source of Cloner.Copy")
				}
			})
		}
		c.EndRule()
	}

	// ---------------------------------------------------------------- R3
	if c.Rule("R3", "receive overwrites: in the default copy the merge is preceded on all paths by Reset() of the same destination", 1) {
		n := 0
		for _, fn := range p.LibFuncs("internal") {
			for _, mg := range core.CallsIn(fn, func(_ *ssa.Call, ci core.CallInfo) bool {
				return ci.Name == "TryMerge" || ci.Name == "Merge"
			}) {
				n++
				key := core.FuncName(fn) + ":reset-before-merge"
				dst := mg.Call.Args[0]
				ok := core.MustPass(core.Entry(fn), mg, func(in ssa.Instruction) bool {
					call, isC := in.(*ssa.Call)
					return isC && call.Call.IsInvoke() && call.Call.Method.Name() == "Reset" && (call.Call.Value == dst || sameOrigins(call.Call.Value, dst))
				})
				c.Check(ok, key, mg.Pos(), "Reset() of the destination must-precedes the merge", "the destination is merged into without a Reset(): a pre-filled receive destination keeps stale fields")
			}
		}
		if n == 0 {
			c.Missing("merge call in internal (default message copy)")
		}
		c.EndRule()
	}

	// ---------------------------------------------------------------- R5
	if c.Rule("R5", "a copy that reports success has copied: in every library function of shape func(out, in) error (Cloner.Copy implementations, the copy closures the adapters build, the default message copy) each possibly-nil return is preceded on all paths by a write of the destination from the source (delegated copy, Unmarshal of the source's bytes, merge, reflect Set), with destination and source in the right positions", 5) {
		for _, pk := range []string{"inprocgrpc", "internal"} {
			for _, fn := range p.LibFuncs(pk) {
				c06CopyWrites(c, fn)
			}
		}
		c.EndRule()
	}

	// ---------------------------------------------------------------- R6
	if c.Rule("R6", "a clone is a different object: no library function of shape func(in) (interface{}, error) (Cloner.Clone implementations and the clone closures the adapters build) returns its input, or a re-typing of it, as the clone", 4) {
		for _, fn := range p.LibFuncs("inprocgrpc") {
			c06CloneFresh(c, fn)
		}
		for _, fn := range p.LibFuncs("internal") {
			c06CloneFresh(c, fn)
		}
		c.EndRule()
	}

	// ---------------------------------------------------------------- R4
	if c.Rule("R4", "default cloner: a nil cloner is replaced by the protobuf cloner before any stream object or closure captures it", 2) {
		for _, ct := range channelTypes(p, "inprocgrpc") {
			for _, m := range []string{"Invoke", "NewStream"} {
				fn := declaredMethod(p, ct, m)
				if fn == nil {
					continue
				}
				key := typeKey(ct) + "." + m + ":default-cloner"
				// every use of a Cloner value (invoke, store into a struct field, closure capture of its cell)
				// must see a value that is non-nil: the channel's field under != nil, the default ProtoCloner, or
				// the result of a helper of the package all of whose returns are such values
				bad := ""
				readsField := false
				checkVal := func(v ssa.Value, at ssa.Instruction, what string) {
					ok, reads := clonerNonNil(fn, v, at, 0)
					if reads {
						readsField = true
					}
					if !ok {
						bad = what + " may see a nil cloner (the channel's field, not replaced by the default)"
					}
				}
				core.InstrsDeep(fn, func(f *ssa.Function, in ssa.Instruction) {
					switch x := in.(type) {
					case *ssa.Call:
						if x.Call.IsInvoke() && core.NamedOf(x.Call.Value.Type()) == "Cloner" && f == fn {
							checkVal(x.Call.Value, x, "a Cloner call")
						}
					case *ssa.Store:
						if core.NamedOf(x.Val.Type()) == "Cloner" && f == fn {
							if _, isField := x.Addr.(*ssa.FieldAddr); isField {
								checkVal(x.Val, x, "a stream object")
							}
						}
					case *ssa.MakeClosure:
						if f != fn {
							return
						}
						for _, b := range x.Bindings {
							if al, ok := b.(*ssa.Alloc); ok && core.NamedOf(al.Type().Underlying().(*types.Pointer).Elem()) == "Cloner" {
								// value of the cell at capture time
								sts, zero := core.ReachingStoresAt(al, x)
								if zero {
									bad = "a function literal captures the cloner variable before it is assigned"
								}
								for _, s := range sts {
									checkVal(s.Val, s, "a function literal")
								}
							}
						}
					}
				})
				if bad == "" && !readsField {
					bad = "entry point does not read the channel's cloner"
				}
				c.Check(bad == "", key, fn.Pos(), "every user of the cloner (calls, stream objects, literals) sees the field under != nil or the default ProtoCloner", bad)
			}
		}
		c.EndRule()
	}

	// ---------------------------------------------------------------- R10
	if c.Rule("R10", "every cloner configuration takes effect: the setter stores its own parameter, unchanged and on every path, into the channel's cloner field — the field Invoke/NewStream read (R4) — of the receiver it returns", 2) {
		chans := map[*types.TypeName]bool{}
		for _, ct := range channelTypes(p, "inprocgrpc") {
			chans[ct.Obj()] = true
		}
		configPlumbing(c, "inprocgrpc", func(st *types.Named, f *types.Var) bool {
			return chans[st.Obj()] && core.NamedOf(f.Type()) == "Cloner"
		})
		c.EndRule()
	}

	// ---------------------------------------------------------------- R7, R8, R9 (shared with C18)
	// the destination is overwritten, never merged (C18/R1); refusals are errors, never a shallow or wrong-typed
	// copy (C18/R2); every adapter bottoms out in a deep-copy primitive applied to the source (C18/R3)
	c.Borrow("C18", map[string]string{"R1": "R7", "R2": "R8", "R3": "R9"}, c18)

	// ---------------------------------------------------------------- R11 (shared)
	// "once a call has returned the library no longer reads the caller's message", and no two calls share message
	// memory: nothing that outlives a call (a pool of snapshots, a package-level table) holds messages (C01/R1)
	c.Borrow("C01", map[string]string{"R1": "R11"}, c01)

}

type clLeaf struct {
	v    ssa.Value
	at   ssa.Instruction
	succ *ssa.BasicBlock // the φ's block when at is the terminator of one of its predecessors
}

// clonerLeaves decomposes a Cloner value into its leaves, flow-sensitively.
func clonerLeaves(v ssa.Value, at ssa.Instruction) []clLeaf {
	var out []clLeaf
	seen := map[ssa.Value]bool{}
	var succ *ssa.BasicBlock
	var rec func(v ssa.Value, at ssa.Instruction)
	rec = func(v ssa.Value, at ssa.Instruction) {
		if seen[v] {
			return
		}
		seen[v] = true
		switch x := v.(type) {
		case *ssa.Phi:
			for i, e := range x.Edges {
				pred := x.Block().Preds[i]
				saved := succ
				succ = x.Block()
				rec(e, pred.Instrs[len(pred.Instrs)-1])
				succ = saved
			}
			return
		case *ssa.UnOp:
			if x.Op == token.MUL {
				if _, ok := x.X.(*ssa.Alloc); ok {
					sts, _ := core.ReachingStores(x)
					if len(sts) > 0 {
						for _, s := range sts {
							// the store itself may be conditional (if cloner == nil { cloner = Default }):
							// the value that survives is decided at the load
							rec(s.Val, x)
						}
						return
					}
				}
			}
		}
		out = append(out, clLeaf{v, at, succ})
	}
	rec(v, at)
	return out
}

// msgEscape reports how the caller-owned message parameter escapes ("" if it
// does not).
func msgEscape(p *core.Prog, fn *ssa.Function, par *ssa.Parameter) string {
	bad := ""
	seen := map[ssa.Value]bool{}
	var visit func(v ssa.Value)
	visit = func(v ssa.Value) {
		if seen[v] || bad != "" {
			return
		}
		seen[v] = true
		for _, r := range core.Refs(v) {
			switch x := r.(type) {
			case *ssa.DebugRef:
			case *ssa.Phi, *ssa.ChangeInterface, *ssa.MakeInterface, *ssa.ChangeType:
				visit(r.(ssa.Value))
			case *ssa.BinOp:
				// nil comparison
			case *ssa.TypeAssert:
				visit(x)
			case *ssa.Extract:
				visit(x)
			case *ssa.Store:
				if x.Val != v {
					continue
				}
				al, ok := x.Addr.(*ssa.Alloc)
				if !ok {
					bad = "is stored into a struct field / frame"
					return
				}
				// spill cell: captured?
				for _, rr := range core.Refs(al) {
					switch y := rr.(type) {
					case *ssa.MakeClosure:
						bad = "is captured by function literal " + core.FuncName(y.Fn.(*ssa.Function)) + " (which can run on another goroutine or after the call returned)"
						return
					case *ssa.UnOp:
						visit(y)
					case *ssa.Store, *ssa.DebugRef:
					default:
						bad = fmt.Sprintf("has its variable's address taken (%T)", rr)
						return
					}
				}
			case *ssa.Send:
				bad = "is sent on a channel"
			case *ssa.Return:
				bad = "is returned"
			case *ssa.MakeClosure:
				bad = "is captured by a function literal"
			case *ssa.Go, *ssa.Defer:
				bad = "is passed to a go/defer call"
			case *ssa.Call:
				ci := core.InfoOf(&x.Call)
				switch {
				case isClonerCall(&x.Call, "Clone") || isClonerCall(&x.Call, "Copy"):
				case ci.Is("reflect.TypeOf") || ci.Is("reflect.ValueOf"):
				case ci.Static != nil && core.PkgIs(ci.Static, "inprocgrpc") && ci.Static.Blocks != nil:
					// a helper of the package (isNil, family methods): recurse into its parameter
					for i, a := range x.Call.Args {
						if a == v && i < len(ci.Static.Params) {
							if b := msgEscape(p, ci.Static, ci.Static.Params[i]); b != "" {
								bad = "is passed to " + core.FuncName(ci.Static) + ", where it " + b
								return
							}
						}
					}
				default:
					bad = "is passed to " + strings.TrimPrefix(ci.Full(), core.ModulePath+"/")
				}
			case *ssa.MapUpdate, *ssa.IndexAddr:
				bad = "is stored into a container"
			default:
				bad = fmt.Sprintf("is used by %T", r)
			}
			if bad != "" {
				return
			}
		}
	}
	visit(par)
	return bad
}

// ===========================================================================
// C20

func c20(c *core.Ctx) {
	p := c.P
	c.Explain = "C20: the only buffer between the two goroutines of an in-process stream is the frame channel: every make(chan frame) has a constant capacity <= 1, no stream type has another container of frames/messages, every send is a blocking select whose other arms are context receives, and nothing on the path of SendMsg starts a goroutine or appends to a queue; header frames use the same channel under the same lock."
	c.NotDec = []string{"the observed count of completed sends at run time", "memory of the messages themselves"}

	// ---------------------------------------------------------------- R1
	if c.Rule("R1", "the only buffer is the channel, and it is tiny: constant capacity <= 1 for every frame channel; no other container of frames or messages in a stream type", 5) {
		n := 0
		for _, fn := range p.LibFuncs("inprocgrpc") {
			core.Instrs(fn, func(in ssa.Instruction) {
				mk, ok := in.(*ssa.MakeChan)
				if !ok || !isFrameChan(mk.Type()) {
					return
				}
				n++
				key := fmt.Sprintf("%s:make(chan frame)#%d", core.FuncName(fn), n)
				k, isC := core.ConstInt(mk.Size)
				switch {
				case !isC:
					c.Fail(key, mk.Pos(), "frame channel with a non-constant capacity: a sender could run ahead of its receiver by an unbounded number of messages")
				case k > 1:
					c.Fail(key, mk.Pos(), "frame channel capacity %d > 1: a sender can run ahead of its receiver by %d messages (backpressure lost)", k, k)
				default:
					c.Ok(key, mk.Pos(), "constant capacity %d", k)
				}
			})
		}
		if n < 3 {
			c.Fail("inprocgrpc:frame-channels", token.NoPos, "ANCHOR-MISSING: expected >= 3 frame channel creations, found %d", n)
		}
		for _, iface := range []string{"ClientStream", "ServerStream"} {
			for _, nt := range streamTypes(p, iface, "RecvMsg") {
				if pkgSuffixOf(nt) != "inprocgrpc" {
					continue
				}
				st := nt.Underlying().(*types.Struct)
				chans := 0
				flat := core.FlatFields(st)
				for _, ff := range flat {
					f := ff.Var
					key := typeKey(nt) + "." + f.Name() + ":container"
					switch t := f.Type().Underlying().(type) {
					case *types.Chan:
						chans++
					case *types.Slice:
						if isMsgish(t.Elem()) {
							c.Fail(key, f.Pos(), "stream type has a slice of frames/messages: a second queue besides the channel defeats backpressure")
						}
					case *types.Map:
						if isMsgish(t.Elem()) {
							c.Fail(key, f.Pos(), "stream type has a map of frames/messages")
						}
					case *types.Pointer:
						if strings.HasSuffix(core.TypeStr(t.Elem()), "container/list.List") {
							c.Fail(key, f.Pos(), "stream type has a list container")
						}
					}
				}
				c.Check(chans == 2, typeKey(nt)+":channels", nt.Obj().Pos(), "exactly the two per-direction channels", fmt.Sprintf("stream type has %d channel fields, expected the two per-direction ones", chans))
				// single-frame slots: the client's peek slot (one frame set aside by the header accessor / an error
				// frame re-parked) is the only one; a slot on the server side, or a second one, lets a sender get one
				// more message ahead
				slots := 0
				var slotPos token.Pos
				slotName := ""
				for _, ff := range flat {
					f := ff.Var
					t := f.Type()
					if pt, isP := t.Underlying().(*types.Pointer); isP {
						t = pt.Elem()
					}
					if core.NamedOf(t) == "frame" {
						slots++
						slotPos, slotName = f.Pos(), f.Name()
					}
				}
				want := 0
				if iface == "ClientStream" {
					want = 1
				}
				if slots > want {
					c.Fail(typeKey(nt)+"."+slotName+":frame-slot", slotPos, "the stream type has %d field(s) that hold a frame (allowed here: %d — only the client stream's peek slot): a frame taken off the channel and kept there is one more buffered message, so the sender completes one more send than the constant the property allows", slots, want)
				} else {
					c.Ok(typeKey(nt)+":frame-slots", nt.Obj().Pos(), "%d frame-holding field(s) (allowed: %d)", slots, want)
				}
			}
		}
		c.EndRule()
	}

	// ---------------------------------------------------------------- R2
	if c.Rule("R2", "a send cannot complete without a slot: every frame send is a blocking select whose other arms are context-Done receives; SendMsg and its callees start no goroutine and append to no queue", 3) {
		for _, fn := range p.LibFuncs("inprocgrpc") {
			core.Instrs(fn, func(in ssa.Instruction) {
				switch x := in.(type) {
				case *ssa.Send:
					if isFrameChan(x.Chan.Type()) {
						c.Ok(core.FuncName(fn)+":bare-send", x.Pos(), "bare (blocking) send")
					}
				case *ssa.Select:
					sendIdx := -1
					for i, st := range x.States {
						if st.Dir == types.SendOnly && isFrameChan(st.Chan.Type()) {
							sendIdx = i
						}
					}
					if sendIdx < 0 {
						return
					}
					key := core.FuncName(fn) + ":send-select"
					bad := ""
					if !x.Blocking {
						bad = "has a default arm: the frame is dropped (or the caller proceeds) when the slot is taken"
					}
					for i, st := range x.States {
						if i == sendIdx {
							continue
						}
						okArm := false
						if st.Dir == types.RecvOnly && core.TypeStr(st.Chan.Type().Underlying().(*types.Chan).Elem()) == "struct{}" {
							// (through what a helper of the module returns: doneOrNil(ctx))
							okArm = true
							for _, o := range core.XOrigins(st.Chan) {
								if core.IsNilConst(o) {
									continue
								}
								if dc, ok := o.(*ssa.Call); ok && dc.Call.IsInvoke() && dc.Call.Method.Name() == "Done" {
									continue
								}
								okArm = false
							}
						}
						if !okArm {
							bad = "has an arm that is not a context-Done receive"
						}
					}
					c.Check(bad == "", key, x.Pos(), "blocking; other arms are ctx.Done() receives only", "the select around the frame send "+bad)
					// "until … the context ends": the call's OWN context is among the arms on every path — a Done channel
					// picked between two contexts leaves out one of them
					if len(fn.Params) > 0 && core.TypeStr(fn.Params[0].Type()) == "context.Context" {
						own := false
						for i, st := range x.States {
							if i == sendIdx || st.Dir != types.RecvOnly {
								continue
							}
							if core.AllOrigins(st.Chan, func(o ssa.Value) bool {
								dc, ok := o.(*ssa.Call)
								return ok && dc.Call.IsInvoke() && dc.Call.Method.Name() == "Done" && core.AllOrigins(dc.Call.Value, func(cv ssa.Value) bool { return cv == ssa.Value(fn.Params[0]) })
							}) {
								own = true
							}
						}
						c.Check(own, core.FuncName(fn)+":send-select:own-context-arm", x.Pos(), "one arm is always the Done channel of the call's own context (the first parameter)", "no arm of the select is, on every path, the Done channel of the call's own context: a sender parked on a full channel is not released when its context is cancelled or times out (it waits for the peer to finish or to receive)")
					}
				}
			})
		}
		for _, iface := range []string{"ClientStream", "ServerStream"} {
			for _, nt := range streamTypes(p, iface, "RecvMsg") {
				if pkgSuffixOf(nt) != "inprocgrpc" {
					continue
				}
				for _, f := range sendFamily(p, nt) {
					key := core.FuncName(f) + ":no-async-handoff"
					bad := ""
					core.Instrs(f, func(in ssa.Instruction) {
						switch x := in.(type) {
						case *ssa.Go:
							bad = "starts a goroutine"
						case *ssa.Call:
							if b, ok := x.Call.Value.(*ssa.Builtin); ok && b.Name() == "append" {
								if len(x.Call.Args) > 0 && isMsgish(x.Call.Args[0].Type().Underlying().(*types.Slice).Elem()) {
									bad = "appends the message to a slice"
								}
							}
						}
					})
					c.Check(bad == "", key, f.Pos(), "no goroutine, no queue append on the send path", "the send path "+bad+": the sender can return without the message having taken the channel slot")
				}
			}
		}
		c.EndRule()
	}

	// ---------------------------------------------------------------- R4
	if c.Rule("R4", "no hidden receiver: no goroutine started by the library statically reaches a receive on a frame channel (a library goroutine that receives ahead of the application is an extra buffer slot)", 2) {
		n := 0
		for _, fn := range p.LibFuncs("inprocgrpc") {
			core.Instrs(fn, func(in ssa.Instruction) {
				g, ok := in.(*ssa.Go)
				if !ok {
					return
				}
				n++
				key := fmt.Sprintf("%s:go#%d:no-receive", core.FuncName(fn), n)
				var body *ssa.Function
				if ci := core.InfoOf(&g.Call); ci.Static != nil {
					body = ci.Static
				}
				for _, o := range core.Origins(g.Call.Value) {
					if mc, ok := o.(*ssa.MakeClosure); ok {
						body = mc.Fn.(*ssa.Function)
					}
				}
				if body == nil {
					c.Undecided(key, g.Pos(), "goroutine body cannot be resolved")
					return
				}
				reach := staticReach(p, body)
				bad := ""
				for f := range reach {
					core.Instrs(f, func(x ssa.Instruction) {
						switch y := x.(type) {
						case *ssa.Select:
							for _, st := range y.States {
								if st.Dir == types.RecvOnly && isFrameChan(st.Chan.Type()) {
									bad = core.FuncName(f)
								}
							}
						case *ssa.UnOp:
							if y.Op == token.ARROW && isFrameChan(y.X.Type()) {
								bad = core.FuncName(f)
							}
						}
					})
				}
				c.Check(bad == "", key, g.Pos(), fmt.Sprintf("%d functions statically reachable from the goroutine body, none receives from a frame channel", len(reach)), "a library-started goroutine reaches a frame receive in "+bad+": it drains the channel ahead of the application, so the sender can run further ahead than the one-slot buffer")
			})
		}
		if n < 2 {
			c.Fail("inprocgrpc:goroutines", token.NoPos, "ANCHOR-MISSING: expected the two server goroutines, found %d go statements", n)
		}
		c.EndRule()
	}

	// ---------------------------------------------------------------- R5
	if c.Rule("R5", "a blocked sender is released when the peer finishes: the function that writes the final frames signals completion (the CancelFunc every client send selects on) before its first blocking frame write, not in a defer (shared with C05/R7)", 1) {
		var fns []*ssa.Function
		fns = append(fns, p.LibFuncs("inprocgrpc")...)
		c05DoneBeforeFinalWrites(c, fns)
		// ... and every client-side frame write does select on it: in the client stream's send family no context
		// argument of a blocking frame writer can be nil (a nil context arm never fires: the sender would wait for
		// a receiver that has gone)
		nW := 0
		for _, nt := range streamTypes(p, "ClientStream", "SendMsg") {
			if pkgSuffixOf(nt) != "inprocgrpc" {
				continue
			}
			seen := map[*ssa.Function]bool{}
			for _, root := range []string{"SendMsg", "CloseSend"} {
				for _, fn := range methodFamily(p, nt, root) {
					if seen[fn] {
						continue
					}
					seen[fn] = true
					for _, call := range core.CallsIn(fn, func(call *ssa.Call, ci core.CallInfo) bool {
						return ci.Static != nil && ci.Static.Signature.Recv() == nil && strings.HasPrefix(ci.Pkg, core.ModulePath) && blocksOnChannel(ci.Static, 0)
					}) {
						nctx, nilArg := 0, false
						paths := map[string]bool{}
						for _, a := range call.Call.Args {
							if core.TypeStr(a.Type()) != "context.Context" {
								continue
							}
							nctx++
							paths[accessPath(a)] = true
							for _, o := range core.Origins(a) {
								if core.IsNilConst(o) {
									nilArg = true
								}
							}
						}
						if nctx < 2 {
							continue
						}
						nW++
						c.Check(len(paths) == nctx, core.FuncName(fn)+":frame-write:two-different-contexts", call.Pos(), "the contexts given to the frame write are different ones (the call's and the server-done one)", "the frame write is given the same context twice: no arm watches the server finishing")
						c.Check(!nilArg, core.FuncName(fn)+":frame-write:selects-on-peer-done", call.Pos(), "both contexts of the blocking frame write (the call's and the server-done one) are set on every path", "a client-side frame write can be made with a nil context: without the server-done arm a blocked sender is not released when the handler has finished (it waits until the call's own context ends)")
					}
				}
			}
		}
		if nW == 0 {
			c.Fail("inprocgrpc:client-frame-writes", token.NoPos, "ANCHOR-MISSING: no blocking frame write with two contexts in the in-process client stream's send family")
		}
		c.EndRule()
	}

	// ---------------------------------------------------------------- R6
	if c.Rule("R6", "the receiver does not read ahead of the application: in the receive path of the in-process client stream a frame taken from the channel is parked in the peek slot only if it cannot be a data frame (error frames are re-parked so that later calls see them); every frame receive there is blocking; the header accessor leaves its receiving state whenever it sets a frame aside", 2) {
		kinds := frameKinds(p)
		n := 0
		// the server side polls nothing either
		for _, nt := range streamTypes(p, "ServerStream", "RecvMsg") {
			if pkgSuffixOf(nt) != "inprocgrpc" {
				continue
			}
			for _, fn := range methodFamily(p, nt, "RecvMsg") {
				core.Instrs(fn, func(in ssa.Instruction) {
					if x, ok := in.(*ssa.Select); ok {
						for _, st := range x.States {
							if st.Dir == types.RecvOnly && isFrameChan(st.Chan.Type()) && !x.Blocking {
								c.Fail(core.FuncName(fn)+":non-blocking-frame-receive", x.Pos(), "the server's receive path polls the request channel without blocking: it takes a request the handler has not asked for yet (an extra buffer slot: the client gets one more message ahead)")
							}
						}
					}
				})
			}
		}
		for _, nt := range streamTypes(p, "ClientStream", "RecvMsg") {
			if pkgSuffixOf(nt) != "inprocgrpc" {
				continue
			}
			tn := nt.Obj().Name()
			for _, fn := range methodFamily(p, nt, "RecvMsg") {
				core.Instrs(fn, func(in ssa.Instruction) {
					switch x := in.(type) {
					case *ssa.Select:
						for _, st := range x.States {
							if st.Dir == types.RecvOnly && isFrameChan(st.Chan.Type()) && !x.Blocking {
								n++
								c.Fail(core.FuncName(fn)+":non-blocking-frame-receive", x.Pos(), "the receive path polls the frame channel without blocking: it takes a frame the application has not asked for yet (an extra buffer slot: the sender gets one more message ahead)")
							}
						}
					case *ssa.Store:
						if core.IsNilConst(x.Val) {
							return
						}
						base, fld, isF := core.FieldOf(x.Addr)
						if !isF || core.NamedOf(base.Type()) != tn {
							return
						}
						if core.NamedOf(x.Val.Type()) != "frame" {
							return // neither *frame nor a frame value
						}
						possible, isRecv := parkedKinds(kinds, x)
						if !isRecv {
							return
						}
						n++
						_, canData := possible["data"]
						c.Check(!canData, core.FuncName(fn)+":park("+fld+"):not-data", x.Pos(), fmt.Sprintf("a frame parked by the receive path has kind %v: never a message", keysOfI(possible)),
							"the receive path can park a data frame in the peek slot "+fld+": a message is taken out of the channel before the application asks for it, so the sender runs one more message ahead (k+2 completed sends after k receives)")
					}
				})
			}
		}
		// the header accessor takes at most ONE frame ahead of the application, however often it is called: when it
		// sets a frame aside it leaves the state in which it receives, so that a repeated call does not take (and
		// park over) another one
		nH := 0
		for _, nt := range streamTypes(p, "ClientStream", "RecvMsg") {
			if pkgSuffixOf(nt) != "inprocgrpc" {
				continue
			}
			tn := nt.Obj().Name()
			for _, fn := range methodFamily(p, nt, "Header") {
				// the state constant under which this function receives
				var recv ssa.Instruction
				stateFld := ""
				var stateK int64
				core.Instrs(fn, func(in ssa.Instruction) {
					call, ok := in.(*ssa.Call)
					if !ok || recv != nil {
						return
					}
					ci := core.InfoOf(&call.Call)
					if ci.Static == nil || !receivesFromParam(ci.Static) {
						return
					}
					isState := func(f core.Fact) bool {
						if f.Op != token.EQL {
							return false
						}
						base, fld, isF := core.FieldOf(f.X)
						k, isC := core.ConstInt(f.Y)
						if isF && isC && core.NamedOf(base.Type()) == tn {
							recv, stateFld, stateK = call, fld, k
							return true
						}
						return false
					}
					core.GuardedBy(call, isState)
					// a single-use step function (awaitFirstFrameLocked): the state test is made where it is called
					if recv == nil {
						if site := core.InlineSite[fn]; site != nil {
							core.GuardedBy(site, isState)
						}
					}
				})
				if recv == nil {
					continue
				}
				leaves := func(in ssa.Instruction) bool {
					st, ok := in.(*ssa.Store)
					if !ok {
						return false
					}
					base, fld, isF := core.FieldOf(st.Addr)
					k, isC := core.ConstInt(st.Val)
					return isF && fld == stateFld && core.NamedOf(base.Type()) == tn && isC && k != stateK
				}
				core.Instrs(fn, func(in ssa.Instruction) {
					x, ok := in.(*ssa.Store)
					if !ok || core.IsNilConst(x.Val) {
						return
					}
					base, fld, isF := core.FieldOf(x.Addr)
					if !isF || core.NamedOf(base.Type()) != tn {
						return
					}
					if core.NamedOf(x.Val.Type()) != "frame" {
						return
					}
					if ld, isLd := x.Val.(*ssa.UnOp); isLd && ld.Op == token.MUL {
						if al, isAl := ld.X.(*ssa.Alloc); isAl && len(core.StoresTo(al)) == 0 {
							return // a frame literal (the slot being cleared or given a made-up frame), not a received one
						}
					}
					nH++
					okLeave := core.MustPass(core.After(recv), x, leaves)
					if !okLeave {
						okLeave = true
						for _, r := range core.Returns(fn) {
							if core.Reachable(core.After(x), r) && !core.MustPass(core.After(x), r, leaves) {
								okLeave = false
							}
						}
					}
					c.Check(okLeave, core.FuncName(fn)+":park("+fld+"):leaves-the-receiving-state", x.Pos(), fmt.Sprintf("whenever a frame is set aside, %s leaves the state (%s == %d) in which the function receives: a repeated call takes no further frame", stateFld, stateFld, stateK),
						fmt.Sprintf("a frame can be set aside in %s while %s stays %d, the state in which this function receives: every further call takes one more frame off the channel (overwriting the one set aside), so the sender gets k more messages ahead for k calls", fld, stateFld, stateK))
				})
			}
		}
		if nH == 0 {
			c.Fail("inprocgrpc:header-peek", token.NoPos, "ANCHOR-MISSING: the in-process client stream's header accessor sets no received frame aside")
		}
		if n == 0 {
			c.Fail("inprocgrpc:peek-slot", token.NoPos, "ANCHOR-MISSING: the in-process client stream's receive path parks no received frame (expected: the error frame)")
		}
		c.EndRule()
	}

	// ---------------------------------------------------------------- R3
	if c.Rule("R3", "pending header frames do not add a slot: the header frame is written to the same channel field under the same lock as the data frame, and every frame built has exactly one kind", 5) {
		for _, nt := range streamTypes(p, "ServerStream", "RecvMsg") {
			if pkgSuffixOf(nt) != "inprocgrpc" {
				continue
			}
			fields := map[string]bool{}
			for _, f := range sendFamily(p, nt) {
				for _, s := range sendSites([]*ssa.Function{f}) {
					for _, o := range core.Origins(s.ch) {
						if _, fld, ok := core.FieldOf(o); ok {
							fields[fld] = true
						}
					}
				}
			}
			c.Check(len(fields) == 1, typeKey(nt)+":one-channel", nt.Obj().Pos(), fmt.Sprintf("all frames of the send path go through %v", keysOf(fields)), fmt.Sprintf("frames of the send path use %d different channels %v", len(fields), keysOf(fields)))
		}
		// one frame, one kind: no frame is built with two of {headers, data, trailers, err} set — a frame that
		// carries a message next to its headers makes whoever takes the headers take a message out of the channel
		// with them (an extra slot), and the receiver's kind() dispatch sees one of the two
		kinds := frameKinds(p)
		nFrames := 0
		for _, fn := range p.LibFuncs("inprocgrpc") {
			core.Instrs(fn, func(in ssa.Instruction) {
				al, ok := in.(*ssa.Alloc)
				if !ok {
					return
				}
				pt, isP := al.Type().Underlying().(*types.Pointer)
				if !isP || core.NamedOf(pt.Elem()) != "frame" {
					return
				}
				set := map[string]bool{}
				for _, r := range core.Refs(al) {
					fa, isFA := r.(*ssa.FieldAddr)
					if !isFA {
						continue
					}
					_, fld, _ := core.FieldOf(fa)
					if _, isKind := kinds[fld]; !isKind {
						continue
					}
					for _, rr := range core.Refs(fa) {
						if st, isS := rr.(*ssa.Store); isS && !core.IsNilConst(st.Val) {
							set[fld] = true
						}
					}
				}
				if len(set) == 0 {
					return
				}
				nFrames++
				c.Check(len(set) == 1, core.FuncName(fn)+":frame{"+strings.Join(keysOf(set), ",")+"}:one-kind", al.Pos(), "the frame built here has one kind", fmt.Sprintf("a frame is built with %d kinds set %v: the protocol (and every consumer's kind() dispatch, the peek slot, the backpressure count) assumes one kind per frame", len(set), keysOf(set)))
			})
		}
		if nFrames < 4 {
			c.Fail("inprocgrpc:frame-literals", token.NoPos, "ANCHOR-MISSING: expected >= 4 places that build a frame, found %d", nFrames)
		}
		c.EndRule()
	}

	// ---------------------------------------------------------------- R7 (shared)
	// "per direction": the two directions of a stream do not wait for each other, and every lock is released
	// (C05/R4: a receive that queues behind a parked send makes a stalled direction stall the other)
	c.Borrow("C05", map[string]string{"R4": "R7"}, c05)
	// "... or the context ends": a sender parked on the full buffer is released when the call ends. The handler's
	// side waits on the handler's context, which therefore ends with the call (C10/R8), and a client stream that
	// gives the call up by itself (the single-response check) cancels it (C05/R10)
	c.Borrow("C10", map[string]string{"R8": "R8"}, c10)
	c.Borrow("C05", map[string]string{"R10": "R9"}, c05)

}

func isMsgish(t types.Type) bool {
	ts := core.TypeStr(t)
	if ts == "interface{}" || ts == "any" || ts == "[]byte" {
		return true
	}
	n := core.NamedOf(t)
	return n == "frame"
}

// sendFamily: SendMsg and the methods it reaches.
func sendFamily(p *core.Prog, nt *types.Named) []*ssa.Function {
	return methodFamily(p, nt, "SendMsg")
}

// replacedWhenNil: the field value fv was stored into a local cell; before
// reaching use, a nil test of that cell is passed and on its nil edge the cell
// is overwritten (if cloner == nil { cloner = Default }).
func replacedWhenNil(fn *ssa.Function, fv ssa.Value, use ssa.Instruction) bool {
	for _, r := range core.Refs(fv) {
		st, ok := r.(*ssa.Store)
		if !ok || st.Val != fv {
			continue
		}
		cell, ok := st.Addr.(*ssa.Alloc)
		if !ok {
			continue
		}
		for _, ef := range core.EdgeFactsOf(fn) {
			f := ef.Fact
			if f.Op != token.EQL || !core.IsNilConst(f.Y) {
				continue
			}
			u, ok := f.X.(*ssa.UnOp)
			if !ok || u.Op != token.MUL || u.X != ssa.Value(cell) {
				continue
			}
			sts, zero := core.ReachingStores(u)
			if zero || len(sts) != 1 || sts[0] != st {
				continue
			}
			// every path from the store to the use passes this test
			if !core.MustPass(core.After(st), use, func(in ssa.Instruction) bool { return in == ssa.Instruction(ef.If) }) {
				continue
			}
			// on the nil edge the cell is overwritten before the use
			succ := ef.B.Succs[ef.Succ]
			if core.MustPass(core.Loc{B: succ, Idx: 0}, use, func(in ssa.Instruction) bool {
				s2, ok := in.(*ssa.Store)
				return ok && s2.Addr == ssa.Value(cell) && !core.IsNilConst(s2.Val)
			}) {
				return true
			}
		}
	}
	return false
}

// staticReach: functions reachable from fn through static calls and function
// literals only (dynamic handler calls are the application's code).
func staticReach(p *core.Prog, fn *ssa.Function) map[*ssa.Function]bool {
	seen := map[*ssa.Function]bool{}
	work := []*ssa.Function{fn}
	for len(work) > 0 {
		f := work[len(work)-1]
		work = work[:len(work)-1]
		if f == nil || seen[f] || f.Blocks == nil || !p.IsLibFile(f.Pos()) {
			continue
		}
		seen[f] = true
		core.Instrs(f, func(in ssa.Instruction) {
			if mc, ok := in.(*ssa.MakeClosure); ok {
				work = append(work, mc.Fn.(*ssa.Function))
			}
			if cc := core.CallOf(in); cc != nil {
				if ci := core.InfoOf(cc); ci.Static != nil {
					work = append(work, ci.Static)
				}
			}
		})
	}
	return seen
}

func isAnyType(t types.Type) bool {
	it, ok := t.Underlying().(*types.Interface)
	return ok && it.NumMethods() == 0
}

// copyShape: func(out, in interface{}) error.
func copyShape(sig *types.Signature) bool {
	return sig != nil && sig.Params().Len() == 2 && sig.Results().Len() == 1 && isAnyType(sig.Params().At(0).Type()) &&
		isAnyType(sig.Params().At(1).Type()) && core.IsErrorType(sig.Results().At(0).Type())
}

// derivedFrom: the values computed from root. strict: only re-typings of the
// same object (assertions, boxing, reflect.ValueOf/Indirect/Elem), i.e. values
// through which root's pointee can be written; otherwise any computation that
// has root (or something derived from it) as an operand.
func derivedFrom(root ssa.Value, strict bool) map[ssa.Value]bool {
	set := map[ssa.Value]bool{root: true}
	work := []ssa.Value{root}
	add := func(v ssa.Value) {
		if !set[v] {
			set[v] = true
			work = append(work, v)
		}
	}
	for len(work) > 0 {
		v := work[len(work)-1]
		work = work[:len(work)-1]
		for _, r := range core.Refs(v) {
			switch x := r.(type) {
			case *ssa.TypeAssert, *ssa.MakeInterface, *ssa.ChangeInterface, *ssa.ChangeType, *ssa.Phi:
				add(r.(ssa.Value))
			case *ssa.Extract:
				add(x)
			case *ssa.Store:
				if al, ok := x.Addr.(*ssa.Alloc); ok && x.Val == v {
					for _, rr := range core.Refs(al) {
						if u, ok := rr.(*ssa.UnOp); ok && u.Op == token.MUL {
							add(u)
						}
					}
				}
			case *ssa.Call:
				ci := core.InfoOf(&x.Call)
				if !strict || ci.Is("reflect.ValueOf") || ci.Is("reflect.Indirect") || ci.Is("reflect.Value.Elem") || ci.Is("reflect.Value.Interface") {
					add(x)
				}
			case *ssa.BinOp, *ssa.UnOp, *ssa.Convert, *ssa.Slice, *ssa.Index, *ssa.Field:
				if !strict {
					add(r.(ssa.Value))
				}
			}
		}
	}
	return set
}

func c06CopyWrites(c *core.Ctx, fn *ssa.Function) {
	if !copyShape(fn.Signature) || fn.Blocks == nil {
		return
	}
	np := len(fn.Params)
	key := core.FuncName(fn) + ":success-writes-out"
	n, bad := copyWritesOK(fn, fn.Params[np-2], fn.Params[np-1], 0)
	c.Check(bad == "", key, fn.Pos(), fmt.Sprintf("every possibly-nil return passes a write of out from in (%d writer call(s))", n), bad)
}

// copyWritesOK: in fn, with outP the destination and inP the source, every
// possibly-nil return is preceded on all paths by a write of the destination
// from the source. A call of a library helper that receives both is a write if
// the helper, with the corresponding parameters, satisfies the same obligation.
func copyWritesOK(fn *ssa.Function, outP, inP ssa.Value, depth int) (int, string) {
	outs, ins := derivedFrom(outP, true), derivedFrom(inP, false)
	bad := ""
	writers := map[ssa.Instruction]bool{}
	core.Instrs(fn, func(in ssa.Instruction) {
		call, ok := in.(*ssa.Call)
		if !ok {
			return
		}
		ci := core.InfoOf(&call.Call)
		args := call.Call.Args
		var dst, src ssa.Value
		var sig *types.Signature
		if call.Call.IsInvoke() {
			sig, _ = call.Call.Method.Type().(*types.Signature)
		} else {
			sig, _ = call.Call.Value.Type().Underlying().(*types.Signature)
		}
		switch {
		case sig != nil && copyShape(sig) && len(args) >= 2:
			dst, src = args[len(args)-2], args[len(args)-1]
		case ci.Name == "Unmarshal" && len(args) >= 2:
			dst, src = args[len(args)-1], args[len(args)-2]
		case (ci.Name == "TryMerge" || ci.Name == "Merge" || ci.Name == "TryMergeInto" || ci.Name == "MergeInto") && len(args) >= 2:
			dst, src = args[len(args)-2], args[len(args)-1]
		case ci.Is("reflect.Value.Set") && len(args) == 2:
			dst, src = args[0], args[1]
		case ci.Static != nil && ci.Static.Blocks != nil && ci.Static != fn && depth < 3 && strings.HasPrefix(ci.Pkg, core.ModulePath):
			// a helper of the library that is handed both the destination and the source
			io, ii := -1, -1
			for i, a := range args {
				if outs[a] && io < 0 {
					io = i
				} else if ins[a] && ii < 0 {
					ii = i
				}
			}
			if io >= 0 && ii >= 0 && io < len(ci.Static.Params) && ii < len(ci.Static.Params) {
				if _, b := copyWritesOK(ci.Static, ci.Static.Params[io], ci.Static.Params[ii], depth+1); b == "" {
					writers[in] = true
				}
			}
			return
		default:
			return
		}
		switch {
		case outs[dst] && ins[src]:
			writers[in] = true
		case outs[dst]:
			bad = fmt.Sprintf("%s writes the destination from a value that does not derive from the source message", ci.Name)
		case outs[src] && ins[dst]:
			bad = fmt.Sprintf("%s has destination and source swapped: the caller's source message is overwritten", ci.Name)
		}
	})
	isWriter := func(in ssa.Instruction) bool { return writers[in] }
	idx := core.ErrResultIndex(fn.Signature)
	if idx < 0 {
		return 0, "the function has no error result"
	}
	for _, r := range core.Returns(fn) {
		for _, l := range core.ErrLeaves(r.Results[idx], r) {
			if l.Class == core.ErrNonNil {
				continue
			}
			if !core.MustPass(core.Entry(fn), l.At, isWriter) {
				bad = "a possibly-nil (success) return is reachable without any write of the destination from the source: the receiver keeps whatever its message held before (stale content on reuse, or an empty message), yet the receive reports success"
			}
		}
	}
	return len(writers), bad
}

func c06CloneFresh(c *core.Ctx, fn *ssa.Function) {
	sig := fn.Signature
	if fn.Blocks == nil || sig.Params().Len() != 1 || sig.Results().Len() != 2 || !isAnyType(sig.Params().At(0).Type()) ||
		!isAnyType(sig.Results().At(0).Type()) || !core.IsErrorType(sig.Results().At(1).Type()) {
		return
	}
	inP := fn.Params[len(fn.Params)-1]
	same := derivedFrom(inP, true)
	key := core.FuncName(fn) + ":clone-is-fresh"
	bad := ""
	for _, r := range core.Returns(fn) {
		for _, o := range core.Origins(r.Results[0]) {
			if same[o] {
				bad = "the input message itself is returned as its clone: what is put into the frame is the sender's own object, shared with the receiver"
			}
		}
	}
	c.Check(bad == "", key, fn.Pos(), "no return hands back the input object", bad)
}

// clonerNonNil: the Cloner value v, as seen at instruction at in fn, is never
// nil: each of its leaves is a concrete cloner boxed into the interface, the
// channel's cloner field on a != nil edge (or replaced by the default when
// nil), or the result of a package function whose returns all are. reads
// reports whether the channel's field is among the leaves.
func clonerNonNil(fn *ssa.Function, v ssa.Value, at ssa.Instruction, depth int) (ok, reads bool) {
	ok = true
	for _, l := range clonerLeaves(v, at) {
		if mi, isMI := l.v.(*ssa.MakeInterface); isMI && core.NamedOf(mi.X.Type()) != "" {
			continue // a concrete cloner (ProtoCloner{})
		}
		if u, isU := l.v.(*ssa.UnOp); isU && u.Op == token.MUL {
			if _, f, isF := core.FieldOf(u); isF && f == "cloner" && core.NamedOf(u.Type()) == "Cloner" {
				reads = true
				if core.LeafGuarded(core.ErrLeaf{V: l.v, At: l.at, Succ: l.succ}, func(f core.Fact) bool {
					return f.Op == token.NEQ && core.IsNilConst(f.Y) && (f.X == l.v || sameOrigins(f.X, l.v))
				}) {
					continue
				}
				if replacedWhenNil(fn, l.v, at) {
					continue
				}
				ok = false
				continue
			}
		}
		if call, _, isCall := core.CallResult(l.v); isCall && depth < 2 {
			callee := core.InfoOf(&call.Call).Static
			if callee != nil && callee.Blocks != nil && core.PkgIs(callee, "inprocgrpc") && callee.Signature.Results().Len() == 1 {
				all := true
				for _, r := range core.Returns(callee) {
					o2, r2 := clonerNonNil(callee, r.Results[0], r, depth+1)
					if r2 {
						reads = true
					}
					if !o2 {
						all = false
					}
				}
				if all {
					continue
				}
			}
		}
		ok = false
	}
	return ok, reads
}
