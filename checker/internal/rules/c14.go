package rules

import (
	"fmt"
	"go/ast"
	"go/constant"
	"go/token"
	"go/types"
	"regexp"
	"sort"
	"strconv"
	"strings"

	"golang.org/x/tools/go/ssa"

	"verif/checker/internal/core"
)

func init() { register("C14", c14) }

// codeNames are the 17 canonical gRPC codes.
var codeNames = []string{"OK", "Canceled", "Unknown", "InvalidArgument", "DeadlineExceeded", "NotFound", "AlreadyExists",
	"PermissionDenied", "ResourceExhausted", "FailedPrecondition", "Aborted", "OutOfRange", "Unimplemented", "Internal",
	"Unavailable", "DataLoss", "Unauthenticated"}

func c14(c *core.Ctx) {
	p := c.P
	c.Explain = "C14: the forward (gRPC code → HTTP status) and fallback (HTTP status → code) tables are extracted from the source and evaluated exhaustively (all 17 codes + default arm; every int HTTP status by interval partition over the comparison constants); the exact-code header, the 499 rule and the renderer guard are checked on the SSA of the HTTP handler closure and of the response decoder."
	c.NotDec = []string{"behaviour of user-supplied error renderers beyond 'status header already set'", "what net/http serialises"}

	fwd := funcsBySig(p, "httpgrpc", "func(code google.golang.org/grpc/codes.Code) int")
	back := funcsBySig(p, "httpgrpc", "func(stat int) google.golang.org/grpc/codes.Code")
	if len(back) == 0 {
		// parameter name is not part of the role
		for _, fn := range p.LibFuncs("httpgrpc") {
			if fn.Parent() == nil && fn.Signature.Recv() == nil && fn.Signature.Params().Len() == 1 && fn.Signature.Results().Len() == 1 &&
				core.TypeStr(fn.Signature.Params().At(0).Type()) == "int" && core.TypeStr(fn.Signature.Results().At(0).Type()) == codesPkg+".Code" {
				back = append(back, fn)
			}
		}
	}
	if len(fwd) == 0 {
		for _, fn := range p.LibFuncs("httpgrpc") {
			if fn.Parent() == nil && fn.Signature.Recv() == nil && fn.Signature.Params().Len() == 1 && fn.Signature.Results().Len() == 1 &&
				core.TypeStr(fn.Signature.Params().At(0).Type()) == codesPkg+".Code" && core.TypeStr(fn.Signature.Results().At(0).Type()) == "int" {
				fwd = append(fwd, fn)
			}
		}
	}
	var fwdF, backF *core.IntFunc
	var renderer *ssa.Function
	for _, fn := range p.LibFuncs("httpgrpc") {
		if fn.Parent() == nil && fn.Signature.Recv() == nil && fn.Signature.Results().Len() == 0 && fn.Signature.Params().Len() == 3 &&
			core.TypeStr(fn.Signature.Params().At(0).Type()) == "context.Context" &&
			core.TypeStr(fn.Signature.Params().At(1).Type()) == "*"+statusPkg+".Status" &&
			core.TypeStr(fn.Signature.Params().At(2).Type()) == "net/http.ResponseWriter" {
			renderer = fn
		}
	}

	// ---------------------------------------------------------------- R1
	if c.Rule("R1", "forward table (code→HTTP status) equals the renderer's documented table; every non-OK code (incl. out-of-range) maps to a status >= 400; OK maps to 200", 18) {
		if len(fwd) != 1 {
			c.Missing("forward table function func(codes.Code) int in httpgrpc")
		} else if renderer == nil {
			c.Missing("default error renderer func(context.Context, *status.Status, http.ResponseWriter) in httpgrpc")
		} else {
			decl, pk := p.FuncDecl(fwd[0])
			f, err := core.NewIntFunc(decl, pk.TypesInfo, p.VarInit)
			if err != nil {
				c.Undecided(core.FuncName(fwd[0]), fwd[0].Pos(), "forward table is not a constant switch tree: %v", err)
			} else {
				fwdF = f
				doc := parseDocTable(p, renderer)
				if len(doc) < 16 {
					c.Fail("doc-table", renderer.Pos(), "documented table of %s has %d rows, 16 required", core.FuncName(renderer), len(doc))
				}
				for code := int64(0); code <= 16; code++ {
					name := codeNames[code]
					got, err := f.Eval(code)
					if err != nil {
						c.Undecided("row:"+name, fwd[0].Pos(), "%v", err)
						continue
					}
					if code == 0 {
						c.Check(got == 200, "row:OK", fwd[0].Pos(), "OK → 200", fmt.Sprintf("OK maps to %d, want 200", got))
						continue
					}
					want, has := doc[name]
					switch {
					case !has:
						c.Fail("row:"+name, renderer.Pos(), "code %s missing from the documented table", name)
					case got != want:
						c.Fail("row:"+name, fwd[0].Pos(), "code %s maps to %d but the documented table says %d", name, got, want)
					case got < 400:
						c.Fail("row:"+name, fwd[0].Pos(), "non-OK code %s maps to non-error HTTP status %d", name, got)
					default:
						c.Ok("row:"+name, fwd[0].Pos(), "%s → %d = documented, >= 400", name, got)
					}
				}
				// default arm: every other value, by partition
				bad := ""
				for _, pt := range f.Points() {
					if pt >= 0 && pt <= 16 {
						continue
					}
					got, err := f.Eval(pt)
					if err != nil {
						bad = err.Error()
						break
					}
					if got < 400 || got > 599 {
						bad = fmt.Sprintf("out-of-range code %d maps to %d", pt, got)
						break
					}
				}
				c.Check(bad == "", "row:default", fwd[0].Pos(), "every out-of-range code maps to an error status (partition points evaluated)", bad)
			}
		}
		c.EndRule()
	}

	// ---------------------------------------------------------------- R2
	if c.Rule("R2", "fallback table over ALL ints: OK iff 200 <= s < 300; round trip of every non-OK code stays non-OK", 3) {
		if len(back) != 1 {
			c.Missing("fallback table function func(int) codes.Code in httpgrpc")
		} else {
			decl, pk := p.FuncDecl(back[0])
			f, err := core.NewIntFunc(decl, pk.TypesInfo, p.VarInit)
			if err != nil {
				c.Undecided(core.FuncName(back[0]), back[0].Pos(), "fallback table is not a constant switch tree: %v", err)
			} else {
				backF = f
				pts := f.Points()
				for _, extra := range []int64{199, 200, 201, 299, 300, 301, 100, 599, 600} {
					pts = append(pts, extra)
				}
				bad := ""
				n := 0
				for _, s := range pts {
					got, err := f.Eval(s)
					if err != nil {
						bad = err.Error()
						break
					}
					n++
					is2xx := s >= 200 && s < 300
					if (got == 0) != is2xx {
						bad = fmt.Sprintf("HTTP status %d yields code %d (OK iff 2xx violated)", s, got)
						break
					}
					if got < 0 || got > 16 {
						bad = fmt.Sprintf("HTTP status %d yields non-canonical code %d", s, got)
						break
					}
				}
				c.Check(bad == "", "ok-iff-2xx", back[0].Pos(), fmt.Sprintf("%d partition points over all int: OK iff 200<=s<300", n), bad)
				c.Paths += n
				// 100..599 exhaustively as well (cheap)
				bad = ""
				for s := int64(100); s <= 599; s++ {
					got, err := f.Eval(s)
					if err != nil {
						bad = err.Error()
						break
					}
					if (got == 0) != (s >= 200 && s < 300) {
						bad = fmt.Sprintf("HTTP status %d yields code %d", s, got)
						break
					}
				}
				c.Check(bad == "", "100..599", back[0].Pos(), "all 500 statuses 100..599 evaluated", bad)
				if fwdF != nil {
					bad = ""
					pts := append([]int64{}, fwdF.Points()...)
					for cde := int64(1); cde <= 16; cde++ {
						pts = append(pts, cde)
					}
					for _, cde := range pts {
						if cde == 0 {
							continue
						}
						hs, err1 := fwdF.Eval(cde)
						if err1 != nil {
							bad = err1.Error()
							break
						}
						rt, err2 := f.Eval(hs)
						if err2 != nil {
							bad = err2.Error()
							break
						}
						if rt == 0 {
							bad = fmt.Sprintf("code %d → HTTP %d → OK", cde, hs)
							break
						}
					}
					c.Check(bad == "", "round-trip", back[0].Pos(), "codeFromHttpStatus(httpStatusFromCode(c)) != OK for every non-OK c", bad)
				}
			}
		}
		c.EndRule()
	}
	_ = backF

	hcs := httpHandlerClosures(p)
	// ---------------------------------------------------------------- R3
	if c.Rule("R3", "the exact code travels in the status header, set before the renderer runs; the client prefers the parsed header value; details header name agrees", 4) {
		nUnary := 0
		statusKey := ""
		for _, hc := range hcs {
			if hc.Stream {
				continue
			}
			nUnary++
			statusKey = c14ServerHeader(c, hc)
		}
		if nUnary == 0 {
			c.Missing("unary HTTP handler closure in httpgrpc")
		}
		c14ClientHeader(c, statusKey)
		c14ReplyHeadersOnlyRead(c)
		c14StatusBeforeBody(c)
		c.EndRule()
	}

	// ---------------------------------------------------------------- R4
	if c.Rule("R4", "499 is replied exactly when code ∈ {Canceled, DeadlineExceeded} ∧ reqCtx.Err() != nil; reqCtx derives from r.Context() with no timeout/cancel layer", 2) {
		if renderer == nil {
			c.Missing("default error renderer")
		} else {
			c14Renderer499(c, renderer)
		}
		for _, hc := range hcs {
			if hc.Stream {
				continue
			}
			for _, call := range rendererCalls(hc.Fn) {
				arg := call.Call.Args[0]
				chain, root := ctxChain(arg)
				okRoot := false
				if cr, _, ok := core.CallResult(root); ok && core.InfoOf(&cr.Call).Full() == "net/http.Request.Context" {
					okRoot = true
				}
				badLayer := ""
				for _, l := range chain {
					if strings.HasPrefix(l, "context.With") && l != "context.WithValue" {
						badLayer = l
					}
					if !strings.Contains(l, ".") || strings.HasPrefix(l, core.ModulePath) {
						// repo function deriving the context (contextFromHeaders adds a timeout)
						badLayer = l
					}
				}
				switch {
				case !okRoot:
					c.Fail(core.FuncName(hc.Fn)+":reqCtx", call.Pos(), "renderer's context does not originate from r.Context() (root: %s)", root)
				case badLayer != "":
					c.Fail(core.FuncName(hc.Fn)+":reqCtx", call.Pos(), "renderer's context passes through %s: a server-side GRPC-Timeout expiry would be rendered 499 instead of 504", badLayer)
				default:
					c.Ok(core.FuncName(hc.Fn)+":reqCtx", call.Pos(), "renderer gets r.Context() (layers: %v)", chain)
				}
			}
		}
		c.EndRule()
	}

	// ---------------------------------------------------------------- R5
	if c.Rule("R5", "the renderer runs only on the err != nil edge and never with status OK (OK is rewritten to Internal)", 2) {
		for _, hc := range hcs {
			if hc.Stream {
				continue
			}
			calls := rendererCalls(hc.Fn)
			if len(calls) == 0 {
				c.Fail(core.FuncName(hc.Fn)+":renderer-call", hc.Fn.Pos(), "no call of the error renderer found in the unary handler")
			}
			for _, call := range calls {
				hcalls := handlerInvocations(hc.Fn)
				guard := false
				if len(hcalls) > 0 {
					guard = core.GuardedBy(call, func(f core.Fact) bool {
						return f.Op == token.NEQ && core.IsNilConst(f.Y) && isErrResultOf(f.X, hcalls)
					})
				}
				c.Check(guard, core.FuncName(hc.Fn)+":renderer-guard", call.Pos(),
					"renderer call dominated by handlerErr != nil", "renderer call is not dominated by the handler-error != nil edge")
				c.Check(okRewritten(call.Call.Args[1]), core.FuncName(hc.Fn)+":ok-rewrite", call.Pos(),
					"status passed to the renderer is rewritten to a non-OK constant code on the Code()==OK edge", "status passed to the renderer may carry code OK (no OK→Internal rewrite found)")
			}
		}
		c.EndRule()
	}

	// ---------------------------------------------------------------- R7
	if c.Rule("R7", "a custom error renderer takes effect: the option stores its own parameter unchanged, on every path, into the renderer field the unary handler reads; every function that accepts handler options applies each of them once, over the whole list, to the option object it hands to the handlers", 5) {
		configPlumbing(c, "httpgrpc", func(st *types.Named, f *types.Var) bool {
			sig, ok := f.Type().Underlying().(*types.Signature)
			if !ok {
				return false
			}
			for i := 0; i < sig.Params().Len(); i++ {
				if core.TypeStr(sig.Params().At(i).Type()) == "net/http.ResponseWriter" {
					return true
				}
			}
			return false
		})
		optionFanOut(c, "httpgrpc")
		optionApplySteps(c, "httpgrpc")
		c.EndRule()
	}

	// ---------------------------------------------------------------- R6 (shared)
	// the renderer that puts the documented HTTP status on the wire is never a nil func (C11/R7): a panic in the
	// handler aborts the connection and the caller recovers no code at all
	c.Borrow("C11", map[string]string{"R7": "R6"}, c11)

	// ---------------------------------------------------------------- R8 (shared)
	// the code that leaves the handler is the code that is rendered: the conversions on the way (context
	// translators included, which replace an error only if it IS a context sentinel) keep code, message and
	// details (C02/R3)
	c.Borrow("C02", map[string]string{"R3": "R8"}, c02)
	// "the caller recovers exactly the original code": what the unary call returns is what its return statement said
	// (C02/R7: no goroutine of the call writes its result variable) and, for streams, a reply that carried a non-OK
	// status ends the stream with it (C02/R1: no exit of the reply reader leaves a success behind)
	c.Borrow("C02", map[string]string{"R7": "R9", "R1": "R10"}, c02)

}

// parseDocTable extracts "Name: [*] NNN Text" rows from the doc comment.
func parseDocTable(p *core.Prog, fn *ssa.Function) map[string]int64 {
	out := map[string]int64{}
	decl, _ := p.FuncDecl(fn)
	if decl == nil || decl.Doc == nil {
		return out
	}
	re := regexp.MustCompile(`^\s*([A-Za-z]+):\s+(?:\*\s+)?(\d{3})\b`)
	for _, line := range strings.Split(decl.Doc.Text(), "\n") {
		if m := re.FindStringSubmatch(line); m != nil {
			n, _ := strconv.ParseInt(m[2], 10, 64)
			valid := false
			for _, cn := range codeNames {
				if cn == m[1] {
					valid = true
				}
			}
			if valid {
				out[m[1]] = n
			}
		}
	}
	return out
}

// rendererCalls finds dynamic calls of a value of type
// func(context.Context, *status.Status, http.ResponseWriter).
func rendererCalls(fn *ssa.Function) []*ssa.Call {
	return core.CallsIn(fn, func(call *ssa.Call, ci core.CallInfo) bool {
		if call.Call.IsInvoke() {
			return false
		}
		sig, ok := call.Call.Value.Type().Underlying().(*types.Signature)
		if !ok || sig.Params().Len() != 3 || sig.Results().Len() != 0 {
			return false
		}
		if ci.Static != nil && ci.Static.Parent() == nil && !ci.Dyn {
			// direct call of the default renderer counts too
		}
		return core.TypeStr(sig.Params().At(0).Type()) == "context.Context" &&
			core.TypeStr(sig.Params().At(1).Type()) == "*"+statusPkg+".Status" &&
			core.TypeStr(sig.Params().At(2).Type()) == "net/http.ResponseWriter"
	})
}

func isErrResultOf(v ssa.Value, calls []*ssa.Call) bool {
	for _, o := range core.Origins(v) {
		if cr, _, ok := core.CallResult(o); ok {
			for _, hc := range calls {
				if cr == hc && core.IsErrorType(o.Type()) {
					return true
				}
			}
		}
	}
	return false
}

// okRewritten: st is a phi (or cell) one of whose origins is
// status.FromProto(x) where x.Code was stored a non-zero constant under the
// Code()==OK edge.
func okRewritten(st ssa.Value) bool {
	for _, o := range core.XOrigins(st) {
		if !core.IsResultOf(o, 0, statusPkg+".FromProto") {
			continue
		}
		call, _, _ := core.CallResult(o)
		proto := call.Call.Args[0]
		// find a store of a non-zero const to proto.Code
		for _, r := range core.Refs(proto) {
			fa, ok := r.(*ssa.FieldAddr)
			if !ok {
				continue
			}
			if _, f, ok := core.FieldOf(fa); !ok || f != "Code" {
				continue
			}
			for _, rr := range core.Refs(fa) {
				s, ok := rr.(*ssa.Store)
				if !ok {
					continue
				}
				val := s.Val
				if cv, ok := val.(*ssa.Convert); ok {
					val = cv.X
				}
				if n, ok := core.ConstInt(val); ok && n != 0 {
					// dominated by Code()==0 ?
					if core.GuardedBy(s, func(f core.Fact) bool {
						if f.Op != token.EQL {
							return false
						}
						n, ok := core.ConstInt(f.Y)
						return ok && n == 0 && core.IsResultOf(f.X, 0, statusPkg+".Status.Code", istatusPkg+".Status.Code")
					}) {
						return true
					}
				}
			}
		}
	}
	return false
}

// c14ServerHeader checks the server half of R3 and returns the status header key.
func c14ServerHeader(c *core.Ctx, hc handlerClosure) string {
	fn := hc.Fn
	name := core.FuncName(fn)
	calls := rendererCalls(fn)
	key := ""
	for _, rc := range calls {
		// a Header.Set with a constant key whose value is Sprintf("%d:...", <proto>.Code, ...)
		var setCall *ssa.Call
		for _, sc := range core.CallsIn(fn, func(call *ssa.Call, ci core.CallInfo) bool { return ci.Is("net/http.Header.Set") }) {
			k, ok := core.ConstString(sc.Call.Args[1])
			if !ok || !strings.Contains(strings.ToLower(k), "status") {
				continue
			}
			setCall = sc
			key = k
		}
		if setCall == nil {
			c.Fail(name+":status-header", rc.Pos(), "no Header().Set of a status header found before the renderer call")
			continue
		}
		c.Check(core.MustPass(core.Entry(fn), rc, func(in ssa.Instruction) bool { return in == setCall }),
			name+":header-before-renderer", setCall.Pos(), "status header "+key+" is set on every path to the renderer (a renderer that writes nothing still transmits it)",
			"the renderer can run without the status header "+key+" having been set")
		// ... and a failed call is answered in no other way: once the handler has returned an error, every way out
		// of the HTTP handler passes the status header (a reply made up on the side — a bare 499 because the request
		// context happens to be done — carries neither the code nor the renderer's mapping)
		if setCall.Parent() == fn {
			hcalls := handlerInvocations(fn)
			bare := token.NoPos
			fromHandler := func(v ssa.Value) bool {
				return v != nil && core.OriginIs(v, func(o ssa.Value) bool { return isErrResultOf(o, hcalls) })
			}
			// not followed: edges on which the handler's error is known to be nil (the success path)
			notSuccess := func(b *ssa.BasicBlock, si int) bool {
				iff, isIf := b.Instrs[len(b.Instrs)-1].(*ssa.If)
				if !isIf {
					return true
				}
				f := core.CondFact(iff.Cond, si == 0)
				return !(f.Op == token.EQL && f.Y != nil && core.IsNilConst(f.Y) && fromHandler(f.X))
			}
			for _, hcI := range hcalls {
				reach := core.Walk(core.After(hcI), func(x ssa.Instruction) bool { return x == ssa.Instruction(setCall) }, notSuccess)
				for _, r := range core.Returns(fn) {
					if reach[r] {
						bare = r.Pos()
						if !bare.IsValid() {
							bare = hcI.Pos()
						}
					}
				}
			}
			c.Check(bare == token.NoPos, name+":every-failure-carries-the-status-header", setCall.Pos(), "every exit after the handler failed passes the status header", "after the handler returned an error the HTTP handler can reply and return without the status header "+key+" (and without the renderer): the caller gets whatever code the bare HTTP status maps back to")
		}
		// value
		val := setCall.Call.Args[2]
		ok := false
		why := "header value is not fmt.Sprintf(\"%d:%s\", proto.Code, proto.Message)"
		if format, args, unpacked := core.FormatOf(val); unpacked {
			if strings.HasPrefix(format, "%d:") && unpacked && len(args) >= 1 {
				a0 := core.Strip(args[0])
				if base, f, isF := core.FieldOf(a0); isF && f == "Code" && core.QualNamedOf(base.Type()) == "google.golang.org/genproto/googleapis/rpc/status.Status" {
					// base must be st.Proto() of the status given to the renderer
					if core.OriginIs(base, func(o ssa.Value) bool {
						pc, _, isC := core.CallResult(o)
						if !isC {
							return false
						}
						n := core.InfoOf(&pc.Call).Full()
						if n != statusPkg+".Status.Proto" && n != istatusPkg+".Status.Proto" {
							return false
						}
						return sameOrigins(pc.Call.Args[0], rc.Call.Args[1])
					}) {
						ok = true
						why = "header carries Proto().Code of the very status handed to the renderer (exact code, not the HTTP approximation)"
					} else {
						why = "status header code does not come from the Proto() of the status handed to the renderer"
					}
				} else {
					why = fmt.Sprintf("first Sprintf argument is %s, not the Code field of the status proto", a0)
				}
				if len(args) >= 2 && ok {
					a1 := core.Strip(args[1])
					if _, f, isF := core.FieldOf(a1); !isF || f != "Message" {
						ok = false
						why = "second Sprintf argument is not the Message field of the status proto"
					}
				}
			}
		}
		c.Check(ok, name+":header-value", setCall.Pos(), why, why)
		// the transport's status header wins over whatever the handler put into its response metadata under that
		// name: no writer that replaces entries of the response's header map runs after the store
		later := replacingWriterAfter(setCall.Parent(), setCall)
		c.Check(later == nil, name+":status-header-wins", setCall.Pos(), "no writer that replaces entries of the header map runs after the status header is set", "after the status header is set, a later writer copies the handler's metadata into the same header map by assignment: handler metadata named x-grpc-status replaces the transport's status, and the caller sees that instead of the handler's code")
	}
	return key
}

func sameOrigins(a, b ssa.Value) bool {
	oa, ob := core.Origins(a), core.Origins(b)
	for _, x := range oa {
		for _, y := range ob {
			if x == y {
				return true
			}
		}
	}
	return false
}

// c14ClientHeader checks the response decoder (role: func(*http.Response) *status.Status).
func c14ClientHeader(c *core.Ctx, serverKey string) {
	p := c.P
	var dec *ssa.Function
	for _, fn := range p.LibFuncs("httpgrpc") {
		if fn.Parent() == nil && fn.Signature.Recv() == nil && fn.Signature.Params().Len() == 1 && fn.Signature.Results().Len() == 1 &&
			core.TypeStr(fn.Signature.Params().At(0).Type()) == "*net/http.Response" &&
			core.TypeStr(fn.Signature.Results().At(0).Type()) == "*"+statusPkg+".Status" {
			dec = fn
		}
	}
	if dec == nil {
		c.Missing("response status decoder func(*http.Response) *status.Status in httpgrpc")
		return
	}
	name := core.FuncName(dec)
	// the decoder may hand the reply to helpers of the package (a split decoder): the function that parses the
	// status header is then the one analysed, and what it returns to the decoder counts as a use of the code
	outer := dec
	for _, h := range core.HelperCallsOf(dec) {
		if !core.PkgIs(h.Callee, "httpgrpc") {
			continue
		}
		if len(core.CallsIn(h.Callee, func(_ *ssa.Call, ci core.CallInfo) bool {
			return ci.Is("strconv.ParseInt") || ci.Is("strconv.Atoi") || ci.Is("strconv.ParseUint")
		})) > 0 {
			dec = h.Callee
		}
	}
	// header key agreement
	var getKey string
	for _, gc := range core.CallsIn(dec, func(call *ssa.Call, ci core.CallInfo) bool { return ci.Is("net/http.Header.Get") }) {
		if k, ok := core.ConstString(gc.Call.Args[1]); ok {
			getKey = k
		}
	}
	c.Check(getKey != "" && serverKey != "" && strings.EqualFold(getKey, serverKey), name+":status-key", dec.Pos(),
		fmt.Sprintf("client reads %q, server sets %q", getKey, serverKey), fmt.Sprintf("client reads status header %q but the server sets %q", getKey, serverKey))
	// the code used for the result: every use of a codes.Code value in the
	// construction of the returned status must be a phi that includes the
	// parsed value on the err==nil edge.
	var parse *ssa.Call
	for _, pc := range core.CallsIn(dec, func(call *ssa.Call, ci core.CallInfo) bool {
		return ci.Is("strconv.ParseInt") || ci.Is("strconv.Atoi") || ci.Is("strconv.ParseUint")
	}) {
		parse = pc
	}
	if parse == nil {
		c.Fail(name+":parse", dec.Pos(), "no numeric parse of the status header found")
		return
	}
	// the parser accepts everything the writer's "%d" of the status proto's int32 Code field produces: a signed
	// parse of at least 32 bits (codes >= 2^31 travel as negative numbers)
	{
		pci := core.InfoOf(&parse.Call)
		okSigned := pci.Is("strconv.Atoi")
		if pci.Is("strconv.ParseInt") && len(parse.Call.Args) == 3 {
			if bits, isC := core.ConstInt(parse.Call.Args[2]); isC && (bits == 0 || bits >= 32) {
				okSigned = true
			}
		}
		c.Check(okSigned, name+":parse-accepts-what-is-written", parse.Pos(), "the status code is parsed as a signed integer of >= 32 bits, the inverse of the writer's %d of an int32", "the status code is parsed with "+pci.Full()+", which rejects part of what the writer's %d of the status proto's int32 Code produces (codes >= 2^31 are written as negative numbers): for those the client falls back to the HTTP approximation")
	}
	// parse input must derive from the header value (SplitN(Header.Get(..)))
	// the conversion of the parsed number into a codes.Code
	var conv ssa.Value
	core.Instrs(dec, func(in ssa.Instruction) {
		cv, ok := in.(*ssa.Convert)
		if !ok || core.TypeStr(cv.Type()) != codesPkg+".Code" {
			return
		}
		if cr, idx, ok := core.CallResult(cv.X); ok && cr == parse && idx == 0 {
			conv = cv
		}
	})
	if conv == nil {
		c.Fail(name+":parsed-wins", parse.Pos(), "the parsed header value is never converted into a codes.Code")
		return
	}
	// no condition on the HTTP-derived code may gate the use of the parsed value
	gated := ""
	for _, ef := range core.DominatingFacts(conv.(ssa.Instruction)) {
		for _, side := range []ssa.Value{ef.Fact.X, ef.Fact.Y} {
			if side == nil {
				continue
			}
			if core.OriginIs(side, func(o ssa.Value) bool {
				cr, _, ok := core.CallResult(o)
				return ok && core.TypeStr(cr.Type()) == codesPkg+".Code" && cr != parse
			}) {
				gated = "use of the parsed header code is conditional on the HTTP-derived code"
			}
		}
	}
	// every code that reaches the returned status must carry the parsed value
	// on every path through the conversion
	okAll := gated == ""
	why := "returned status is built from the parsed header code on every path where it parsed (HTTP-derived value is only the initial value)"
	if gated != "" {
		why = gated
	}
	nUses := 0
	fallbackBad := ""
	checkUse := func(v ssa.Value, what string) {
		nUses++
		if !parsedWins(v, conv) {
			okAll = false
			why = what + " is given a code that can bypass the parsed header value"
		}
		// without a (parsable) header the code is the HTTP status mapped by the fallback table — for every status
		for _, o := range core.Origins(v) {
			if o == conv {
				continue
			}
			call, _, isCall := core.CallResult(o)
			if isCall && call == parse {
				continue
			}
			if isCall {
				ci := core.InfoOf(&call.Call)
				if ci.Static != nil && core.PkgIs(ci.Static, "httpgrpc") && core.TypeStr(ci.Static.Signature.Results().At(0).Type()) == codesPkg+".Code" && len(call.Call.Args) == 1 {
					if _, f, ok := core.FieldOf(call.Call.Args[0]); ok && f == "StatusCode" {
						continue
					}
				}
			}
			fallbackBad = fmt.Sprintf("%s can receive a code (%s) that is neither the parsed header value nor the fallback table applied to reply.StatusCode", what, core.ValName(o))
		}
	}
	core.Instrs(dec, func(in ssa.Instruction) {
		if call, isCall := in.(*ssa.Call); isCall && core.InfoOf(&call.Call).Is(statusPkg+".New") {
			checkUse(call.Call.Args[0], "status.New")
		}
		if st, ok := in.(*ssa.Store); ok {
			if base, f, isF := core.FieldOf(st.Addr); isF && f == "Code" && strings.HasSuffix(core.QualNamedOf(base.Type()), "rpc/status.Status") {
				checkUse(st.Val, "spb.Status.Code")
			}
		}
		if r, ok := in.(*ssa.Return); ok && dec != outer {
			for _, res := range r.Results {
				if core.TypeStr(res.Type()) == codesPkg+".Code" {
					checkUse(res, "the code returned to the decoder")
				}
			}
		}
		if iff, ok := in.(*ssa.If); ok {
			f := core.CondFact(iff.Cond, true)
			if f.X != nil && core.TypeStr(f.X.Type()) == codesPkg+".Code" {
				if n, isC := core.ConstInt(f.Y); isC && n == 0 && core.Reachable(core.After(conv.(ssa.Instruction)), iff) {
					checkUse(f.X, "the OK test")
				}
			}
		}
	})
	if nUses == 0 {
		okAll = false
		why = "no construction of the returned status from a code found"
	}
	if dec != outer {
		core.Instrs(outer, func(in ssa.Instruction) {
			var codeArg ssa.Value
			if call, isCall := in.(*ssa.Call); isCall && core.InfoOf(&call.Call).Is(statusPkg+".New") {
				codeArg = call.Call.Args[0]
			}
			if st, ok := in.(*ssa.Store); ok {
				if base, f, isF := core.FieldOf(st.Addr); isF && f == "Code" && strings.HasSuffix(core.QualNamedOf(base.Type()), "rpc/status.Status") {
					codeArg = st.Val
				}
			}
			if codeArg == nil {
				return
			}
			if !core.AllOrigins(codeArg, func(o ssa.Value) bool {
				cr, _, ok := core.CallResult(o)
				return ok && cr.Call.StaticCallee() == dec
			}) {
				okAll = false
				why = "the decoder builds the status from a code other than the one its parsing helper returned"
			}
		})
	}
	c.Check(okAll, name+":parsed-wins", parse.Pos(), why, why)
	c.Check(fallbackBad == "", name+":fallback-for-every-status", parse.Pos(), "without a usable status header the code is the fallback table applied to reply.StatusCode, unconditionally (the table is total: C14/R2)",
		fallbackBad+": a reply without the status header (a proxy's 302, a 1xx) would be classified without the fallback table — possibly as OK")
	// parsed value assigned under err == nil
	guarded := core.GuardedBy(conv.(ssa.Instruction), func(f core.Fact) bool {
		return f.Op == token.EQL && core.IsNilConst(f.Y) && core.OriginIs(f.X, func(o ssa.Value) bool { cr, idx, ok := core.CallResult(o); return ok && cr == parse && idx == 1 })
	})
	c.Check(guarded, name+":parse-err-guard", parse.Pos(), "parsed code is used only on the parse-error == nil edge", "parsed code used without the parse error being nil")
	// details header: same global on both sides
	detailsClient, detailsServer := "", ""
	core.Instrs(outer, func(in ssa.Instruction) {
		if g, ok := core.GlobalLoad(valueOfInstr(in)); ok && strings.Contains(strings.ToLower(g), "detail") {
			detailsClient = g
		}
	})
	for _, hc := range httpHandlerClosures(p) {
		if hc.Stream {
			continue
		}
		core.Instrs(hc.Fn, func(in ssa.Instruction) {
			if g, ok := core.GlobalLoad(valueOfInstr(in)); ok && strings.Contains(strings.ToLower(g), "detail") {
				detailsServer = g
			}
		})
	}
	c.Check(detailsClient != "" && detailsClient == detailsServer, name+":details-key", dec.Pos(),
		"details header name is the same package variable on both sides ("+detailsClient+")",
		fmt.Sprintf("details header differs: client %q, server %q", detailsClient, detailsServer))
}

func valueOfInstr(in ssa.Instruction) ssa.Value {
	v, _ := in.(ssa.Value)
	return v
}

// parsedWins: v carries conv on every path through conv's block: following
// phis backwards from v, every incoming edge whose predecessor block is
// reachable from conv must itself carry conv.
func parsedWins(v ssa.Value, conv ssa.Value) bool {
	carries := func(x ssa.Value) bool {
		return core.OriginIs(x, func(o ssa.Value) bool { return o == conv }) || containsValue(x, conv)
	}
	if !carries(v) {
		return false
	}
	convInstr := conv.(ssa.Instruction)
	reach := core.Walk(core.After(convInstr), nil, nil)
	seen := map[ssa.Value]bool{}
	var rec func(x ssa.Value) bool
	rec = func(x ssa.Value) bool {
		if seen[x] {
			return true
		}
		seen[x] = true
		switch y := x.(type) {
		case *ssa.Convert:
			if y == conv {
				return true
			}
			return rec(y.X)
		case *ssa.ChangeType:
			return rec(y.X)
		case *ssa.Phi:
			for i, e := range y.Edges {
				pred := y.Block().Preds[i]
				last := pred.Instrs[len(pred.Instrs)-1]
				if reach[last] || pred == convInstr.Block() {
					if !carries(e) || !rec(e) {
						return false
					}
				}
			}
			return true
		}
		return x == conv
	}
	return rec(v)
}

// containsValue: conv appears in the phi/convert closure of x.
func containsValue(x, conv ssa.Value) bool {
	seen := map[ssa.Value]bool{}
	var rec func(ssa.Value) bool
	rec = func(v ssa.Value) bool {
		if v == conv {
			return true
		}
		if seen[v] {
			return false
		}
		seen[v] = true
		switch y := v.(type) {
		case *ssa.Phi:
			for _, e := range y.Edges {
				if rec(e) {
					return true
				}
			}
		case *ssa.Convert:
			return rec(y.X)
		case *ssa.ChangeType:
			return rec(y.X)
		}
		return false
	}
	return rec(x)
}

// flowsFrom: every origin path of v passes through src (v is src, or a
// conversion of it, or a phi all of whose edges flow from src).
func flowsFrom(v ssa.Value, src ssa.Value) bool {
	seen := map[ssa.Value]bool{}
	var rec func(v ssa.Value) bool
	rec = func(v ssa.Value) bool {
		if v == src {
			return true
		}
		if seen[v] {
			return true
		}
		seen[v] = true
		switch x := v.(type) {
		case *ssa.Convert:
			return rec(x.X)
		case *ssa.ChangeType:
			return rec(x.X)
		case *ssa.Phi:
			for _, e := range x.Edges {
				if !rec(e) {
					return false
				}
			}
			return true
		}
		return false
	}
	return rec(v)
}

// c14Renderer499 checks the guard of the 499 reply in the default renderer.
func c14Renderer499(c *core.Ctx, fn *ssa.Function) {
	name := core.FuncName(fn)
	var call499 []*ssa.Call
	var others []*ssa.Call
	for _, hc := range core.CallsIn(fn, func(call *ssa.Call, ci core.CallInfo) bool { return ci.Is("net/http.Error") }) {
		if n, ok := core.ConstInt(hc.Call.Args[2]); ok && n == 499 {
			call499 = append(call499, hc)
		} else {
			others = append(others, hc)
		}
	}
	if len(call499) != 1 {
		c.Fail(name+":499", fn.Pos(), "expected exactly one http.Error(…, 499) reply, found %d", len(call499))
		return
	}
	t := call499[0]
	ctxParam := fn.Params[0]
	stParam := fn.Params[1]
	ctxGuard := core.GuardedBy(t, func(f core.Fact) bool {
		if f.Op != token.NEQ || !core.IsNilConst(f.Y) {
			return false
		}
		cr, _, ok := core.CallResult(f.X)
		return ok && core.InfoOf(&cr.Call).Name == "Err" && cr.Call.IsInvoke() && cr.Call.Value == ctxParam
	})
	c.Check(ctxGuard, name+":499-needs-ctx-err", t.Pos(), "499 reply dominated by reqCtx.Err() != nil", "499 reply is not guarded by reqCtx.Err() != nil")
	codesSeen := map[int64]bool{}
	codeGuard := core.GuardedBy(t, func(f core.Fact) bool {
		if f.Op != token.EQL {
			return false
		}
		n, ok := core.ConstInt(f.Y)
		if !ok {
			return false
		}
		cr, _, isC := core.CallResult(f.X)
		if !isC || cr.Call.Args[0] != stParam {
			return false
		}
		if nm := core.InfoOf(&cr.Call).Name; nm != "Code" {
			return false
		}
		codesSeen[n] = true
		return true
	})
	var ks []int64
	for k := range codesSeen {
		ks = append(ks, k)
	}
	sort.Slice(ks, func(i, j int) bool { return ks[i] < ks[j] })
	c.Check(codeGuard && len(ks) == 2 && ks[0] == 1 && ks[1] == 4, name+":499-codes", t.Pos(),
		"499 reply dominated by st.Code() ∈ {Canceled(1), DeadlineExceeded(4)}", fmt.Sprintf("499 reply guarded by codes %v, want exactly {1,4}", ks))
	// the table-driven reply must use the forward table on the status code
	okTable := false
	for _, o := range others {
		if core.OriginIs(o.Call.Args[2], func(v ssa.Value) bool {
			cr, _, ok := core.CallResult(v)
			if !ok {
				return false
			}
			sig := cr.Call.Signature()
			return sig.Params().Len() == 1 && core.TypeStr(sig.Params().At(0).Type()) == codesPkg+".Code" && core.TypeStr(sig.Results().At(0).Type()) == "int"
		}) {
			okTable = true
		}
	}
	c.Check(okTable, name+":table-reply", fn.Pos(), "the other reply uses the forward table applied to the status code", "no reply using the forward table found")
}

// ctxChain follows a context value back to its root, listing the deriving
// calls ("context.WithCancel", "google.golang.org/grpc/peer.NewContext", repo
// function names, "wrap:<Type>" for struct wrappers embedding a context).
func ctxChain(v ssa.Value) ([]string, ssa.Value) {
	var chain []string
	seen := map[ssa.Value]bool{}
	for {
		if seen[v] {
			return chain, v
		}
		seen[v] = true
		switch x := v.(type) {
		case *ssa.Phi:
			// prefer the edge that adds layers; all edges must share the root.
			// pick the first non-self edge; callers needing precision use ctxChains.
			v = x.Edges[len(x.Edges)-1]
			continue
		case *ssa.MakeInterface:
			if nt := core.NamedOf(x.X.Type()); nt != "" {
				// struct wrapper embedding a context: find the embedded value
				if inner := embeddedCtx(x.X); inner != nil {
					chain = append(chain, "wrap:"+nt)
					v = inner
					continue
				}
			}
			v = x.X
			continue
		case *ssa.ChangeInterface:
			v = x.X
			continue
		case *ssa.ChangeType:
			v = x.X
			continue
		case *ssa.UnOp:
			if x.Op == token.MUL {
				cell := core.ResolveFree(x.X)
				if al, ok := cell.(*ssa.Alloc); ok {
					st := core.StoresTo(al)
					if len(st) > 0 {
						v = st[len(st)-1].Val
						continue
					}
				}
			}
			return chain, v
		case *ssa.FreeVar:
			r := core.ResolveFree(x)
			if r == v {
				return chain, v
			}
			v = r
			continue
		case *ssa.Parameter:
			r := core.ResolveFree(x)
			if r == v {
				return chain, v
			}
			v = r
			continue
		case *ssa.Extract:
			if call, ok := x.Tuple.(*ssa.Call); ok && x.Index == 0 {
				if nxt, name, ok := ctxDeriving(call); ok {
					chain = append(chain, name)
					v = nxt
					continue
				}
			}
			return chain, v
		case *ssa.Call:
			if nxt, name, ok := ctxDeriving(x); ok {
				chain = append(chain, name)
				v = nxt
				continue
			}
			return chain, v
		}
		return chain, v
	}
}

// ctxDeriving: call derives a context from its first context-typed argument.
func ctxDeriving(call *ssa.Call) (ssa.Value, string, bool) {
	ci := core.InfoOf(&call.Call)
	if ci.Iface || ci.Dyn || ci.Builtin {
		return nil, "", false
	}
	var ctxArg ssa.Value
	for _, a := range call.Call.Args {
		if core.TypeStr(a.Type()) == "context.Context" {
			ctxArg = a
			break
		}
	}
	if ctxArg == nil {
		return nil, "", false
	}
	// result must be a context (or tuple starting with one)
	res := call.Call.Signature().Results()
	if res.Len() == 0 {
		return nil, "", false
	}
	if core.TypeStr(res.At(0).Type()) != "context.Context" {
		// … or a result struct of the module that carries the context (results packed into one struct)
		st, isStruct := res.At(0).Type().Underlying().(*types.Struct)
		if !isStruct || !strings.HasPrefix(ci.Pkg, core.ModulePath) {
			return nil, "", false
		}
		has := false
		for i := 0; i < st.NumFields(); i++ {
			if core.TypeStr(st.Field(i).Type()) == "context.Context" {
				has = true
			}
		}
		if !has {
			return nil, "", false
		}
	}
	return ctxArg, ci.Full(), true
}

// embeddedCtx: v is a struct value (or Alloc'd struct) with an embedded
// context.Context field; returns the value stored in it.
func embeddedCtx(v ssa.Value) ssa.Value {
	// composite literal value: load of an Alloc with a store to field 0
	if u, ok := v.(*ssa.UnOp); ok && u.Op == token.MUL {
		if al, ok := u.X.(*ssa.Alloc); ok {
			for _, r := range core.Refs(al) {
				if fa, ok := r.(*ssa.FieldAddr); ok {
					st := derefStructT(al.Type())
					if st != nil && st.Field(fa.Field).Embedded() && core.TypeStr(st.Field(fa.Field).Type()) == "context.Context" {
						for _, rr := range core.Refs(fa) {
							if s, ok := rr.(*ssa.Store); ok {
								return s.Val
							}
						}
					}
				}
			}
		}
	}
	return nil
}

func derefStructT(t types.Type) *types.Struct {
	if p, ok := t.Underlying().(*types.Pointer); ok {
		t = p.Elem()
	}
	st, _ := t.Underlying().(*types.Struct)
	return st
}

var _ = ast.Inspect
var _ = constant.MakeBool

// c14ReplyHeadersOnlyRead: what the server put into the reply's headers is what
// the status decoder reads: nothing on the client side deletes, sets or adds
// entries of an *http.Response's Header (directly, or through a helper that is
// handed that map).
func c14ReplyHeadersOnlyRead(c *core.Ctx) {
	p := c.P
	fns := p.LibFuncs("httpgrpc")
	isReplyHeader := func(v ssa.Value, fn *ssa.Function) bool { return false }
	var rec func(v ssa.Value, fn *ssa.Function, depth int) bool
	rec = func(v ssa.Value, fn *ssa.Function, depth int) bool {
		for _, o := range core.Origins(v) {
			if base, f, ok := core.FieldOf(o); ok && f == "Header" && core.QualNamedOf(base.Type()) == "net/http.Response" {
				return true
			}
			if r := core.ResolveFree(o); r != o && depth < 2 {
				if rec(r, fn, depth+1) {
					return true
				}
				continue
			}
			par, isPar := o.(*ssa.Parameter)
			if !isPar || depth >= 2 {
				continue
			}
			pf := par.Parent()
			idx := -1
			for i, pp := range pf.Params {
				if pp == par {
					idx = i
				}
			}
			for _, caller := range fns {
				for _, cs := range core.CallsIn(caller, func(_ *ssa.Call, ci core.CallInfo) bool { return ci.Static == pf }) {
					if idx >= 0 && idx < len(cs.Call.Args) && rec(cs.Call.Args[idx], caller, depth+1) {
						return true
					}
				}
			}
		}
		return false
	}
	isReplyHeader = func(v ssa.Value, fn *ssa.Function) bool { return rec(v, fn, 0) }
	n, bad := 0, 0
	for _, fn := range fns {
		core.Instrs(fn, func(in ssa.Instruction) {
			var h ssa.Value
			what := ""
			switch x := in.(type) {
			case *ssa.Call:
				ci := core.InfoOf(&x.Call)
				if ci.Pkg == "net/http" && ci.Recv == "Header" && (ci.Name == "Del" || ci.Name == "Set" || ci.Name == "Add") {
					h, what = x.Call.Args[0], "Header."+ci.Name
				}
				if b, ok := x.Call.Value.(*ssa.Builtin); ok && b.Name() == "delete" && core.TypeStr(x.Call.Args[0].Type()) == "net/http.Header" {
					h, what = x.Call.Args[0], "delete"
				}
			case *ssa.MapUpdate:
				if core.TypeStr(x.Map.Type()) == "net/http.Header" {
					h, what = x.Map, "assignment"
				}
			}
			if h == nil {
				return
			}
			n++
			if isReplyHeader(h, fn) {
				bad++
				c.Fail(core.FuncName(fn)+":reply-headers-only-read", in.Pos(), "%s on the reply's header map: the status (and details) headers the server sent can be removed or replaced before the status decoder reads them, and the client falls back to the HTTP-status approximation of the code", what)
			}
		})
	}
	if bad == 0 {
		c.Ok("httpgrpc:reply-headers-only-read", token.NoPos, "%d header-map mutations in httpgrpc, none on an *http.Response's Header", n)
	}
}

// c14StatusBeforeBody: in the unary client call the status header is looked at
// BEFORE the body is awaited: a failed or stalled error body (or the context
// ending while it is read) must not replace the code that already arrived in
// the headers.
func c14StatusBeforeBody(c *core.Ctx) {
	p := c.P
	n := 0
	for _, ct := range channelTypes(p, "httpgrpc") {
		fn := declaredMethod(p, ct, "Invoke")
		if fn == nil {
			continue
		}
		// the decoder call: a package function from *http.Response to *status.Status
		var dec *ssa.Call
		for _, call := range core.CallsIn(fn, func(call *ssa.Call, ci core.CallInfo) bool {
			return ci.Static != nil && core.PkgIs(ci.Static, "httpgrpc") && len(ci.Static.Params) == 1 && core.TypeStr(ci.Static.Params[0].Type()) == "*net/http.Response" && strings.HasSuffix(core.TypeStr(call.Type()), "status.Status")
		}) {
			dec = call
		}
		if dec == nil {
			continue
		}
		// once a reply has arrived, the first verdict on the call is the server's: between the round trip and the
		// status decoder the call does not fail with an error the library makes up itself (a size check on the
		// announced length, say) — the reply's own code would be replaced. (The error of the metadata decoder — an
		// undecodable reply — is not made up: it is returned as it is.)
		{
			var rt ssa.Instruction
			core.Instrs(fn, func(in ssa.Instruction) {
				if isRequestIssue(in) {
					rt = in
				}
			})
			if rt != nil {
				reach := core.Walk(core.After(rt), func(x ssa.Instruction) bool { return x == ssa.Instruction(dec) }, nil)
				bad := token.NoPos
				for _, r := range core.ErrReturns(fn) {
					if !reach[r] {
						continue
					}
					for _, l := range expandLeaves(core.ErrLeaves(r.Results[len(r.Results)-1], r), 0) {
						if call, isCall := core.Strip(l.V).(*ssa.Call); isCall {
							if _, isCtor := core.StatusCtorCode(call); isCtor {
								bad = r.Pos()
							}
							ci := core.InfoOf(&call.Call)
							if ci.Is("fmt.Errorf") || ci.Is("errors.New") || errorMaker(ci.Static, 0) {
								bad = r.Pos()
							}
						}
					}
				}
				c.Check(bad == token.NoPos, core.FuncName(fn)+":no-own-verdict-before-the-status-header", dec.Pos(), "no error of the library's own making is returned between the round trip and the status decoder", "after the reply arrived the call can fail with an error constructed by the client itself before the reply's status header is looked at: the caller gets that code instead of the one the server sent")
			}
		}
		// the verdict the server sent is the verdict the caller gets: the return taken because the decoded status is
		// not OK returns that very status's error — not something computed from it and the state of the call (a
		// context that ended in the meantime does not turn NotFound into Canceled)
		{
			fromDec := func(v ssa.Value) bool {
				return core.OriginIs(v, func(o ssa.Value) bool { cr, _, ok := core.CallResult(o); return ok && cr == dec })
			}
			isVerdictFact := func(f core.Fact) bool {
				if f.Op != token.NEQ && f.Op != token.EQL {
					return false
				}
				cr, _, ok := core.CallResult(f.X)
				if !ok {
					return false
				}
				ci := core.InfoOf(&cr.Call)
				if ci.Name != "Code" || len(core.Args(&cr.Call)) == 0 {
					return false
				}
				k, isC := core.ConstInt(f.Y)
				return isC && k == 0 && f.Op == token.NEQ && fromDec(core.Args(&cr.Call)[0])
			}
			isOwnErr := func(v ssa.Value) bool {
				cr, _, ok := core.CallResult(v)
				if !ok {
					return false
				}
				return core.InfoOf(&cr.Call).Name == "Err" && len(core.Args(&cr.Call)) > 0 && fromDec(core.Args(&cr.Call)[0])
			}
			nV := 0
			for _, r := range core.ErrReturns(fn) {
				if !core.GuardedBy(r, isVerdictFact) {
					continue
				}
				nV++
				bad := ""
				for _, l := range expandLeaves(core.ErrLeaves(r.Results[len(r.Results)-1], r), 0) {
					if isOwnErr(l.V) {
						continue
					}
					// handed through a function that returns its argument as it is
					if cr, _, ok := core.CallResult(l.V); ok {
						h := cr.Call.StaticCallee()
						through := h != nil && h.Blocks != nil
						if through {
							argOK := false
							var par *ssa.Parameter
							for i, a := range cr.Call.Args {
								if isOwnErr(a) && i < len(h.Params) {
									argOK, par = true, h.Params[i]
								}
							}
							through = argOK
							if through {
								for _, hr := range core.Returns(h) {
									for _, hl := range core.ErrLeaves(hr.Results[len(hr.Results)-1], hr) {
										if hl.V != ssa.Value(par) {
											through = false
										}
									}
								}
							}
						}
						if through {
							continue
						}
						bad = core.InfoOf(&cr.Call).Name + "(…)"
						continue
					}
					bad = core.ValName(l.V)
				}
				c.Check(bad == "", core.FuncName(fn)+":server-verdict-returned-as-is", r.Pos(), "the non-OK status decoded from the reply is returned as it is", "on the reply's non-OK status the call returns "+bad+" instead of that status's own error: the code the server sent can be replaced (by the context's, say, when the caller's context ended after the reply arrived)")
			}
			if nV == 0 {
				c.Fail(core.FuncName(fn)+":server-verdict-returned-as-is", dec.Pos(), "no return of the unary call is taken on the decoded status being non-OK")
			}
		}
		core.Instrs(fn, func(in ssa.Instruction) {
			sel, ok := in.(*ssa.Select)
			if !ok || !sel.Blocking {
				return
			}
			n++
			okOrder := core.MustPass(core.Entry(fn), sel, func(x ssa.Instruction) bool { return x == ssa.Instruction(dec) })
			c.Check(okOrder, core.FuncName(fn)+":status-before-body-wait", sel.Pos(), "the status header is decoded before the wait for the reply body", "the wait for the reply body (which can fail, stall until the deadline, or be cut) comes before the status header is looked at: when it does, the caller gets Unknown / DeadlineExceeded instead of the code the server sent")
		})
	}
	if n == 0 {
		c.Fail("httpgrpc:unary-body-wait", token.NoPos, "ANCHOR-MISSING: no blocking wait for the reply body next to the status decoder in the unary client call")
	}
	// the streaming client likewise: once the reply head is there, what ends the call before any frame is read is the
	// status the reply carries — between the round trip and the status decoder the reply reader does not put a
	// status of its own making into the stream's final status (a "this does not look like our protocol" verdict on
	// the content type turns the server's 404/NotFound for an unknown method into Unavailable)
	for _, fn := range p.LibFuncs("httpgrpc") {
		if fn.Parent() != nil {
			continue
		}
		var rt ssa.Instruction
		core.Instrs(fn, func(in ssa.Instruction) {
			if isRequestIssue(in) {
				rt = in
			}
		})
		if rt == nil || core.RecvName(fn) == "" || fn.Name() == "Invoke" {
			continue
		}
		var dec *ssa.Call
		for _, call := range core.CallsIn(fn, func(call *ssa.Call, ci core.CallInfo) bool {
			return ci.Static != nil && core.PkgIs(ci.Static, "httpgrpc") && len(ci.Static.Params) == 1 && core.TypeStr(ci.Static.Params[0].Type()) == "*net/http.Response" && strings.HasSuffix(core.TypeStr(call.Type()), "status.Status")
		}) {
			dec = call
		}
		if dec == nil {
			continue
		}
		reach := core.Walk(core.After(rt), func(x ssa.Instruction) bool { return x == ssa.Instruction(dec) }, nil)
		bad := token.NoPos
		for in := range reach {
			st, ok := in.(*ssa.Store)
			if !ok {
				continue
			}
			if base, fld, isF := core.FieldOf(st.Addr); isF && fld == "Code" || isF && strings.HasSuffix(fld, ".Code") {
				_ = base
				bad = st.Pos()
			}
		}
		c.Check(bad == token.NoPos, core.FuncName(fn)+":no-own-verdict-before-the-status-header", dec.Pos(), "the stream's final status is not written between the round trip and the status decoder", "after the reply head arrived the reply reader writes a final status of its own making before the reply's status is looked at: the caller gets that code instead of the one the server sent (NotFound for an unknown method becomes whatever the reader decided)")
	}
}

// errorMaker: a module function whose every return is an error it constructs
// itself (a status constructor, fmt.Errorf, errors.New, or another such maker).
func errorMaker(fn *ssa.Function, depth int) bool {
	if fn == nil || fn.Blocks == nil || depth > 2 || fn.Signature.Results().Len() != 1 || !core.IsErrorType(fn.Signature.Results().At(0).Type()) {
		return false
	}
	rets := core.Returns(fn)
	if len(rets) == 0 {
		return false
	}
	for _, r := range rets {
		for _, l := range core.ErrLeaves(r.Results[0], r) {
			call, ok := core.Strip(l.V).(*ssa.Call)
			if !ok {
				return false
			}
			if _, isCtor := core.StatusCtorCode(call); isCtor {
				continue
			}
			ci := core.InfoOf(&call.Call)
			if ci.Is("fmt.Errorf") || ci.Is("errors.New") || errorMaker(ci.Static, depth+1) {
				continue
			}
			return false
		}
	}
	return true
}
