package rules

import (
	"fmt"
	"go/token"
	"go/types"
	"sort"
	"strings"

	"golang.org/x/tools/go/ssa"

	"verif/checker/internal/core"
)

func init() { register("C01", c01) }

// longLivedTypes: types whose objects outlive a call: channels, servers,
// registries (role: implement ClientConnInterface / ServiceRegistrar / http.Handler).
func longLivedTypes(p *core.Prog) map[string]*types.Named {
	out := map[string]*types.Named{}
	for _, iface := range []struct{ pkg, name string }{{grpcPkg, "ClientConnInterface"}, {grpcPkg, "ServiceRegistrar"}, {"net/http", "Handler"}} {
		it := p.ExtType(iface.pkg, iface.name)
		if it == nil {
			continue
		}
		for _, nt := range p.Implementers(it) {
			out[typeKey(nt)] = nt
		}
	}
	return out
}

// reachableFrom computes the library functions reachable from roots through
// static calls, function literals, bound methods and (by method name) calls
// on interfaces implemented in the repo.
func reachableFrom(p *core.Prog, roots []*ssa.Function) map[*ssa.Function]bool {
	lib := map[*ssa.Function]bool{}
	byName := map[string][]*ssa.Function{}
	for _, f := range p.LibFuncs("") {
		lib[f] = true
		if f.Signature.Recv() != nil {
			byName[f.Name()] = append(byName[f.Name()], f)
		}
	}
	seen := map[*ssa.Function]bool{}
	work := append([]*ssa.Function{}, roots...)
	for len(work) > 0 {
		f := work[len(work)-1]
		work = work[:len(work)-1]
		if f == nil || seen[f] || f.Blocks == nil {
			continue
		}
		seen[f] = true
		for _, a := range f.AnonFuncs {
			work = append(work, a)
		}
		core.Instrs(f, func(in ssa.Instruction) {
			if mc, ok := in.(*ssa.MakeClosure); ok {
				fn := mc.Fn.(*ssa.Function)
				if strings.HasSuffix(fn.Name(), "$bound") {
					if obj, ok := fn.Object().(*types.Func); ok {
						work = append(work, p.SSA.FuncValue(obj))
					}
				} else {
					work = append(work, fn)
				}
			}
			cc := core.CallOf(in)
			if cc == nil {
				return
			}
			ci := core.InfoOf(cc)
			if ci.Static != nil && lib[ci.Static] {
				work = append(work, ci.Static)
			}
			if ci.Iface {
				for _, g := range byName[ci.Name] {
					// only repo-declared interfaces / implementers of the invoked interface
					if it, ok := cc.Value.Type().Underlying().(*types.Interface); ok {
						rt := g.Signature.Recv().Type()
						if types.Implements(rt, it) || types.Implements(types.NewPointer(rt), it) {
							work = append(work, g)
						}
					}
				}
			}
		})
	}
	return seen
}

func perCallRoots(p *core.Prog) []*ssa.Function {
	var roots []*ssa.Function
	for _, pkgS := range []string{"inprocgrpc", "httpgrpc", "."} {
		for _, ct := range channelTypes(p, pkgS) {
			roots = append(roots, declaredMethod(p, ct, "Invoke"), declaredMethod(p, ct, "NewStream"))
		}
	}
	for _, hc := range httpHandlerClosures(p) {
		roots = append(roots, hc.Fn)
	}
	return roots
}

func c01(c *core.Ctx) {
	p := c.P
	c.Explain = "C01: (R1) message channels are created per call and no function reachable from a per-call entry point writes to a long-lived object or package variable (no memory through which concurrent RPCs could see each other's messages); (R2) a send reports success only on paths that handed the frame over exactly once; (R3) a receive reports success only after exactly one decode into the caller's destination; (R4) every send/receive on a message channel happens under the documented per-direction lock; (R5) the HTTP frame writer and reader agree on byte order, integer width, sign convention and length."
	c.NotDec = []string{"equality of message contents (depends on codec and cloner; structural part in C06/C18)", "behaviour of net/http", "absence of loss under interleavings beyond what R2–R4 imply", "parity with the standard transport"}
	ll := longLivedTypes(p)

	// ---------------------------------------------------------------- R1
	if c.Rule("R1", "per-call channels, no shared per-call state: no long-lived type holds a channel or message container; nothing reachable from Invoke/NewStream/an HTTP handler stores into a long-lived object, a registry map or a package-level variable", 8) {
		if len(ll) < 4 {
			c.Missing("long-lived types (channels, server, registry)")
		}
		var names []string
		for k := range ll {
			names = append(names, k)
		}
		sort.Strings(names)
		for _, k := range names {
			nt := ll[k]
			bad := ""
			if st, ok := nt.Underlying().(*types.Struct); ok {
				for i := 0; i < st.NumFields(); i++ {
					switch t := st.Field(i).Type().Underlying().(type) {
					case *types.Chan:
						bad = "field " + st.Field(i).Name() + " is a channel"
					case *types.Slice:
						if isMsgish(t.Elem()) {
							bad = "field " + st.Field(i).Name() + " is a slice of messages"
						}
					}
					if w := bufferish(st.Field(i).Type(), 0); w != "" && bad == "" {
						bad = "field " + st.Field(i).Name() + " can hold or recycle message memory (" + w + ")"
					}
				}
			}
			c.Check(bad == "", k+":no-per-call-fields", nt.Obj().Pos(), "no channel / message container field in the long-lived type", "long-lived type: "+bad+" (shared by every RPC on it: cross-talk)")
		}
		reach := reachableFrom(p, perCallRoots(p))
		nstores := 0
		var fl []*ssa.Function
		for f := range reach {
			if p.IsLibFile(f.Pos()) {
				fl = append(fl, f)
			}
		}
		sort.Slice(fl, func(i, j int) bool { return core.FuncName(fl[i]) < core.FuncName(fl[j]) })
		for _, f := range fl {
			core.Instrs(f, func(in ssa.Instruction) {
				switch x := in.(type) {
				case *ssa.Store:
					if g, ok := x.Addr.(*ssa.Global); ok {
						nstores++
						c.Fail(core.FuncName(f)+":store-global:"+g.Name(), x.Pos(), "per-call code writes the package-level variable %s: state shared by all concurrent RPCs", g.Name())
					}
					if fa, ok := x.Addr.(*ssa.FieldAddr); ok {
						for k, nt := range ll {
							if core.NamedOf(fa.X.Type()) == nt.Obj().Name() && core.QualNamedOf(fa.X.Type()) == nt.Obj().Pkg().Path()+"."+nt.Obj().Name() {
								// writes to a fresh local copy are fine (e.g. reqUrl := *ch.BaseURL is another type anyway)
								if core.AllOrigins(fa.X, func(o ssa.Value) bool { al, ok := o.(*ssa.Alloc); return ok && al.Parent() == f }) {
									continue
								}
								nstores++
								_, fld, _ := core.FieldOf(fa)
								c.Fail(core.FuncName(f)+":store-longlived:"+k+"."+fld, x.Pos(), "per-call code writes field %s of the long-lived %s: state shared by all concurrent RPCs (cross-talk)", fld, k)
							}
						}
					}
				case *ssa.MapUpdate:
					if q := core.QualNamedOf(x.Map.Type()); strings.HasPrefix(q, core.ModulePath) {
						nstores++
						c.Fail(core.FuncName(f)+":mapupdate:"+core.NamedOf(x.Map.Type()), x.Pos(), "per-call code updates the shared map %s", core.NamedOf(x.Map.Type()))
					}
				}
			})
		}
		// package-level variables of the transport packages: none can hold message bytes or recycle buffers,
		// none is written outside package initialisation
		for _, suffix := range []string{"httpgrpc", "inprocgrpc", "internal", ""} {
			path := core.ModulePath
			if suffix != "" {
				path += "/" + suffix
			}
			sp := p.SSAPkgs[path]
			if sp == nil {
				continue
			}
			var gnames []string
			for name, m := range sp.Members {
				if _, ok := m.(*ssa.Global); ok && name != "_" && !strings.HasPrefix(name, "init$") {
					gnames = append(gnames, name)
				}
			}
			sort.Strings(gnames)
			for _, name := range gnames {
				g := sp.Members[name].(*ssa.Global)
				if !p.IsLibFile(g.Pos()) {
					continue
				}
				key := "global:" + strings.TrimPrefix(path, core.ModulePath+"/") + "." + name
				elem := g.Type().Underlying().(*types.Pointer).Elem()
				if why := bufferish(elem, 0); why != "" {
					c.Fail(key, g.Pos(), "package-level variable %s can hold or recycle message memory (%s): it is shared by every concurrent RPC of the process, so one call's bytes can surface in another", name, why)
					continue
				}
				bad := ""
				for _, f := range p.Funcs {
					if f.Name() == "init" || strings.HasPrefix(f.Name(), "init#") || f.Synthetic != "" {
						continue
					}
					core.Instrs(f, func(in ssa.Instruction) {
						switch x := in.(type) {
						case *ssa.Store:
							if x.Addr == ssa.Value(g) {
								bad = "is assigned in " + core.FuncName(f)
							}
						case *ssa.MapUpdate:
							if core.OriginIs(x.Map, func(o ssa.Value) bool { u, ok := o.(*ssa.UnOp); return ok && u.X == ssa.Value(g) }) {
								bad = "(a map) is updated in " + core.FuncName(f)
							}
						case *ssa.Call:
							if b, ok := x.Call.Value.(*ssa.Builtin); ok && b.Name() == "delete" {
								if core.OriginIs(x.Call.Args[0], func(o ssa.Value) bool { u, ok := o.(*ssa.UnOp); return ok && u.X == ssa.Value(g) }) {
									bad = "(a map) has entries deleted in " + core.FuncName(f)
								}
							}
						}
					})
				}
				c.Check(bad == "", key, g.Pos(), "package-level variable of type "+core.TypeStr(elem)+": cannot hold message memory and is never written after initialisation", "package-level variable "+name+" "+bad+": state shared by all concurrent RPCs")
			}
		}
		c.Ok("per-call-code:no-shared-writes", token.NoPos, "%d functions reachable from the per-call entry points, %d writes to long-lived objects / globals", len(fl), nstores)
		// message channels are created in per-call code
		for _, fn := range append(p.LibFuncs("inprocgrpc"), p.LibFuncs("httpgrpc")...) {
			core.Instrs(fn, func(in ssa.Instruction) {
				mk, ok := in.(*ssa.MakeChan)
				if !ok {
					return
				}
				el := mk.Type().Underlying().(*types.Chan).Elem()
				if !isMsgish(el) {
					return
				}
				c.Check(reach[fn], core.FuncName(fn)+":make(chan "+core.TypeStr(el)+")", mk.Pos(), "message channel created in per-call code", "message channel created outside per-call code (shared between calls)")
			})
		}
		c.EndRule()
	}

	// ---------------------------------------------------------------- R6
	if c.Rule("R6", "in-process: what the receiver gets is the message as it was when sent: the sender's message is snapshotted (cloned) on the sender's own goroutine before the call returns and never read later, and every copy helper that reports success has written the destination from the source (obligations shared with C06/R1 and C06/R5)", 10) {
		for _, e := range inprocMsgEntries(p) {
			for _, par := range e.params {
				bad := msgEscape(p, e.fn, par)
				c.Check(bad == "", core.FuncName(e.fn)+":"+par.Name()+":snapshot", e.fn.Pos(), "message parameter used only by the cloner, nil tests and reflection, synchronously", "message parameter "+par.Name()+" "+bad+": the peer can obtain a message that differs from the one sent (the caller may reuse its object once the call returned)")
			}
		}
		for _, pk := range []string{"inprocgrpc", "internal"} {
			for _, fn := range p.LibFuncs(pk) {
				c06CopyWrites(c, fn)
			}
		}
		c.EndRule()
	}

	// ---------------------------------------------------------------- R7
	if c.Rule("R7", "HTTP: what the receiver decodes are exactly the bytes of one frame (or of the whole unary body): a buffer reaches Unmarshal or the message channel only after a full read of that very buffer found its error nil; no short read, no limited reader, no reused buffer (obligations shared with C07/R3)", 6) {
		c07BufferProvenance(c, p.LibFuncs("httpgrpc"))
		c.EndRule()
	}

	// ---------------------------------------------------------------- R2
	if c.Rule("R2", "a send reports success only if the frame was handed over, exactly once", 4) {
		c01Sends(c)
		c.EndRule()
	}

	// ---------------------------------------------------------------- R3
	if c.Rule("R3", "a receive reports success only after filling the destination from exactly one received frame", 4) {
		for _, iface := range []string{"ClientStream", "ServerStream"} {
			for _, nt := range streamTypes(p, iface, "RecvMsg") {
				fam := methodFamily(p, nt, "RecvMsg")
				inFam := map[*ssa.Function]bool{}
				for _, f := range fam {
					inFam[f] = true
				}
				for _, f := range fam {
					mpar := msgParam(f)
					if mpar == nil {
						continue
					}
					isDecode := func(in ssa.Instruction) bool {
						call, ok := in.(*ssa.Call)
						if !ok {
							return false
						}
						ci := core.InfoOf(&call.Call)
						args := core.Args(&call.Call)
						dstFromParam := func(v ssa.Value) bool {
							return core.OriginIs(v, func(o ssa.Value) bool { return o == ssa.Value(mpar) })
						}
						switch {
						case ci.Name == "Copy" && ci.Iface:
							return dstFromParam(call.Call.Args[0])
						case ci.Name == "Unmarshal":
							return dstFromParam(args[len(args)-1])
						case ci.Static != nil && (inFam[ci.Static] || core.PkgIs(ci.Static, "httpgrpc")) && ci.Static.Blocks != nil:
							for _, a := range call.Call.Args {
								if ts := core.TypeStr(a.Type()); (ts == "interface{}" || ts == "any") && dstFromParam(a) {
									return true
								}
							}
						}
						return false
					}
					n := 0
					core.Instrs(f, func(in ssa.Instruction) {
						if isDecode(in) {
							n++
						}
					})
					if n == 0 {
						continue
					}
					key := typeKey(nt) + "." + f.Name() + ":success-needs-one-decode"
					bad := ""
					// a step function with a (handled bool, err error) protocol: its (false, …) returns decide nothing —
					// provided every caller looks at the error only where handled was true
					handledProto := f.Signature.Results().Len() == 2 && core.TypeStr(f.Signature.Results().At(0).Type()) == "bool" && inFam[f]
					if handledProto {
						for g := range inFam {
							if g == nil || g.Blocks == nil {
								continue
							}
							for _, call := range core.CallsIn(g, func(_ *ssa.Call, ci core.CallInfo) bool { return ci.Static == f }) {
								var hv, ev ssa.Value
								for _, ref := range core.Refs(call) {
									if ex, isEx := ref.(*ssa.Extract); isEx {
										if ex.Index == 0 {
											hv = ex
										} else {
											ev = ex
										}
									}
								}
								if hv == nil {
									handledProto = false
									continue
								}
								if ev == nil {
									continue
								}
								for _, ref := range core.Refs(ev) {
									if _, isDbg := ref.(*ssa.DebugRef); isDbg {
										continue
									}
									if !core.GuardedBy(ref, func(fc core.Fact) bool { return fc.Op == token.ILLEGAL && !fc.Neg && fc.X == hv }) {
										handledProto = false
									}
								}
							}
						}
					}
					for _, r := range core.ErrReturns(f) {
						ev := r.Results[len(r.Results)-1]
						cl := core.ClassifyErr(ev, r)
						if cl == core.ErrNonNil {
							continue
						}
						if handledProto {
							if hb, isC := core.ConstBool(r.Results[0]); isC && !hb {
								continue
							}
						}
						// is this a success return (has a nil leaf, or returns a decode/probe result)?
						if !core.MustPass(core.Entry(f), r, isDecode) {
							// allowed: returns of an error value that is non-nil by construction were excluded; the rest must decode
							succ := false
							for _, l := range core.ErrLeaves(ev, r) {
								if l.Class == core.ErrNil {
									succ = true
								}
							}
							if succ {
								bad = "a nil (success) return is reachable without a decode into the caller's destination"
							}
						}
					}
					_, mx, _ := core.CountRange(core.Entry(f), func(in ssa.Instruction) bool {
						call, ok := in.(*ssa.Call)
						if !ok || !isDecode(in) {
							return false
						}
						ci := core.InfoOf(&call.Call)
						return ci.Name == "Copy" || ci.Name == "Unmarshal"
					}, nil)
					if mx > 1 {
						bad = fmt.Sprintf("up to %d decodes into the destination on one path (a later frame overwrites the delivered one)", mx)
					}
					c.Check(bad == "", key, f.Pos(), "every success return passes a decode into the caller's message; at most one direct decode per path", bad)
				}
			}
		}
		// decode helpers (package functions with a message destination parameter)
		for _, fn := range append(p.LibFuncs("httpgrpc"), p.LibFuncs("inprocgrpc")...) {
			if fn.Parent() != nil || fn.Signature.Recv() != nil || fn.Signature.Results().Len() != 1 || !core.IsErrorType(fn.Signature.Results().At(0).Type()) {
				continue
			}
			if isStreamTypeName(p, core.RecvName(fn)) {
				continue // a stream method written as a function: judged with its family above
			}
			var mpar *ssa.Parameter
			for _, pp := range fn.Params {
				if ts := core.TypeStr(pp.Type()); ts == "interface{}" || ts == "any" {
					mpar = pp
				}
			}
			if mpar == nil {
				continue
			}
			decs := core.CallsIn(fn, func(call *ssa.Call, ci core.CallInfo) bool {
				if ci.Name != "Unmarshal" && ci.Name != "Copy" {
					return false
				}
				for _, a := range core.Args(&call.Call) {
					if core.OriginIs(a, func(o ssa.Value) bool { return o == ssa.Value(mpar) }) {
						return true
					}
				}
				return false
			})
			if len(decs) == 0 {
				continue
			}
			key := core.FuncName(fn) + ":success-needs-decode"
			bad := ""
			isDec := func(in ssa.Instruction) bool {
				for _, d := range decs {
					if in == ssa.Instruction(d) {
						return true
					}
				}
				return false
			}
			for _, r := range core.Returns(fn) {
				if core.ClassifyErr(r.Results[0], r) == core.ErrNonNil {
					continue
				}
				if !core.MustPass(core.Entry(fn), r, isDec) {
					// a receive loop: nil only under a "got it" flag that is set after the decode and nowhere else
					underFlag := true
					for _, l := range expandLeaves(core.ErrLeaves(r.Results[0], r), 0) {
						if l.Class == core.ErrNonNil {
							continue
						}
						if !core.LeafGuarded(l, func(f core.Fact) bool {
							return f.Op == token.ILLEGAL && !f.Neg && flagSetOnlyAfter(f.X, fn, isDec)
						}) {
							underFlag = false
						}
					}
					if underFlag {
						continue
					}
					bad = "a possibly-nil return is reachable without decoding into the destination (e.g. a special case for some sizes): the caller's message keeps its previous content"
				}
			}
			c.Check(bad == "", key, fn.Pos(), "every possibly-nil return passes the decode into the destination", bad)
		}
		// a frame consumed from the peek slot is cleared before success is reported
		for _, nt := range streamTypes(p, "ClientStream", "RecvMsg") {
			for _, f := range methodFamily(p, nt, "RecvMsg") {
				mpar := msgParam(f)
				if mpar == nil {
					continue
				}
				for _, d := range decodeCalls(f, mpar) {
					// source from the peek slot?
					src := d.Call.Args[len(d.Call.Args)-1]
					fromPeek := core.OriginIs(src, func(o ssa.Value) bool {
						base, fld, ok := core.FieldOf(o)
						if !ok || fld != "data" {
							return false
						}
						return core.OriginIs(base, func(b ssa.Value) bool { _, f2, ok := core.FieldOf(b); return ok && f2 == "last" })
					})
					if !fromPeek {
						continue
					}
					key := typeKey(nt) + "." + f.Name() + ":peeked-frame-cleared"
					isClear := func(in ssa.Instruction) bool {
						st, ok := in.(*ssa.Store)
						if !ok {
							return false
						}
						_, fld, isF := core.FieldOf(st.Addr)
						return isF && fld == "last"
					}
					v := core.Walk(core.After(d), isClear, func(b *ssa.BasicBlock, si int) bool {
						iff, ok := b.Instrs[len(b.Instrs)-1].(*ssa.If)
						if !ok {
							return true
						}
						fc := core.CondFact(iff.Cond, si == 0)
						return !(fc.Op == token.NEQ && core.IsNilConst(fc.Y) && fc.X == ssa.Value(d))
					})
					bad := false
					for _, r := range core.Returns(f) {
						if v[r] {
							bad = true
						}
					}
					c.Check(!bad, key, d.Pos(), "after a successful copy from the peeked frame the slot is reassigned before returning", "a message copied from the peeked frame can be reported without clearing the peek slot: the same message is delivered again on the next receive (duplication; later messages never arrive)")
				}
			}
		}
		c.EndRule()
	}

	// ---------------------------------------------------------------- R4
	if c.Rule("R4", "order is preserved: every send to / receive from a message channel field happens with that direction's documented mutex held", 6) {
		var fns []*ssa.Function
		for _, s := range []string{"inprocgrpc", "httpgrpc", "internal", "."} {
			fns = append(fns, p.LibFuncs(s)...)
		}
		ls := core.NewLockSets(fns)
		lockOf := map[string]string{}
		for tk, locks := range guardTableOf(p) {
			tn := tk[strings.Index(tk, ".")+1:]
			for lk, fs := range locks {
				for _, f := range fs {
					lockOf[tn+"."+f] = tn + "." + lk
				}
			}
		}
		check := func(fn *ssa.Function, in ssa.Instruction, ch ssa.Value, what string) {
			for _, o := range core.Origins(ch) {
				base, f, ok := core.FieldOf(o)
				if !ok {
					continue
				}
				tn := core.NamedOf(base.Type())
				want, guarded := lockOf[tn+"."+f]
				key := fmt.Sprintf("%s:%s(%s.%s)", core.FuncName(fn), what, tn, f)
				if !guarded {
					// request channel of the server stream / rCh: single reader or single writer by construction
					c.OkTrivial(key, in.Pos(), "channel %s.%s has a single %s goroutine by construction (not in the guarded-by table)", tn, f, what)
					continue
				}
				held := ls.HeldAt(in)
				c.Check(held[want], key, in.Pos(), want+" held", fmt.Sprintf("%s on %s.%s without %s (held: %s): two concurrent callers could interleave frames", what, tn, f, want, core.HeldList(held)))
			}
		}
		for _, fn := range fns {
			for _, s := range sendSites([]*ssa.Function{fn}) {
				check(fn, s.instr, s.ch, "send")
			}
			if core.RecvName(fn) != "" {
				for _, r := range msgReceives(fn, core.RecvName(fn)) {
					var ch ssa.Value
					if r.sel != nil {
						ch = r.sel.States[r.selIdx].Chan
					} else if r.call != nil {
						for _, a := range r.call.Call.Args {
							if _, isCh := a.Type().Underlying().(*types.Chan); isCh {
								ch = a
							}
						}
					}
					if ch != nil {
						check(fn, r.instr, ch, "receive")
					}
				}
			}
		}
		c.EndRule()
	}

	// ---------------------------------------------------------------- R5
	if c.Rule("R5", "HTTP reader and writer agree on the framing: same byte order and integer width, size = ±len(b) of the slice written next (negative iff end), unary body = the marshalled bytes whose length is announced", 4) {
		c01Framing(c)
		c.EndRule()
	}

	// ---------------------------------------------------------------- R11
	if c.Rule("R11", "HTTP: a call's request is put on the wire at most once: on no path of a function that issues the request (RoundTrip / Do, directly or through a helper) is a second issue reachable — the library cannot know that a request whose reply never arrived was not handled, so a re-sent request can deliver the caller's message twice", 2) {
		n := 0
		for _, fn := range p.LibFuncs("httpgrpc") {
			isIssue := func(in ssa.Instruction) bool { return isRequestIssue(in) }
			any := false
			core.Instrs(fn, func(in ssa.Instruction) {
				if isIssue(in) {
					any = true
				}
			})
			if !any {
				continue
			}
			n++
			_, mx, ok := core.CountRange(core.Entry(fn), isIssue, nil)
			key := core.FuncName(fn) + ":request-issued-at-most-once"
			switch {
			case !ok:
				c.Undecided(key, fn.Pos(), "no return reachable in a function that issues the request")
			case mx > 1:
				c.Fail(key, fn.Pos(), "the request can be issued more than once on one path (a retry, or a loop around the round trip): a request the server already handled is handled again, yet the call reports one delivery")
			default:
				c.Ok(key, fn.Pos(), "at most one issue on every path")
			}
		}
		if n < 2 {
			c.Fail("httpgrpc:request-issue-sites", token.NoPos, "ANCHOR-MISSING: expected the unary and the streaming request issue, found %d", n)
		}
		c.EndRule()
	}

	// ---------------------------------------------------------------- R12
	if c.Rule("R12", "HTTP: a frame leaves the process when it is written: the frame writer tries to flush after every payload write (a writer that cannot flush is no error), and what the server writes the reply through is the ResponseWriter its handler was given or something that keeps its Flush method — net/http buffers, and an unflushed frame reaches the client only when the handler returns", 4) {
		c01Flush(c)
		c.EndRule()
	}

	// ---------------------------------------------------------------- R14
	if c.Rule("R14", "HTTP client: the reply reader hands each message to the application synchronously — the message channel of the client stream is made without capacity: the stream's completion (done, final status) is published when the reader returns, and a receive that finds the stream done reports the final status at once; a message parked in a buffered channel at that moment would never be delivered", 1) {
		n := 0
		for _, nt := range streamTypes(p, "ClientStream", "RecvMsg") {
			if pkgSuffixOf(nt) != "httpgrpc" {
				continue
			}
			tn := nt.Obj().Name()
			for _, fn := range p.LibFuncs("httpgrpc") {
				core.Instrs(fn, func(in ssa.Instruction) {
					st, ok := in.(*ssa.Store)
					if !ok {
						return
					}
					base, fld, isF := core.FieldOf(st.Addr)
					if !isF || core.NamedOf(base.Type()) != tn {
						return
					}
					ch, isCh := st.Val.Type().Underlying().(*types.Chan)
					if !isCh || core.TypeStr(ch.Elem()) == "struct{}" {
						return
					}
					for _, o := range core.Origins(st.Val) {
						mk, isMk := o.(*ssa.MakeChan)
						if !isMk {
							continue
						}
						n++
						k, isC := core.ConstInt(mk.Size)
						c.Check(isC && k == 0, core.FuncName(fn)+":"+fld+":unbuffered", mk.Pos(), "the message channel is unbuffered", "the client stream's message channel "+fld+" is made with a capacity: messages the reply reader has parked in it when it publishes the end of the stream are never received — the next receive sees 'done' and reports the final status")
					}
				})
			}
		}
		if n == 0 {
			c.Missing("make of the HTTP client stream's message channel")
		}
		c.EndRule()
	}

	// ---------------------------------------------------------------- R8, R9 (shared)
	// nothing is lost on the way: the in-process header accessor takes at most one frame and never parks over it
	// (C20/R6), and the HTTP reply reader cannot end "successfully" without the trailer (C02/R1: a lost read error
	// makes a prefix of the messages look like the whole stream)
	c.Borrow("C20", map[string]string{"R6": "R8"}, c20)
	c.Borrow("C02", map[string]string{"R1": "R9"}, c02)

	// ---------------------------------------------------------------- R10 (shared)
	// "each equal to the message sent": every cloner route replaces the destination, none merges into what a
	// reused destination still holds (C18/R1)
	c.Borrow("C18", map[string]string{"R1": "R10"}, c18)

	// ---------------------------------------------------------------- R13 (shared)
	// "intact": over HTTP a message travels through the codec the content type names, and that is grpc's registered
	// proto codec (or the JSON codec) on both ends (C11/R3) — a codec of the package's own making need not keep what
	// the registered one keeps (unknown fields)
	c.Borrow("C11", map[string]string{"R3": "R13"}, c11)

}

// c01Sends: R2.
func c01Sends(c *core.Ctx) {
	p := c.P
	// deliverers
	// (i) frame writers: blocking select with one send arm on the channel parameter
	for _, fn := range p.LibFuncs("inprocgrpc") {
		if fn.Parent() != nil || sendsOnParam(fn) < 0 {
			continue
		}
		key := core.FuncName(fn) + ":deliverer"
		var sel *ssa.Select
		sendIdx := -1
		core.Instrs(fn, func(in ssa.Instruction) {
			if s, ok := in.(*ssa.Select); ok {
				for i, st := range s.States {
					if st.Dir == types.SendOnly {
						sel, sendIdx = s, i
					}
				}
			}
		})
		if sel == nil {
			c.Undecided(key, fn.Pos(), "frame writer without a select: unrecognised idiom")
			continue
		}
		st := sel.States[sendIdx]
		_, chIsPar := st.Chan.(*ssa.Parameter)
		_, mIsPar := st.Send.(*ssa.Parameter)
		bad := ""
		if !sel.Blocking {
			bad = "select has a default arm"
		}
		if !chIsPar || !mIsPar {
			bad = "the send is not 'channel parameter <- frame parameter'"
		}
		// returns reachable through a non-send arm must be non-nil
		var idxV ssa.Value
		for _, r := range core.Refs(sel) {
			if ex, ok := r.(*ssa.Extract); ok && ex.Index == 0 {
				idxV = ex
			}
		}
		for i := range sel.States {
			if i == sendIdx || idxV == nil {
				continue
			}
			// paths taking arm i: edges "idx == i" true; forbid edges "idx == sendIdx" true and other arms
			armI := int64(i)
			v := core.Walk(core.After(sel), nil, func(b *ssa.BasicBlock, si int) bool {
				iff, ok := b.Instrs[len(b.Instrs)-1].(*ssa.If)
				if !ok {
					return true
				}
				f := core.CondFact(iff.Cond, si == 0)
				if f.X == idxV {
					k, isC := core.ConstInt(f.Y)
					if isC && f.Op == token.EQL && k != armI {
						return false
					}
					if isC && f.Op == token.NEQ && k == armI {
						return false
					}
				}
				return true
			})
			for _, r := range core.Returns(fn) {
				if !v[r] {
					continue
				}
				okRet := true
				for _, l := range core.ErrLeaves(r.Results[0], r) {
					if l.Class == core.ErrNonNil {
						continue
					}
					// X.Err() of the context whose Done() is this arm: non-nil by the context axiom
					if call, ok := l.V.(*ssa.Call); ok && call.Call.IsInvoke() && call.Call.Method.Name() == "Err" {
						armCtx := sel.States[i].Chan
						if dc, ok := armCtx.(*ssa.Call); ok && dc.Call.IsInvoke() && dc.Call.Method.Name() == "Done" && (dc.Call.Value == call.Call.Value || core.SameVal(dc.Call.Value, call.Call.Value)) {
							continue
						}
					}
					okRet = false
				}
				if !okRet {
					bad = fmt.Sprintf("arm %d (not the send) can lead to a nil return", i)
				}
			}
		}
		c.Check(bad == "", key, fn.Pos(), "returns nil only if the frame was sent (other arms return non-nil: sentinel, or ctx.Err() after ctx.Done())", "frame writer may report success without having sent the frame: "+bad)
	}
	// (ii) the HTTP frame writer
	for _, fn := range p.LibFuncs("httpgrpc") {
		if wi := ioParamIdx(fn, "io.Writer"); fn.Parent() != nil || wi < 0 || len(fn.Params) < wi+3 {
			continue
		}
		var marshal, write *ssa.Call
		core.Instrs(fn, func(in ssa.Instruction) {
			if call, ok := in.(*ssa.Call); ok {
				ci := core.InfoOf(&call.Call)
				if ci.Iface && ci.Name == "Marshal" {
					marshal = call
				}
				if ci.Iface && ci.Name == "Write" && call.Call.Value == ssa.Value(fn.Params[0]) {
					write = call
				}
			}
		})
		if marshal == nil || write == nil {
			continue
		}
		key := core.FuncName(fn) + ":deliverer"
		bad := ""
		if !core.OriginIs(write.Call.Args[0], func(o ssa.Value) bool { cr, idx, ok := core.CallResult(o); return ok && cr == marshal && idx == 0 }) {
			bad = "the bytes written are not the ones Marshal produced"
		}
		for _, r := range core.Returns(fn) {
			if core.ClassifyErr(r.Results[0], r) == core.ErrNonNil {
				continue
			}
			if !core.MustPass(core.Entry(fn), r, func(in ssa.Instruction) bool { return in == ssa.Instruction(write) }) {
				bad = "a possibly-nil return is reachable without the payload having been written"
			}
		}
		c.Check(bad == "", key, fn.Pos(), "possibly-nil returns only after Write(Marshal(m)); earlier exits return the non-nil error", "HTTP frame writer: "+bad)
	}
	// SendMsg of every stream type
	for _, iface := range []string{"ClientStream", "ServerStream"} {
		for _, nt := range streamTypes(p, iface, "RecvMsg") {
			fn := declaredMethod(p, nt, "SendMsg")
			if fn == nil {
				continue
			}
			mpar := msgParam(fn)
			key := typeKey(nt) + ".SendMsg:success-needs-handover"
			isDeliver := func(in ssa.Instruction) bool {
				call, ok := in.(*ssa.Call)
				if !ok {
					return false
				}
				ci := core.InfoOf(&call.Call)
				if ci.Static == nil {
					return false
				}
				// in-process: frame writer given frame{data: Clone(m)}
				// ... or a helper of the package that clones its parameter and writes the data frame on every
				// successful path, given the message
				for ai, a := range call.Call.Args {
					if core.OriginIs(a, func(x ssa.Value) bool { return x == ssa.Value(mpar) }) && inprocDataWriteOfParam(ci.Static, ai, 0) && sendsOnParam(ci.Static) < 0 {
						return true
					}
				}
				if isInprocFrameWriter(ci.Static) {
					for _, a := range call.Call.Args {
						if core.NamedOf(a.Type()) == "frame" {
							dv := frameFieldValue(a, "data")
							if dv != nil && core.OriginIs(dv, func(o ssa.Value) bool {
								cr, _, ok := core.CallResult(o)
								return ok && isClonerCall(&cr.Call, "Clone") && core.OriginIs(cr.Call.Args[0], func(x ssa.Value) bool { return x == ssa.Value(mpar) })
							}) {
								return true
							}
						}
					}
				}
				// HTTP: frame writer given m itself and end == false
				if isW, end := httpFrameWriteCall(call); isW && end == 0 {
					for _, a := range call.Call.Args {
						if core.OriginIs(a, func(x ssa.Value) bool { return x == ssa.Value(mpar) }) {
							return true
						}
					}
				}
				return false
			}
			n := 0
			core.Instrs(fn, func(in ssa.Instruction) {
				if isDeliver(in) {
					n++
				}
			})
			if n == 0 {
				c.Fail(key, fn.Pos(), "no hand-over of the (cloned/encoded) message found in SendMsg")
				continue
			}
			bad := ""
			for _, r := range core.Returns(fn) {
				if core.ClassifyErr(r.Results[0], r) == core.ErrNonNil {
					continue
				}
				if !core.MustPass(core.Entry(fn), r, isDeliver) {
					succ := false
					for _, l := range core.ErrLeaves(r.Results[0], r) {
						if l.Class != core.ErrNonNil {
							succ = true
						}
					}
					if succ {
						bad = "a possibly-nil return is reachable without the message having been handed over"
					}
				}
			}
			_, mx, _ := core.CountRange(core.Entry(fn), isDeliver, nil)
			if mx > 1 {
				bad = fmt.Sprintf("the message can be handed over %d times on one path (duplicate delivery)", mx)
			}
			c.Check(bad == "", key, fn.Pos(), "every possibly-nil return passes exactly one hand-over of the cloned/encoded message", bad)
		}
	}
}

// c01Framing: R5.
func c01Framing(c *core.Ctx) {
	p := c.P
	type end struct {
		fn    *ssa.Function
		call  *ssa.Call
		order string
		typ   string
	}
	var wr, rd []end
	for _, fn := range p.LibFuncs("httpgrpc") {
		for _, call := range core.CallsIn(fn, func(_ *ssa.Call, ci core.CallInfo) bool {
			return ci.Is("encoding/binary.Write") || ci.Is("encoding/binary.Read")
		}) {
			e := end{fn: fn, call: call}
			for _, o := range core.Origins(call.Call.Args[1]) {
				if g, ok := core.GlobalLoad(o); ok {
					e.order = g
				}
			}
			e.typ = core.TypeStr(core.Strip(call.Call.Args[2]).Type())
			if core.InfoOf(&call.Call).Is("encoding/binary.Write") {
				wr = append(wr, e)
			} else {
				rd = append(rd, e)
			}
		}
	}
	if len(wr) == 0 || len(rd) == 0 {
		c.Fail("httpgrpc:preface", token.NoPos, "ANCHOR-MISSING: size preface writer/reader (binary.Write / binary.Read) not found")
		return
	}
	for _, w := range wr {
		for _, r := range rd {
			c.Check(w.order != "" && w.order == r.order, "preface:byte-order", w.call.Pos(), "writer and reader use "+w.order, fmt.Sprintf("writer uses %s, reader uses %s", w.order, r.order))
			c.Check("*"+w.typ == r.typ && (w.typ == "int32"), "preface:int-type", w.call.Pos(), "writer writes int32, reader reads into *int32 (signed: negative marks the trailer)", fmt.Sprintf("writer writes %s, reader reads into %s", w.typ, r.typ))
		}
	}
	// frame writer: size = ±len(b) of the written slice, negated iff end
	for _, fn := range p.LibFuncs("httpgrpc") {
		if fn.Parent() != nil || !isHTTPFrameWriter(fn) {
			continue
		}
		var write, pre *ssa.Call
		var szArg ssa.Value
		core.Instrs(fn, func(in ssa.Instruction) {
			if call, ok := in.(*ssa.Call); ok {
				ci := core.InfoOf(&call.Call)
				if ci.Iface && ci.Name == "Write" {
					write = call
				}
				if ci.Static != nil {
					for _, w := range wr {
						if ci.Static == w.fn && ci.Static != fn {
							pre = call
							szArg = call.Call.Args[1]
						}
					}
				}
				// the preface written in place
				if ci.Is("encoding/binary.Write") && len(call.Call.Args) == 3 {
					pre = call
					szArg = core.Strip(call.Call.Args[2])
				}
			}
		})
		if write == nil || pre == nil {
			continue
		}
		key := core.FuncName(fn)
		sz := stripNum(szArg)
		okLen, okNeg := false, false
		if phi, ok := szArg.(*ssa.Convert); ok {
			if ph, ok := phi.X.(*ssa.Phi); ok {
				for i, e := range ph.Edges {
					if lx, isLen := lenArg(stripNum(e)); isLen && lx == write.Call.Args[0] {
						okLen = true
					}
					if u, isNeg := e.(*ssa.UnOp); isNeg && u.Op == token.SUB {
						pred := ph.Block().Preds[i]
						last := pred.Instrs[len(pred.Instrs)-1]
						endPar := fn.Params[len(fn.Params)-1]
						endIsBool, endK := true, int64(0)
						if ei, isB, k, okE := frameWriterEndParam(fn); okE {
							endPar, endIsBool, endK = fn.Params[ei], isB, k
						}
						if core.GuardedBy(last, func(f core.Fact) bool {
							if endIsBool && f.Op == token.ILLEGAL && !f.Neg && f.X == ssa.Value(endPar) {
								return true
							}
							if !endIsBool && f.Op == token.EQL && f.X == ssa.Value(endPar) {
								if k, isC := core.ConstInt(f.Y); isC && k == endK {
									return true
								}
							}
							// negating a zero size is harmless (-0 == 0)
							if k, isC := core.ConstInt(f.Y); isC && k == 0 && f.Op == token.EQL {
								_, isLen := lenArg(stripNum(f.X))
								return isLen
							}
							return false
						}) {
							okNeg = true
						}
					} else {
						// positive edge must be the !end path
					}
				}
			}
		}
		_ = sz
		c.Check(okLen, key+":size-is-len", pre.Pos(), "the preface carries len(b) of the very slice written next", "the size preface is not len(b) of the slice that is written")
		c.Check(okNeg, key+":negative-iff-end", pre.Pos(), "the size is negated exactly on the end==true edge", "the size is not negated exactly when end is true: the reader could not tell the trailer from a message")
		c.Check(core.MustPass(core.Entry(fn), write, func(in ssa.Instruction) bool { return in == ssa.Instruction(pre) }), key+":preface-before-payload", write.Pos(), "preface written before the payload on every path", "payload can be written without its size preface")
	}
	// unary server: Content-Length = len(b), body = b
	for _, hc := range httpHandlerClosures(p) {
		if hc.Stream {
			continue
		}
		key := core.FuncName(hc.Fn) + ":content-length"
		var bodyWrite *ssa.Call
		for _, call := range core.CallsIn(hc.Fn, func(call *ssa.Call, ci core.CallInfo) bool { return ci.Iface && ci.Name == "Write" }) {
			bodyWrite = call
		}
		if bodyWrite == nil {
			c.Fail(key, hc.Fn.Pos(), "no body write in the unary handler")
			continue
		}
		b := bodyWrite.Call.Args[0]
		okCL := false
		for _, sc := range core.CallsIn(hc.Fn, func(call *ssa.Call, ci core.CallInfo) bool { return ci.Is("net/http.Header.Set") }) {
			k, _ := core.ConstString(sc.Call.Args[1])
			if !strings.EqualFold(k, "content-length") {
				continue
			}
			if vc, _, ok := core.CallResult(sc.Call.Args[2]); ok {
				ci := core.InfoOf(&vc.Call)
				switch {
				case ci.Is("fmt.Sprintf") || ci.Is("fmt.Sprint"):
					if args, unp := core.VariadicArgs(vc.Call.Args[len(vc.Call.Args)-1]); unp && len(args) == 1 {
						if lx, isLen := lenArg(core.Strip(args[0])); isLen && (lx == b || core.SameVal(lx, b)) {
							okCL = true
						}
					}
				case ci.Is("strconv.Itoa") || ci.Is("strconv.FormatInt") || ci.Is("strconv.FormatUint"):
					// decimal rendering of len(b)
					if ci.Is("strconv.Itoa") || isConstInt(vc.Call.Args[1], 10) {
						if lx, isLen := lenArg(stripCT(vc.Call.Args[0])); isLen && (lx == b || core.SameVal(lx, b)) {
							okCL = true
						}
					}
				}
			}
		}
		c.Check(okCL, key, bodyWrite.Pos(), "Content-Length announces len(b) of the very bytes written", "Content-Length is not len(b) of the bytes written as the body")
		okMarshal := core.OriginIs(b, func(o ssa.Value) bool {
			cr, idx, ok := core.CallResult(o)
			return ok && idx == 0 && core.InfoOf(&cr.Call).Name == "Marshal"
		})
		c.Check(okMarshal, core.FuncName(hc.Fn)+":body-is-marshalled-response", bodyWrite.Pos(), "the body is codec.Marshal(resp)", "the body written is not the marshalled response")
	}
}

// bufferish explains why a value of type t can hold or recycle message memory
// ("" if it cannot): pools, byte buffers, channels, byte/message containers,
// and structs or pointers that contain one.
func bufferish(t types.Type, depth int) string {
	if depth > 4 {
		return ""
	}
	switch q := core.QualNamedOf(t); q {
	case "sync.Pool", "sync.Map", "bytes.Buffer", "container/list.List", "container/ring.Ring", "strings.Builder", "bufio.Reader", "bufio.Writer", "sync/atomic.Value":
		return q
	}
	if strings.HasPrefix(core.QualNamedOf(t), "sync/atomic.Pointer") {
		return "sync/atomic.Pointer"
	}
	switch u := t.Underlying().(type) {
	case *types.Chan:
		return "a channel"
	case *types.Slice:
		if isMsgish(u.Elem()) || core.TypeStr(u.Elem()) == "byte" || core.TypeStr(u.Elem()) == "uint8" {
			return "a slice of bytes/messages"
		}
		return bufferish(u.Elem(), depth+1)
	case *types.Array:
		if core.TypeStr(u.Elem()) == "byte" || core.TypeStr(u.Elem()) == "uint8" || isMsgish(u.Elem()) {
			return "an array of bytes/messages"
		}
		return bufferish(u.Elem(), depth+1)
	case *types.Map:
		if isMsgish(u.Elem()) {
			return "a map of messages"
		}
		return bufferish(u.Elem(), depth+1)
	case *types.Pointer:
		return bufferish(u.Elem(), depth+1)
	case *types.Struct:
		// only the repo's own structs and the std containers above are opened; foreign option structs
		// (protojson options, peer.Peer) are configuration values
		if q := core.QualNamedOf(t); q != "" && !strings.HasPrefix(q, core.ModulePath) {
			return ""
		}
		for i := 0; i < u.NumFields(); i++ {
			if w := bufferish(u.Field(i).Type(), depth+1); w != "" {
				return "field " + u.Field(i).Name() + ": " + w
			}
		}
	}
	return ""
}

func isConstInt(v ssa.Value, k int64) bool {
	n, ok := core.ConstInt(v)
	return ok && n == k
}

// isRequestIssue: in puts an HTTP request on the wire: RoundTrip / Do on an
// interface or an *http.Client, or a call of a module function that does.
func isRequestIssue(in ssa.Instruction) bool {
	cc := core.CallOf(in)
	if cc == nil {
		return false
	}
	ci := core.InfoOf(cc)
	if ci.Iface && ci.Name == "RoundTrip" {
		return true
	}
	if ci.Is("net/http.Client.Do") || ci.Is("net/http.Transport.RoundTrip") {
		return true
	}
	if ci.Static != nil && strings.HasPrefix(ci.Pkg, core.ModulePath) && ci.Static.Parent() == nil && mustCallRoundTrip(ci.Static, 0) {
		if _, isGo := in.(*ssa.Go); isGo {
			return false // the reader goroutine is started once; it is judged as a function of its own
		}
		return true
	}
	return false
}
