// Package rules holds one file per property; each registers a function that
// emits obligations into a core.Ctx.
package rules

import (
	"sort"

	"verif/checker/internal/core"
)

var registry = map[string]func(*core.Ctx){}

func register(id string, f func(*core.Ctx)) { registry[id] = f }

// Get returns the rule function of a property.
func Get(id string) func(*core.Ctx) { return registry[id] }

// IDs lists the registered properties.
func IDs() []string {
	var out []string
	for id := range registry {
		out = append(out, id)
	}
	sort.Strings(out)
	return out
}
