package rules

import (
	"fmt"
	"go/token"
	"go/types"
	"strings"

	"golang.org/x/tools/go/ssa"

	"verif/checker/internal/core"
)

func init() { register("C16", c16) }

// serverDecorator: the root-package function (*ServiceDesc, UnaryServerInterceptor,
// StreamServerInterceptor) *ServiceDesc.
func serverDecorator(p *core.Prog) *ssa.Function {
	for _, fn := range p.LibFuncs(".") {
		if fn.Parent() != nil || fn.Signature.Recv() != nil || len(fn.Params) != 3 || fn.Signature.Results().Len() != 1 {
			continue
		}
		if core.TypeStr(fn.Params[0].Type()) == "*"+grpcPkg+".ServiceDesc" && core.TypeStr(fn.Signature.Results().At(0).Type()) == "*"+grpcPkg+".ServiceDesc" {
			return fn
		}
	}
	return nil
}

// calledValueIs: the call's callee value originates (through cells/closures) from v.
func calleeOrigins(call *ssa.Call) []ssa.Value {
	var out []ssa.Value
	for _, o := range core.Origins(call.Call.Value) {
		r := core.ResolveFree(o)
		if r != o {
			// bound in the enclosing function (or at a factory's only call): what was bound there
			out = append(out, core.Origins(r)...)
			continue
		}
		out = append(out, r)
	}
	return out
}

// paramOrCellOf: v is parameter par of its function, directly or through the
// parameter's spill cell / a captured reference to it.
// standsFor: value o (possibly seen inside nested literals or inside a single-use step helper) is the parameter
// par: directly, through capture cells, or as the helper's parameter bound to it at the helper's call site.
func standsFor(o ssa.Value, par *ssa.Parameter, depth int) bool {
	if o == ssa.Value(par) {
		return true
	}
	if depth > 5 {
		return false
	}
	if u, isU := o.(*ssa.UnOp); isU && u.Op == token.MUL {
		// a load of a (captured) cell that holds the parameter
		if al, ok := core.ResolveFree(u.X).(*ssa.Alloc); ok {
			sts := core.StoresTo(al)
			return len(sts) == 1 && standsFor(sts[0].Val, par, depth+1)
		}
		// a field of the environment struct of a method that stands for a literal
		if fa, isFA := u.X.(*ssa.FieldAddr); isFA {
			if vals, ok := core.EnvFieldStores(fa); ok {
				for _, sv := range vals {
					if !standsFor(sv, par, depth+1) {
						return false
					}
				}
				return true
			}
		}
		return false
	}
	r := core.ResolveFree(o)
	if al, ok := r.(*ssa.Alloc); ok {
		sts := core.StoresTo(al)
		if len(sts) == 1 {
			return standsFor(sts[0].Val, par, depth+1)
		}
		return false
	}
	if r != o {
		return core.AllOrigins(r, func(o2 ssa.Value) bool { return o2 != o && standsFor(o2, par, depth+1) })
	}
	return false
}

func isParamVal(v ssa.Value, par *ssa.Parameter) bool {
	return core.AllOrigins(v, func(o ssa.Value) bool {
		if o == ssa.Value(par) {
			return true
		}
		// a parameter of a single-use step helper stands for the argument at its call site
		if r := core.ResolveFree(o); r != o {
			return core.AllOrigins(r, func(o2 ssa.Value) bool { return o2 == ssa.Value(par) })
		}
		return false
	})
}

func c16(c *core.Ctx) {
	p := c.P
	c.Explain = "C16: the decorator never stores through its input description (stores go to a local copy whose slices are freshly made before any element store); the continuation chain of the decorated unary handler is extracted from SSA closures: [decorating → original] without a transport interceptor, [transport → decorating → original] with one, each link called exactly once with ctx/req/info passed positionally and results returned unchanged; the three sites that build a grpc.StreamServerInfo map the flags uncrossed and the full method name from the dispatched entry; identity on both-nil; the transports hand over their configured interceptor exactly once."
	c.NotDec = []string{"behaviour of user interceptors", "value-level 'unchanged' beyond positional pass-through"}
	dec := serverDecorator(p)
	if dec == nil {
		c.Rule("R0", "decorator exists", 1)
		c.Missing("server decorator func(*grpc.ServiceDesc, UnaryServerInterceptor, StreamServerInterceptor) *grpc.ServiceDesc")
		c.EndRule()
		return
	}
	dk := core.FuncName(dec)
	inPar := dec.Params[0]

	// ---------------------------------------------------------------- R1
	if c.Rule("R1", "the input description is not written: every store of the decorator goes to a local variable or to a slice freshly made in it; element stores into Methods/Streams are preceded by the assignment of a fresh make to that field of the copy", 3) {
		n, bad := 0, ""
		core.Instrs(dec, func(in ssa.Instruction) {
			st, ok := in.(*ssa.Store)
			if !ok {
				return
			}
			n++
			root := storeRoot(st.Addr)
			switch r := root.(type) {
			case *ssa.Alloc:
				// local: fine; but an IndexAddr into a slice loaded from the local copy needs the fresh-make argument
				if ia := indexAddrIn(st.Addr); ia != nil {
					sl := ia.X
					fresh := core.AllOrigins(sl, func(o ssa.Value) bool { _, isMk := o.(*ssa.MakeSlice); return isMk })
					if _, isLocalArray := sl.(*ssa.Alloc); isLocalArray {
						fresh = true // a local array (e.g. variadic argument packing)
					}
					if !fresh {
						// the slice is loaded from a field of the local copy: a fresh make must have been
						// assigned to that field on every path to this element store
						if base, fld, ok := core.FieldOf(sl); ok && base == root {
							fresh = core.MustPass(core.Entry(dec), st, func(x ssa.Instruction) bool {
								s2, ok := x.(*ssa.Store)
								if !ok {
									return false
								}
								b2, f2, ok := core.FieldOf(s2.Addr)
								if !ok || b2 != base || f2 != fld {
									return false
								}
								_, isMk := s2.Val.(*ssa.MakeSlice)
								return isMk
							})
						}
					}
					if !fresh {
						bad = "an element store goes into a slice that is not freshly made in the decorator (the backing array is shared with the input description)"
					}
				}
				_ = r
			case *ssa.MakeSlice:
			case *ssa.Parameter:
				bad = "a store goes through the parameter " + r.Name() + " (the caller's description is modified)"
			default:
				if root != nil && core.OriginIs(root, func(o ssa.Value) bool { return o == ssa.Value(inPar) }) {
					bad = "a store goes through memory reachable from the input description"
				}
			}
		})
		c.Check(bad == "" && n > 0, dk+":input-not-written", dec.Pos(), fmt.Sprintf("%d stores, all into locals or freshly made slices", n), bad)
		// the copy: *svcDesc is loaded whole into a local
		copied := false
		core.Instrs(dec, func(in ssa.Instruction) {
			if u, ok := in.(*ssa.UnOp); ok && u.Op == token.MUL && u.X == ssa.Value(inPar) {
				copied = true
			}
		})
		c.Check(copied, dk+":copies-input", dec.Pos(), "the description is copied by value", "the decorator does not copy the input description")
		// returned value is the address of the local copy (on the non-identity paths)
		okRet := true
		for _, r := range core.Returns(dec) {
			v := r.Results[0]
			if v == ssa.Value(inPar) {
				continue
			}
			if _, isAl := v.(*ssa.Alloc); !isAl {
				okRet = false
			}
		}
		c.Check(okRet, dk+":returns-copy", dec.Pos(), "returns the input (identity) or the address of the local copy", "returns something other than the input or the local copy")
		c.EndRule()
	}

	// closures of the decorator
	var unaryWrap, streamWrap *ssa.Function
	// the literals of the decorator itself, and of the single-use step functions it is split into
	// (interceptMethods / interceptStreams): what a "split function" clean-up leaves behind
	litHosts := []*ssa.Function{dec}
	for _, h := range core.HelperCallsOf(dec) {
		if h.Callee != nil && h.Callee.Blocks != nil && core.PkgIs(h.Callee, ".") && core.InlineSite[h.Callee] != nil {
			litHosts = append(litHosts, h.Callee)
		}
	}
	for _, host := range litHosts {
		lits := append([]*ssa.Function{}, host.AnonFuncs...)
		// a method whose only use is the method value taken of a struct built here stands for a literal
		core.Instrs(host, func(in ssa.Instruction) {
			if _, isMC := in.(*ssa.MakeClosure); isMC {
				if g := core.InlinedAt[in]; g != nil {
					lits = append(lits, g)
				}
			}
		})
		for _, a := range lits {
			switch len(argParams(a)) {
			case 4:
				if unaryWrap == nil {
					unaryWrap = a
				}
			case 2:
				if streamWrap == nil {
					streamWrap = a
				}
			}
		}
	}

	// ---------------------------------------------------------------- R2
	if c.Rule("R2", "the chain order: without a transport interceptor the original handler gets the decorating interceptor; with one it gets a combined interceptor that calls the transport's first, whose continuation calls the decorating one with the real handler; each exactly once, arguments positional, results unchanged; streams: decorating(srv, stream, info, original) exactly once", 8) {
		if unaryWrap == nil || streamWrap == nil {
			c.Missing("decorated unary/stream handler literals in " + dk)
		} else {
			uk := core.FuncName(unaryWrap)
			// the original handler call(s): one on every path; the early-return form has one per edge of the transport test
			origs := core.CallsIn(unaryWrap, func(call *ssa.Call, ci core.CallInfo) bool { return ci.Dyn && len(call.Call.Args) == 4 })
			var orig *ssa.Call
			if len(origs) > 0 {
				orig = origs[0]
			}
			if orig == nil {
				c.Fail(uk+":calls-original", unaryWrap.Pos(), "decorated unary handler does not call the original handler")
			} else {
				mn, mx, ok := core.CountRange(core.Entry(unaryWrap), func(in ssa.Instruction) bool {
					call, isC := in.(*ssa.Call)
					return isC && core.InfoOf(&call.Call).Dyn
				}, nil)
				c.Check(ok && mn == 1 && mx == 1, uk+":original-once", orig.Pos(), "exactly one dynamic call (the original handler) on every path", fmt.Sprintf("the decorated handler makes between %d and %d dynamic calls, want exactly the one call of the original handler", mn, mx))
				transportPar := argParams(unaryWrap)[3]
				okCallee, okArgs := true, true
				type alt struct {
					v  ssa.Value
					at ssa.Instruction // where the choice of this value is decided
					// for a φ edge the edge's own condition counts (succ); for a plain argument the call site
					succ *ssa.BasicBlock
				}
				var alts []alt
				for _, oc := range origs {
					// callee is the captured original handler (a cell stored from md.Handler of the input)
					isOrigCallee := false
					for _, o := range calleeOrigins(oc) {
						if _, f, ok := core.FieldOf(o); ok && f == "Handler" {
							isOrigCallee = true
						}
					}
					if !isOrigCallee {
						okCallee = false
					}
					for i := 0; i < 3; i++ {
						if !isParamVal(oc.Call.Args[i], argParams(unaryWrap)[i]) {
							okArgs = false
						}
					}
					if !returnsCall(unaryWrap, oc) {
						okArgs = false
					}
					a4 := oc.Call.Args[3]
					// the choice may be made by a step helper of the package (chain(outer, inner)): its returns are the
					// alternatives, decided where they are returned
					if hc, isCall := a4.(*ssa.Call); isCall {
						if h := hc.Call.StaticCallee(); h != nil && h.Blocks != nil && core.PkgIs(h, ".") && core.InlineSite[h] != nil {
							for _, r := range core.Returns(h) {
								if len(r.Results) == 1 {
									alts = append(alts, alt{r.Results[0], r, nil})
								}
							}
							continue
						}
					}
					if phi, isPhi := a4.(*ssa.Phi); isPhi {
						for i, e := range phi.Edges {
							pred := phi.Block().Preds[i]
							alts = append(alts, alt{e, pred.Instrs[len(pred.Instrs)-1], phi.Block()})
						}
					} else {
						alts = append(alts, alt{a4, oc, nil})
					}
				}
				c.Check(okCallee, uk+":callee-is-original", orig.Pos(), "the callee is the Handler field of the input's method entry captured per iteration", "the function called is not the original handler of this entry")
				c.Check(okArgs, uk+":pass-through", orig.Pos(), "srv, ctx, dec forwarded positionally; results returned unchanged", "srv/ctx/dec are not forwarded positionally or the results are altered")
				isDecorating := func(v ssa.Value) bool {
					return core.AllOrigins(v, func(o ssa.Value) bool { return standsFor(o, dec.Params[1], 0) })
				}
				guardedAt := func(a alt, op token.Token) bool {
					pred := func(f core.Fact) bool {
						return f.Op == op && core.IsNilConst(f.Y) && isParamVal(f.X, transportPar)
					}
					return core.LeafGuarded(core.ErrLeaf{V: a.v, At: a.at, Succ: a.succ}, pred)
				}
				var direct, combined ssa.Value
				var combFn *ssa.Function
				okDirect, okCombinedGuard := true, true
				// an alternative that is the result of a single-use chain helper which always returns its literal: the
				// literal stands for the call (the choice was made by the caller, at the alternative's own edge)
				for i := range alts {
					if hc, isCall := alts[i].v.(*ssa.Call); isCall {
						if h := hc.Call.StaticCallee(); h != nil && h.Blocks != nil && core.PkgIs(h, ".") && core.InlineSite[h] != nil {
							rets := core.Returns(h)
							if len(rets) == 1 && len(rets[0].Results) == 1 && closureOfValue(rets[0].Results[0]) != nil {
								alts[i].v = rets[0].Results[0]
							}
						}
					}
				}
				for _, a := range alts {
					if mc := closureOfValue(a.v); mc != nil {
						combined, combFn = a.v, mc
						if !guardedAt(a, token.NEQ) {
							okCombinedGuard = false
						}
					} else {
						direct = a.v
						if !isDecorating(a.v) {
							okDirect = false
						}
						// a plain (non-φ) argument must sit on the transport == nil edge; for a φ the other edge is the complement
						if a.succ == nil && !guardedAt(a, token.EQL) {
							okDirect = false
						}
					}
				}
				if direct == nil || combined == nil {
					c.Fail(uk+":interceptor-arg", orig.Pos(), "the interceptor handed to the original handler is not 'decorating, or combined when the transport supplies one'")
				} else {
					c.Check(okDirect, uk+":nil-transport→decorating", orig.Pos(), "no transport interceptor: the original handler is given the decorating interceptor", "without a transport interceptor the original handler is not given the decorating interceptor")
					c.Check(okCombinedGuard, uk+":combined-iff-transport", orig.Pos(), "combined interceptor used exactly when the transport supplied one", "the combined interceptor is not tied to 'transport interceptor != nil'")
					// combined: calls transport interceptor once with (ctx, req, info, h)
					ck := core.FuncName(combFn)
					var tcall *ssa.Call
					dyn := core.CallsIn(combFn, func(_ *ssa.Call, ci core.CallInfo) bool { return ci.Dyn })
					if len(dyn) == 1 {
						tcall = dyn[0]
					}
					if tcall == nil {
						c.Fail(ck+":calls-transport-first", combFn.Pos(), "the combined interceptor does not make exactly one call")
					} else {
						isTransport := false
						for _, o := range calleeOrigins(tcall) {
							if al, ok := o.(*ssa.Alloc); ok {
								for _, s := range core.StoresTo(al) {
									if s.Val == ssa.Value(transportPar) || standsFor(s.Val, transportPar, 0) {
										isTransport = true
									}
								}
							}
							if o == ssa.Value(transportPar) || standsFor(o, transportPar, 0) {
								isTransport = true
							}
						}
						okA := len(tcall.Call.Args) == 4
						for i := 0; okA && i < 3; i++ {
							if !isParamVal(tcall.Call.Args[i], combFn.Params[i]) {
								okA = false
							}
						}
						c.Check(isTransport && okA && returnsCall(combFn, tcall), ck+":calls-transport-first", tcall.Pos(), "calls the transport's interceptor first with ctx, req, info; returns its results", "the combined interceptor does not call the transport-supplied interceptor first with ctx/req/info unchanged (order of interceptors inverted or arguments altered)")
						// its continuation h
						hFn := closureOfValue(tcall.Call.Args[3])
						if hFn == nil {
							c.Fail(ck+":continuation", tcall.Pos(), "the continuation given to the transport interceptor is not a literal of the combined interceptor")
						} else {
							hk := core.FuncName(hFn)
							hd := core.CallsIn(hFn, func(_ *ssa.Call, ci core.CallInfo) bool { return ci.Dyn })
							okH := len(hd) == 1
							if okH {
								hc := hd[0]
								okH = len(hc.Call.Args) == 4 && isParamVal(hc.Call.Args[0], hFn.Params[0]) && isParamVal(hc.Call.Args[1], hFn.Params[1]) && returnsCall(hFn, hc)
								// callee: decorating interceptor
								isDec := false
								for _, o := range calleeOrigins(hc) {
									if o == ssa.Value(dec.Params[1]) || standsFor(o, dec.Params[1], 0) {
										isDec = true
									}
									if al, ok := o.(*ssa.Alloc); ok {
										for _, s := range core.StoresTo(al) {
											if s.Val == ssa.Value(dec.Params[1]) || standsFor(s.Val, dec.Params[1], 0) {
												isDec = true
											}
										}
									}
								}
								// info and handler: the combined interceptor's own params 2 and 3
								okIH := core.OriginIs(hc.Call.Args[2], func(o ssa.Value) bool { return argIsParamOf(o, combFn, 2) }) &&
									core.OriginIs(hc.Call.Args[3], func(o ssa.Value) bool { return argIsParamOf(o, combFn, 3) })
								okH = okH && isDec && okIH
							}
							c.Check(okH, hk+":then-decorating-then-handler", hFn.Pos(), "continuation calls the decorating interceptor once with its own ctx/req and the combined interceptor's info and handler", "the continuation does not call the decorating interceptor exactly once with (ctx, req, info, handler): the chain transport → decorating → original is broken")
						}
					}
				}
			}
			// stream
			sk := core.FuncName(streamWrap)
			sd := core.CallsIn(streamWrap, func(_ *ssa.Call, ci core.CallInfo) bool { return ci.Dyn })
			okS := len(sd) == 1
			if okS {
				sc := sd[0]
				okS = len(sc.Call.Args) == 4 && isParamVal(sc.Call.Args[0], argParams(streamWrap)[0]) && isParamVal(sc.Call.Args[1], argParams(streamWrap)[1]) && returnsCall(streamWrap, sc)
				isDec := false
				for _, o := range calleeOrigins(sc) {
					if o == ssa.Value(dec.Params[2]) {
						isDec = true
					}
					if al, ok := o.(*ssa.Alloc); ok {
						for _, s := range core.StoresTo(al) {
							if s.Val == ssa.Value(dec.Params[2]) {
								isDec = true
							}
						}
					}
				}
				isOrig := false
				for _, o := range core.Origins(sc.Call.Args[3]) {
					if _, f, ok := core.FieldOf(core.ResolveFree(o)); ok && f == "Handler" {
						isOrig = true
					}
					if al, ok := core.ResolveFree(o).(*ssa.Alloc); ok {
						for _, s := range core.StoresTo(al) {
							if _, f, ok := core.FieldOf(s.Val); ok && f == "Handler" {
								isOrig = true
							}
						}
					}
				}
				okS = okS && isDec && isOrig
			}
			c.Check(okS, sk+":stream-chain", streamWrap.Pos(), "decorating(srv, stream, info, original) exactly once, result returned", "the decorated stream handler is not 'return decorating(srv, stream, info, originalHandler)'")
		}
		c.EndRule()
	}

	// ---------------------------------------------------------------- R3
	if c.Rule("R3", "interceptors are told the truth: every grpc.StreamServerInfo literal maps IsClientStream←ClientStreams, IsServerStream←ServerStreams of the entry being dispatched and FullMethod = \"/\"+service+\"/\"+method of that entry", 3) {
		n := 0
		for _, fn := range p.LibFuncs("") {
			core.Instrs(fn, func(in ssa.Instruction) {
				al, ok := in.(*ssa.Alloc)
				if !ok || core.QualNamedOf(al.Type()) != grpcPkg+".StreamServerInfo" {
					return
				}
				n++
				key := core.FuncName(fn) + ":stream-info"
				got := map[string]ssa.Value{}
				for _, r := range core.Refs(al) {
					if fa, ok := r.(*ssa.FieldAddr); ok {
						_, f, _ := core.FieldOf(fa)
						for _, rr := range core.Refs(fa) {
							if st, ok := rr.(*ssa.Store); ok {
								got[f] = st.Val
							}
						}
					}
				}
				var fieldFromD func(v ssa.Value, depth int) (string, ssa.Value)
				fieldFromD = func(v ssa.Value, depth int) (string, ssa.Value) {
					if v == nil || depth > 3 {
						return "", nil
					}
					for _, o := range core.Origins(v) {
						if base, f, ok := core.FieldOf(o); ok {
							return f, base
						}
						// the parameter of a single-use constructor (newStreamServerInfo(...)): what its call hands it
						if r := core.ResolveFree(o); r != o {
							if f, b := fieldFromD(r, depth+1); f != "" {
								return f, b
							}
						}
					}
					return "", nil
				}
				fieldFrom := func(v ssa.Value) (string, ssa.Value) { return fieldFromD(v, 0) }
				fc, bc := fieldFrom(got["IsClientStream"])
				fs, bs := fieldFrom(got["IsServerStream"])
				okFlags := fc == "ClientStreams" && fs == "ServerStreams" && bc != nil && bs != nil && core.QualNamedOf(bc.Type()) == grpcPkg+".StreamDesc"
				c.Check(okFlags, key+":flags", al.Pos(), "IsClientStream←ClientStreams, IsServerStream←ServerStreams", fmt.Sprintf("stream flags are mapped IsClientStream←%s, IsServerStream←%s", fc, fs))
				// the descriptor whose flags are reported is the one whose Handler is dispatched
				if okFlags {
					root := fn
					for root.Parent() != nil {
						root = root.Parent()
					}
					sameDesc := false
					nH := 0
					core.InstrsDeep(root, func(f *ssa.Function, x ssa.Instruction) {
						v, ok := x.(ssa.Value)
						if !ok {
							return
						}
						hb, hf, isF := core.FieldOf(v)
						if !isF || hf != "Handler" || core.QualNamedOf(hb.Type()) != grpcPkg+".StreamDesc" {
							return
						}
						if _, isLoad := v.(*ssa.UnOp); !isLoad {
							return
						}
						nH++
						hbr := core.ResolveFree(hb)
						for _, b := range []ssa.Value{bc, bs} {
							if b == hbr || core.SameVal(b, hbr) || sameOrigins(b, hbr) || sameOrigins(core.ResolveFree(b), hbr) {
								sameDesc = true
							} else {
								sameDesc = false
								return
							}
						}
					})
					c.Check(nH > 0 && sameDesc, key+":flags-of-dispatched-desc", al.Pos(), "the flags come from the very descriptor whose Handler is dispatched", "the streaming flags are read from a descriptor other than the one whose Handler is dispatched (e.g. the caller-supplied client-side StreamDesc): interceptors are told the caller's claim, not the registered method's flags")
				}
				// FullMethod
				fm := got["FullMethod"]
				okFM := false
				why := "FullMethod is not \"/<service>/<stream name>\" of the dispatched entry"
				var fmCall *ssa.Call
				if fm != nil {
					for _, o := range core.Origins(fm) {
						if call, _, isCall := core.CallResult(core.ResolveFree(o)); isCall && core.InfoOf(&call.Call).Is("fmt.Sprintf") {
							fmCall = call
						}
					}
				}
				// a string parameter of a private helper: look at what every caller passes
				if fmCall == nil && fm != nil {
					root := fn
					for root.Parent() != nil {
						root = root.Parent()
					}
					if par, isPar := core.ResolveFree(fm).(*ssa.Parameter); isPar && methodParamOfRoot(fn) == nil {
						idx := -1
						for i, pp := range root.Params {
							if pp == par {
								idx = i
							}
						}
						allSprintf := idx >= 0
						nCallers := 0
						var one *ssa.Call
						for _, caller := range p.LibFuncs("") {
							for _, cs := range core.CallsIn(caller, func(_ *ssa.Call, ci core.CallInfo) bool { return ci.Static == root }) {
								nCallers++
								ok := false
								if idx >= 0 && idx < len(cs.Call.Args) {
									for _, o := range core.Origins(cs.Call.Args[idx]) {
										if sc, _, isCall := core.CallResult(o); isCall && core.InfoOf(&sc.Call).Is("fmt.Sprintf") {
											ok = true
											one = sc
										}
									}
								}
								if !ok {
									allSprintf = false
								}
							}
						}
						if allSprintf && nCallers > 0 {
							fmCall = one
						} else if nCallers > 0 {
							why = "FullMethod is a string parameter that a caller fills with something other than \"/<service>/<method>\" (e.g. the mux pattern, which contains the base path)"
						}
					}
				}
				// "/" + service + "/" + name is the same string
				var catArgs []ssa.Value
				if fmCall == nil && fm != nil {
					for _, o := range core.Origins(fm) {
						parts := concatParts(core.ResolveFree(o))
						if len(parts) == 4 {
							s0, ok0 := core.ConstString(parts[0])
							s2, ok2 := core.ConstString(parts[2])
							if ok0 && ok2 && s0 == "/" && s2 == "/" {
								catArgs = []ssa.Value{parts[1], parts[3]}
							}
						}
					}
				}
				if call := fmCall; call != nil || catArgs != nil {
					format, args, unp := "/%s/%s", catArgs, true
					if call != nil {
						format, _ = core.ConstString(call.Call.Args[0])
						args, unp = core.VariadicArgs(call.Call.Args[1])
					}
					if format == "/%s/%s" && unp && len(args) == 2 {
						_, f1, ok1 := core.FieldOf(core.Strip(args[1]))
						svcOK := false
						if _, f0, ok0 := core.FieldOf(core.Strip(args[0])); ok0 && f0 == "ServiceName" {
							svcOK = true
						}
						if par, isPar := core.Strip(args[0]).(*ssa.Parameter); isPar && core.TypeStr(par.Type()) == "string" {
							svcOK = true
						}
						if svcOK && ok1 && f1 == "StreamName" {
							okFM = true
							why = "FullMethod = \"/\"+service+\"/\"+entry.StreamName"
						}
					}
				} else if fm != nil && core.AllOrigins(fm, func(o ssa.Value) bool {
					// the call's own method string after the leading-slash normalisation
					return derivesFromString(o, methodParamOfRoot(fn)) || o == ssa.Value(methodParamOfRoot(fn))
				}) {
					// ... and it IS normalised: some definition reaching here prepends the slash (the caller may
					// pass "svc/method"); with the bare parameter as the only origin the interceptor is told the raw string
					slashed := slashNormalised(p, fm)
					if slashed {
						okFM = true
						why = "FullMethod is this call's method string (leading slash normalised)"
					} else {
						why = "FullMethod is the caller's method string as given: no definition reaching the literal prepends the leading slash, so a call made with \"svc/method\" shows interceptors a FullMethod that is not \"/svc/method\""
					}
				}
				c.Check(okFM, key+":full-method", al.Pos(), why, why)
			})
		}
		if n < 3 {
			c.Fail("stream-info-sites", token.NoPos, "ANCHOR-MISSING: expected 3 sites building grpc.StreamServerInfo (decorator, in-process channel, HTTP stream handler), found %d", n)
		}
		c.EndRule()
	}

	// ---------------------------------------------------------------- R4
	if c.Rule("R4", "identity when nothing to do: the decorator and the registry view return their first parameter when both interceptors are nil", 2) {
		for _, fn := range p.LibFuncs(".") {
			if fn.Parent() != nil || fn.Signature.Recv() != nil || len(fn.Params) != 3 {
				continue
			}
			t1, t2 := core.TypeStr(fn.Params[1].Type()), core.TypeStr(fn.Params[2].Type())
			if t1 != grpcPkg+".UnaryServerInterceptor" || t2 != grpcPkg+".StreamServerInterceptor" {
				continue
			}
			if core.InlineSite[fn] != nil {
				continue // a single-use private constructor step: part of its caller
			}
			key := core.FuncName(fn) + ":identity"
			ok := false
			for _, r := range core.Returns(fn) {
				if core.Strip(r.Results[0]) != ssa.Value(fn.Params[0]) {
					continue
				}
				g1 := core.GuardedBy(r, func(f core.Fact) bool {
					return f.Op == token.EQL && core.IsNilConst(f.Y) && isParamVal(f.X, fn.Params[1])
				})
				g2 := core.GuardedBy(r, func(f core.Fact) bool {
					return f.Op == token.EQL && core.IsNilConst(f.Y) && isParamVal(f.X, fn.Params[2])
				})
				if g1 && g2 {
					ok = true
				}
			}
			// and no other path returns the input unchanged when an interceptor is set
			for _, r := range core.Returns(fn) {
				if core.Strip(r.Results[0]) == ssa.Value(fn.Params[0]) {
					g1 := core.GuardedBy(r, func(f core.Fact) bool {
						return f.Op == token.EQL && core.IsNilConst(f.Y) && isParamVal(f.X, fn.Params[1])
					})
					g2 := core.GuardedBy(r, func(f core.Fact) bool {
						return f.Op == token.EQL && core.IsNilConst(f.Y) && isParamVal(f.X, fn.Params[2])
					})
					if !(g1 && g2) {
						ok = false
					}
				}
			}
			c.Check(ok, key, fn.Pos(), "returns its first parameter exactly on the both-nil path", "the input is not returned as is exactly when both interceptors are nil (an interceptor would be dropped, or a needless wrapper created)")
			// a registry VIEW (the function returns a new struct holding registry and interceptors): each field is the
			// matching parameter itself — one decoration level per call, so that nesting gives "outermost first" by
			// construction (a folded / re-chained view changes the order for one of the two kinds unnoticed)
			for _, r := range core.Returns(fn) {
				for _, o := range core.XOrigins(r.Results[0]) {
					al, isA := core.Strip(o).(*ssa.Alloc)
					if !isA {
						continue
					}
					if al.Parent() != fn && !(core.InlineSite[al.Parent()] != nil && core.InlineSite[al.Parent()].Parent() == fn) {
						continue
					}
					st, isS := al.Type().Underlying().(*types.Pointer).Elem().Underlying().(*types.Struct)
					if !isS {
						continue
					}
					if nt, isN := al.Type().Underlying().(*types.Pointer).Elem().(*types.Named); !isN || nt.Obj().Pkg() == nil || !strings.HasPrefix(nt.Obj().Pkg().Path(), core.ModulePath) {
						continue // a copy of a grpc descriptor, not a view type of this module
					}
					bad := ""
					nStores := 0
					for _, ref := range core.Refs(al) {
						fa, isFA := ref.(*ssa.FieldAddr)
						if !isFA {
							continue
						}
						for _, rr := range core.Refs(fa) {
							sv, isSt := rr.(*ssa.Store)
							if !isSt {
								continue
							}
							nStores++
							isPar := core.AllOrigins(core.ResolveFree(sv.Val), func(v ssa.Value) bool {
								for _, pp := range fn.Params {
									if core.Strip(v) == ssa.Value(pp) {
										return true
									}
								}
								return false
							})
							if !isPar {
								bad = st.Field(fa.Field).Name()
							}
						}
					}
					if nStores == 0 {
						continue
					}
					c.Check(bad == "", core.FuncName(fn)+":view-stores-its-parameters", al.Pos(), "the returned view holds exactly the function's parameters (one decoration level per call)", "field "+bad+" of the returned view is not one of the function's parameters (e.g. an inner view's registry, or interceptors chained here): the nesting order of decorations is then decided by this code and can differ between unary and stream interceptors")
				}
			}
		}
		c.EndRule()
	}

	// ---------------------------------------------------------------- R5
	if c.Rule("R5", "the transports hand over their interceptor: the 4th argument of every unary handler invocation is the transport's configured unary interceptor; streams: exactly one of interceptor(srv, stream, info, desc.Handler) / desc.Handler(srv, stream) on the non-nil / nil edge", 4) {
		for _, pkgS := range []string{"inprocgrpc", "httpgrpc"} {
			for _, fn := range p.LibFuncs(pkgS) {
				sites := handlerInvocations(fn)
				if len(sites) == 0 {
					continue
				}
				key := core.FuncName(fn)
				var direct, viaInt []*ssa.Call
				for _, hs := range sites {
					k, _ := isHandlerInvocation(&hs.Call)
					switch k {
					case "unary-handler":
						a4 := hs.Call.Args[3]
						ok := core.AllOrigins(a4, func(o ssa.Value) bool {
							if core.IsNilConst(o) {
								return false
							}
							r := core.ResolveFree(o)
							if _, f, isF := core.FieldOf(r); isF && strings.Contains(strings.ToLower(f), "int") {
								return true
							}
							if par, isPar := r.(*ssa.Parameter); isPar && core.TypeStr(par.Type()) == grpcPkg+".UnaryServerInterceptor" {
								return true
							}
							if al, isAl := r.(*ssa.Alloc); isAl {
								for _, s := range core.StoresTo(al) {
									if par, isPar := s.Val.(*ssa.Parameter); isPar && core.TypeStr(par.Type()) == grpcPkg+".UnaryServerInterceptor" {
										return true
									}
								}
							}
							return false
						})
						c.Check(ok, key+":unary-interceptor-handed-over", hs.Pos(), "the handler is given the transport's configured unary interceptor", "the unary handler is invoked with an interceptor argument that is not the transport's configured one (e.g. nil): configured interceptors are bypassed")
					case "stream-handler":
						direct = append(direct, hs)
					case "stream-interceptor":
						viaInt = append(viaInt, hs)
					}
				}
				if len(direct)+len(viaInt) == 0 {
					continue
				}
				sk := key + ":stream-dispatch"
				if len(direct) != 1 || len(viaInt) != 1 {
					c.Fail(sk, fn.Pos(), "expected one direct and one intercepted stream dispatch, found %d and %d", len(direct), len(viaInt))
					continue
				}
				iv := viaInt[0].Call.Value
				gI := core.GuardedBy(viaInt[0], func(f core.Fact) bool {
					return f.Op == token.NEQ && core.IsNilConst(f.Y) && (f.X == iv || core.SameVal(f.X, iv) || sameOrigins(f.X, iv))
				})
				gD := core.GuardedBy(direct[0], func(f core.Fact) bool {
					return f.Op == token.EQL && core.IsNilConst(f.Y) && (f.X == iv || core.SameVal(f.X, iv) || sameOrigins(f.X, iv))
				})
				// the interceptor is given desc.Handler of the same descriptor as the direct call, and the same srv/stream
				sameH := sameOrigins(viaInt[0].Call.Args[3], direct[0].Call.Value) || sameFieldLoad(viaInt[0].Call.Args[3], direct[0].Call.Value)
				sameArgs := sameOrigins(viaInt[0].Call.Args[0], direct[0].Call.Args[0]) && sameOrigins(viaInt[0].Call.Args[1], direct[0].Call.Args[1])
				c.Check(gI && gD && sameH && sameArgs, sk, viaInt[0].Pos(), "interceptor != nil ⇒ interceptor(srv, stream, info, desc.Handler); nil ⇒ desc.Handler(srv, stream); never both, never neither", "stream dispatch is not 'interceptor(srv, stream, info, desc.Handler) iff an interceptor is configured, else desc.Handler(srv, stream)'")
			}
		}
		c.EndRule()
	}

	// ---------------------------------------------------------------- R7
	if c.Rule("R7", "a configured transport interceptor reaches the dispatch: each setter / option stores its own parameter, unchanged and on every path, into the interceptor field the dispatch reads (R5), of the object it returns or is applied to; options are applied once each, to the server itself, over the whole option list", 6) {
		isInt := func(st *types.Named, f *types.Var) bool {
			ts := core.TypeStr(f.Type())
			return ts == grpcPkg+".UnaryServerInterceptor" || ts == grpcPkg+".StreamServerInterceptor"
		}
		configPlumbing(c, "inprocgrpc", isInt)
		configPlumbing(c, "httpgrpc", isInt)
		optionFanOut(c, "httpgrpc")
		optionApplySteps(c, "httpgrpc")
		c.EndRule()
	}

	// ---------------------------------------------------------------- R6
	if c.Rule("R6", "per-entry closures in the decorator: literals created in the loops capture per-iteration cells only", 2) {
		loopCaptureCheck(c, litHosts)
		c.EndRule()
	}

	// ---------------------------------------------------------------- R8 (shared)
	// "each APPLICABLE interceptor": a stream interceptor sees streaming methods only and a unary one unary methods
	// only — each in-process entry point looks the method up in the table of its own kind (C12/R2)
	c.Borrow("C12", map[string]string{"R2": "R8"}, c12)
	// "every RPC goes through each applicable interceptor exactly once": over HTTP the interceptors run inside the
	// dispatch, so every accepted request must reach it (C11/R2)
	c.Borrow("C11", map[string]string{"R2": "R9"}, c11)
	// "errors pass through unchanged": the context translators on the hand-off between handler (or interceptor) and
	// caller replace an error only if it IS one of the context sentinels — an interceptor's error that merely wraps
	// one keeps its own code (C02/R10)
	c.Borrow("C02", map[string]string{"R10": "R10"}, c02)
	// "the handler runs iff every interceptor calls onward" — and what a rejecting interceptor returns instead reaches
	// the caller: the in-process server's final frames are delivered because its done signal releases a client that is
	// still sending (C05/R7)
	c.Borrow("C05", map[string]string{"R7": "R11"}, c05)
}

func sameFieldLoad(a, b ssa.Value) bool {
	ba, fa, oka := core.FieldOf(a)
	bb, fb, okb := core.FieldOf(b)
	return oka && okb && fa == fb && (ba == bb || core.SameVal(ba, bb) || sameOrigins(ba, bb))
}

// storeRoot follows an address back to its root object.
func storeRoot(addr ssa.Value) ssa.Value {
	for {
		switch x := addr.(type) {
		case *ssa.FieldAddr:
			addr = x.X
		case *ssa.IndexAddr:
			// element of a slice: root is where the slice comes from
			for _, o := range core.Origins(x.X) {
				if mk, ok := o.(*ssa.MakeSlice); ok {
					return mk
				}
			}
			// slice loaded from a field of something
			if u, ok := x.X.(*ssa.UnOp); ok {
				addr = u.X
				continue
			}
			return x.X
		case *ssa.UnOp:
			addr = x.X
		default:
			return addr
		}
	}
}

func indexAddrIn(addr ssa.Value) *ssa.IndexAddr {
	for {
		switch x := addr.(type) {
		case *ssa.IndexAddr:
			return x
		case *ssa.FieldAddr:
			addr = x.X
		default:
			return nil
		}
	}
}

// closureOfValue: v is (a conversion of) a MakeClosure: returns its function.
func closureOfValue(v ssa.Value) *ssa.Function {
	for {
		switch x := v.(type) {
		case *ssa.ChangeType:
			v = x.X
		case *ssa.MakeClosure:
			return x.Fn.(*ssa.Function)
		default:
			return nil
		}
	}
}

// argIsParamOf: value o (seen inside a nested literal) is parameter idx of fn
// (through its spill cell).
func argIsParamOf(o ssa.Value, fn *ssa.Function, idx int) bool {
	r := core.ResolveFree(o)
	if r == ssa.Value(fn.Params[idx]) {
		return true
	}
	if al, ok := r.(*ssa.Alloc); ok {
		sts := core.StoresTo(al)
		return len(sts) >= 1 && sts[0].Val == ssa.Value(fn.Params[idx])
	}
	return false
}

// methodParamOfRoot: the string parameter named method of the outermost function.
func methodParamOfRoot(fn *ssa.Function) *ssa.Parameter {
	root := fn
	for {
		if root.Parent() != nil {
			root = root.Parent()
			continue
		}
		// a "virtual closure": continue in the function that holds its only call
		if site := core.InlineSite[root]; site != nil {
			root = site.Parent()
			continue
		}
		break
	}
	// only a client entry point (ctx, *grpc.StreamDesc, method string, ...CallOption) receives the RPC's
	// method name from the caller; a string parameter of any other function is whatever its callers computed
	hasDesc := false
	for _, pp := range root.Params {
		if core.TypeStr(pp.Type()) == "*"+grpcPkg+".StreamDesc" {
			hasDesc = true
		}
	}
	if !hasDesc || root.Signature.Recv() == nil || !root.Signature.Variadic() {
		return nil
	}
	for _, pp := range root.Params {
		if core.TypeStr(pp.Type()) == "string" {
			return pp
		}
	}
	return nil
}

// concatParts flattens a string concatenation a + b + c … into its operands.
func concatParts(v ssa.Value) []ssa.Value {
	if b, ok := v.(*ssa.BinOp); ok && b.Op == token.ADD {
		if bt, isB := b.Type().Underlying().(*types.Basic); isB && bt.Info()&types.IsString != 0 {
			return append(concatParts(b.X), concatParts(b.Y)...)
		}
	}
	return []ssa.Value{v}
}

// originsThroughCallers: core.XOrigins, and where an origin is a parameter of
// a module function that has static callers in the library, the origins of the
// argument at every such call site instead (depth 3).
func originsThroughCallers(p *core.Prog, v ssa.Value, depth int) []ssa.Value {
	var out []ssa.Value
	for _, o := range core.XOrigins(v) {
		if r := core.ResolveFree(o); r != o && depth < 3 {
			out = append(out, originsThroughCallers(p, r, depth+1)...)
			continue
		}
		par, isPar := o.(*ssa.Parameter)
		if !isPar || depth >= 3 {
			out = append(out, o)
			continue
		}
		f := par.Parent()
		idx := -1
		for i, pp := range f.Params {
			if pp == par {
				idx = i
			}
		}
		n := 0
		for _, caller := range p.LibFuncs("") {
			core.Instrs(caller, func(in ssa.Instruction) {
				cc := core.CallOf(in)
				if cc == nil || core.InfoOf(cc).Static != f || idx < 0 || idx >= len(cc.Args) {
					return
				}
				n++
				out = append(out, originsThroughCallers(p, cc.Args[idx], depth+1)...)
			})
		}
		if n == 0 {
			out = append(out, o)
		}
	}
	return out
}

// slashNormalised: some definition reaching v prepends the leading slash (the
// caller may pass "svc/method"); with the bare parameter as the only origin the
// raw string is used.
func slashNormalised(p *core.Prog, v ssa.Value) bool {
	for _, o := range originsThroughCallers(p, v, 0) {
		parts := concatParts(core.ResolveFree(o))
		if s0, ok0 := core.ConstString(parts[0]); ok0 && strings.HasPrefix(s0, "/") && len(parts) > 1 {
			return true
		}
		if f, args, ok := core.FormatOf(core.ResolveFree(o)); ok && len(args) > 0 && strings.HasPrefix(f, "/") {
			return true
		}
	}
	return false
}

// argParams: the declared parameters of fn; for a method that stands for a
// function literal (its only use is a method value of a struct built on the
// spot) without the receiver.
func argParams(fn *ssa.Function) []*ssa.Parameter {
	if _, isMC := core.InlineSite[fn].(*ssa.MakeClosure); isMC && fn.Signature.Recv() != nil && len(fn.Params) > 0 {
		return fn.Params[1:]
	}
	return fn.Params
}
